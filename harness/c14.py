"""C14 — Exporting and re-importing the symbol table loses nothing.

Theorems: lean/Tranp/Props/C14.lean over lean/Tranp/Model/SymbolJson.lean.
Tie (driver family `symjson`):
  serialize-real  real ReflectionSerializer.serialize on every symbol of generated multi-module programs and real modules
                  vs model `serialize` / `expand`
  expand-stub     real seqs.expand(attrs, iter_key='attrs') on random forests of real Reflection objects vs model `expand`, `flatten`
  rebuild-stub    real ReflectionSerializer._deserialize_attrs on random forests / malformed dicts through stub table entries vs model `rebuild`
  order           real SymbolDB._order_keys on real tables and on random stub tables vs model `orderKeys`
  table-stub      real SymbolDB (+ real serializer over stub entrypoints): to_json / import_json / unload / completed vs the model table
Search: the property's own law on the real code — export a module, import it into a table that holds only the other
modules, compare symbol by symbol, `completed`, import twice; and the export-order law on the exported data itself.
"""
from __future__ import annotations

import contextlib
import functools
import json
import os
import random
import signal
import time
from collections import Counter
from typing import Any

from harness import common
from harness.common import Ctx, Finding, SearchResult, Stream, exc_enum, hx

PROP = 'C14'
FAMILY = 'symjson'

Forest = list  # list[tuple[str, Forest]]


# ---------------------------------------------------------------------------------------------
# forests (python side, independent of tranp)


def gen_forest(rng: random.Random, depth: int, width: int, keys: list[str], wide: bool = False) -> Forest:
	n = rng.randint(0 if rng.random() < 0.15 else 1, width)
	if wide and rng.random() < 0.5:
		n = rng.randint(10, 13)
	out = []
	for _ in range(n):
		sub = gen_forest(rng, depth - 1, width, keys, wide and rng.random() < 0.15) if depth > 1 and rng.random() < 0.6 else []
		out.append((rng.choice(keys), sub))
	return out


SPARSE_PATTERNS = [(1, 10), (2, 20), (1, 11), (0, 10), (1, 12, 19), (2, 21), (1, 10, 11), (3, 13, 23), (0, -1), (1, -1), (10, 11), (1, 2, 10)]


def sparse_slots(rng: random.Random) -> tuple[int, list[int]]:
	"""(number of slots, the slots that carry children): index strings that are text prefixes of each other (`1` / `10`…`19`, `2` /
	`20`…`29`) with only childless slots between them, so that their child groups are adjacent in the depth-sorted paths"""
	pat = rng.choice(SPARSE_PATTERNS)
	n = max(11, max(pat) + 1 + rng.randint(0, 2))
	return n, sorted({p % n for p in pat})


def gen_sparse_wide_forest(rng: random.Random, keys: list[str]) -> Forest:
	"""a wide sibling list (11..26 slots) in which only a few slots carry children (SPARSE_PATTERNS); at the top or below one parent"""
	n, carry = sparse_slots(rng)
	level: Forest = []
	for j in range(n):
		kids: Forest = []
		if j in carry:
			kids = [(rng.choice(keys), []) for _ in range(rng.randint(1, 3))]
			if rng.random() < 0.3:
				kids[0] = (kids[0][0], [(rng.choice(keys), [])])
		level.append((rng.choice(keys), kids))
	r = rng.random()
	if r < 0.5:
		return level
	if r < 0.8:
		return [(rng.choice(keys), []), (rng.choice(keys), level)]
	return [(rng.choice(keys), level), (rng.choice(keys), [(rng.choice(keys), [])])]


def gen_twin_forest(rng: random.Random, keys: list[str], depth: int) -> Forest:
	"""several top-level trees of the same shape whose inner nodes sit at the same own index under different parents, with different
	numbers of children there: the groups `0.1.*`, `1.1.*`, … (and `0.1.0.*`, `1.1.0.*`, …) are adjacent in the depth-sorted paths"""
	def chain(d: int) -> Forest:
		kids = [(rng.choice(keys), []) for _ in range(rng.randint(1, 3))]
		if d <= 1:
			return kids
		return [(rng.choice(keys), []), (rng.choice(keys), chain(d - 1) if rng.random() < 0.85 else [])][:rng.randint(2, 2)] + ([(rng.choice(keys), [])] if rng.random() < 0.3 else [])
	return [(rng.choice(keys), chain(depth)) for _ in range(rng.randint(2, 4))]


def forest_sexp(f: Forest) -> str:
	def node(n: tuple[str, Forest]) -> str:
		k, cs = n
		return f'( {hx(k)} )' if not cs else f"( {hx(k)} {' '.join(node(c) for c in cs)} )"
	return ' '.join(node(n) for n in f) if f else '-'


def forest_size(f: Forest) -> int:
	return sum(1 + forest_size(cs) for _, cs in f)


def forest_depth(f: Forest) -> int:
	return 0 if not f else 1 + max(forest_depth(cs) for _, cs in f)


def forest_width(f: Forest) -> int:
	return max([len(f), *[forest_width(cs) for _, cs in f]]) if f else 0


def py_flatten(f: Forest, prefix: str = '') -> dict[str, str]:
	"""pre-order listing, written independently of seqs.expand"""
	out: dict[str, str] = {}
	for i, (k, cs) in enumerate(f):
		p = f'{prefix}.{i}' if prefix else str(i)
		out[p] = k
		out.update(py_flatten(cs, p))
	return out


class CaseTimeout(BaseException):
	"""a real-code call (or a whole stream) used up its budget; BaseException so that no `except Exception` of the code under test swallows it"""


@contextlib.contextmanager
def time_limit(seconds: float):
	"""wall budget for the enclosed calls (SIGALRM, main thread); budgets nest: the tighter one wins and the outer one is re-armed on exit"""
	def on_alarm(signum: int, frame: Any) -> None:
		raise CaseTimeout(f'budget of {seconds:.0f}s used up')
	t0 = time.time()
	outer = signal.getitimer(signal.ITIMER_REAL)[0]
	old = signal.signal(signal.SIGALRM, on_alarm)
	signal.setitimer(signal.ITIMER_REAL, min(seconds, outer) if outer > 0 else seconds)
	try:
		yield
	finally:
		signal.setitimer(signal.ITIMER_REAL, 0)
		signal.signal(signal.SIGALRM, old)
		if outer > 0:
			signal.setitimer(signal.ITIMER_REAL, max(outer - (time.time() - t0), 0.05))


def stream_deadline(quick: float, thorough: float):
	"""a correspondence stream that does not finish within its wall deadline is reported as a disagreement of that stream, never a hang"""
	def deco(fn: Any) -> Any:
		@functools.wraps(fn)
		def run(ctx: Ctx) -> Stream:
			limit = ctx.scale(int(quick), int(thorough))
			try:
				with time_limit(limit):
					return fn(ctx)
			except CaseTimeout:
				st = Stream(fn.__name__.replace('stream_', '').replace('_', '-'))
				st.disagreements.append({'case': 'deadline', 'real': f'the stream did not finish within {limit}s (a real-code call or the model driver hangs)', 'model': ''})
				return st
		return run
	return deco


def exc_text(e: BaseException, limit: int = 200) -> str:
	"""the message of an exception of the real code; formatting it may itself run code under test (reflection __repr__), so it is guarded"""
	try:
		return str(e)[:limit]
	except Exception as e2:  # noqa: BLE001
		return f'<{type(e).__name__}: message not printable ({type(e2).__name__})>'


def prefix_closed(d: dict[str, str]) -> bool:
	return all('.' not in p or p.rsplit('.', 1)[0] in d for p in d)


def flat_text(d: dict[str, str]) -> str:
	return ','.join(f'{p}={hx(k)}' for p, k in d.items()) if d else '-'


def obs_forest(attrs: list[Any]) -> Forest:
	"""what serialize can see of a real reflection list: types.fullyname and .attrs, recursively"""
	return [(a.types.fullyname, obs_forest(a.attrs)) for a in attrs]


def own_forest(attrs: list[Any]) -> Forest:
	return [(a.types.fullyname, own_forest(getattr(a, '_attrs', []))) for a in attrs]


def dsn_of(node: Any) -> str:
	from rogw.tranp.dsn.module import ModuleDSN
	return ModuleDSN.full_joined(node.module_path, node.full_path)


# ---------------------------------------------------------------------------------------------
# stub world: real Symbol / Reflection / SymbolDB / ReflectionSerializer over stub syntax nodes


class StubNode:
	def __init__(self, module_path: str, full_path: str, fullyname: str, cls: bool, decl: bool, alt: bool = False) -> None:
		self.alt = alt  # a type alias (defs.AltClass), which is a ClassDef too
		self.module_path = module_path
		self.full_path = full_path
		self.fullyname = fullyname
		self.cls = cls
		self.decl = decl
		self.id = 0
		self.domain_name = fullyname.split('#')[-1]
		self.symbol = self
		self.tokens = self.domain_name

	@property
	def dsn(self) -> str:
		return f'{self.module_path}#{self.full_path}'

	def is_a(self, *ctor: type) -> bool:
		import rogw.tranp.syntax.node.definition as defs
		return self.cls and (defs.ClassDef in ctor or (self.alt and defs.AltClass in ctor))

	def as_a(self, expect: type) -> 'StubNode':
		from rogw.tranp.errors import Errors
		import rogw.tranp.syntax.node.definition as defs
		if expect is defs.ClassDef and self.cls:
			return self
		raise Errors.IllegalConvertion(self, expect)

	def one_of(self, *expects: type) -> 'StubNode':
		from rogw.tranp.errors import Errors
		if self.decl:
			return self
		raise Errors.IllegalConvertion(self, expects)

	def __eq__(self, other: Any) -> bool:
		return isinstance(other, StubNode) and (self.module_path, self.full_path) == (other.module_path, other.full_path)

	def __hash__(self) -> int:
		return hash((self.module_path, self.full_path))

	def __repr__(self) -> str:
		return f'<StubNode {self.dsn}>'


class StubEntrypoint:
	def __init__(self, nodes: dict[str, StubNode]) -> None:
		self.nodes = nodes

	def whole_by(self, full_path: str) -> StubNode:
		from rogw.tranp.errors import Errors
		if full_path in self.nodes:
			return self.nodes[full_path]
		raise Errors.NodeNotFound(full_path)


class StubEntrypoints:
	def __init__(self) -> None:
		self.mods: dict[str, dict[str, StubNode]] = {}

	def add(self, n: StubNode) -> StubNode:
		self.mods.setdefault(n.module_path, {})[n.full_path] = n
		return n

	def load(self, module_path: str, language: str = 'py') -> StubEntrypoint:
		return StubEntrypoint(self.mods.get(module_path, {}))


class StubTraits:
	def has_method(self, name: str) -> bool:
		return False

	def implements(self, expect: Any) -> bool:
		return False


def class_entry(traits: Any, node: StubNode, attrs: list[Any] | None = None) -> Any:
	"""a class entry the way ExpandModules / deserialize build it: Symbol.instantiate(types).stack()[.extends(...)]"""
	from rogw.tranp.semantics.reflection.reflection import Symbol
	ref = Symbol.instantiate(traits, node).stack()
	if attrs:
		ref.extends(*attrs)
	return ref


def build_attrs(entries: dict[str, Any], f: Forest) -> list[Any]:
	"""real reflections with the given observable forest: entry.stack() extended with the children"""
	out = []
	for k, cs in f:
		r = entries[k].stack()
		if cs:
			r.extends(*build_attrs(entries, cs))
		out.append(r)
	return out


MODS = ['m', 'ma', 'mab']  # prefixes of each other: the module part of a key must be compared as a whole
NAMES = ['A', 'B', 'C', 'D', 'E', 'F', 'G', 'H', 'T', 'U', 'int', 'str', 'list', 'dict']


def stub_classes(rng: random.Random, traits: Any, n: int) -> tuple[dict[str, Any], dict[str, StubNode]]:
	"""attr-less class entries keyed by their own fullyname"""
	entries: dict[str, Any] = {}
	nodes: dict[str, StubNode] = {}
	names = rng.sample([f'{m}#{x}' for m in MODS for x in NAMES], n)
	for i, key in enumerate(names):
		m, local = key.split('#')
		# every third class is a type alias (class_assign): the table treats it like any class entry
		node = StubNode(m, f'file_input.class_def[{i}]' if i % 3 else f'file_input.class_assign[{i}]', key, True, True, alt=i % 3 == 0)
		nodes[key] = node
		entries[key] = class_entry(traits, node)
	return entries, nodes


# ---------------------------------------------------------------------------------------------
# stream: expand-stub


@stream_deadline(120, 900)
def stream_expand_stub(ctx: Ctx) -> Stream:
	import rogw.tranp.lang.sequence as seqs
	rng = ctx.sub_rng('expand-stub')
	traits = StubTraits()
	cases = []
	for i in range(ctx.scale(150, 1500)):
		entries, _ = stub_classes(rng, traits, rng.randint(1, 8))
		f = gen_forest(rng, 1 + i % 5, 1 + i % 4, list(entries), wide=i % 6 == 0)
		attrs = build_attrs(entries, f)
		try:
			flat = seqs.expand(attrs, iter_key='attrs')
			real = flat_text({p: a.types.fullyname for p, a in flat.items()})
		except Exception as e:  # noqa: BLE001
			real = exc_enum(e)
		sx = forest_sexp(f)
		cases.append(({'size': forest_size(f), 'depth': forest_depth(f), 'width': forest_width(f)}, [f'expand\t{sx}', f'flatten\t{sx}'], [real, real]))
	st = common.correspond('expand-stub', cases, FAMILY, classify=lambda d: f"depth={d['depth']},width{'>=10' if d['width'] >= 10 else '<10'}")
	st.note = 'random forests (depth ≤ 5, widths up to 13 → multi-digit indices) of real Reflection objects through real seqs.expand vs model expand and the pre-order specification flatten'
	return st


# ---------------------------------------------------------------------------------------------
# object identity: shared reflection objects, to_temporary, writes through the copy

INode = tuple  # (id, key, [INode])


def gen_iforest(rng: random.Random, depth: int, width: int, keys: list[str], share: float) -> list[INode]:
	"""forest of object specs; with probability `share` a slot holds an object that already sits in an earlier slot"""
	pool: list[INode] = []
	counter = [0]

	def node(d: int) -> INode:
		if pool and rng.random() < share:
			return rng.choice(pool)
		i = counter[0]
		counter[0] += 1
		n_children = rng.randint(1, width) if d > 1 and rng.random() < 0.65 else 0
		n = (i, rng.choice(keys), [node(d - 1) for _ in range(n_children)])
		pool.append(n)
		return n
	return [node(depth) for _ in range(rng.randint(1, width))]


def iforest_sexp(f: list[INode]) -> str:
	def node(n: INode) -> str:
		i, k, cs = n
		return f'( {i}:{hx(k)} )' if not cs else f"( {i}:{hx(k)} {' '.join(node(c) for c in cs)} )"
	return ' '.join(node(n) for n in f) if f else '-'


def ierase(f: list[INode]) -> Forest:
	return [(k, ierase(cs)) for _, k, cs in f]


def build_iobjects(entries: dict[str, Any], f: list[INode], memo: dict[int, Any]) -> list[Any]:
	"""real reflections; the same spec id = the same Python object"""
	out = []
	for i, k, cs in f:
		if i not in memo:
			r = entries[k].stack()
			if cs:
				r.extends(*build_iobjects(entries, cs, memo))
			memo[i] = r
		out.append(memo[i])
	return out


def dump_iobjects(objs: list[Any], ids: dict[int, int], fresh: list[int]) -> list[INode]:
	"""observable tree with object numbers: known objects keep theirs, unseen ones are numbered in pre-order from fresh[0]"""
	out = []
	for o in objs:
		if id(o) not in ids:
			ids[id(o)] = fresh[0]
			fresh[0] += 1
		n = ids[id(o)]
		out.append((n, o.types.fullyname, dump_iobjects(list(o.attrs), ids, fresh)))
	return out


def reachable_ids(objs: list[Any], acc: set[int]) -> set[int]:
	for o in objs:
		acc.add(id(o))
		reachable_ids(list(o.attrs), acc)
	return acc


def valid_write_paths(t: INode, prefix: str = '') -> list[str]:
	out = []
	for j, c in enumerate(t[2]):
		p = f'{prefix}.{j}' if prefix else str(j)
		out.append(p)
		out.extend(valid_write_paths(c, p))
	return out


@stream_deadline(120, 900)
def stream_identity_stub(ctx: Ctx) -> Stream:
	import rogw.tranp.lang.sequence as seqs
	rng = ctx.sub_rng('identity-stub')
	traits = StubTraits()
	cases = []
	for i in range(ctx.scale(150, 1500)):
		entries, _ = stub_classes(rng, traits, rng.randint(2, 6))
		keys = list(entries)
		f = gen_iforest(rng, 2 + i % 4, 1 + i % 3, keys, share=[0.0, 0.25, 0.5][i % 3])
		memo: dict[int, Any] = {}
		objs = build_iobjects(entries, f, memo)
		ops, real = [], []
		# expand on objects that may sit in several slots
		try:
			flat = seqs.expand(objs, iter_key='attrs')
			r = flat_text({p: a.types.fullyname for p, a in flat.items()})
		except Exception as e:  # noqa: BLE001
			r = exc_enum(e)
		ops.append(f'expandi\t{iforest_sexp(f)}')
		real.append(r)
		# to_temporary of the first object, then one write through the copy
		entry_spec, entry = f[0], objs[0]
		ids = {id(o): n for n, o in memo.items()}
		n0 = max(memo) + 1
		try:
			t = entry.to_temporary()
			tdump = dump_iobjects([t], ids, [n0])[0]
			r = iforest_sexp([tdump])
		except Exception as e:  # noqa: BLE001
			t, tdump, r = None, None, exc_enum(e)
		ops.append(f'temp\t{iforest_sexp([entry_spec])}\t{n0}')
		real.append(r)
		if t is not None:
			paths = valid_write_paths(tdump)
			for _ in range(3):
				# a fresh copy per write: the entry must stay what it was
				t2 = entry.to_temporary()
				ids2 = {id(o): n for n, o in memo.items()}
				dump_iobjects([t2], ids2, [n0])
				p = rng.choice(paths) if paths and rng.random() < 0.85 else rng.choice([*paths, '0']) + f'.{rng.randint(0, 3)}'
				val = entries[rng.choice(keys)].stack()
				ids2[id(val)] = 900
				try:
					seqs.update(t2.attrs, p, val, iter_key='attrs')
					r = f'E {iforest_sexp(dump_iobjects([entry], ids2, [1000]))} T {iforest_sexp(dump_iobjects([t2], ids2, [1000]))}'
				except Exception as e:  # noqa: BLE001
					r = exc_enum(e)
				ops.append(f'write\t{iforest_sexp([entry_spec])}\t{n0}\t{p}\t( 900:{hx(val.types.fullyname)} )')
				real.append(r)
		shared = len(memo) < forest_size(ierase(f))
		cases.append(({'shared': shared, 'depth': forest_depth(ierase(f))}, ops, real))
	st = common.correspond('identity-stub', cases, FAMILY, classify=lambda d: f"{'shared' if d['shared'] else 'tree'}:depth={d['depth']}")
	st.note = ('real Reflection objects, one object possibly in several slots: seqs.expand vs model expandI; Reflection.to_temporary vs model toTemp '
		'(which objects are new); seqs.update through the copy vs model setSlot, observed on the entry and on the copy by object number')
	return st


# ---------------------------------------------------------------------------------------------
# stream: dsn (ModuleDSN.full_joined / parsed, DSN.join)


@stream_deadline(120, 900)
def stream_dsn(ctx: Ctx) -> Stream:
	from rogw.tranp.dsn.dsn import DSN
	from rogw.tranp.dsn.module import ModuleDSN
	rng = ctx.sub_rng('dsn')
	parts_pool = ['a', 'b.c', 'file_input', 'class_def[3]', 'x#y', '', 'm', 'ma', 'a.b#c.d', '#', 'f.g[0].h', 'rogw.tranp', '__main__']
	cases = []
	for i in range(ctx.scale(300, 3000)):
		ops, real = [], []
		parts = [rng.choice(parts_pool) for _ in range(rng.randint(0, 4))]
		d = rng.choice(['.', '#'])
		for op, fn in (
			(f"dsn.join\t{hx(d)}\t{';'.join(hx(p) for p in parts)}", lambda: hx(DSN.join(*parts, delimiter=d))),
			(f"dsn.full\t{hx(parts[0]) if parts else '-'}\t{';'.join(hx(p) for p in parts[1:])}", lambda: hx(ModuleDSN.full_joined(parts[0] if parts else '', *parts[1:]))),
			(f"dsn.parsed\t{hx('#'.join(parts[:3]))}", lambda: ' '.join(hx(x) for x in ModuleDSN.parsed('#'.join(parts[:3])))),
		):
			ops.append(op)
			try:
				real.append(fn())
			except Exception as e:  # noqa: BLE001
				real.append(exc_enum(e))
		# the round trip serialize / deserialize rely on
		m, pth = rng.choice(['m', 'a.b', 'rogw.tranp.x']), rng.choice(['file_input', 'file_input.class_def[1].block', ''])
		ops.append(f'dsn.parsed\t{hx(ModuleDSN.full_joined(m, pth))}')
		real.append(' '.join(hx(x) for x in ModuleDSN.parsed(ModuleDSN.full_joined(m, pth))))
		cases.append(({'parts': len(parts), 'hash': sum('#' in p for p in parts)}, ops, real))
	st = common.correspond('dsn', cases, FAMILY, classify=lambda dd: f"parts={dd['parts']},with#={min(dd['hash'], 2)}")
	st.note = 'real DSN.join / ModuleDSN.full_joined / ModuleDSN.parsed on part lists with empty parts, parts that contain `#` or `.`, both delimiters vs the model (dsnJoin, fullJoined, dsnParsed)'
	return st


# ---------------------------------------------------------------------------------------------
# stream: rebuild-stub


def mutate_flat(rng: random.Random, d: dict[str, str], keys: list[str]) -> dict[str, str]:
	items = list(d.items())
	if not items:
		return {'0.0': rng.choice(keys)} if rng.random() < 0.5 else {'1': rng.choice(keys), '0': rng.choice(keys)}
	for _ in range(rng.randint(1, 3)):
		r = rng.random()
		if r < 0.2 and items:
			# drop an entry (missing prefix / gap in the indices)
			del items[rng.randrange(len(items))]
		elif r < 0.35:
			rng.shuffle(items)
		elif r < 0.5 and len(items) >= 2:
			i, j = rng.sample(range(len(items)), 2)
			items[i], items[j] = items[j], items[i]
		elif r < 0.6:
			items.append((f"{rng.choice(items)[0] if items else '0'}.{rng.randint(0, 3)}.{rng.randint(0, 2)}", rng.choice(keys)))
		elif r < 0.7 and items:
			i = rng.randrange(len(items))
			items[i] = (items[i][0], 'zz#Missing')
		elif r < 0.8 and items:
			# move one entry to the end: splits a same-parent run
			i = rng.randrange(len(items))
			items.append(items.pop(i))
		elif r < 0.9 and items:
			i = rng.randrange(len(items))
			p = items[i][0].split('.')
			p[rng.randrange(len(p))] = str(rng.randint(0, 12))
			items[i] = ('.'.join(p), items[i][1])
		else:
			items.insert(rng.randrange(len(items) + 1), (str(rng.randint(0, 15)), rng.choice(keys)))
	return dict(items)


@stream_deadline(120, 900)
def stream_rebuild_stub(ctx: Ctx) -> Stream:
	from rogw.tranp.semantics.reflection.db import SymbolDB
	from rogw.tranp.semantics.reflection.serializer import ReflectionSerializer
	rng = ctx.sub_rng('rebuild-stub')
	traits = StubTraits()
	ser = ReflectionSerializer(StubEntrypoints(), traits)  # type: ignore[arg-type]
	cases = []
	for i in range(ctx.scale(300, 4000)):
		entries, nodes = stub_classes(rng, traits, rng.randint(2, 8))
		keys = list(entries)
		kind = ['valid', 'valid-inherit', 'malformed', 'alias-key'][i % 4]
		db = SymbolDB()
		ents: list[str] = []
		leaf_keys = list(keys)
		if kind == 'valid-inherit':
			# some table entries carry attributes of their own (a generic class with its type parameters): a rebuilt leaf of such
			# a key shows them through its origin. Prefix-closed data never walks into them.
			for k in keys:
				inh = gen_forest(rng, 2, 2, keys) if rng.random() < 0.5 else []
				if inh:
					entries[k] = class_entry(traits, nodes[k], build_attrs({kk: class_entry(traits, nodes[kk]) for kk in keys}, inh))
		table_keys: dict[str, str] = {k: k for k in keys}
		if kind == 'alias-key':
			# table keys whose entry has another type key (an imported name, a variable): the rebuilt node shows the entry's type
			for j in range(rng.randint(1, 3)):
				alias = f'{rng.choice(MODS)}#alias{j}'
				target = rng.choice(keys)
				entries[alias] = entries[target].stack()
				table_keys[alias] = target
			leaf_keys = list(entries)
		for k, e in entries.items():
			db[k] = e
			ents.append(f'{hx(k)}={hx(e.types.fullyname)}={forest_sexp(obs_forest(e.attrs))}')
		f = gen_sparse_wide_forest(rng, leaf_keys) if i % 6 == 1 else gen_forest(rng, 1 + i % 5, 1 + i % 4, leaf_keys, wide=i % 7 == 0) if i % 5 else gen_twin_forest(rng, leaf_keys, 2 + i % 3)
		data = py_flatten(f)
		if kind == 'malformed':
			data = mutate_flat(rng, data, keys)
		try:
			res = ser._deserialize_attrs(db, data)
			real = f'ok {forest_sexp(obs_forest(res))} | {forest_sexp(own_forest(res))}'
		except Exception as e:  # noqa: BLE001
			real = exc_enum(e)
		ops = [f"rebuild\t{';'.join(ents) or '-'}\t{flat_text(data)}"]
		cases.append(({'kind': kind, 'size': len(data), 'result': real.split(' ')[0]}, ops, [real]))
	st = common.correspond('rebuild-stub', cases, FAMILY, classify=lambda d: f"{d['kind']}:{d['result']}")
	st.note = ('real _deserialize_attrs over a real SymbolDB of stub class entries (attr-less, with inherited attributes, alias keys); data = '
		'flattened random forests (depth ≤ 5, widths up to 13) and malformed dicts (dropped prefixes, index gaps, shuffled / split runs, unknown keys); '
		'observed: .types.fullyname/.attrs recursively and the own _attrs structure')
	return st


# ---------------------------------------------------------------------------------------------
# stream: order (stub tables; real tables are covered in the real streams below)


def skeleton_text(items: list[tuple[str, str, Forest]]) -> str:
	return ';'.join(f'{hx(k)}={hx(tk)}={forest_sexp(f)}' for k, tk, f in items) or '-'


def mod_arg(m: str | None) -> str:
	return 'None' if m is None else hx(m)


@stream_deadline(120, 900)
def stream_order_stub(ctx: Ctx) -> Stream:
	from rogw.tranp.semantics.reflection.db import SymbolDB
	rng = ctx.sub_rng('order-stub')
	traits = StubTraits()
	cases = []
	for i in range(ctx.scale(200, 2500)):
		entries, nodes = stub_classes(rng, traits, rng.randint(2, 10))
		keys = list(entries)
		db = SymbolDB()
		items: list[tuple[str, str, Forest]] = []
		order = list(keys)
		rng.shuffle(order)
		# class entries (some with attributes that mention other classes, declared earlier or later), then variable-like entries
		for k in order:
			f = gen_forest(rng, 1 + i % 3, 2, keys) if rng.random() < 0.5 else []
			e = class_entry(traits, nodes[k], build_attrs(entries, f))
			db[k] = e
			items.append((k, e.types.fullyname, obs_forest(e.attrs)))
		for j in range(rng.randint(0, 8)):
			k = f'{rng.choice(MODS)}#v{j}'
			origin = entries[rng.choice(keys)]
			var = StubNode(k.split('#')[0], f'file_input.assign[{j}]', k, False, True)
			f = gen_forest(rng, 1 + i % 4, 3, keys) if rng.random() < 0.7 else []
			e = origin.declare(var)  # type: ignore[arg-type]
			if f:
				e.extends(*build_attrs(entries, f))
			db[k] = e
			items.append((k, e.types.fullyname, obs_forest(e.attrs)))
		if rng.random() < 0.1:
			# a key without a module part: `not for_module_path` is the live disjunct of the guard (db.py:213)
			k = f'#odd{i}'
			e = entries[rng.choice(keys)].stack()
			db[k] = e
			items.append((k, e.types.fullyname, obs_forest(e.attrs)))
		ops, real = [], []
		for m in [None, *MODS, '', 'zz']:
			try:
				r = ','.join(hx(k) for k in db._order_keys(m))
			except Exception as e:  # noqa: BLE001
				r = exc_enum(e)
			ops.append(f'order\t{mod_arg(m)}\t{skeleton_text(items)}')
			real.append(r)
		cases.append(({'entries': len(items)}, ops, real))
	st = common.correspond('order-stub', cases, FAMILY, classify=lambda d: f"entries<{5 * (d['entries'] // 5 + 1)}")
	st.note = 'real SymbolDB._order_keys (module = None, each module, empty string, absent) on random stub tables: class entries in shuffled declaration order whose attributes mention earlier and later classes, variable entries, a key without module part'
	return st


# ---------------------------------------------------------------------------------------------
# stream: table-stub


def rows_text(data: dict[str, dict[str, Any]]) -> str:
	out = []
	for k, row in data.items():
		if row['class'] == 'Symbol':
			out.append(f"{hx(k)}>S>{hx(row['types'])}>{flat_text(row['attrs'])}")
		else:
			out.append(f"{hx(k)}>R>{hx(row['node'])}>{hx(row['decl'])}>{hx(row['origin'])}>{hx(row['via'])}>{flat_text(row['attrs'])}")
	return '|'.join(out) or '-'


def sym_text(s: Any) -> str:
	return f'{hx(dsn_of(s.types))} {hx(dsn_of(s.node))} {hx(dsn_of(s.decl))} {hx(s.via.types.fullyname)} {forest_sexp(obs_forest(s.attrs))}'


def case_table_stub(rng: random.Random, i: int) -> tuple[dict[str, Any], list[str], list[str]]:
	from rogw.tranp.semantics.reflection.db import SymbolDB
	from rogw.tranp.semantics.reflection.serializer import ReflectionSerializer
	traits = StubTraits()
	eps = StubEntrypoints()
	ser = ReflectionSerializer(eps, traits)  # type: ignore[arg-type]
	entries, nodes = stub_classes(rng, traits, rng.randint(3, 9))
	keys = list(entries)
	for n in nodes.values():
		eps.add(n)
	db = SymbolDB()
	ops: list[str] = ['t.reset']
	real: list[str] = ['ok']
	all_nodes: list[StubNode] = list(nodes.values())
	ordered = i % 3 != 0
	decl_order = list(keys)
	if not ordered:
		rng.shuffle(decl_order)
	# classes: attributes mention only earlier classes when `ordered`
	for pos, k in enumerate(decl_order):
		pool = decl_order[:pos] if ordered else keys
		f = gen_forest(rng, 1 + i % 3, 2, pool) if pool and rng.random() < 0.5 else []
		entries[k] = class_entry(traits, nodes[k], build_attrs(entries, f))
		db[k] = entries[k]
	# variables / imports
	for j in range(rng.randint(1, 10)):
		m = rng.choice(MODS)
		k = f'{m}#v{j}'
		origin = entries[rng.choice(keys)]
		var = eps.add(StubNode(m, f'file_input.assign[{j}]', k, rng.random() < 0.1, rng.random() < 0.95))
		all_nodes.append(var)
		r = rng.random()
		if r < 0.5:
			e = origin.declare(var)  # type: ignore[arg-type]
		elif r < 0.75:
			e = origin.stack(var)  # type: ignore[arg-type]
		else:
			e = entries[rng.choice(keys)].to(var, origin)  # type: ignore[arg-type]
		f = (gen_sparse_wide_forest(rng, keys) if i % 4 == 1 and rng.random() < 0.5 else gen_forest(rng, 1 + i % 4, 3, keys, wide=i % 9 == 0)) if rng.random() < 0.7 else []
		if f:
			e.extends(*build_attrs(entries, f))
		db[k] = e
	if i % 5 == 0:
		ghost = StubNode('ma', 'file_input.ghost', 'ma#ghost', True, True)  # never registered with the entrypoints
		all_nodes.append(ghost)
		db['ma#ghostvar'] = class_entry(traits, ghost)
	for n in all_nodes:
		known = n.full_path in eps.mods.get(n.module_path, {})
		ops.append(f"t.node\t{hx(n.dsn)}\t{int(known)}{int(n.cls)}{int(n.decl)}\t{hx(n.fullyname)}")
		real.append('ok')
	for k, s in db.items():
		ops.append(f't.set\t{hx(k)}\t' + sym_text(s).replace(' ', '\t', 4))
		real.append('ok')

	def run(op: list[str]) -> None:
		ops.append('\t'.join(op))
		try:
			if op[0] == 't.export':
				m = None if op[1] == 'None' else common.unhx(op[1])
				run.data = db.to_json(ser, m)
				real.append('ok ' + rows_text(run.data))
			elif op[0] == 't.import':
				db.import_json(ser, run.pending)
				real.append('ok')
			elif op[0] == 't.unload':
				db.unload(common.unhx(op[1]))
				real.append('ok')
			elif op[0] == 't.complete':
				db.on_complete(common.unhx(op[1]))
				real.append('ok')
			elif op[0] == 't.completed':
				real.append('true' if db.completed(common.unhx(op[1])) else 'false')
			elif op[0] == 't.has':
				real.append('true' if db.has_module(common.unhx(op[1])) else 'false')
			elif op[0] == 't.keys':
				real.append(','.join(hx(k) for k in db.keys()))
			elif op[0] == 't.get':
				real.append('ok ' + sym_text(db[common.unhx(op[1])]))
			else:
				raise AssertionError(op)
		except Exception as e:  # noqa: BLE001
			real.append(exc_enum(e))
	run.data = {}
	run.pending = {}

	def probe() -> None:
		run(['t.keys'])
		for k in list(db.keys()):
			run(['t.get', hx(k)])
		for m in MODS:
			run(['t.completed', hx(m)])
			run(['t.has', hx(m)])

	for mm in MODS:
		if rng.random() < 0.6:
			run(['t.complete', hx(mm)])
			if rng.random() < 0.2:
				run(['t.complete', hx(mm)])
	m = rng.choice(MODS)
	run(['t.export', 'None'])
	run(['t.export', hx(m)])
	data = dict(run.data)
	mode = ['roundtrip', 'roundtrip', 'permuted', 'damaged', 'in-place'][i % 5]
	if mode != 'in-place':
		run(['t.unload', hx(m)])
		probe()
	rows = list(data.items())
	if mode == 'permuted':
		rng.shuffle(rows)
	elif mode == 'damaged' and rows:
		k, row = rows[rng.randrange(len(rows))]
		row = json.loads(json.dumps(row))
		r = rng.random()
		if row['class'] == 'Reflection' and r < 0.3:
			row['origin'] = 'zz#Missing'
		elif row['class'] == 'Reflection' and r < 0.5:
			row['via'] = rng.choice(keys)
		elif r < 0.7:
			field = 'types' if row['class'] == 'Symbol' else rng.choice(['node', 'decl'])
			row[field] = rng.choice([n.dsn for n in all_nodes] + ['ma#file_input.nowhere'])
		else:
			# a dict that is not prefix-closed can make the walk of _deserialize_attrs enter the attribute objects of a table entry
			# (shared between all users of the entry) and extend them in place; the model stops there (`out-of-model`), so such
			# dicts are only generated against tables whose entries have no attributes (stream rebuild-stub does the same)
			shared = any(e.attrs for e in entries.values())
			for _ in range(20):
				cand = mutate_flat(rng, row['attrs'], keys)
				if not shared or prefix_closed(cand):
					row['attrs'] = cand
					break
		rows[rows.index((k, data[k]))] = (k, row)
	run.pending = dict(rows)
	ops_import = ['t.import', rows_text(run.pending)]
	run(ops_import)
	probe()
	run(ops_import)
	probe()
	run(['t.unload', hx(rng.choice(MODS))])
	probe()
	return {'mode': mode, 'entries': len(data), 'ordered': ordered, 'import': real[ops.index('\t'.join(ops_import))]}, ops, real


@stream_deadline(120, 900)
def stream_table_stub(ctx: Ctx) -> Stream:
	rng = ctx.sub_rng('table-stub')
	cases = [case_table_stub(rng, i) for i in range(ctx.scale(120, 1500))]
	st = common.correspond('table-stub', cases, FAMILY, classify=lambda d: f"{d['mode']}:{d['import']}")
	st.note = ('real SymbolDB + real ReflectionSerializer over stub entrypoints: entries built with Symbol.instantiate/stack/declare/to/extends; '
		'ops: to_json(None | module), unload, import_json (exported rows; permuted rows; rows with a damaged origin/via/node/decl/types/attrs; import over the loaded module), '
		'import again, completed, has_module, every entry observed (types/node/decl DSN, via key, attribute forest)')
	return st


# ---------------------------------------------------------------------------------------------
# stream: rows-text (the JSON text form of exported rows: CPython json vs the model's writeText / readText)


TEXT_ALPHABET = ['a', 'b', 'Z', '0', '9', '#', '.', '_', '[', ']', ' ', '"', '\\', '/', '\n', '\t', '\x01', '\x7f', 'é', 'あ', '\U0001f600', "'", ':', ',', '{', '}']


def gen_text_rows(rng: random.Random, i: int) -> dict[str, dict[str, Any]]:
	def word() -> str:
		return ''.join(rng.choice(TEXT_ALPHABET if i % 3 else TEXT_ALPHABET[:10]) for _ in range(rng.randint(0 if i % 5 == 0 else 1, 8)))
	data: dict[str, dict[str, Any]] = {}
	for _ in range(rng.randint(0, 5)):
		keys = [word() for _ in range(3)]
		attrs = py_flatten(gen_forest(rng, rng.randint(0, 3), 3, keys, wide=i % 7 == 0)) if rng.random() < 0.7 else {}
		if rng.random() < 0.4:
			row: dict[str, Any] = {'class': 'Symbol', 'types': word(), 'attrs': attrs}
		else:
			row = {'class': 'Reflection', 'node': word(), 'decl': word(), 'origin': word(), 'via': word(), 'attrs': attrs}
		data[word()] = row
	return data


def text_ops(data: dict[str, dict[str, Any]], cut: int | None = None) -> tuple[list[str], list[str]]:
	"""write the rows as persistent.py does, read them back; `cut` = also read a proper prefix of the text (a file cut short)"""
	text = json.dumps(data, separators=(',', ':'))
	ops = [f't.text\t{rows_text(data)}', f't.read\t{hx(text)}']
	real = [hx(text)]
	try:
		real.append('ok ' + rows_text(json.loads(text)))
	except Exception as e:  # noqa: BLE001
		real.append(exc_enum(e))
	if cut is not None and len(text) > 1:
		part = text[:1 + cut % (len(text) - 1)]
		ops.append(f't.read\t{hx(part)}')
		try:
			json.loads(part)
			real.append('parsed')  # never: a proper prefix of an object is no JSON text
		except ValueError:
			real.append('JSONDecodeError')
	return ops, real


@stream_deadline(120, 900)
def stream_rows_text(ctx: Ctx) -> Stream:
	rng = ctx.sub_rng('rows-text')
	cases = []
	for i in range(ctx.scale(150, 1500)):
		data = gen_text_rows(rng, i)
		ops, real = text_ops(data, cut=rng.randrange(1 << 16) if i % 2 else None)
		cases.append(({'rows': len(data), 'plain': not (i % 3), 'paths': sum(len(r['attrs']) for r in data.values())}, ops, real))
	st = common.correspond('rows-text', cases, FAMILY, classify=lambda d: f"rows={min(d['rows'], 3)}{'+' if d['rows'] >= 3 else ''},{'plain' if d['plain'] else 'escapes'},paths{'>0' if d['paths'] else '=0'}")
	st.note = ("random rows of both shapes whose keys / DSNs / type keys contain quotes, backslashes, control characters, non-ASCII and astral characters: "
		"json.dumps(rows, separators=(',', ':')) vs model writeText (byte for byte), json.loads of the text vs model readText, and a proper prefix of the text (JSONDecodeError on both sides)")
	return st


# ---------------------------------------------------------------------------------------------
# search on stub tables: the same laws with oracles written independently of the code under test


def stub_sym(s: Any) -> tuple[str, str, str, str, Forest]:
	return (dsn_of(s.types), dsn_of(s.node), dsn_of(s.decl), s.via.types.fullyname, obs_forest(s.attrs))


def search_stub_laws(ctx: Ctx) -> SearchResult:
	"""flatten = independent pre-order walk; rebuild ∘ flatten = id; export → import restores; import twice; completed; order law —
	on real Symbol/Reflection/SymbolDB/ReflectionSerializer objects over stub nodes, tables in dependency order (so every law must hold)."""
	import rogw.tranp.lang.sequence as seqs
	from rogw.tranp.semantics.reflection.db import SymbolDB
	from rogw.tranp.semantics.reflection.serializer import ReflectionSerializer
	rng = ctx.sub_rng('stub-laws')
	res = SearchResult('stub tables: expand = own pre-order walk, rebuild∘flatten = id, export→import restores every entry (types, node, decl, via, attribute forest), import twice, completed, order law')
	hist: Counter[str] = Counter()
	seen: set[str] = set()
	seen_keys: set[str] = set()

	def found(key: str, what: str, replay: dict[str, Any]) -> None:
		hist[key] += 1
		if key not in seen_keys:
			seen_keys.add(key)
			res.findings.append(Finding(key=key, what=what, replay=replay))

	traits = StubTraits()
	stop_at = time.time() + ctx.scale(120, 900)
	total = ctx.scale(600, 6000)
	for i in range(total):
		if time.time() > stop_at:
			hist[f'deadline:skipped'] += total - i
			res.note = f'stopped at its wall deadline after {i} of {total} cases'
			break
		try:
			with time_limit(20):
				_stub_law_case(ctx, rng, traits, i, res, seen, found)
		except CaseTimeout:
			found('stub:timeout', f'case {i} did not finish within 20s', {'case': i})
	res.distinct = len(seen)
	res.histogram = dict(hist) or {'ok': res.cases}
	return res


def _stub_law_case(ctx: Ctx, rng: random.Random, traits: Any, i: int, res: SearchResult, seen: set[str], found: Any) -> None:
	import rogw.tranp.lang.sequence as seqs
	from rogw.tranp.semantics.reflection.db import SymbolDB
	from rogw.tranp.semantics.reflection.serializer import ReflectionSerializer
	if True:
		res.cases += 1
		entries, nodes = stub_classes(rng, traits, rng.randint(2, 9))
		keys = list(entries)
		f = gen_sparse_wide_forest(rng, keys) if i % 6 == 1 else gen_forest(rng, 1 + i % 5, 1 + i % 4, keys, wide=i % 5 == 0) if i % 6 else gen_twin_forest(rng, keys, 2 + i % 3)
		seen.add(forest_sexp(f))
		rep = {'forest': forest_sexp(f), 'keys': keys}
		# (a) expand against the independent walk
		try:
			flat = seqs.expand(build_attrs(entries, f), iter_key='attrs')
			got = {p: a.types.fullyname for p, a in flat.items()}
			if list(got.items()) != list(py_flatten(f).items()):
				found('stub:expand', f'seqs.expand differs from the pre-order walk: {flat_text(got)[:200]} vs {flat_text(py_flatten(f))[:200]}', rep)
		except Exception as e:  # noqa: BLE001
			found(f'stub:expand:raises:{exc_enum(e)}', exc_text(e, 200), rep)
		# (b) rebuild ∘ flatten = id
		try:
			db = SymbolDB()
			for k, e in entries.items():
				db[k] = e
			ser = ReflectionSerializer(StubEntrypoints(), traits)  # type: ignore[arg-type]
			given = py_flatten(f)
			back = obs_forest(ser._deserialize_attrs(db, given))
			if list(given.items()) != list(py_flatten(f).items()):
				found('stub:rebuild-mutates-input', f'_deserialize_attrs changed the dict it was given: {flat_text(given)[:200]}', rep)
			if back != f:
				found('stub:rebuild', f'_deserialize_attrs(flatten f) shows {forest_sexp(back)[:200]} for f = {forest_sexp(f)[:200]}', rep)
		except Exception as e:  # noqa: BLE001
			found(f'stub:rebuild:raises:{exc_enum(e)}', exc_text(e, 200), rep)
		# (b2) shared objects: expand per slot; to_temporary makes new objects at every depth, writes through it never reach the entry
		try:
			fi = gen_iforest(rng, 2 + i % 4, 1 + i % 3, keys, share=0.4)
			memo: dict[int, Any] = {}
			objs = build_iobjects(entries, fi, memo)
			rep_i = {'iforest': iforest_sexp(fi)}
			flat = seqs.expand(objs, iter_key='attrs')
			got = {p: a.types.fullyname for p, a in flat.items()}
			if list(got.items()) != list(py_flatten(ierase(fi)).items()):
				found('stub:expand-shared', f'seqs.expand on shared objects differs from the per-slot pre-order walk: {flat_text(got)[:200]} vs {flat_text(py_flatten(ierase(fi)))[:200]}', rep_i)
			entry = objs[0]
			before = obs_forest([entry])
			t = entry.to_temporary()
			if obs_forest([t]) != before:
				found('stub:temporary-shows-other', f'to_temporary shows {forest_sexp(obs_forest([t]))[:200]} for {forest_sexp(before)[:200]}', rep_i)
			common_ids = reachable_ids([t], set()) & reachable_ids(objs, set())
			if common_ids:
				found('stub:temporary-shares', f'to_temporary shares {len(common_ids)} object(s) with the entry', rep_i)
			for p in valid_write_paths(dump_iobjects([t], {}, [0])[0]):
				t2 = entry.to_temporary()
				seqs.update(t2.attrs, p, entries[rng.choice(keys)].stack(), iter_key='attrs')
				if obs_forest([entry]) != before:
					found('stub:temporary-write-leaks', f'seqs.update(copy.attrs, {p!r}, …) changed the entry: {forest_sexp(obs_forest([entry]))[:200]} was {forest_sexp(before)[:200]}', {**rep_i, 'path': p})
					break
		except Exception as e:  # noqa: BLE001
			found(f'stub:identity:raises:{exc_enum(e)}', exc_text(e, 200), {'iforest': iforest_sexp(fi)})
		# (c) table laws on a table in dependency order
		if i % 2:
			return
		eps = StubEntrypoints()
		for n in nodes.values():
			eps.add(n)
		ser = ReflectionSerializer(eps, traits)  # type: ignore[arg-type]
		db = SymbolDB()
		spec: list[str] = []
		# every second table is declared out of dependency order (forward references): the class graph stays acyclic, the entries are
		# inserted in shuffled order — the export has to pull every class entry's own references in front of it
		shuffled = i % 4 == 2
		pending: list[tuple[str, Any]] = []
		for pos, k in enumerate(keys):
			ff = gen_forest(rng, 1 + i % 3, 2, keys[:pos]) if pos and rng.random() < 0.6 else []
			entries[k] = class_entry(traits, nodes[k], build_attrs(entries, ff))
			pending.append((k, entries[k]))
			spec.append(f'class {k} {forest_sexp(ff)}')
		for j in range(rng.randint(1, 8)):
			m = rng.choice(MODS)
			k = f'{m}#v{j}'
			origin = entries[rng.choice(keys)]
			var = eps.add(StubNode(m, f'file_input.assign[{j}]', k, False, True))
			# `to` gives the entry a via of another class; only an own type key or a key of another module is ordered before the entry
			# (Loaded.viaOK), so shuffled tables use declare / stack only
			kind = rng.choice(['declare', 'declare', 'stack', 'to'] if not shuffled else ['declare', 'stack'])
			e = origin.declare(var) if kind == 'declare' else origin.stack(var) if kind == 'stack' else entries[rng.choice(keys)].to(var, origin)  # type: ignore[arg-type]
			ff = (gen_sparse_wide_forest(rng, keys) if i % 8 == 4 and rng.random() < 0.5 else gen_forest(rng, 1 + i % 4, 3, keys, wide=i % 8 == 0)) if rng.random() < 0.7 else []
			if ff:
				e.extends(*build_attrs(entries, ff))
			pending.append((k, e))
			spec.append(f'{kind} {k} {forest_sexp(ff)}')
		if shuffled:
			rng.shuffle(pending)
		for k, e in pending:
			db[k] = e
		rep = {'table': spec, 'insertion_order': [k for k, _ in pending]}
		for m in MODS:
			try:
				before = {k: stub_sym(s) for k, s in db.items(m)}
				data = db.to_json(ser, m)
				if set(data.keys()) != set(before.keys()) or (not shuffled and list(data.keys()) != list(before.keys())):
					found('stub:export-keys', f'export of {m}: keys {list(data)[:6]} for table keys {list(before)[:6]} (dependency-ordered table: the export order is the table order)', {**rep, 'module': m})
				bad = order_violations(data, m)
				if bad:
					found('stub:order', f'export of {m} lists {bad[0][0]} before {bad[0][2]}', {**rep, 'module': m})
				new = SymbolDB()
				for k, s in db.items():
					if k.split('#')[0] != m:
						new[k] = s
				new.import_json(ser, data)
				after = {k: stub_sym(s) for k, s in new.items(m)}
				if after != before:
					k = next(k for k in before if after.get(k) != before[k])
					found('stub:restore', f'{k}: {before[k]} -> {after.get(k)}', {**rep, 'module': m, 'row': data.get(k)})
				if before and not new.completed(m):
					found('stub:completed', f'{m} not completed after import', {**rep, 'module': m})
				if [x for x in MODS if x != m and new.completed(x)]:
					found('stub:completed-other', f'another module than {m} counts as completed', {**rep, 'module': m})
				new.import_json(ser, data)
				if {k: stub_sym(s) for k, s in new.items(m)} != after:
					found('stub:import-twice', f'second import of {m} changes an entry', {**rep, 'module': m})
				# unload removes exactly the module
				new.unload(m)
				if new.has_module(m) or new.completed(m) or len(new) != len(db) - len(before):
					found('stub:unload', f'unload({m}) leaves entries or the completed mark', {**rep, 'module': m})
			except Exception as e:  # noqa: BLE001
				found(f'stub:table:raises:{exc_enum(e)}', f'{m}: {exc_text(e, 200)}', {**rep, 'module': m})


# ---------------------------------------------------------------------------------------------
# real programs


class MultiApp:
	"""A real tranp App in which several modules (and `__main__`) are supplied from memory; everything else comes from disk."""

	def __init__(self, cache_dir: str) -> None:
		from rogw.tranp.app.app import App
		from rogw.tranp.lang.annotation import duck_typed
		from rogw.tranp.lang.locator import Invoker
		from rogw.tranp.lang.module import to_fullyname
		from rogw.tranp.module.types import ModulePath, ModulePaths
		from rogw.tranp.providers.syntax.ast import source_provider
		from rogw.tranp.syntax.ast.parser import SourceProvider
		self.sources: dict[str, str] = {}
		self.loaded: list[str] = []
		outer = self

		@duck_typed(SourceProvider)
		def provider(module_path: str) -> str:
			if module_path in outer.sources:
				return outer.sources[module_path]
			return outer.app.resolve(Invoker)(source_provider)(module_path)

		self.app = App(common.tranp_definitions(cache_dir, {
			to_fullyname(ModulePaths): lambda: [ModulePath('__main__', language='py')],
			to_fullyname(SourceProvider): lambda: provider,
		}))

	def resolve(self, symbol: Any) -> Any:
		return self.app.resolve(symbol)

	def load(self, sources: dict[str, str], entry: str) -> Any:
		"""replace the in-memory modules and load `entry` (its imports are loaded first, recursively)"""
		from rogw.tranp.module.modules import Modules
		mods = self.resolve(Modules)
		for m in set(self.loaded) | set(sources):
			mods.unload(m)
			# Modules.unload only unloads what it has finished loading; a module whose load failed half-way is cleared directly
			from rogw.tranp.semantics.reflection.db import SymbolDB
			from rogw.tranp.syntax.ast.entrypoints import Entrypoints
			self.resolve(Entrypoints).unload(m)
			self.resolve(SymbolDB).unload(m)
		self.sources = {m: (s if s.endswith('\n') else f'{s}\n') for m, s in sources.items()}
		self.loaded = list(sources)
		return mods.load(entry)


PRIMS = ['int', 'str', 'bool', 'float']


class ProgGen:
	"""Multi-module programs inside the subset tranp can type: annotated declarations, classes (plain / generic / derived),
	aliases, unions, functions with simple bodies. Types are nested up to `depth`, tuples up to 12 arguments."""

	def __init__(self, rng: random.Random, depth: int, forward: bool) -> None:
		self.rng = rng
		self.depth = depth
		self.forward = forward

	def type_expr(self, depth: int, scope: dict[str, Any], tvars: list[str] = [], quoted_ok: bool = True) -> str:
		rng = self.rng
		r = rng.random()
		if depth <= 0 or r < 0.22:
			pool = [*PRIMS, *PRIMS, *scope['classes'], *scope['aliases'], *tvars, *tvars]
			return rng.choice(pool)
		if r < 0.40:
			return f'list[{self.type_expr(depth - 1, scope, tvars)}]'
		if r < 0.58:
			return f"dict[{rng.choice(['str', 'int'])}, {self.type_expr(depth - 1, scope, tvars)}]"
		if r < 0.72:
			n = rng.choice([1, 2, 2, 3, 3, 4, 11, 12]) if depth >= 2 else rng.choice([1, 2, 3])
			return f"tuple[{', '.join(self.type_expr(depth - 2 if n > 4 else depth - 1, scope, tvars) for _ in range(n))}]"
		if r < 0.82:
			if rng.random() < 0.5:
				return f'{self.type_expr(depth - 1, scope, tvars)} | None'
			return ' | '.join(dict.fromkeys(self.type_expr(depth - 1, scope, tvars) for _ in range(rng.randint(2, 3))))
		if r < 0.95 and scope['generics']:
			g, arity = rng.choice(scope['generics'])
			return f"{g}[{', '.join(self.type_expr(depth - 1, scope, tvars) for _ in range(arity))}]"
		return rng.choice([*PRIMS, *scope['classes']])

	def ann(self, depth: int, scope: dict[str, Any], tvars: list[str] = [], later: list[tuple[str, int]] = []) -> str:
		"""an annotation; with `forward` it may mention a class declared later in the file (quoted, as Python requires)"""
		rng = self.rng
		if later and self.forward and rng.random() < 0.5:
			g, arity = rng.choice(later)
			inner = f"{g}[{', '.join(self.type_expr(depth - 1, scope, tvars) for _ in range(arity))}]" if arity else g
			r = rng.random()
			if r < 0.35 and scope['generics']:
				# a generic class declared earlier, applied to the class declared later: the earlier class is already exported when
				# this annotation is walked, its type argument is not
				g0, a0 = rng.choice(scope['generics'])
				t = f"{g0}[{', '.join([inner] + [self.type_expr(depth - 1, scope, tvars) for _ in range(a0 - 1)])}]"
			elif r < 0.7:
				t = inner
			else:
				t = rng.choice([f'list[{inner}]', f'dict[str, {inner}]', f'tuple[int, {inner}]', f'{inner} | None'])
			return f"'{t}'"
		return self.type_expr(depth, scope, tvars)

	def init_value(self, t: str) -> str:
		t = t.strip("'")
		if t.startswith('list['):
			return '[]'
		if t.startswith('dict['):
			return '{}'
		return {'int': '0', 'str': "''", 'bool': 'False', 'float': '0.0'}.get(t, '...')

	def module(self, name: str, exported: dict[str, dict[str, Any]]) -> tuple[str, dict[str, Any]]:
		rng = self.rng
		lines = ['from typing import Generic, TypeVar, TypeAlias, ClassVar']
		scope: dict[str, Any] = {'classes': [], 'aliases': [], 'generics': [], 'vars': []}
		for other, exp in exported.items():
			names = [*exp['classes'], *exp['aliases'], *[g for g, _ in exp['generics']], *exp['vars']]
			take = [n for n in names if rng.random() < 0.6]
			if take:
				lines.append(f"from {other} import {', '.join(take)}")
				scope['classes'] += [n for n in take if n in exp['classes']]
				scope['aliases'] += [n for n in take if n in exp['aliases']]
				scope['generics'] += [(g, a) for g, a in exp['generics'] if g in take]
		mine: dict[str, Any] = {'classes': [], 'aliases': [], 'generics': [], 'vars': []}
		tag = name[-1].upper()
		n_tv = rng.randint(1, 2)
		tvs = [f'T{tag}{j}' for j in range(n_tv)]
		# the classes this module is going to declare (so that earlier declarations can mention them as forward references)
		plan: list[tuple[str, str, int]] = []
		for j in range(rng.randint(1, 4)):
			kind = rng.choice(['plain', 'generic', 'generic', 'derived'])
			arity = rng.randint(1, n_tv) if kind == 'generic' else 0
			plan.append((f'C{tag}{j}', kind, arity))
		tv_late = self.forward and rng.random() < 0.6
		decls: list[list[str]] = []
		if not tv_late:
			lines += [f"{tv} = TypeVar('{tv}')" for tv in tvs]

		# the aliases: declared right after the class of the same index (so that the actual type can name that class); plain, generic
		# (type parameters of the module), or an alias of an alias
		alias_plan: dict[int, tuple[str, int]] = {}
		for idx in range(len(plan)):
			if rng.random() < 0.6:
				alias_plan[idx] = (f'A{tag}{idx}', rng.choice([0, 0, 1, 1, n_tv]))

		def later_of(idx: int) -> list[tuple[str, int]]:
			return [(c, a) for c, _, a in plan[idx + 1:]] + [al for j, al in alias_plan.items() if j >= idx]

		def alias_decl(idx: int) -> list[str]:
			a, arity = alias_plan[idx]
			my = tvs[:arity]
			own = [(c, ar) for c, k, ar in plan[:idx + 1] if k == 'generic']
			own_plain = [c for c, k, _ in plan[:idx + 1] if k != 'generic']
			r = rng.random()
			if arity:
				# the actual type is built from the type parameters and, preferably, a class of this module
				if own and r < 0.6:
					g, ga = rng.choice(own)
					inner = f"{g}[{', '.join((my * ga)[:ga])}]"
				elif own_plain and r < 0.8:
					inner = f'tuple[{rng.choice(own_plain)}, {my[0]}]'
				else:
					inner = self.type_expr(max(1, self.depth - 1), scope, my)
					if not any(tv in inner for tv in my):
						inner = f'tuple[{inner}, {my[0]}]'
				rest = ''.join(f', {tv}' for tv in my[1:] if tv not in inner)
				expr = rng.choice([f'dict[str, {inner}]', f'list[{inner}]', f'tuple[{inner}{rest}, int]', f'{inner} | None']) if not rest else f'tuple[{inner}{rest}]'
			elif scope['aliases'] and r < 0.25:
				# alias of an alias, bare or wrapped
				prev = rng.choice(scope['aliases'])
				expr = rng.choice([prev, f'list[{prev}]', f'dict[str, {prev}]'])
			elif (own or own_plain) and r < 0.7:
				if own and (not own_plain or rng.random() < 0.5):
					g, ga = rng.choice(own)
					expr = f"dict[str, {g}[{', '.join(self.type_expr(1, scope) for _ in range(ga))}]]"
				else:
					expr = rng.choice([f'list[{rng.choice(own_plain)}]', rng.choice(own_plain)])
			else:
				expr = self.type_expr(self.depth, scope)
			if arity:
				scope['generics'].append((a, arity))
				mine['generics'].append((a, arity))
			else:
				scope['aliases'].append(a)
				mine['aliases'].append(a)
			return [f'{a}: TypeAlias = {expr}']

		def add_scope(c: str, kind: str, arity: int) -> None:
			if kind == 'generic':
				scope['generics'].append((c, arity))
				mine['generics'].append((c, arity))
			else:
				scope['classes'].append(c)
				mine['classes'].append(c)

		# leading function / alias / variable that may mention every planned class
		if rng.random() < 0.7:
			decls.append(self.function(f'f{tag}_pre', scope, [(c, a) for c, _, a in plan] + list(alias_plan.values())))
		for idx, (c, kind, arity) in enumerate(plan):
			my_tvs = tvs[:arity]
			if kind == 'generic':
				head = f"class {c}(Generic[{', '.join(my_tvs)}]):"
			elif kind == 'derived' and (scope['classes'] or scope['generics']) and rng.random() < 0.8:
				if scope['generics'] and (not scope['classes'] or rng.random() < 0.6):
					g, ga = rng.choice(scope['generics'])
					head = f"class {c}({g}[{', '.join(self.type_expr(1, scope) for _ in range(ga))}]):"
				else:
					head = f"class {c}({rng.choice(scope['classes'])}):"
			else:
				head = f'class {c}:'
			body: list[str] = []
			for j in range(rng.randint(0, 2)):
				t = self.ann(self.depth, scope, my_tvs, later_of(idx))
				body.append(f'\tcv{j}: ClassVar[{t}] = {self.init_value(t)}' if rng.random() < 0.4 and not t.startswith("'") else f'\tfv{j}: {t}')
			if rng.random() < 0.6:
				t = self.ann(self.depth, scope, my_tvs, later_of(idx))
				body += [f'\tdef __init__(self, p: {t}) -> None:', f'\t\tself.iv: {t} = p']
			for j in range(rng.randint(0, 2)):
				body += [f'\t{ln}' for ln in self.function(f'm{j}', scope, later_of(idx), my_tvs, method=True)]
			decls.append([head, *(body or ['\t...'])])
			add_scope(c, kind, arity)
			if idx in alias_plan:
				decls.append(alias_decl(idx))
			if rng.random() < 0.5:
				decls.append(self.function(f'f{tag}{idx}', scope, later_of(idx)))
			if rng.random() < 0.5:
				v = f'v{tag}{idx}'
				t = self.type_expr(self.depth, scope)
				decls.append([f'{v}: {t} = {self.init_value(t)}'])
				scope['vars'].append(v)
				mine['vars'].append(v)
		if tv_late:
			# TypeVars after the first declaration: legal Python as long as nothing evaluates them earlier (quoted annotations)
			decls.insert(1 if decls and decls[0][0].startswith('def ') else 0, [f"{tv} = TypeVar('{tv}')" for tv in tvs])
		for d in decls:
			lines += d
		return '\n'.join(lines) + '\n', mine

	def function(self, name: str, scope: dict[str, Any], later: list[tuple[str, int]], tvars: list[str] = [], method: bool = False) -> list[str]:
		rng = self.rng
		params = []
		types = []
		for j in range(rng.randint(0, 3)):
			t = self.ann(self.depth, scope, tvars, later)
			params.append(f'p{j}: {t}')
			types.append(t)
		ret = self.ann(max(1, self.depth - 1), scope, tvars, later) if rng.random() < 0.7 else 'None'
		head = f"def {name}({', '.join((['self'] if method else []) + params)}) -> {ret}:"
		body: list[str] = []
		for j, t in enumerate(types):
			bare = t.strip("'")
			r = rng.random()
			if r < 0.35:
				body.append(f'\tl{j} = p{j}')
			elif bare.startswith('list[') and r < 0.6:
				body += [f'\tfor e{j} in p{j}:', f'\t\tx{j} = e{j}']
			elif bare.startswith('list[') and r < 0.8:
				body.append(f'\ti{j} = p{j}[0]')
			elif bare.startswith('dict[') and r < 0.7:
				body += [f'\tfor k{j}, w{j} in p{j}.items():', f'\t\ty{j} = w{j}']
			elif bare.startswith('dict[str') and r < 0.9:
				body.append(f"\td{j} = p{j}['a']")
		body.append('\t...')
		return [head, *body]

	def program(self) -> tuple[dict[str, str], str]:
		rng = self.rng
		n = rng.randint(1, 3)
		names = [f'genmod_{c}' for c in 'abc'[:n]]
		exported: dict[str, dict[str, Any]] = {}
		sources: dict[str, str] = {}
		for nm in names:
			src, mine = self.module(nm, exported)
			sources[nm] = src
			exported[nm] = mine
		return sources, names[-1]


def wide_program(rng: random.Random) -> tuple[dict[str, str], str]:
	"""Symbols with 11 and more attribute slots of which only a few carry type arguments (SPARSE_PATTERNS): functions and methods with
	many parameters (slot = parameter index, the return type is the last slot; `self` is slot 0 of a method) and long tuples. The
	index strings of the argument-carrying slots are text prefixes of each other (`1` / `10`, `2` / `20`) with plain slots between."""
	tag = 'abcdefghij'[rng.randrange(10)].upper()
	generic = lambda: rng.choice(['list[int]', f'dict[str, Conf{tag}]', 'dict[str, list[int]]', f'list[Conf{tag}]', 'tuple[int, str]', f'Box{tag}[str]', 'list[str] | None'])  # noqa: E731
	plain = lambda: rng.choice(['int', 'str', 'bool', 'float', f'Conf{tag}'])  # noqa: E731
	lines = ['from typing import Generic, TypeVar', f"T{tag} = TypeVar('T{tag}')", f'class Conf{tag}: ...', f'class Box{tag}(Generic[T{tag}]):', f'\tdef get(self) -> T{tag}: ...']
	for j in range(rng.randint(2, 3)):
		n, carry = sparse_slots(rng)
		slots = [generic() if k in carry else plain() for k in range(n)]
		kind = rng.choice(['function', 'function', 'method', 'tuple'])
		if kind == 'function':
			lines.append(f"def wide{tag}{j}({', '.join(f'p{k}: {t}' for k, t in enumerate(slots[:-1]))}) -> {slots[-1]}: ...")
		elif kind == 'method':
			lines += [f'class Owner{tag}{j}:', f"\tdef wide(self, {', '.join(f'p{k}: {t}' for k, t in enumerate(slots[1:-1], 1))}) -> {slots[-1]}: ..."]
		else:
			lines += [f"def tup{tag}{j}(t: tuple[{', '.join(slots)}], u: list[int]) -> None:", '\tv = t', '\tw = u']
	return {'genmod_w': '\n'.join(lines) + '\n'}, 'genmod_w'


def chain_program(rng: random.Random, depth: int) -> tuple[dict[str, str], str]:
	"""A reference CHAIN through table entries, `depth` generic classes long: a referrer mentions generic class 0 WITH type arguments
	(so the use site does not show what the class entry refers to); the own entry of a generic class mentions an alias through a base
	(`class K(Generic[T], Holder[A])`), the alias target mentions the next alias or — with type arguments — the next generic class
	(`A: TypeAlias = list[K2[str]]`); the last class refers to its type parameter only. The export has to pull every link's own
	references in front of it however deep inside other entries the walk already is. (tranp keeps only the leaf type arguments of a
	base in the class entry, except for aliases — so the links between two generic classes are aliases.) Declaration order: the
	referrer first (mostly) / in the middle / last; the links in chain order (all forward references), in dependency order, or
	shuffled. `Holder` is local or imported."""
	tag = 'abcdefghij'[rng.randrange(10)].upper()
	kinds: list[str] = []
	for g in range(depth):
		kinds.append('gen')
		if g + 1 < depth:
			kinds += ['alias'] * rng.choice([1, 1, 2])
	imported = rng.random() < 0.5

	def mention(i: int) -> str:
		return f'K{tag}{i}[{rng.choice(PRIMS)}]' if kinds[i] == 'gen' else f'A{tag}{i}'
	decls: list[list[str]] = []
	for i, kind in enumerate(kinds):
		nxt = mention(i + 1) if i + 1 < len(kinds) else None
		if kind == 'gen':
			base = f", Holder{tag}[{nxt if rng.random() < 0.8 else f'list[{nxt}]'}]" if nxt else ''
			decls.append([f"T{tag}{i} = TypeVar('T{tag}{i}')", f'class K{tag}{i}(Generic[T{tag}{i}]{base}):', f'\tdef get{i}(self) -> T{tag}{i}: ...'])
		else:
			decls.append([f"A{tag}{i}: TypeAlias = {rng.choice([f'list[{nxt}]', f'dict[str, {nxt}]', f'tuple[int, {nxt}]', f'{nxt} | None'])}"])
	order = rng.choice(['chain', 'chain', 'shuffled', 'shuffled', 'dependency'])
	if order == 'dependency':
		decls.reverse()
	elif order == 'shuffled':
		rng.shuffle(decls)
	first = mention(0)
	ref = rng.choice([
		[f"def use{tag}(k: '{first}') -> None: ..."],
		[f"def use{tag}(k: 'list[{first}]', n: int) -> '{first} | None': ..."],
		[f'class User{tag}:', f"\tdef find(self, key: str) -> 'dict[str, {first}]': ..."],
	])
	decls.insert(rng.choice([0, 0, 0, len(decls) // 2, len(decls)]), ref)
	holder = [f"TH{tag} = TypeVar('TH{tag}')", f'class Holder{tag}(Generic[TH{tag}]):', f'\tdef held(self) -> TH{tag}: ...']
	head = ['from typing import Generic, TypeAlias, TypeVar']
	srcs: dict[str, str] = {}
	if imported:
		srcs['genmod_h'] = '\n'.join([head[0], *holder]) + '\n'
		head.append(f'from genmod_h import Holder{tag}')
	else:
		head += holder
	srcs['genmod_c'] = '\n'.join(head + [ln for d in decls for ln in d]) + '\n'
	return srcs, 'genmod_c'


FIXED_PROGRAMS: list[tuple[str, dict[str, str], str]] = [
	('deep-nesting', {'__main__': (
		'from typing import TypeAlias\n'
		'DSI: TypeAlias = dict[str, int]\n'
		'DSI2: TypeAlias = dict[str, DSI]\n'
		'x: dict[str, list[tuple[int, dict[str, int]]]] = {}\n'
		'y: DSI2 = {}\n'
		'z: list[DSI2 | None] = []\n'
		'def f(a: dict[str, list[tuple[int, dict[str, list[dict[int, tuple[str, int]]]]]]]) -> list[DSI]:\n'
		"\tb = a['x']\n\tc = b[0]\n\td = c[1]\n"
		'\tfor k, v in d.items():\n\t\te = v[0]\n'
		'\tg = [k2 for k2 in a.keys()]\n'
		'\th = {k3: v3 for k3, v3 in a.items()}\n'
		'\treturn []\n')}, '__main__'),
	('tuple-of-12', {'__main__': (
		't: tuple[int, str, int, str, int, str, int, str, int, str, list[int], dict[str, tuple[int, int, int, int, int, int, int, int, int, int, int, bool]]] = (1,)\n'
		'def f() -> None:\n\tu = t\n\ta, b, c, d, e, f2, g, h, i, j, k, l = t\n'
		"\tm = l['a']\n")}, '__main__'),
	('classes', {'__main__': (
		'from typing import Generic, TypeVar, Self, ClassVar\nfrom collections.abc import Callable\nfrom enum import Enum\n'
		"T = TypeVar('T')\nK = TypeVar('K')\n"
		'class E(Enum):\n\tA = 1\n\tB = 2\n'
		'class Box(Generic[T]):\n\tcv: ClassVar[int] = 0\n'
		'\tdef __init__(self, v: T) -> None:\n\t\tself.v: T = v\n\t\tself.items: list[T] = []\n'
		'\tdef get(self) -> T:\n\t\treturn self.v\n'
		"\tdef map(self, fn: Callable[[T], K]) -> 'Box[K]':\n\t\treturn Box(fn(self.v))\n"
		"\t@classmethod\n\tdef make(cls, v: T) -> 'Box[T]':\n\t\treturn cls(v)\n"
		'\t@property\n\tdef prop(self) -> dict[str, T]:\n\t\treturn {}\n'
		"\tclass Inner:\n\t\tiv: ClassVar[str] = ''\n\t\tdef im(self) -> 'Box[int]': ...\n"
		'class IntBox(Box[int]):\n\tdef twice(self) -> Self:\n\t\treturn self\n'
		'def use() -> None:\n\tb = Box(1)\n\tc = b.get()\n\td = IntBox(2).twice()\n\te = b.map(lambda x: str(x))\n\tf = E.A\n'
		"\tg = Box.Inner().im()\n\th = [b, b]\n\ti = {'a': h}\n"
		"\twith open('x') as fp:\n\t\tk = fp\n"
		'\ttry:\n\t\tpass\n\texcept Exception as ex:\n\t\tl = ex\n')}, '__main__'),
	('cross-module', {
		'genmod_a': ('from typing import Generic, TypeVar, TypeAlias\n'
			"TA = TypeVar('TA')\n"
			'class Base(Generic[TA]):\n\tdef get(self) -> TA: ...\n'
			'Pair: TypeAlias = tuple[int, str]\n'
			'shared: dict[str, list[Pair]] = {}\n'),
		'genmod_b': ('from typing import TypeAlias\nfrom genmod_a import Base, Pair, shared\n'
			'class Derived(Base[Pair]):\n\tdef more(self) -> list[Base[int] | None]: ...\n'
			'Table: TypeAlias = dict[str, Base[Pair]]\n'
			"def g(t: Table, d: Derived) -> None:\n\ta = d.get()\n\tb = shared\n\tc = t['x']\n\te = d.more()\n"),
	}, 'genmod_b'),
]

# regression for the export-order defect fixed in 95feeba (corpus/C14): a generic class is mentioned with type arguments before the
# declaration of its own type parameter
# a generic class that is already exported, applied to a class declared after its user (regression for the walk of the attributes
# of an already listed class)
LISTED_GENERIC_FORWARD_ARG = ('from typing import Generic, TypeVar\n'
	"T = TypeVar('T')\n"
	'class G(Generic[T]): ...\n'
	'def g0(a: G[int]) -> None: ...\n'
	"def f(x: 'G[B]', y: 'dict[str, list[G[B]]]') -> None: ...\n"
	'class B: ...\n')

# a generic alias mentioned with a type argument before the alias and the class its actual type is built from
GENERIC_ALIAS_FORWARD = ('from typing import Generic, TypeVar, TypeAlias\n'
	"T = TypeVar('T')\n"
	'class User:\n'
	"\tdef find(self, key: str) -> 'Registry[int]': ...\n"
	"\tdef all(self) -> 'list[Plain]': ...\n"
	'class Item(Generic[T]):\n'
	'\tdef get(self) -> T: ...\n'
	'Registry: TypeAlias = dict[str, Item[T]]\n'
	'Plain: TypeAlias = dict[str, Item[int]]\n'
	'Again: TypeAlias = list[Plain]\n'
	'def last(a: Again, r: Registry[str]) -> None: ...\n')

# two parameters whose nested type arguments sit under parent paths that end in the same index (`0.1.*` and `1.1.*`): the
# grouping of _deserialize_attrs has to compare whole parent paths
TWIN_PARENT_INDEX = ('class Item: ...\n'
	'def merge(a: dict[str, list[int]], b: dict[str, list[Item]]) -> dict[str, list[int | Item]]: ...\n'
	'def deeper(a: list[dict[str, tuple[int, str]]], b: list[dict[str, tuple[Item, Item, int]]], c: list[dict[int, tuple[str]]]) -> None: ...\n')

ORDER_WITNESS = ('from typing import Generic, TypeVar\n'
	"def f(x: 'G[int]') -> None: ...\n"
	"T = TypeVar('T')\n"
	'class G(Generic[T]): ...\n')


LIB_CLASSES = 'rogw.tranp.compatible.libralies.classes'

REAL_MODULES = [
	# all of these load on the pinned tree (a load failure is reported as a finding)
	'example.json',
	'tests.unit.rogw.tranp.semantics.reflection.fixtures.fixture_db',
	'tests.unit.rogw.tranp.implements.cpp.transpiler.fixtures.fixture_py2cpp',
	'tests.unit.rogw.tranp.semantics.fixtures.fixture_reflections',
	'tests.unit.rogw.tranp.implements.cpp.transpiler.fixtures.fixture_py2cpp_edge',
	'tests.unit.rogw.tranp.implements.transpiler.fixtures.fixture_evaluator',
	'tests.unit.rogw.tranp.syntax.node.fixtures.fixture_definition',
	'tests.unit.rogw.tranp.syntax.node.fixtures.fixture_node',
	'rogw.tranp.compatible.cpp.cvar',
	'rogw.tranp.compatible.python.embed',
	'rogw.tranp.errors',
	'rogw.tranp.lang.convertion',
]


def module_keys(db: Any) -> dict[str, list[str]]:
	out: dict[str, list[str]] = {}
	for k in db.keys():
		out.setdefault(k.split('#')[0], []).append(k)
	return out


def describe(s: Any) -> dict[str, Any]:
	"""the description the property compares: type (with nested type arguments), declaration, node"""
	def d(x: Any) -> str:
		return f"{x.types.fullyname}<{','.join(d(a) for a in x.attrs)}>" if x.attrs else x.types.fullyname
	return {'type': d(s), 'types': dsn_of(s.types), 'str': str(s), 'decl': dsn_of(s.decl), 'node': dsn_of(s.node), 'via': s.via.types.fullyname}


def real_symbol_ops(db: Any, ser: Any, mod: str) -> tuple[list[str], list[str]]:
	"""serialize-real: one op per symbol of `mod`"""
	import rogw.tranp.syntax.node.definition as defs
	ops, real = [], []
	for k, s in db.items(mod):
		f = obs_forest(s.attrs)
		ops.append('\t'.join(['serialize', hx(dsn_of(s.types)), hx(dsn_of(s.node)), hx(dsn_of(s.decl)), hx(s.via.types.fullyname),
			str(int(s.node.is_a(defs.ClassDef))), hx(s.types.fullyname), forest_sexp(f)]))
		try:
			row = ser.serialize(s)
			if row['class'] == 'Symbol':
				real.append(f"S {hx(row['types'])} {flat_text(row['attrs'])}")
			else:
				real.append(f"R {hx(row['node'])} {hx(row['decl'])} {hx(row['origin'])} {hx(row['via'])} {flat_text(row['attrs'])}")
		except Exception as e:  # noqa: BLE001
			real.append(exc_enum(e))
	return ops, real


def real_order_ops(db: Any, mods: list[str | None]) -> tuple[list[str], list[str]]:
	items = [(k, s.types.fullyname, obs_forest(s.attrs)) for k, s in db.items()]
	sk = skeleton_text(items)
	ops, real = [], []
	for m in mods:
		ops.append(f'order\t{mod_arg(m)}\t{sk}')
		try:
			real.append(','.join(hx(k) for k in db._order_keys(m)))
		except Exception as e:  # noqa: BLE001
			real.append(exc_enum(e))
	return ops, real


class Loaded:
	def __init__(self, name: str, app: Any, kind: str, sources: dict[str, str] | None, entry: str) -> None:
		self.name = name
		self.app = app
		self.kind = kind
		self.sources = sources
		self.entry = entry


LOAD_BUDGET = 60  # seconds per program (a generated program loads in well under a second)
MODULE_BUDGET = 90  # seconds for all observations and the law on one module


def load_programs(ctx: Ctx, stream: str, n_generated: int, real_modules: list[str]):
	"""yields Loaded (with the app holding the loaded table) for fixed programs, generated programs and real modules"""
	from rogw.tranp.semantics.reflection.db import SymbolDB
	rng = ctx.sub_rng(stream)
	app = MultiApp(ctx.tmpdir())
	stats: Counter[str] = Counter()
	todo: list[tuple[str, str, dict[str, str], str]] = [('fixed', n, s, e) for n, s, e in FIXED_PROGRAMS]
	todo.append(('fixed', 'order-witness', {'__main__': ORDER_WITNESS}, '__main__'))
	todo.append(('fixed', 'listed-generic-forward-arg', {'__main__': LISTED_GENERIC_FORWARD_ARG}, '__main__'))
	todo.append(('fixed', 'generic-alias-forward', {'__main__': GENERIC_ALIAS_FORWARD}, '__main__'))
	todo.append(('fixed', 'twin-parent-index', {'__main__': TWIN_PARENT_INDEX}, '__main__'))
	for fn in sorted(os.listdir(os.path.join(common.CORPUS_DIR, PROP))) if os.path.isdir(os.path.join(common.CORPUS_DIR, PROP)) else []:
		with open(os.path.join(common.CORPUS_DIR, PROP, fn), encoding='utf-8') as f:
			rec = json.load(f)
		if 'sources' in rec:
			todo.insert(0, ('corpus', fn, rec['sources'], rec['entry']))
	for i in range(n_generated):
		gen = ProgGen(rng, depth=1 + i % 4, forward=i % 3 == 2)
		srcs, entry = gen.program()
		todo.append(('forward' if gen.forward else 'generated', f'gen#{i}', srcs, entry))
	# reference chains of depth 2..4 through generic bases and alias targets (own random stream: the programs above stay what they were)
	crng = ctx.sub_rng(stream + ':chain')
	for i in range(max(8, n_generated // 5)):
		srcs, entry = chain_program(crng, 2 + i % 3)
		todo.append(('chain', f'chain#{i}', srcs, entry))
	# wide symbols (11+ attribute slots) with few argument-carrying slots whose index strings are text prefixes of each other
	wrng = ctx.sub_rng(stream + ':wide')
	for i in range(max(6, n_generated // 8)):
		srcs, entry = wide_program(wrng)
		todo.append(('wide', f'wide#{i}', srcs, entry))
	for kind, name, srcs, entry in todo:
		try:
			with time_limit(LOAD_BUDGET):
				app.load(srcs, entry)
				db = app.resolve(SymbolDB)
				for _, s in db.items():
					describe(s)  # resolves the lazy attribute / origin mods; a program tranp cannot type is outside the domain
		except CaseTimeout:
			stats[f'{kind}:timeout'] += 1
			app = MultiApp(ctx.tmpdir())  # the interrupted app is not reused
			if kind in ('fixed', 'corpus'):
				yield Loaded(name, None, f'{kind}-load-failed:timeout:loading takes more than {LOAD_BUDGET}s', srcs, entry), stats
			continue
		except Exception as e:  # noqa: BLE001
			stats[f'{kind}:unsupported:{exc_enum(e)}'] += 1
			if kind in ('fixed', 'corpus'):
				# these load on the unchanged tree: a failure is a finding of the search, not a skipped case
				yield Loaded(name, None, f'{kind}-load-failed:{exc_enum(e)}:{exc_text(e, 160)}', srcs, entry), stats
			continue
		stats[f'{kind}:loaded'] += 1
		yield Loaded(name, app, kind, srcs, entry), stats
	for m in real_modules:
		rapp = MultiApp(ctx.tmpdir())
		try:
			with time_limit(3 * LOAD_BUDGET):
				rapp.load({}, m)
				db = rapp.resolve(SymbolDB)
				for _, s in db.items():
					describe(s)
		except CaseTimeout:
			stats['real:timeout'] += 1
			yield Loaded(m, None, f'real-load-failed:timeout:loading takes more than {3 * LOAD_BUDGET}s', None, m), stats
			continue
		except Exception as e:  # noqa: BLE001
			stats[f'real:unsupported:{exc_enum(e)}'] += 1
			yield Loaded(m, None, f'real-load-failed:{exc_enum(e)}:{exc_text(e, 160)}', None, m), stats
			continue
		stats['real:loaded'] += 1
		yield Loaded(m, rapp, 'real', None, m), stats


# ---------------------------------------------------------------------------------------------
# search: the law on the real code


def order_violations(data: dict[str, dict[str, Any]], mod: str) -> list[tuple[str, str, str]]:
	"""(row key, reference kind, referenced key) for references into `mod` that are not exported earlier"""
	out = []
	seen: set[str] = set()
	for k, row in data.items():
		refs = [('attrs', v) for v in row['attrs'].values()]
		if row['class'] == 'Reflection':
			refs = [('origin', row['origin']), ('via', row['via']), *refs]
		for kind, r in refs:
			if r.split('#')[0] == mod and r not in seen:
				out.append((k, kind, r))
				break
		seen.add(k)
	return out


def forest_keys(f: Forest) -> list[str]:
	out: list[str] = []
	for k, cs in f:
		out.append(k)
		out.extend(forest_keys(cs))
	return out


def invariants_of(db: Any, data: dict[str, dict[str, Any]], mod: str) -> dict[str, bool]:
	"""The hypotheses of the Lean theorems, evaluated on a real table (statistics for the evidence, not an oracle):
	SymOK (C14.rt) and Loaded (C14.order), written after lean/Tranp/Lemmas/SymbolJson.lean."""
	import rogw.tranp.syntax.node.definition as defs
	items = [(k, s) for k, s in db.items()]
	table = dict(items)
	base = {k for k in table if k.split('#')[0] != mod}

	def refs(k: str) -> list[str]:
		row = data.get(k)
		if row is None:
			return []
		return ([row['origin'], row['via']] if row['class'] == 'Reflection' else []) + list(row['attrs'].values())

	def good(f: Forest) -> bool:
		for k, cs in f:
			e = table.get(k)
			if e is None or e.types.fullyname != k or (not cs and e.attrs) or not good(cs):
				return False
		return True

	sym_ok = True
	via_inv = True
	for k, s in items:
		if k.split('#')[0] != mod:
			continue
		f = obs_forest(s.attrs)
		if s.node.is_a(defs.ClassDef) and s.types == s.decl:
			ok = s.node == s.types
		else:
			o = table.get(s.types.fullyname)
			ok = o is not None and o.types == s.types and (bool(f) or not o.attrs)
		sym_ok = sym_ok and ok and good(f)
		# ViaOK (C14.rt_exact): a class entry is its own via; another entry's via key names an entry of that very type, or — when it is
		# the type key — the entry of the type key is its own via
		v = s.via.types.fullyname
		if s.node.is_a(defs.ClassDef) and s.types == s.decl:
			v_ok = v == s.types.fullyname
		elif v != s.types.fullyname:
			e = table.get(v)
			v_ok = e is not None and e.types.fullyname == v
		else:
			e = table.get(v)
			v_ok = e is None or e.via.types.fullyname == v
		via_inv = via_inv and v_ok

	# Loaded (C14.order): closed, class keys, acyclic class entries, via
	def is_cls(x: Any) -> bool:
		return x.node.is_a(defs.ClassDef) and x.types == x.decl

	closed = all(r in table for k in data for r in refs(k))
	cls_keys = True
	via_ok = True
	graph: dict[str, set[str]] = {}
	for k, s in items:
		if k.split('#')[0] != mod:
			continue
		tree_keys = [s.types.fullyname, *forest_keys(obs_forest(s.attrs))]
		for c in tree_keys:
			if c.split('#')[0] == mod and not (c in table and is_cls(table[c])):
				cls_keys = False
		if is_cls(s):
			graph[k] = {c for c in forest_keys(obs_forest(s.attrs)) if c.split('#')[0] == mod}
		else:
			v = s.via.types.fullyname
			if not (v in base or v in tree_keys):
				via_ok = False
	# acyclic = a rank exists
	state: dict[str, int] = {}
	acyclic = True
	for start in graph:
		stack = [(start, iter(sorted(graph.get(start, ()))))]
		if state.get(start):
			continue
		state[start] = 1
		while stack and acyclic:
			node, it = stack[-1]
			nxt = next(it, None)
			if nxt is None:
				state[node] = 2
				stack.pop()
			elif state.get(nxt) == 1:
				acyclic = False
			elif not state.get(nxt):
				state[nxt] = 1
				stack.append((nxt, iter(sorted(graph.get(nxt, ())))))
	return {'SymOK': sym_ok, 'Loaded': closed and cls_keys and via_ok and acyclic, 'ViaOK': via_inv}


def real_table_ops(db: Any) -> list[str]:
	"""the loaded table for the driver: what the entrypoints know about every node, then every entry"""
	import rogw.tranp.syntax.node.definition as defs
	ops = ['t.reset']
	seen: set[str] = set()
	entries = []
	for k, s in db.items():
		for n in (s.types, s.node, s.decl):
			d = dsn_of(n)
			if d not in seen:
				seen.add(d)
				is_decl = len([c for c in defs.DeclAllTs if isinstance(n, c)]) == 1
				ops.append(f't.node\t{hx(d)}\t1{int(n.is_a(defs.ClassDef))}{int(is_decl)}\t{hx(n.fullyname)}')
		entries.append(f't.set\t{hx(k)}\t' + sym_text(s).replace(' ', '\t', 4))
	return ops + entries


def class_ranks(db: Any, mod: str) -> str:
	"""longest chain of class entries of `mod` that refer to each other — the acyclicity witness for Loaded; '-' if there is a cycle"""
	import rogw.tranp.syntax.node.definition as defs
	table = {k: s for k, s in db.items()}
	rank: dict[str, int] = {}
	visiting: set[str] = set()

	def rank_of(k: str) -> int:
		if k in rank:
			return rank[k]
		if k in visiting:
			raise RecursionError(k)
		visiting.add(k)
		s = table[k]
		r = 0
		if s.node.is_a(defs.ClassDef) and s.types == s.decl:
			for c in forest_keys(obs_forest(s.attrs)):
				if c.split('#')[0] == mod and c in table:
					r = max(r, rank_of(c) + 1)
		visiting.discard(k)
		rank[k] = r
		return r
	try:
		for k in table:
			if k.split('#')[0] == mod:
				rank_of(k)
	except RecursionError:
		return '-'
	return ','.join(f'{hx(k)}={r}' for k, r in rank.items() if r) or '-'


def check_module(ld: Loaded, mod: str) -> list[Finding]:
	"""the law of the property on one module of a loaded table (real code only); an exception of the real code is a finding"""
	replay = {'program': ld.name, 'sources': ld.sources, 'entry': ld.entry, 'module': mod}
	out: list[Finding] = []
	stage = ['describe']
	try:
		with time_limit(MODULE_BUDGET):
			_check_module(ld, mod, replay, out, stage)
	except CaseTimeout:
		out.append(Finding(key=f'{stage[0]}:timeout', what=f'{stage[0]} of {mod} does not finish within {MODULE_BUDGET}s', replay=replay))
	except Exception as e:  # noqa: BLE001
		out.append(Finding(key=f'{stage[0]}:raises:{exc_enum(e)}', what=f'{stage[0]} of {mod} raises {exc_enum(e)}: {exc_text(e, 200)}', replay=replay))
	return out


def _check_module(ld: Loaded, mod: str, replay: dict[str, Any], out: list[Finding], stage: list[str]) -> None:
	from rogw.tranp.semantics.reflection.db import SymbolDB
	from rogw.tranp.semantics.reflection.serialization import IReflectionSerializer
	db = ld.app.resolve(SymbolDB)
	ser = ld.app.resolve(IReflectionSerializer)
	before = {k: describe(s) for k, s in db.items(mod)}
	from rogw.tranp.dsn.module import ModuleDSN
	for k, s in db.items(mod):
		for n in (s.types, s.node, s.decl):
			if ModuleDSN.parsed(dsn_of(n)) != (n.module_path, n.full_path) or not n.module_path or '#' in n.module_path or '#' in n.full_path:
				out.append(Finding(key='dsn:not-round-trip', what=f'{k}: node ({n.module_path!r}, {n.full_path!r}) is written as {dsn_of(n)!r} and read back as {ModuleDSN.parsed(dsn_of(n))} (guard of C14.dsn_rt)', replay=replay))
				break
	stage[0] = 'export'
	data = db.to_json(ser, mod)

	def found(key: str, what: str, extra: dict[str, Any]) -> None:
		out.append(Finding(key=key, what=what, replay={**replay, **extra}))

	if set(data.keys()) != set(before.keys()):
		found('export:key-set', f'export of {mod} has keys {sorted(set(data) ^ set(before))[:5]} more/less than the table', {})
		return
	bad_order = order_violations(data, mod)
	for k, kind, r in bad_order[:1]:
		shape = data[k]['class']
		found(f'order:{shape}-row-before-its-{kind}-key',
			f'export of {mod} lists {k} ({shape} row) before {r}, which its {kind} refer to; import_json then raises SymbolNotDefined',
			{'row': k, 'missing': r, 'order': list(data.keys())[:40]})
	# the JSON form: what is imported is what a reader of the stored text gets (persistent.py:159-173 writes json.dumps(data, separators=(',', ':'))
	# and imports json.loads of it), so the export has to survive the text unchanged — same rows, same row order, same path order
	stage[0] = 'export-json'
	try:
		data_before = json.dumps(data, separators=(',', ':'))
		exported = data
		data = json.loads(data_before)
	except (TypeError, ValueError) as e:
		found(f'export:not-json:{exc_enum(e)}', f'the export of {mod} cannot be written as JSON: {exc_text(e, 200)}', {})
		return
	if data != exported or list(data) != list(exported) or any(list(data[k].get('attrs', {})) != list(exported[k].get('attrs', {})) for k in data):
		k = next((k for k in data if k not in exported or data[k] != exported[k] or list(data[k].get('attrs', {})) != list(exported[k].get('attrs', {}))), '?')
		found('export:not-json-stable', f'the export of {mod} does not survive json.dumps / json.loads: row {k} is read back as {str(data.get(k))[:200]}', {'key': k})
	# the entries of the other modules the rows refer to (import_json reads exactly these): they must come through the import untouched
	ref_keys = sorted({r for row in data.values() for r in [*([row.get('origin'), row.get('via')] if row.get('class') == 'Reflection' else []), *row.get('attrs', {}).values()]
		if isinstance(r, str) and r.split('#')[0] != mod and r in db})
	refs_before = {r: describe(db[r]) for r in ref_keys}
	new = SymbolDB()
	for k, s in db.items():
		if k.split('#')[0] != mod:
			new[k] = s
	stage[0] = 'import'
	try:
		new.import_json(ser, data)
	except Exception as e:  # noqa: BLE001
		if not bad_order:
			found(f'import:raises:{exc_enum(e)}', f'import of the export of {mod} raises {exc_enum(e)}: {exc_text(e, 200)}', {})
		return
	if json.dumps(data, separators=(',', ':')) != data_before:
		found('import:mutates-input', f'import_json changed the rows it was given (export of {mod}): the caller cannot import them again', {})
		data = json.loads(data_before)
	stage[0] = 'frame'
	if set(new.keys()) != set(db.keys()):
		found('import:key-set', f'after the import of {mod} the table has keys {sorted(set(new.keys()) ^ set(db.keys()))[:5]} more/less than the exporting table', {})
	moved = [k for k, s in db.items() if k.split('#')[0] != mod and (k not in new or new[k] is not s)]
	if moved:
		found('import:replaces-other-module', f'the import of {mod} replaced the entry {moved[0]} of another module', {'key': moved[0]})
	for r, b in refs_before.items():
		a = describe(db[r])
		if a != b:
			found('import:changes-other-module', f'the import of {mod} changed the entry {r} of another module (shared by both tables): before {b} after {a}', {'key': r, 'before': b, 'after': a})
			break
	if bad_order:
		found('order:oracle-disagrees', 'import succeeded although a row refers to a later key', {'violations': bad_order[:3]})
	stage[0] = 'describe-restored'
	after = {k: describe(s) for k, s in new.items(mod)}
	for k, b in before.items():
		a = after.get(k)
		if a != b:
			fields = [f for f in b if a is None or a[f] != b[f]]
			found(f"restore:{'+'.join(fields)}", f'{k}: before {b} after {a}', {'key': k, 'before': b, 'after': a, 'row': data.get(k)})
			break
	if before and not new.completed(mod):
		found('completed', f'{mod} does not count as completed after import', {})
	extra = [m for m in module_keys(new) if m != mod and new.completed(m)]
	if extra:
		found('completed:other-module', f'{extra[:3]} count as completed although only {mod} was imported', {})
	# the same round trip on the path the application takes: the table that "holds only the other modules" is the whole table after
	# unload(mod) (db.py:144-156); it must be the table built above (same keys, same order, no completed mark) and restore the same entries
	stage[0] = 'unload'
	alt = SymbolDB()
	for k, s in db.items():
		alt[k] = s
	if db.completed(mod):
		alt.on_complete(mod)
	alt.unload(mod)
	others = [k for k in db.keys() if k.split('#')[0] != mod]
	if list(alt.keys()) != others or alt.has_module(mod) or alt.completed(mod) or [k for k, _ in alt.items(mod)]:
		found('unload:leaves-or-removes', f'unload({mod}) leaves keys {[k for k in alt.keys() if k not in others][:3]}, removes {[k for k in others if k not in alt][:3]}, has_module={alt.has_module(mod)}, completed={alt.completed(mod)}', {})
	else:
		stage[0] = 'import-after-unload'
		alt.import_json(ser, data)
		after_alt = {k: describe(s) for k, s in alt.items(mod)}
		if after_alt != after or list(alt.keys()) != list(new.keys()) or alt.completed(mod) != new.completed(mod):
			k = next((k for k in after if after_alt.get(k) != after[k]), '?')
			found('unload:import-differs', f'import into the unloaded table gives {str(after_alt.get(k))[:200]} for {k}, import into the table of the other modules {str(after.get(k))[:200]}', {'key': k})
	# a second export of the restored module writes the same rows (type, node, decl, origin, via, paths); the row order may differ
	stage[0] = 're-export'
	again_rows = json.loads(json.dumps(new.to_json(ser, mod), separators=(',', ':')))
	if again_rows != data:
		k = next((k for k in data if again_rows.get(k) != data[k]), next(iter(set(again_rows) - set(data)), '?'))
		found('re-export:row-differs', f'{k}: exported as {str(data.get(k))[:200]}, after the import exported as {str(again_rows.get(k))[:200]}', {'key': k, 'row': data.get(k), 'again': again_rows.get(k)})
	stage[0] = 'import-again'
	keys1 = list(new.keys())
	for _ in range(2):
		new.import_json(ser, data)
		again = {k: describe(s) for k, s in new.items(mod)}
		if again != after or list(new.keys()) != keys1:
			k = next((k for k in after if again.get(k) != after[k]), '?')
			found('import-twice', f'a repeated import changes {k}: {after.get(k)} -> {again.get(k)}', {'key': k})
			break


def real_pass(ctx: Ctx) -> tuple[list[Stream], SearchResult]:
	"""one pass over fixed / corpus / generated programs and real modules: correspondence ops and the law search share the loaded tables"""
	from rogw.tranp.semantics.reflection.db import SymbolDB
	from rogw.tranp.semantics.reflection.serialization import IReflectionSerializer
	res = SearchResult('export module → JSON text → import into the table of the other modules → compare symbol by symbol (type, decl, node, via), completed, other modules untouched, re-export writes the same rows, import twice (real code only)')
	ser_cases: list[tuple[Any, list[str], list[str]]] = []
	ord_cases: list[tuple[Any, list[str], list[str]]] = []
	hist: Counter[str] = Counter()
	seen_keys: set[str] = set()
	seen: set[str] = set()
	done: set[str] = set()
	stats: Counter[str] = Counter()
	inv_hist: Counter[str] = Counter()
	inv_broken: list[str] = []
	inv_cases: list[tuple[Any, list[str], list[str]]] = []
	txt_cases: list[tuple[Any, list[str], list[str]]] = []
	n_tables = 0
	stop_at = time.time() + ctx.scale(300, 1800)  # wall deadline of the pass: programs after it are counted, not run
	for ld, stats in load_programs(ctx, 'real', ctx.scale(36, 500), REAL_MODULES[:ctx.scale(2, len(REAL_MODULES))]):
		if ld.app is None:
			res.cases += 1
			key = f"load:{ld.kind.split(':')[0]}:{ld.kind.split(':')[1]}"
			hist[key] += 1
			if key not in seen_keys:
				seen_keys.add(key)
				res.findings.append(Finding(key=key, what=f'{ld.name} no longer loads: {ld.kind}', replay={'program': ld.name, 'sources': ld.sources, 'entry': ld.entry, 'module': ld.entry}))
			continue
		if time.time() > stop_at:
			hist['deadline:program-skipped'] += 1
			continue
		try:
			with time_limit(4 * MODULE_BUDGET):
				db = ld.app.resolve(SymbolDB)
				ser = ld.app.resolve(IReflectionSerializer)
				mods = module_keys(db)
				own = [m for m in mods if m in (ld.sources or {})] if ld.kind != 'real' else [m for m in mods if m not in done]
				inv_ops: list[str] = []
				inv_real: list[str] = []
				for m in own:
					done.add(m)
					forests = [obs_forest(s.attrs) for _, s in db.items(m)]
					depth = max((forest_depth(f) for f in forests), default=0)
					width = max((forest_width(f) for f in forests), default=0)
					# correspondence: serialize
					ops, real = real_symbol_ops(db, ser, m)
					if ops:
						ser_cases.append(({'kind': ld.kind, 'depth': depth, 'width': width, 'name': f'{ld.name}:{m}'}, ops, real))
					# search: the law
					res.cases += 1
					fnd = check_module(ld, m)
					try:
						exported_rows = db.to_json(ser, m)
						if ld.kind != 'real' or (m == LIB_CLASSES and not any(d.get('module') == LIB_CLASSES for d, _, _ in txt_cases)):
							t_ops, t_real = text_ops(exported_rows)
							txt_cases.append(({'kind': ld.kind, 'rows': len(exported_rows), 'name': f'{ld.name}:{m}', 'module': m}, t_ops, t_real))
						inv = invariants_of(db, exported_rows, m)
						inv_ops.append(f't.inv\t{hx(m)}\t{class_ranks(db, m)}')
						inv_real.append(f"Loaded={'true' if inv['Loaded'] else 'false'} SymOK={'true' if inv['SymOK'] else 'false'} ViaOK={'true' if inv['ViaOK'] else 'false'}")
						order_ok = not any(f.key.startswith('order:') for f in fnd)
						inv_hist[f"SymOK={int(inv['SymOK'])},Loaded={int(inv['Loaded'])},ViaOK={int(inv['ViaOK'])},order-law={'holds' if order_ok else 'fails'}"] += 1
						if inv['Loaded'] and not order_ok:
							# C14.order says this cannot happen if model = code: report it as a broken tie (the law search reports the failing input)
							inv_broken.append(f'{ld.name}:{m}')
					except Exception as e:  # noqa: BLE001
						inv_hist[f'invariants:raises:{exc_enum(e)}'] += 1
					for f in fnd:
						if f.key not in seen_keys:
							seen_keys.add(f.key)
							res.findings.append(f)
					hist[f"{ld.kind}:depth={min(depth, 6)}{'+' if depth >= 6 else ''}:width{'>=10' if width >= 10 else '<10'}:{'+'.join(sorted({f.key for f in fnd})) or 'ok'}"] += 1
					seen.add(f'{ld.name}:{m}:{len(mods[m])}')
					if len(res.samples) < 2:
						res.samples.append({'program': ld.name, 'module': m, 'symbols': len(mods[m]), 'max_attr_depth': depth, 'max_attr_width': width})
				# correspondence: the invariants, evaluated by their Lean definitions on the whole loaded table
				# (about a second per module on a 400-entry table: quick = every third fixed / corpus program and every 12th generated one;
				# thorough = all fixed ones, every 12th generated one and two modules of the first real set)
				if inv_ops and ((ld.kind in ('fixed', 'corpus') and (ctx.thorough or n_tables % 3 == 0)) or (ctx.thorough and ld.name == REAL_MODULES[0]) or (ld.kind != 'real' and n_tables % 12 == 0)):
					tbl_ops = real_table_ops(db)
					keep = slice(-2, None) if ld.kind == 'real' else slice(None)
					more_ops: list[str] = []
					more_real: list[str] = []
					if not inv_cases and LIB_CLASSES in mods:
						# the library module `classes` (338 entries: too slow for the kernel, so the generated table of C14.shipped_* leaves it
						# out) as M, once per run, on the first table that goes to the driver
						try:
							inv = invariants_of(db, db.to_json(ser, LIB_CLASSES), LIB_CLASSES)
							more_ops.append(f't.inv\t{hx(LIB_CLASSES)}\t{class_ranks(db, LIB_CLASSES)}')
							more_real.append(f"Loaded={'true' if inv['Loaded'] else 'false'} SymOK={'true' if inv['SymOK'] else 'false'} ViaOK={'true' if inv['ViaOK'] else 'false'}")
							inv_hist[f"library-classes:SymOK={int(inv['SymOK'])},Loaded={int(inv['Loaded'])},ViaOK={int(inv['ViaOK'])}"] += 1
						except Exception as e:  # noqa: BLE001
							inv_hist[f'invariants:raises:{exc_enum(e)}'] += 1
					inv_cases.append(({'kind': ld.kind, 'entries': len(db), 'name': ld.name}, tbl_ops + inv_ops[keep] + more_ops, ['ok'] * len(tbl_ops) + inv_real[keep] + more_real))
				n_tables += 1
				# correspondence: order
				order_mods: list[str | None] = [*(own if ld.kind != 'real' else own[-3:])]
				if ld.kind != 'real' or ld.name == REAL_MODULES[0]:
					order_mods.append(None)
				ops, real = real_order_ops(db, order_mods)
				ord_cases.append(({'kind': ld.kind, 'entries': len(db), 'name': ld.name}, ops, real))
		except CaseTimeout:
			# the per-module budget of the law already reported a module that hangs; here the observations of the streams ran out of time
			hist[f'program-timeout:{ld.kind}'] += 1
			key = 'program:timeout'
			if key not in seen_keys:
				seen_keys.add(key)
				res.findings.append(Finding(key=key, what=f'observing the table of {ld.name} (serialize / _order_keys / invariants) does not finish within {4 * MODULE_BUDGET}s', replay={'program': ld.name, 'sources': ld.sources, 'entry': ld.entry, 'module': ld.entry}))
	res.distinct = len(seen)
	res.histogram = {**dict(hist), **{f'load:{k}': v for k, v in stats.items()}, **{f'invariants:{k}': v for k, v in inv_hist.items()}}
	# the three model runs are independent driver processes (the order stream alone pipes ~20 MB of table skeletons): run them side by side
	from concurrent.futures import ThreadPoolExecutor
	with ThreadPoolExecutor(max_workers=4) as pool:
		f4 = pool.submit(common.correspond, 'rows-text-real', txt_cases, FAMILY, classify=lambda d: f"{d['kind']}:rows{'>=20' if d['rows'] >= 20 else '<20'}")
		f3 = pool.submit(common.correspond, 'invariants-real', inv_cases, FAMILY, classify=lambda d: d['kind'])
		f1 = pool.submit(common.correspond, 'serialize-real', ser_cases, FAMILY, classify=lambda d: f"{d['kind']}:depth={min(d['depth'], 6)}{'+' if d['depth'] >= 6 else ''}:width{'>=10' if d['width'] >= 10 else '<10'}")
		f2 = pool.submit(common.correspond, 'order-real', ord_cases, FAMILY, classify=lambda d: d['kind'])
		s3, s1, s2, s4 = f3.result(), f1.result(), f2.result(), f4.result()
	s4.note = ("the export of every in-memory module (and once of the library module `classes`) written as persistent.py writes it: json.dumps(rows, separators=(',', ':')) vs model "
		'writeText byte for byte, json.loads of the text vs model readText')
	s3.cases = max(s3.cases, sum(inv_hist.values()))
	s3.histogram = {**s3.histogram, **dict(inv_hist)}
	s3.disagreements += [{'case': n, 'real': 'order law fails', 'model': 'Loaded holds, so C14.order forbids it'} for n in inv_broken]
	s3.note = 'the whole loaded table is sent to the driver and `Loaded` / `SymOK` are evaluated by their Lean definitions (compiled), compared with the harness evaluation; '
	s3.note += 'hypotheses of C14.rt (SymOK), C14.order (Loaded: closed, class keys, acyclic class entries, via) and C14.rt_exact (ViaOK) evaluated on each real table; a Loaded table whose export violates the order law would contradict the theorem (model ≠ code)'
	res.note = ('programs tranp cannot type (load or attribute resolution raises) are outside the domain and counted under load:*:unsupported; '
		'empty modules (no symbol) are not asked to be `completed`: import_json marks a module only when it imports one of its keys (db.py:176-180)')
	s1.note = f'real ReflectionSerializer.serialize on every symbol of each in-memory module of generated / fixed programs and of real modules (with their dependencies) vs model serialize; load statistics {dict(stats)}'
	s2.note = 'real SymbolDB._order_keys(module) and _order_keys(None) on the loaded tables vs model orderKeys on the skeleton (key, types.fullyname, attribute forest)'
	return [s1, s2, s3, s4], res


# ---------------------------------------------------------------------------------------------


STATEMENTS = {
	'C14.expand_eq_flatten': 'seqs.expand on an attribute forest (dict merges, accumulated paths) is the pre-order listing flatten f',
	'C14.path_codec': "decoding the dotted decimal spelling of a non-empty index path gives the path back; its number of '.' is the depth",
	'C14.sort_spec': 'the depth sort is a permutation, ordered by depth and stable (= Python sorted with that key)',
	'C14.attrs_rt': 'for every forest f (any width, any depth) whose keys the table holds as self-typed entries and whose leaves have attribute-less entries: _deserialize_attrs on the export of f succeeds and shows f',
	'C14.flatten_order': 'the groups of the scan over the depth-sorted paths of flatten f concatenate to the list, each has one parent path, and no parent occurs twice (same-parent paths are consecutive)',
	'C14.completed': 'after import_json every module that owns an imported key counts as completed',
	'C14.import_idem': 'importing the same rows twice gives the table of importing them once, when no row refers to its own or a later key',
	'C14.export_rows': 'to_json(M), M non-empty: one row per key of M, distinct keys in _order_keys order, each row = serialize of the table entry, all keys of M present',
	'C14.rt': 'export of module M, import into the table of the other modules: succeeds, every key of M is restored with the same types / node / decl / attribute forest, M is completed — under SymOK (entry well-formedness) and the order law',
	'C14.order_statement (def)': 'for every Loaded table (references are keys, in-module type keys are class symbols, class symbols do not refer to themselves through their attributes, via is another module\'s key or an own type key) and non-empty module: no exported row refers to a key of the module that is not exported earlier',
	'C14.order': 'order_statement is a theorem for _order_keys_recursive after fix 95feeba (fuel = number of table keys + 1 is shown sufficient under the rank hypothesis)',
	'C14.rt_loaded': 'SymOK + Loaded alone give: import succeeds, restores every key of M, completes M, and a second import changes nothing',
	'C14.dsn_rt': 'ModuleDSN.parsed(ModuleDSN.full_joined(module, path)) = (module, path) and the module of the key is that module, for a non-empty module path when neither part contains # (guard checked on every real node by the search)',
	'C14.import_attrs_counterexample': 'a serialize that writes no attributes for import entries restores an imported G[int] variable as G[T] (regression of a seeded mutation; the positive example beside it is an instance of rt)',
	'C14.import_pop_counterexample': 'an import that consumes the attribute paths of its input leaves rows that import to other entries (regression of a seeded mutation; import_idem is the positive statement)',
	'C14.export_history_independent': 'to_json is a function of the entries of the table alone (not of the completed marks; the model has no other state): same entries, same rows',
	'C14.state_is_modelled': 'GENERATED from the AST of db.py / serializer.py on every run: SymbolDB has exactly __paths, __items, __completed; __paths and __items are written by the same methods; only __setitem__, on_complete, unload, import_json write fields; _order_keys_recursive changes only its two out-parameters; the serializer writes no field and changes no argument in place (a memo / cache / consumed argument breaks the translator or this theorem)',
	'C14.row_schema_generated': "GENERATED from the AST of serializer.py / sequence.py on every run: serialize writes the class tag and exactly the fields of the model's two row shapes, deserialize reads exactly those back, each value is the expression the model cites (DSNs, origin = types.fullyname, via = via.types.fullyname, attrs over seqs.expand), the class test, the via choice, the depth sort key and the flattening guard are the ones modelled (a row key added / dropped / renamed, another sort key or guard breaks the translator or this theorem)",
	'C14.order_guards_generated': 'GENERATED from the AST of db.py on every run: the tests of _order_keys / _order_keys_recursive (module filter, the cycle guard `key in self.__items and key not in resolving` = membership in the set of keys under expansion, the final `key not in orders`), the writes to resolving / orders, the recursive calls and the two loops are the ones the model orderNode / entryFirst implements (C14.order and C14.order_fuel are theorems about exactly this walk)',
	'C14.groups_by_parent_path': 'the grouping scan of _deserialize_attrs is the scan whose "same group" test is equality of the parent INDEX PATHS (own_path != next_own_path on the joined components)',
	'C14.text_prefix_grouping_counterexample': 'index strings compared as text are another function: parent "1" is a text prefix of "10.0", so with eleven slots of which slots 1 and 10 carry type arguments the two child groups merge (slot 1 gets the arguments of slot 10, slot 10 none), while the modelled scan restores the forest (regression of a seeded mutation; flatten_order is the positive statement)',
	'C14.export_paths_canonical': 'every key of an exported attrs dict is a non-empty path whose dotted spelling consists of canonical decimals and decodes to the path',
	'C14.canonical_roundtrip': 'on canonical decimals (ASCII digits, no sign, no leading zero) int and str are inverse',
	'C14.import_frame': 'import_json changes no entry under a key it is not given a row for (entries of the other modules) and removes none',
	'C14.rt_exact': 'under SymOK, the order law and ViaOK (a class entry is its own via; a via key names an entry of that very type): after export of M and import into the table of the other modules EVERY key has exactly the entry it had — types, node, decl, via, attribute forest — and each restored entry serializes to the row it was imported from (a second export writes the same rows)',
	'C14.rt_loaded_exact': 'rt_exact with the order law supplied by C14.order from Loaded',
	'C14.rt_unload_exact': 'the application path: unload(M) (db.py:144-156) gives the table of the other modules, and importing the export of M into it restores every key exactly and completes the modules of the imported keys — for every Loaded table with SymOK and ViaOK',
	'C14.text_rt': "for every row list with non-empty index paths, whatever characters keys and DSNs contain: json.loads of json.dumps(rows, separators=(',', ':')), taken apart by key the way deserialize reads a row, is the rows",
	'C14.export_text_rt': 'for every export of a module: the written text reads back as the exported rows, is pure ASCII (utf-8 encoding is the identity), and no object in it has a repeated key (row keys and the path keys of each row are pairwise distinct: dict = list of pairs)',
	'C14.rt_text_exact': 'export → text → json.loads → import into the unloaded table, end to end: succeeds and every key has exactly its old entry again, for every Loaded table with SymOK and ViaOK',
	'C14.shipped_rt_text': 'the same end-to-end statement for the shipped library modules, without hypotheses',
	'C14.shipped_via': 'ViaOK holds for every module of the GENERATED library table — decided by the kernel',
	'C14.shipped_rt_exact': 'for the shipped library modules, without hypotheses: the table after export and import is the table before, key by key and field by field (via included), and a second export writes the same rows',
	'C14.shipped_invariants': 'for every module of the GENERATED library table (translate/gen_symbol_tables.py, re-generated from the real SymbolDB on every run): Loaded and SymOK hold — decided by the kernel',
	'C14.shipped_rt': 'for those shipped library modules, without hypotheses: whatever to_json exports is imported without error, restores every entry, completes the module, and a second import changes nothing',
	'C14.order_fuel': 'fuel sufficiency for EVERY table (also self-/mutually-referring class entries): any fuel ≥ number of keys + 1 gives the same walk — resolving is duplicate-free and inside the keys (pigeonhole)',
	'C14.importable_acyclic': 'rows importable in the listed order carry a rank that decreases along every reference between them',
	'C14.cyclic_unimportable': 'two rows that refer to each other cannot be imported in any order: the acyclicity hypothesis of C14.order is necessary',
	'C14.rebuild_isolated': '_deserialize_attrs on a prefix-closed dict never walks into (never extends in place) an attribute object of a table entry: the out-of-model case is unreachable',
	'C14.export_prefixClosed': 'what serialize writes is prefix-closed',
	'C14.deserialize_isolated': 'deserialize of any exported row, against any table, never reaches the out-of-model case',
	'C14.expand_shared': 'seqs.expand on objects with identity (one object in several slots) = expand of what they show: shared sub-forests are exported once per slot',
	'C14.attrs_rt_shared': 'attrs_rt for DAG-shaped forests: import rebuilds a tree that shows the same forest',
	'C14.visited_counterexample': 'expand with a visited-set of object ids loses the children of the second slot of a shared object; the import then shows another forest (regression of a seeded mutation)',
	'C14.to_temporary_isolated': 'to_temporary shows the same forest, consists of new objects at every depth, and no sequence of writes into the copy (seqs.update slots) changes the entry',
	'C14.shallow_temporary_counterexample': 'a copy that shares attributes without a type variable among their direct children leaks a depth-3 write into the entry (regression of a seeded mutation)',
}


def run(ctx: Ctx) -> int:
	translate_ok, translate_msg = True, ''
	try:
		from translate import gen_symbol_rows, gen_symbol_state, gen_symbol_tables
		with time_limit(240):
			ctx.generated_tables.extend(gen_symbol_state.generate())
			ctx.generated_tables.extend(gen_symbol_rows.generate())
			ctx.generated_tables.extend(gen_symbol_tables.generate())
	except CaseTimeout:
		translate_ok, translate_msg = False, 'translators gen_symbol_state / gen_symbol_tables: loading the library modules takes more than 240s'
	except Exception as e:  # noqa: BLE001
		translate_ok, translate_msg = False, f'translator gen_symbol_state / gen_symbol_rows / gen_symbol_tables: {type(e).__name__}: {exc_text(e)}'
	proof = common.prove(ctx, PROP, leanchecker=ctx.thorough)
	with ctx.timed('correspondence'):
		streams = [stream_expand_stub(ctx), stream_identity_stub(ctx), stream_dsn(ctx), stream_rebuild_stub(ctx), stream_order_stub(ctx), stream_table_stub(ctx), stream_rows_text(ctx)]
	with ctx.timed('real_pass(correspondence+search)'):
		real_streams, law = real_pass(ctx)
	streams += real_streams
	with ctx.timed('search_stub'):
		searches = [law, search_stub_laws(ctx)]
	return common.finish(ctx, proof, streams, searches,
		translate_ok=translate_ok, translate_msg=translate_msg,
		statements=STATEMENTS,
		partial={
			'proved': 'attribute flattening / rebuilding round trip for every forest; grouping fact; import idempotence; completed; table round trip under SymOK; the export-order law for every Loaded table (repaired algorithm); the exact round trip (every field incl. via, every key incl. the other modules, re-export writes the same rows) under SymOK + Loaded + ViaOK',
			'correspondence_only': 'loaded tables other than the generated library sub-table satisfy SymOK, Loaded and ViaOK (evaluated on every real table by a harness paraphrase and, for a sample, by the Lean definitions themselves in the compiled driver: stream invariants-real); the library module `classes` (338 entries, left out of the generated table: too slow for the kernel) is evaluated as M by the compiled driver once per run; non-prefix-closed dicts against entries with attributes (walk into a shared entry) stay outside the model',
			'text_level': 'the JSON text form is modelled (C15 printJson / parseJson, tied to CPython json by streams rows-text and rows-text-real) and the text round trip is a theorem (text_rt, export_text_rt, rt_text_exact); outside the model: white space, floats, objects with a repeated key (an export writes none: export_text_rt)',
		},
		assumptions=[
			"the importer is modelled on canonical decimal path components only (C14.export_paths_canonical: the exporter writes nothing else; C14.canonical_roundtrip: int / str are inverse there); other spellings int() accepts ('01', '+1', ' 1', '1_0') occur in hand-written JSON only and are never generated",
			'node module paths are non-empty and module path / full path contain no # (the guard of C14.dsn_rt; checked on every real node by the search, finding key dsn:not-round-trip)',
			'entrypoints return the same node for the same DSN (known/isClassDef/isDecl/fullyname are functions of the DSN)',
		],
		trusted=['the observable attribute forest of a reflection is read through .types.fullyname and .attrs by a harness walk written independently of seqs.expand'])


def replay(ctx: Ctx, path: str) -> int:
	with open(path, encoding='utf-8') as f:
		rec = json.load(f)
	print(json.dumps(rec, indent=1, ensure_ascii=False)[:6000])
	inp = rec.get('input', rec)
	if inp.get('sources'):
		app = MultiApp(ctx.tmpdir())
		try:
			app.load(inp['sources'], inp['entry'])
		except Exception as e:  # noqa: BLE001
			print(f'replay: the program no longer loads: {exc_enum(e)}: {exc_text(e, 200)}')
			print(f'VIOLATION property={PROP} replay={path}')
			ctx.cleanup()
			return 1
		findings = check_module(Loaded(inp.get('program', 'replay'), app, 'replay', inp['sources'], inp['entry']), inp.get('module', inp['entry']))
		for fnd in findings:
			print(f'replay: {fnd.key}: {fnd.what}')
		known = {k['key'] for k in common.load_known(PROP) if k.get('status') == 'known'}
		bad = [fnd for fnd in findings if fnd.key not in known]
		if bad:
			print(f'VIOLATION property={PROP} replay={path}')
		ctx.cleanup()
		return 1 if bad else 0
	ctx2 = Ctx(PROP, rec.get('tier', 'quick'), int(rec.get('seed', 0)))
	return run(ctx2)
