"""C08 — Consistent renaming of user identifiers commutes with transpilation.

Theorems: lean/Tranp/Props/C08.lean over lean/Tranp/Model/Scope.lean (abstract layer: names are an abstract type) and
lean/Tranp/Model/ScopeStr.lean (string layer: the joined `module#a.b` strings the Python works on).
Tie: correspondence streams between the real `ModuleDSN` / `Node.scope|namespace|fullyname` / `SymbolFinder` /
`VarsCollector` and BOTH model layers (driver family `scope`).
Search: the property's own metamorphic oracle on the real code — `transpile(r(P)) == r(transpile(P))`, the same for the
symbol-table keys and the inferred type strings — for generated programs and injective renamings into adversarial fresh
names; sibling-scope independence; agreement of every variable reference with CPython's symtable. corpus/C08 holds the
witnesses of the three defects repaired in /repo (4e765ba, c8f2d33, 526fc7c) and of two seeded mutation classes: all must pass.
"""
from __future__ import annotations

import json
import os
import random
import types as pytypes
from collections import Counter
from typing import Any

from harness import c08gen, common
from harness.common import Ctx, Finding, SearchResult, Stream, exc_enum, hx

PROP = 'C08'
CORPUS = os.path.join(common.CORPUS_DIR, PROP)


# ---------------------------------------------------------------------------------------------
# budgets: no real-code call may hang the check, no loop may run past its wall deadline (cut = a count in the evidence, never a finding)


class CaseTimeout(Exception):
	"""one real-code evaluation ran longer than its budget (typical cost: milliseconds to a second)"""


CASE_BUDGET_S = 45.0


class budget:
	"""`with budget(seconds):` raises CaseTimeout in the main thread when the body runs longer. The timer repeats, so real code
	that swallows the first CaseTimeout in a broad `except` is interrupted again. A no-op outside the main thread."""

	def __init__(self, seconds: float = CASE_BUDGET_S) -> None:
		self.seconds = seconds
		self.armed = False

	def __enter__(self) -> 'budget':
		import signal
		import threading
		if threading.current_thread() is threading.main_thread() and hasattr(signal, 'setitimer'):
			def on_alarm(signum: int, frame: Any) -> None:
				raise CaseTimeout(f'no result within {self.seconds:.0f}s')
			import time
			self.old = signal.signal(signal.SIGALRM, on_alarm)
			self.prev = signal.setitimer(signal.ITIMER_REAL, self.seconds, 5.0)
			self.t0 = time.time()
			self.armed = True
		return self

	def __exit__(self, *a: Any) -> bool:
		import signal
		if self.armed:
			signal.setitimer(signal.ITIMER_REAL, 0)
			signal.signal(signal.SIGALRM, self.old)
			if self.prev[0] > 0:   # nested use: give the enclosing budget what is left of its time
				import time
				signal.setitimer(signal.ITIMER_REAL, max(0.05, self.prev[0] - (time.time() - self.t0)), self.prev[1])
		return False


def budgeted(items: Any, seconds: float = CASE_BUDGET_S) -> Any:
	"""`for x in budgeted(xs):` — every loop body runs under its own budget (armed before the item is handed out, disarmed when
	the loop asks for the next one)."""
	for x in items:
		b = budget(seconds)
		b.__enter__()
		try:
			yield x
		finally:
			b.__exit__()


class Deadline:
	"""total wall budget of one stream / search: generation stops when it is used up and the number of cases that were not
	run is recorded in the histogram (`deadline-cut`); nothing is concluded from a cut."""

	def __init__(self, ctx: Ctx, quick_s: float, thorough_s: float) -> None:
		import time
		self.t_end = time.time() + (thorough_s if ctx.thorough else quick_s)

	def cut(self, hist: Any, done: int, planned: int) -> bool:
		import time
		if time.time() < self.t_end:
			return False
		hist['deadline-cut(cases not run)'] += max(planned - done, 1)
		return True


def guarded_stream(ctx: Ctx, name: str, fn: Any) -> Stream:
	"""Safety net: a stream that dies (an exception type / result shape of the real code the stream did not foresee, a real call
	over its budget) is a broken tie with the traceback as its disagreement — not a crash of the check."""
	import traceback
	try:
		with ctx.timed(f'stream:{name}'), budget(ctx.scale(400, 1500)):
			return fn(ctx)
	except common.InfraError:
		raise
	except Exception as e:  # noqa: BLE001
		st = Stream(name)
		st.disagreements.append({'case': 'stream aborted', 'real': exc_enum(e), 'model': '-', 'traceback': traceback.format_exc()[-1500:]})
		return st


def guarded_search(ctx: Ctx, label: str, fn: Any) -> SearchResult:
	"""Safety net for a search: an unforeseen exception while evaluating a law on the real code is reported as a finding."""
	import traceback
	try:
		with ctx.timed(f'search:{label}'), budget(ctx.scale(600, 2400)):
			return fn(ctx)
	except common.InfraError:
		raise
	except Exception as e:  # noqa: BLE001
		res = SearchResult(f'{label} (ABORTED)')
		res.findings.append(Finding(key=f'search-aborted:{label}:{exc_enum(e)}', what=f'the {label} search died with {exc_enum(e)}: {str(e)[:200]}',
			replay={'origin': label, 'traceback': traceback.format_exc()[-1500:]}))
		return res


# ---------------------------------------------------------------------------------------------
# real-code plumbing


def make_app(cache_dir: str) -> common.MemApp:
	"""In-memory App with the DI definitions of tests/unit/rogw/tranp/implements/cpp/transpiler/test_py2cpp.py."""
	from rogw.tranp.app.dir import tranp_dir
	from rogw.tranp.app.dummy import make_dummy_module_meta_factory
	from rogw.tranp.data.meta.types import ModuleMetaFactory
	from rogw.tranp.i18n.i18n import I18n, TranslationMapping
	from rogw.tranp.implements.cpp.providers.i18n import translation_mapping_cpp
	from rogw.tranp.implements.cpp.providers.view import renderer_helper_provider_cpp
	from rogw.tranp.implements.cpp.transpiler.py2cpp import Py2Cpp
	from rogw.tranp.lang.middleware import Middleware
	from rogw.tranp.lang.module import to_fullyname
	from rogw.tranp.transpiler.types import TranspilerOptions
	from rogw.tranp.view.render import Renderer, RendererEmitter, RendererHelperProvider, RendererSetting

	def make_renderer_setting(i18n: I18n, emitter: RendererEmitter) -> RendererSetting:
		template_dirs = [os.path.join(tranp_dir(), 'data/cpp/template')]
		env = {'immutable_param_types': ['std::string', 'std::vector', 'std::map', 'std::function']}
		return RendererSetting(template_dirs, i18n.t, emitter, env)

	# tranp's DI reads real annotation objects; this module uses postponed (string) annotations
	make_renderer_setting.__annotations__ = {'i18n': I18n, 'emitter': RendererEmitter, 'return': RendererSetting}

	return common.MemApp(cache_dir, {
		to_fullyname(Py2Cpp): Py2Cpp,
		to_fullyname(Renderer): Renderer,
		to_fullyname(RendererEmitter): Middleware,
		to_fullyname(RendererHelperProvider): renderer_helper_provider_cpp,
		to_fullyname(RendererSetting): make_renderer_setting,
		to_fullyname(TranslationMapping): translation_mapping_cpp,
		to_fullyname(TranspilerOptions): lambda: TranspilerOptions(verbose=False, env={}),
		to_fullyname(ModuleMetaFactory): make_dummy_module_meta_factory,
	})


class Real:
	"""One real tranp App; every observation reloads `__main__` from the given source."""

	def __init__(self, ctx: Ctx) -> None:
		self.ctx = ctx
		self.app = make_app(ctx.tmpdir())
		self._reserved: c08gen.Reserved | None = None

	def fresh(self) -> 'Real':
		return Real(self.ctx)

	def load(self, source: str) -> Any:
		with budget():
			return self.app.module(source)

	def db(self) -> Any:
		from rogw.tranp.semantics.reflection.db import SymbolDB
		return self.app.resolve(SymbolDB)

	def reserved(self) -> c08gen.Reserved:
		"""Reserved words = keywords + builtins + tranp's own words; the library part is read off the real symbol table."""
		if self._reserved is None:
			self.load('from typing import ClassVar\nfrom enum import Enum\n')
			from rogw.tranp.dsn.module import ModuleDSN
			names: set[str] = set()
			for key in self.db().keys():
				mod, elems = ModuleDSN.expanded(key)
				if mod != self.app.main:
					names.update(e.split('@')[0] for e in elems)
			self._reserved = c08gen.Reserved(names)
			try:
				from translate import gen_c08_names
				self._reserved.allow_member_words(gen_c08_names.member_words())
			except Exception:  # noqa: BLE001 - the translator's failure is reported by translate(); without the table no member spelling is planted
				pass
		return self._reserved

	def observe(self, source: str, with_types: bool = True) -> dict[str, Any]:
		"""Transpile and collect output text, symbol keys of the program's module (in table order) and type strings."""
		import rogw.tranp.syntax.node.definition as defs
		from rogw.tranp.implements.cpp.transpiler.py2cpp import Py2Cpp
		from rogw.tranp.semantics.reflections import Reflections
		obs: dict[str, Any] = {'out': None, 'error': None, 'keys': [], 'types': {}}
		try:
			with budget():
				module = self.load(source)
				out = self.app.resolve(Py2Cpp).transpile(module.entrypoint)
			if not isinstance(out, str):
				raise TypeError(f'transpile returned {type(out).__name__}, not text')
			obs['out'] = out
		except Exception as e:  # noqa: BLE001 - includes CaseTimeout: the transpiler did not come back
			obs['error'] = exc_enum(e)
			obs['message'] = str(e)[:300]
			return obs
		try:
			with budget():
				main = self.app.main
				db = self.db()
				obs['keys'] = [str(k) for k in db.keys() if k == main or str(k).startswith(f'{main}#')]
				if with_types:
					reflections = self.app.resolve(Reflections)
					tys: dict[str, str] = {}
					for k in obs['keys']:
						try:
							tys[f'key:{k}'] = str(reflections.from_fullyname(k))
						except CaseTimeout:
							raise
						except Exception as e:  # noqa: BLE001
							tys[f'key:{k}'] = exc_enum(e)
					for node in module.entrypoint.procedural():
						if isinstance(node, (defs.Declable, defs.Var, defs.Relay, defs.FuncCall, defs.Indexer)):
							try:
								tys[f'node:{node.full_path}'] = str(reflections.type_of(node))
							except CaseTimeout:
								raise
							except Exception as e:  # noqa: BLE001
								tys[f'node:{node.full_path}'] = exc_enum(e)
					obs['types'] = tys
		except Exception as e:  # noqa: BLE001 - reading the symbol table / the types of a program that transpiled must not fail either
			obs['error'] = f'after-transpile:{exc_enum(e)}'
			obs['message'] = str(e)[:300]
		return obs


# ---------------------------------------------------------------------------------------------
# search: the metamorphic law on the real code


def compare(base: dict[str, Any], renamed: dict[str, Any], mapping: dict[str, str]) -> tuple[str, str] | None:
	"""None when `renamed` is exactly `base` with the renaming applied; else (aspect, explanation)."""
	if renamed['error'] is not None:
		return 'error', f"transpile(r(P)) raises {renamed['error']}: {renamed.get('message', '')[:160]}"
	want = c08gen.rename_text(base['out'], mapping)
	if want != renamed['out']:
		a, b = want.splitlines(), renamed['out'].splitlines()
		for i in range(max(len(a), len(b))):
			la = a[i] if i < len(a) else '<eof>'
			lb = b[i] if i < len(b) else '<eof>'
			if la != lb:
				return 'diff', f'output line {i + 1}: r(transpile(P)) has {la.strip()!r}, transpile(r(P)) has {lb.strip()!r}'
	want_keys = [c08gen.rename_text(k, mapping) for k in base['keys']]
	if want_keys != renamed['keys']:
		if sorted(want_keys) == sorted(renamed['keys']):
			return 'key-order', 'symbol keys agree as a set but not in table order'
		d = sorted(set(want_keys) ^ set(renamed['keys']))
		return 'keys', f'symbol keys differ: {d[:4]}'
	want_types = {c08gen.rename_text(k, mapping): c08gen.rename_text(v, mapping) for k, v in base['types'].items()}
	if want_types != renamed['types']:
		for k in want_types:
			if want_types[k] != renamed['types'].get(k):
				return 'types', f'inferred type of {k}: r(.)={want_types[k]!r} vs {renamed["types"].get(k)!r}'
		return 'types', 'different sets of typed nodes'
	return None


def check_pair(real: Real, source: str, mapping: dict[str, str], base: dict[str, Any] | None = None) -> tuple[str, str] | None | str:
	"""Runs the law for one (P, r). Returns 'skip' when P itself is outside tranp's input language."""
	base = base if base is not None else real.observe(source)
	if base['error'] is not None:
		return 'skip'
	renamed_src = c08gen.rename_source(source, mapping)
	return compare(base, real.observe(renamed_src), mapping)


def legal_renaming(source: str, mapping: dict[str, str], reserved: c08gen.Reserved) -> bool:
	"""The oracle's domain: r is injective, touches only renamable user identifiers, and maps them to fresh names."""
	domain = c08gen.renaming_domain(source, reserved)
	idents = set(c08gen.IDENT_RE.findall(source))
	if not mapping or len(set(mapping.values())) != len(mapping):
		return False
	for a, b in mapping.items():
		if a not in domain or b in idents or not reserved.fresh_ok(b, a, domain[a]):
			return False
	return True


def shrink_renaming(real: Real, source: str, mapping: dict[str, str], base: dict[str, Any]) -> tuple[dict[str, str], tuple[str, str]]:
	"""Smallest sub-renaming that still violates the law (singletons first, then greedy removal)."""
	for n in sorted(mapping):
		one = {n: mapping[n]}
		res = check_pair(real, source, one, base)
		if isinstance(res, tuple):
			return one, res
	cur = dict(mapping)
	last = check_pair(real, source, cur, base)
	for n in sorted(mapping):
		if len(cur) <= 1:
			break
		cand = {k: v for k, v in cur.items() if k != n}
		res = check_pair(real, source, cand, base)
		if isinstance(res, tuple):
			cur, last = cand, res
	assert isinstance(last, tuple)
	return cur, last


def finding_of(real: Real, source: str, mapping: dict[str, str], base: dict[str, Any], origin: str) -> Finding:
	small, (aspect, why) = shrink_renaming(real, source, mapping, base)
	idents = set(c08gen.IDENT_RE.findall(source))
	kinds = c08gen.user_identifiers(source)
	rels = sorted({c08gen.relation_of(b, idents - {a}) for a, b in small.items()})
	# aspect class: `output` = the emitted text differs or transpile(r(P)) fails; `symbols` = only keys / type strings differ
	key = f"{'+'.join(rels)}:{'output' if aspect in ('error', 'diff') else 'symbols'}"
	what = f"renaming {small} ({', '.join(f'{a}: {kinds.get(a)}' for a in small)}) changes the result: {why}"
	return Finding(key=key, what=what, replay={'origin': origin, 'source': source, 'renaming': small, 'full_renaming': mapping, 'aspect': aspect, 'why': why})


def corpus_cases() -> list[dict[str, Any]]:
	out = []
	if os.environ.get('C08_NO_CORPUS') == '1':   # generator-only runs (used to confirm that seeded mutations are found without the corpus)
		return out
	if os.path.isdir(CORPUS):
		for fn in sorted(os.listdir(CORPUS)):
			if fn.endswith('.json'):
				with open(os.path.join(CORPUS, fn), encoding='utf-8') as f:
					rec = json.load(f)
				rec['file'] = fn
				out.append(rec)
	return out


def program_stream(ctx: Ctx, rng: random.Random, n: int):
	"""(origin, source, histogram-tag): the nest generator of this property and the typed generator of C01."""
	try:
		from harness import gen_prog
	except Exception:  # noqa: BLE001
		gen_prog = None  # type: ignore
	for i in range(n):
		if gen_prog is not None and i % 4 == 3:
			try:
				p, _ = gen_prog.generate(random.Random(rng.getrandbits(48)), size=2)
				yield f'gen_prog#{i}', gen_prog.print_prog(p), 'gen_prog'
				continue
			except Exception:  # noqa: BLE001
				pass
		src, _ = c08gen.generate_nest(random.Random(rng.getrandbits(48)), 1 + i % 2 if not ctx.thorough else 1 + i % 3)
		yield f'nest#{i}', src, 'nest'


def search_rename(ctx: Ctx) -> SearchResult:
	rng = ctx.sub_rng('rename')
	res = SearchResult('transpile(r(P)) == r(transpile(P)), same for symbol keys and inferred type strings (real code only)')
	real = Real(ctx)
	reserved = real.reserved()
	hist: Counter[str] = Counter()
	seen: set[str] = set()
	found_keys: set[str] = set()

	# 1. corpus: defect witnesses and past disagreements, replayed first
	for rec in corpus_cases():
		if rec.get('kind') != 'rename':
			continue
		src, mapping = rec['source'], rec['renaming']
		res.cases += 1
		hist['corpus'] += 1
		if not legal_renaming(src, mapping, reserved):
			ctx.notes.append(f"corpus {rec['file']}: renaming is outside the oracle's domain on this tree (ignored)")
			continue
		base = real.observe(src)
		r = check_pair(real, src, mapping, base)
		if isinstance(r, tuple):
			f = finding_of(real, src, mapping, base, f"corpus/{rec['file']}")
			if rec.get('key'):
				f.key = rec['key']   # a corpus witness of a reported defect carries the key of its proposal
			if f.key not in found_keys:
				found_keys.add(f.key)
				res.findings.append(f)

	corpus_findings = len(res.findings)   # the cap on shrinking below counts generated findings only

	# 2. generated programs × adversarial renamings
	n_prog = ctx.scale(20, 110)
	per_prog = ctx.scale(3, 5)
	deadline = Deadline(ctx, 50, 480)
	for n_done, (origin, src, tag) in enumerate(program_stream(ctx, rng, n_prog)):
		if deadline.cut(hist, n_done, n_prog):
			break
		try:
			domain = c08gen.renaming_domain(src, reserved)
		except SyntaxError:
			continue
		base = real.observe(src)
		if base['error'] is not None:
			hist[f'{tag}:outside-input-language' if 'CaseTimeout' not in base['error'] and not base['error'].startswith('after-transpile') else f"{tag}:P-not-observed:{base['error']}"] += 1
			continue
		idents = set(c08gen.IDENT_RE.findall(src))
		ties = c08gen.structural_peers(src)
		try:
			pairs = c08gen.meeting_pairs(src)
		except Exception:  # noqa: BLE001
			pairs = []
		for j in range(per_prog):
			# first renaming of a program renames everything; the second and third build their new names from OTHER identifiers of the same
			# kind (prefix + existing, existing + suffix: Box.Item -> Box.BoxItem, CRIMSON -> DARK_RED); the rest are free
			related = j in (1, 2)
			how = len(domain) if j == 0 else (rng.choice([1, 1, 2, 3]) if related else None)
			mapping = {}
			if j == 0 and n_done % 2 == 1:
				# every other program: the renaming of everything REVERSES the alphabetical order of the identifiers of every kind
				mapping = c08gen.reverse_order_renaming(domain, idents, reserved)
				if mapping:
					hist['renaming:order-reversing(all kinds)'] += 1
			if j == 2 and pairs:
				# one identifier of every kind of MEETING pair renamed into a spelling related to its partner (prefix / suffix / infix / case / joined)
				mapping, _ = c08gen.pair_renaming(rng, pairs, domain, idents, reserved, rng.randrange(c08gen.PAIR_COMBOS))
				if mapping:
					hist['renaming:related-to-a-meeting-partner'] += 1
			if not mapping:
				mapping = c08gen.make_renaming(rng, domain, idents, reserved, how, related=related, ties=ties)
			if not mapping:
				continue
			assert legal_renaming(src, mapping, reserved), mapping
			res.cases += 1
			sig = f'{hash(src)}:{sorted(mapping.items())}'
			seen.add(sig)
			hist[f'{tag}:|r|={min(len(mapping), 9) if len(mapping) < len(domain) else "all"}'] += 1
			if related:
				hist['renaming:built-from-same-kind-identifiers'] += 1
			for b_name in mapping.values():
				hist[f'fresh:{c08gen.relation_of(b_name, idents)}'] += 1
			for a_name in mapping:
				hist[f'kind:{domain[a_name]}'] += 1
			r = check_pair(real, src, mapping, base)
			if isinstance(r, tuple) and len(res.findings) - corpus_findings >= ctx.scale(2, 3):
				hist['violations-not-shrunk(findings already reported)'] += 1
			elif isinstance(r, tuple):
				# history independence of the verdict: confirm on a fresh App before reporting
				again = Real(ctx)
				if not isinstance(check_pair(again, src, mapping), tuple):
					ctx.notes.append(f'{origin}: disagreement not reproduced on a fresh App (session history) — not reported here (C04)')
					continue
				f = finding_of(again, src, mapping, again.observe(src), origin)
				if f.key not in found_keys:
					found_keys.add(f.key)
					res.findings.append(f)
			elif len(res.samples) < 2:
				res.samples.append({'origin': origin, 'renaming': dict(list(mapping.items())[:4]), 'output_lines': len(base['out'].splitlines()), 'keys': len(base['keys']), 'typed_nodes': len(base['types'])})
	# 3. member spellings: user members renamed INTO the words py2cpp.py compares member names with (generated table, this run)
	try:
		from translate import gen_c08_names
		word_sets: list[list[str]] = []
		for row in gen_c08_names.scan():
			ws = sorted(w for w in row['words'] if w in reserved.member_words)
			if row['role'] == 'member' and ws and ws not in word_sets:
				word_sets.append(ws)
	except Exception as e:  # noqa: BLE001 - reported by translate(); nothing to plant without the table
		word_sets = []
		ctx.notes.append(f'member-spelling programs not generated: name table unavailable ({type(e).__name__})')
	all_words = sorted({w for ws in word_sets for w in ws})
	avoid = c08gen.emitter_vocabulary() | reserved.words
	rounds = ctx.scale(1, 3)
	spell_deadline = Deadline(ctx, 25, 240)
	spell_findings = 0
	for n_done, (rnd, focus) in enumerate((a, ws) for a in range(rounds) for ws in word_sets):
		if spell_deadline.cut(hist, n_done, rounds * len(word_sets)):
			break
		prng = random.Random(rng.getrandbits(48))
		src, slots = c08gen.generate_spelling(prng, avoid=avoid)
		base = real.observe(src)
		if base['error'] is not None:
			hist[f"spelling:P-not-observed:{base['error']}"] += 1
			continue
		idents = set(c08gen.IDENT_RE.findall(src))
		pool = [w for w in focus if w not in idents]
		prng.shuffle(pool)
		rest = [w for w in all_words if w not in idents and w not in pool]
		prng.shuffle(rest)
		# the members that `for` statements and comprehensions iterate get the words of the focus site first; then every slot
		iterated = ['pairs', 'nums']
		prng.shuffle(iterated)
		others = ['calc', 'text', 'field']
		prng.shuffle(others)
		two = dict(zip((slots[sl] for sl in iterated), pool + rest))
		# … and in the renaming of all five members the field / the called methods come first (a one-word set lands on them)
		full = dict(zip((slots[sl] for sl in others + iterated), pool + rest))
		single = dict([prng.choice(list(full.items()))])
		for mapping in ((two, full, single) if ctx.thorough else (two, full)):
			if not mapping or not legal_renaming(src, mapping, reserved):
				hist['spelling:renaming-outside-domain'] += 1
				continue
			res.cases += 1
			seen.add(f'{hash(src)}:{sorted(mapping.items())}')
			hist[f'spelling:|r|={len(mapping)}'] += 1
			for w in mapping.values():
				hist['fresh:member-spelling-of-the-generated-table'] += 1
			r = check_pair(real, src, mapping, base)
			if isinstance(r, tuple) and spell_findings < 2:
				again = Real(ctx)
				if not isinstance(check_pair(again, src, mapping), tuple):
					ctx.notes.append(f'spelling#{n_done}: disagreement not reproduced on a fresh App (session history) — not reported here (C04)')
					continue
				f = finding_of(again, src, mapping, again.observe(src), f'spelling#{n_done}')
				special = sorted(w for w in f.replay['renaming'].values() if w in reserved.member_words)
				f.key = f"member-spelling:{'+'.join(special) or 'none'}:{f.key.rsplit(':', 1)[-1]}"
				f.what = 'a user member renamed into a spelling py2cpp.py compares member names with: ' + f.what
				spell_findings += 1
				if f.key not in found_keys:
					found_keys.add(f.key)
					res.findings.append(f)
			elif isinstance(r, tuple):
				hist['violations-not-shrunk(findings already reported)'] += 1
	# 4. meeting pairs: programs in which user identifiers stand where tranp may hold two names against each other (outer variable x
	#    variable first assigned in a nested block, lambda / closure parameter x captured variable, loop variable x outer variable,
	#    parameter x local, function x local, class x member, member x member); every shape of relation in both directions
	pair_deadline = Deadline(ctx, 35, 300)
	pair_findings = 0
	n_pair_prog = ctx.scale(2, 12)
	for n_done in range(n_pair_prog):
		if pair_deadline.cut(hist, n_done, n_pair_prog):
			break
		prng = random.Random(rng.getrandbits(48))
		src = c08gen.generate_pairs_program(prng, avoid)
		base = real.observe(src)
		if base['error'] is not None:
			hist[f"pairs:P-not-observed:{base['error']}"] += 1
			continue
		try:
			domain = c08gen.renaming_domain(src, reserved)
			pairs = c08gen.meeting_pairs(src)
		except Exception:  # noqa: BLE001
			continue
		idents = set(c08gen.IDENT_RE.findall(src))
		combos: list[tuple[dict[str, str], list[str]]] = []
		# lists of names emitted in an order (type parameters of classes / methods / functions, enum members, parameters, captures):
		# the alphabetical order of every kind reversed at once, and of the module-level names (TypeVars) alone
		for kinds in (None, ('module',), ('enum-member', 'param', 'local')):
			rev = c08gen.reverse_order_renaming(domain, idents, reserved, kinds)
			combos.append((rev, ['order-reversed:' + ('all-kinds' if kinds is None else '+'.join(kinds))] * len(rev)))
		combos += [c08gen.pair_renaming(prng, pairs, domain, idents, reserved, combo) for combo in range(c08gen.PAIR_COMBOS)]
		for mapping, tags in combos:
			if not mapping or not legal_renaming(src, mapping, reserved):
				hist['pairs:no-legal-renaming'] += 1
				continue
			res.cases += 1
			seen.add(f'{hash(src)}:{sorted(mapping.items())}')
			for t in tags:
				hist[f"pair:{t.split(':')[0]}"] += 1
			hist[f"pair-shape:{tags[0].split(':', 1)[1]}"] += 1 if len(tags) else 0
			r = check_pair(real, src, mapping, base)
			if isinstance(r, tuple) and pair_findings < 2:
				again = Real(ctx)
				if not isinstance(check_pair(again, src, mapping), tuple):
					ctx.notes.append(f'pairs#{n_done}: disagreement not reproduced on a fresh App (session history) — not reported here (C04)')
					continue
				f = finding_of(again, src, mapping, again.observe(src), f'pairs#{n_done}')
				tag_of = dict(zip(mapping, tags))
				small_tags = sorted({tag_of.get(x, 'several').rsplit(':', 1)[0] for x in f.replay['renaming']})
				f.key = f"name-pair:{'+'.join(small_tags)}:{f.key.rsplit(':', 1)[-1]}"
				f.what = 'an identifier renamed into a spelling related to another identifier it meets (' + ', '.join(small_tags) + '): ' + f.what
				pair_findings += 1
				if f.key not in found_keys:
					found_keys.add(f.key)
					res.findings.append(f)
			elif isinstance(r, tuple):
				hist['violations-not-shrunk(findings already reported)'] += 1
		# … and the words tranp gives a meaning to itself as proper suffix / prefix of the program's identifiers (StateEnum, Iteratorx,
		# xself, lenq2): every class gets every class-like word on both sides; functions, members and variables rotate through theirs
		if n_done < ctx.scale(1, 4):
			try:
				extra = [w for row in gen_c08_names.scan() for w in row['words'] if row['role'] != 'member' or w.startswith('__')]
			except Exception:  # noqa: BLE001
				extra = []
			stems = c08gen.affix_stems(extra)
			n_c = len(stems['class']) if not ctx.thorough else max(len(v) for v in stems.values())
			for side in (0, 1):
				for c in range(n_c):
					if pair_deadline.cut(hist, c, n_c):
						break
					mapping = c08gen.affix_renaming(prng, domain, idents, reserved, stems, c, side)
					if not mapping or not legal_renaming(src, mapping, reserved):
						hist['affix:no-legal-renaming'] += 1
						continue
					res.cases += 1
					seen.add(f'{hash(src)}:{sorted(mapping.items())}')
					hist[f"affix:{'suffix' if side == 0 else 'prefix'}-is-a-reserved-word"] += 1
					r = check_pair(real, src, mapping, base)
					if isinstance(r, tuple) and pair_findings < 3:
						again = Real(ctx)
						if not isinstance(check_pair(again, src, mapping), tuple):
							ctx.notes.append(f'affix#{n_done}: disagreement not reproduced on a fresh App (session history) — not reported here (C04)')
							continue
						f = finding_of(again, src, mapping, again.observe(src), f'affix#{n_done}')
						pair_findings += 1
						if f.key not in found_keys:
							found_keys.add(f.key)
							res.findings.append(f)
					elif isinstance(r, tuple):
						hist['violations-not-shrunk(findings already reported)'] += 1
	res.distinct = len(seen)
	res.histogram = dict(hist)
	res.note = ('programs: nests (module names, classes, class vars, fields, methods, class methods, properties, nested classes, inheritance, enums, '
		'functions, closures, flow-scoped locals with sibling re-declaration, comprehensions) + gen_prog; renamings injective, into names that are not '
		'keyword/builtin/tranp-reserved (c08gen.Reserved), same underscore class, not occurring in P; domain excludes names the emitter can produce itself and data-string words; '
		'member-spelling programs: one user class whose methods / field are iterated by for statements and comprehensions, called and assigned, renamed INTO every word set of '
		'Generated/C08Names.lean (items/keys/values, list / dict / str method names, cvar verbs, name / value) — library names are reserved for everything but members; '
		'meeting-pair programs: outer variables declared before variables first assigned in nested if / for / while blocks, loop variables, lambdas and a closure with parameters beside '
		'captured variables, a class with a subclass (constructors that call own methods, super().__init__ followed by an own method), type parameters of a generic class / method / class method / free function, an enum — '
		'the alphabetical order of the identifiers of every kind reversed; one identifier of every kind of pair renamed into a proper prefix / suffix / infix / case variant / joined form of (or from) its partner, all 18 shape x direction combinations per program; on the same programs (a base class with a subclass among them) affix renamings: every class gets every class-like reserved word '
		'(Enum, Iterator, ItemsView, const, list, …) as a proper suffix and as a proper prefix, functions / members / variables rotate through self, cls, init, len, items, …')
	return res


# ---------------------------------------------------------------------------------------------
# correspondence: driver family `scope`


NAME_POOL = ['ab', 'abc', 'abcd', 'a', 'b', 'ab_', 'ab__c', 'a_b', '__ab', '_ab', 'x', 'xs', 'x2', 'self', 'selfo', 'cls', 'init', 'do__init__', 'Abc', 'Ab',
	'if@1', 'if@10', 'if@107', 'for@1', 'for@10', 'for@107', 'if_clause@11', 'else@12', 'while@2', 'func_call@3', 'Empty', 'int', 'list', 'object',
	'quite_a_long_identifier_that_goes_on_and_on_for_a_while_x', 'quite_a_long_identifier_that_goes_on_and_on_for_a_while_xy', 'v', 'vv', 'vvv']
MOD_POOL = ['m', 'mm', 'm.n', 'pkg.mod', 'pkg.mod2', 'lib.core', 'lib.ext', '__main__']


def hl(xs: list[str]) -> str:
	return ','.join(hx(x) for x in xs) if xs else '~'


def both(real: str) -> str:
	return f'S={real} A={real}'


def show_key(k: str | None) -> str:
	return 'none' if k is None else f'ok {hx(k)}'


def stream_dsn(ctx: Ctx) -> Stream:
	"""ModuleDSN / DSN primitives and the two plain-string helpers, structured and malformed inputs."""
	from rogw.tranp.dsn.module import ModuleDSN
	rng = ctx.sub_rng('dsn')
	cases = []

	def some_dsn(malformed: bool) -> str:
		mod = rng.choice(MOD_POOL)
		elems = [rng.choice(NAME_POOL) for _ in range(rng.randint(0, 4))]
		s = mod + ('#' + '.'.join(elems) if elems or rng.random() < 0.1 else '')
		if malformed:
			k = rng.random()
			if k < 0.2:
				s = s.replace('.', '..', 1)
			elif k < 0.4:
				s = s + rng.choice(['#', '.', '#x', '.#', '@3'])
			elif k < 0.55:
				s = rng.choice(['#', '.', '']) + s
			elif k < 0.7:
				s = s.replace('#', '##', 1)
			elif k < 0.8:
				s = ''
			elif k < 0.9:
				s = s.replace('#', '.', 1)
		return s

	def wrap(f) -> str:
		try:
			return f()
		except Exception as e:  # noqa: BLE001
			return exc_enum(e)

	for i in budgeted(range(ctx.scale(300, 4000))):
		malformed = i % 3 == 2
		ops: list[str] = []
		real: list[str] = []
		dsn = some_dsn(malformed)
		elems = [rng.choice(NAME_POOL + ['', 'a.b', 'p.q.r'] + (['#', 'x#y', '.'] if malformed else [])) for _ in range(rng.randint(0, 3))]
		ops.append(f'dsn.fulljoined\t{hx(dsn)}\t{hl(elems)}')
		real.append(wrap(lambda: hx(ModuleDSN.full_joined(dsn, *elems))))
		ops.append(f'dsn.localjoined\t{hl(elems)}')
		real.append(wrap(lambda: hx(ModuleDSN.local_joined(*elems))))
		ops.append(f'dsn.parsed\t{hx(dsn)}')
		real.append(wrap(lambda: '|'.join(hx(p) for p in ModuleDSN.parsed(dsn))))
		ops.append(f'dsn.expand\t{hx(dsn)}')
		real.append(wrap(lambda: hl(ModuleDSN.expand_elements(dsn))))
		loc = '.'.join(elems)
		ops.append(f'dsn.expand\t{hx(loc)}')
		real.append(wrap(lambda: hl(ModuleDSN.expand_elements(loc))))
		ops.append(f'dsn.expanded\t{hx(dsn)}')
		real.append(wrap(lambda: (lambda me: f'{hx(me[0])}|{hl(me[1])}')(ModuleDSN.expanded(dsn))))
		# str.replace(p, '') and `in`, on entry-path-like strings
		tags = ['file_input', 'class_def', 'class_def[1]', 'class_def_raw', 'block', 'function_def', 'function_def[2]', 'function_def_raw', 'assign', 'var', 'aa', 'a']
		s = '.'.join(rng.choice(tags) for _ in range(rng.randint(0, 9)))
		p = '.'.join(rng.choice(tags) for _ in range(rng.randint(1, 3))) + rng.choice(['', '.', '.class_def_raw.block.'])
		if rng.random() < 0.3 and s:
			a = rng.randrange(len(s))
			p = s[a:a + rng.randint(1, 12)]
		if rng.random() < 0.1:
			p = rng.choice(['aa', 'a', 'aaa', 'a.a'])
			s = rng.choice(['aaaa', 'aaaaa', 'a.a.a.a', 'aaa.aaa', ''])
		ops.append(f'str.removeall\t{hx(p)}\t{hx(s)}')
		real.append(hx(s.replace(p, '')))
		ops.append(f'str.infix\t{hx(p)}\t{hx(s)}')
		real.append('true' if p in s else 'false')
		cases.append(({'malformed': malformed}, ops, real))
	st = common.correspond('dsn', cases, 'scope', classify=lambda d: 'malformed' if d['malformed'] else 'structured')
	st.note = 'ModuleDSN.full_joined/local_joined/parsed/expand_elements/expanded on structured and malformed strings (doubled/leading/trailing delimiters, two #, empty); str.replace(p, "") and `in` on entry-path-like strings with overlapping occurrences'
	return st


def ancestors_of(node: Any) -> list[Any]:
	import rogw.tranp.syntax.node.definition as defs
	out = []
	cur = node.parent
	while not isinstance(cur, defs.Entrypoint):
		out.append(cur)
		cur = cur.parent
	return out


def names_op(node: Any) -> tuple[str, str]:
	from rogw.tranp.syntax.node.behavior import IDomain, INamespace, IScope
	chain = [f"{int(isinstance(a, IScope))}:{int(isinstance(a, INamespace))}:{hx(a.domain_name)}:{hx(a.classification)}" for a in ancestors_of(node)]
	op = f"names\t{hx(node.module_path)}\t{','.join(chain) if chain else '~'}\t{int(isinstance(node, IDomain))}\t{hx(node.domain_name)}\t{hx(node.classification)}\t{node.id}"
	try:
		real = both(f'{hx(node.scope)}|{hx(node.namespace)}|{hx(node.fullyname)}')
	except Exception as e:  # noqa: BLE001
		real = exc_enum(e)
	return op, real


class RecDB:
	"""Symbol table proxy that records which key a returned reflection was read from."""

	def __init__(self, db: Any) -> None:
		self.db = db
		self.log: list[tuple[str, Any]] = []

	def __contains__(self, key: str) -> bool:
		return key in self.db

	def __getitem__(self, key: str) -> Any:
		v = self.db[key]
		self.log.append((key, v))
		return v

	def key_of(self, raw: Any) -> str | None:
		if raw is None:
			return None
		for k, v in reversed(self.log):
			if v is raw:
				return k
		return '<not-from-db>'


def table_ops(db: Any) -> list[str]:
	import rogw.tranp.syntax.node.definition as defs
	ops = ['tbl.clear']
	for key in db.keys():
		raw = db[key]
		types = raw.types
		is_class = types.is_a(defs.Class)
		inh = [i.type_name.tokens for i in types.inherits] if isinstance(types, defs.Class) else []
		imp = hx(raw.node.domain_name) if isinstance(raw.node, defs.ImportAsName) else '~'
		ops.append(f"tbl.add\t{hx(key)}\t{int(is_class)}\t{int(raw.decl.is_a(*defs.ClassOrTypeTs))}\t{hx(types.full_path)}\t{hx(types.module_path)}\t{imp}\t{hl(inh)}")
	return ops


def stream_real(ctx: Ctx) -> Stream:
	"""Generated nests through the real pipeline: Node.scope/namespace/fullyname and SymbolFinder.find_by_symbolic vs both layers."""
	import rogw.tranp.syntax.node.definition as defs
	from rogw.tranp.semantics.finder import SymbolFinder
	from rogw.tranp.syntax.node.behavior import IDomain
	from rogw.tranp.syntax.node.node import Node
	rng = ctx.sub_rng('scope-real')
	real = Real(ctx)
	finder = real.app.resolve(SymbolFinder)
	libs = list(finder._SymbolFinder__library_paths)
	cases = []
	n_nodes = 0
	deadline = Deadline(ctx, 40, 300)
	cut: Counter[str] = Counter()
	for i in budgeted(range(ctx.scale(10, 120)), 2 * CASE_BUDGET_S):
		if deadline.cut(cut, i, ctx.scale(10, 120)):
			break
		src, _ = c08gen.generate_nest(random.Random(rng.getrandbits(48)), 1 + i % 3)
		if i % 3 == 1:
			# the same program under an adversarial renaming: both spellings must be modelled alike
			try:
				reserved = real.reserved()
				dom = c08gen.renaming_domain(src, reserved)
				src = c08gen.rename_source(src, c08gen.make_renaming(rng, dom, set(c08gen.IDENT_RE.findall(src)), reserved, len(dom)))
			except Exception:  # noqa: BLE001
				pass
		try:
			module = real.load(src)
			db = real.db()
			nodes = module.entrypoint.procedural()
		except Exception:  # noqa: BLE001
			continue
		try:
			ops = [f'libs\t{hl(libs)}', *table_ops(db)]
		except Exception:  # noqa: BLE001 - a program the real pipeline cannot type (lazy resolution raises): not a scope case
			continue
		outs = ['ok'] * len(ops)
		plain = [n for n in nodes if not isinstance(n, defs.Entrypoint)]
		sample = plain if len(plain) <= ctx.scale(120, 400) else rng.sample(plain, ctx.scale(120, 400))
		for node in sample:
			generic = type(node).fullyname is Node.fullyname and type(node).scope is Node.scope and type(node).namespace is Node.namespace
			if generic:
				op, out = names_op(node)
				ops.append(op)
				outs.append(out)
			elif isinstance(node, defs.DeclThisVar):
				ops.append(f"thisvar\t{hx(node.class_types.fullyname)}\t{hx(node.domain_name)}")
				outs.append(both(hx(node.fullyname)))
			if isinstance(node, (defs.Declable, defs.Relay, defs.Var, defs.Type, defs.Literal, defs.ClassDef)):
				n_nodes += 1
				props = [''] if rng.random() < 0.8 else [rng.choice(['', 'ab', 'abc', '__init__', 'append', 'x.y'])]
				for prop in props:
					rec = RecDB(db)
					try:
						raw = finder.find_by_symbolic(rec, node, prop)  # type: ignore[arg-type]
						out = both(show_key(rec.key_of(raw)))
					except Exception as e:  # noqa: BLE001
						out = both(exc_enum(e))
					ops.append(f"find\t{hx(node.scope)}\t{int(node.is_a(defs.Var))}\t{int(isinstance(node, defs.Type))}\t{hx(node.full_path)}\t{hx(node.domain_name)}\t{hx(prop)}")
					outs.append(out)
					ops.append(f"scopes\t{hx(node.scope)}\t{int(node.is_a(defs.Var))}\t{int(isinstance(node, defs.Type))}\t{hx(node.full_path)}")
					try:
						scopes = finder._SymbolFinder__make_scopes(db, node)
						outs.append(both(hl([s.dsn for s in scopes])))
					except Exception as e:  # noqa: BLE001
						outs.append(both(exc_enum(e)))
		for word in ['object', 'int', 'str', 'None', 'Unknown', 'nosuchword']:
			rec = RecDB(db)
			try:
				raw = finder._SymbolFinder__find_raw(rec, [__import__('rogw.tranp.dsn.module', fromlist=['ModuleDSN']).ModuleDSN(m) for m in libs], word)
				out = both(show_key(rec.key_of(raw)))
			except Exception as e:  # noqa: BLE001
				out = both(exc_enum(e))
			ops.append(f'std\t{hx(word)}')
			outs.append(out)
		cases.append(({'kind': 'real', 'nodes': len(sample), 'table': len(db)}, ops, outs))
	st = common.correspond('scope-real', cases, 'scope', classify=lambda d: f"nodes<{10 ** len(str(d['nodes']))}")
	st.histogram.update(cut)
	st.note = f'generated nests (every third one adversarially renamed) loaded by the real pipeline; real symbol table sent entry by entry; names/thisvar ops for sampled nodes, find + scopes ops for {n_nodes} symbolic nodes (with and without prop_name), by_standard words'
	return st


# -- synthetic worlds: fake reflections / nodes around the REAL SymbolFinder and VarsCollector ------


def _fakes() -> dict[str, Any]:
	"""Subclasses of the real node classes that bypass construction and expose exactly the attributes the finder reads."""
	import rogw.tranp.syntax.node.definition as defs

	def mk(base: type, name: str) -> type:
		return type(name, (base,), {
			'__init__': lambda self, **kw: self.__dict__.update(kw),
			'full_path': property(lambda self: self.__dict__['fp']),
			'module_path': property(lambda self: self.__dict__['mp']),
			'inherits': property(lambda self: self.__dict__.get('inh', [])),
			'domain_name': property(lambda self: self.__dict__.get('dn', '')),
			'scope': property(lambda self: self.__dict__.get('sc', '')),
			'__hash__': lambda self: id(self),
			'__eq__': lambda self, other: self is other,
		})

	return {
		'Class': mk(defs.Class, 'FClass'), 'Function': mk(defs.Function, 'FFunction'), 'Import': mk(defs.ImportAsName, 'FImport'),
		'Var': mk(defs.Var, 'FVar'), 'Type': mk(defs.VarOfType, 'FType'), 'Relay': mk(defs.Relay, 'FRelay'), 'Decl': mk(defs.DeclLocalVar, 'FDecl'),
	}


def gen_world(rng: random.Random, malformed: bool) -> tuple[dict[str, Any], list[str], list[str], list[str]]:
	"""A symbol table of fakes: modules, classes (with inheritance by base-class NAME, sometimes dotted), functions, locals in
	flow scopes, imports; names share prefixes and suffixes. Returns (db, table ops, library paths, entry paths)."""
	fk = _fakes()
	mods = rng.sample(MOD_POOL, rng.randint(2, 4))
	libs = rng.sample(mods, rng.randint(0, 2)) if rng.random() < 0.9 else []
	names = rng.sample(NAME_POOL, rng.randint(4, 10))
	db: dict[str, Any] = {}
	paths: list[str] = ['file_input']
	counter = [0]

	def entry_path(parent: str, tag: str) -> str:
		counter[0] += 1
		p = f'{parent}.{tag}' if rng.random() < 0.5 else f'{parent}.{tag}[{counter[0] % 7}]'
		paths.append(p)
		return p

	def add(key: str, kind: str, fp: str, mp: str, inh: list[str] | None = None, imp: str | None = None, ct: bool | None = None) -> None:
		types = fk['Class'](fp=fp, mp=mp, inh=[pytypes.SimpleNamespace(type_name=pytypes.SimpleNamespace(tokens=t)) for t in (inh or [])]) if kind == 'class' else fk['Function'](fp=fp, mp=mp)
		is_ct = (kind == 'class') if ct is None else ct
		decl = pytypes.SimpleNamespace(is_a=lambda *c, _v=is_ct: _v)
		node = fk['Import'](dn=imp) if imp is not None else fk['Decl'](dn='x')
		db[key] = pytypes.SimpleNamespace(types=types, decl=decl, node=node)

	class_keys: list[tuple[str, str, str]] = []  # (mod, local path, entry path)
	for mod in mods:
		for _ in range(rng.randint(1, 4)):
			n = rng.choice(names)
			if rng.random() < 0.55:
				fp = entry_path('file_input', 'class_def')
				same_mod = [loc for m2, loc, _ in class_keys if m2 == mod]
				bases = [rng.choice(same_mod) if same_mod and rng.random() < 0.7 else rng.choice(names + ['ab.abc', 'Abc.Ab']) for _ in range(rng.randint(0, 2))]
				add(f'{mod}#{n}', 'class', fp, mod, bases)
				class_keys.append((mod, n, fp))
				for _ in range(rng.randint(0, 4)):
					m = rng.choice(names)
					mfp = entry_path(f'{fp}.class_def_raw.block', rng.choice(['function_def', 'anno_assign', 'class_def']))
					if mfp.split('.')[-1].startswith('class_def'):
						add(f'{mod}#{n}.{m}', 'class', mfp, mod, [rng.choice(names)] if rng.random() < 0.5 else [])
						class_keys.append((mod, f'{n}.{m}', mfp))
					else:
						add(f'{mod}#{n}.{m}', 'func', mfp, rng.choice(mods), ct=rng.random() < 0.2)
					for _ in range(rng.randint(0, 2)):
						add(f'{mod}#{n}.{m}.{rng.choice(names)}', 'func', entry_path(f'{mfp}.function_def_raw.block', 'assign'), rng.choice(mods), ct=rng.random() < 0.2)
			elif rng.random() < 0.5:
				target_mod, target_name = rng.choice(mods), rng.choice(names)
				tops = [(m2, loc) for m2, loc, _ in class_keys if '.' not in loc]
				if tops and rng.random() < 0.7:
					target_mod, target_name = rng.choice(tops)
				add(f'{mod}#{n}', 'func', 'file_input.import_stmt', target_mod, imp=target_name, ct=rng.random() < 0.5)
			else:
				fp = entry_path('file_input', 'function_def')
				add(f'{mod}#{n}', 'func', fp, mod, ct=rng.random() < 0.2)
				for _ in range(rng.randint(0, 3)):
					add(f'{mod}#{n}.{rng.choice(names)}', 'func', entry_path(f'{fp}.function_def_raw.block', 'assign'), mod, ct=rng.random() < 0.2)
		if rng.random() < 0.3:
			add(mod, 'func', 'file_input', mod)
	if malformed:
		for _ in range(rng.randint(1, 3)):
			add(rng.choice(['m#a#b', 'm##a', '#a', 'm#.a', 'm#a..b', 'm.', 'm#a.', '']), 'func', 'file_input', rng.choice(mods))
	import rogw.tranp.syntax.node.definition as defs
	ops = ['tbl.clear', f'libs\t{hl(libs)}']
	for key, raw in db.items():
		is_class = raw.types.is_a(defs.Class)
		inh = [i.type_name.tokens for i in raw.types.inherits] if is_class else []
		imp = hx(raw.node.domain_name) if isinstance(raw.node, defs.ImportAsName) else '~'
		ops.append(f"tbl.add\t{hx(key)}\t{int(is_class)}\t{int(raw.decl.is_a())}\t{hx(raw.types.full_path)}\t{hx(raw.types.module_path)}\t{imp}\t{hl(inh)}")
	return db, ops, libs, paths


def stream_synth(ctx: Ctx) -> Stream:
	"""The REAL SymbolFinder on synthetic tables (imports, inheritance walk, library fall-back, class-scope visibility)."""
	import rogw.tranp.syntax.node.definition as defs
	from rogw.tranp.module.types import LibraryPaths, ModulePath
	from rogw.tranp.semantics.finder import SymbolFinder
	rng = ctx.sub_rng('scope-synth')
	fk = _fakes()
	cases = []
	hist: Counter[str] = Counter()
	for i in budgeted(range(ctx.scale(150, 2500))):
		malformed = i % 5 == 4
		db, ops, libs, paths = gen_world(rng, malformed)
		finder = SymbolFinder(LibraryPaths([ModulePath(m, language='py') for m in libs]))
		outs = ['ok'] * len(ops)
		keys = list(db.keys())
		for _ in range(rng.randint(8, 20)):
			base = rng.choice(keys) if keys else 'm'
			k = rng.random()
			scope = base
			if k < 0.45:
				scope = base + ('.' if '#' in base else '#') + '.'.join(rng.choice(NAME_POOL) for _ in range(rng.randint(1, 3)))
			elif k < 0.55:
				scope = base.split('#')[0]
			kind = rng.choice(['Var', 'Var', 'Type', 'Relay'])
			fp = rng.choice(paths)
			if rng.random() < 0.6:
				# a path below one of the classes: visible / hidden by function_def_raw.block / class_def_raw.block
				cls_paths = [raw.types.full_path for raw in db.values() if raw.types.is_a(defs.Class)]
				if cls_paths:
					fp = rng.choice(cls_paths) + rng.choice(['.class_def_raw.block.anno_assign.var', '.class_def_raw.block.function_def.function_def_raw.block.assign.var',
						'.class_def_raw.block.class_def.class_def_raw.block.assign.var', '.class_def_raw.name', 'x.class_def_raw.block.assign.var', '[1].class_def_raw.block.var'])
			# names that exist in the table (also as dotted member paths, to reach imports / inheritance / libraries), else any name
			locals_ = [k.split('#', 1)[1] for k in keys if '#' in k and k.split('#', 1)[1]]
			k2 = rng.random()
			if k2 < 0.35 and locals_:
				dn = rng.choice(locals_).split('.')[-1]
			elif k2 < 0.6 and locals_:
				dn = rng.choice(locals_)
				if rng.random() < 0.5:
					dn = '.'.join([dn.split('.')[0], *[rng.choice(locals_).split('.')[-1] for _ in range(rng.randint(1, 2))]])
			elif k2 < 0.75 and locals_:
				# through an import or a library class into a member that only a base class has
				heads = [k for k in keys if '#' in k and '.' not in k.split('#', 1)[1] and k.split('#', 1)[1]]
				members = [k.split('.')[-1] for k in keys if '#' in k and '.' in k.split('#', 1)[1]]
				dn = rng.choice(heads).split('#', 1)[1] if heads else rng.choice(NAME_POOL)
				if members:
					dn = '.'.join([dn, *[rng.choice(members) for _ in range(rng.randint(1, 2))]])
			elif k2 < 0.9:
				dn = rng.choice(NAME_POOL)
			else:
				dn = rng.choice(['', 'ab.abc', 'a.b.ab', 'Abc.x'])
			prop = '' if rng.random() < 0.7 else (rng.choice(locals_).split('.')[-1] if locals_ and rng.random() < 0.7 else rng.choice(NAME_POOL + ['a.b']))
			bad = malformed and (scope.count('#') != 1 and '#' in scope or '..' in scope or scope.endswith('.') or scope.startswith('#') or '#.' in scope)
			node = fk[kind](sc=scope, dn=dn, fp=fp)
			pre = 's!\t' if malformed else ''
			rec = RecDB(db)
			try:
				raw = finder.find_by_symbolic(rec, node, prop)  # type: ignore[arg-type]
				out = show_key(rec.key_of(raw))
				if raw is None:
					hist['none'] += 1
				else:
					fk_ = rec.key_of(raw) or ''
					name = '.'.join(x for x in [dn, prop] if x)
					if fk_.split('#')[0] != scope.split('#')[0]:
						hist['found:other-module(import/library)'] += 1
					elif not fk_.endswith(name):
						hist['found:via-inheritance'] += 1
					else:
						hist['found:in-scope-walk'] += 1
			except Exception as e:  # noqa: BLE001
				out = exc_enum(e)
				hist[out] += 1
			ops.append(f"{pre}find\t{hx(scope)}\t{int(kind == 'Var')}\t{int(kind == 'Type')}\t{hx(fp)}\t{hx(dn)}\t{hx(prop)}")
			outs.append(f'S={out}' if malformed else both(out))
			try:
				scopes = hl([s.dsn for s in finder._SymbolFinder__make_scopes(db, node)])
			except Exception as e:  # noqa: BLE001
				scopes = exc_enum(e)
			ops.append(f"{pre}scopes\t{hx(scope)}\t{int(kind == 'Var')}\t{int(kind == 'Type')}\t{hx(fp)}")
			outs.append(f'S={scopes}' if malformed else both(scopes))
			_ = bad
		for word in rng.sample(NAME_POOL, 3):
			from rogw.tranp.dsn.module import ModuleDSN
			rec = RecDB(db)
			try:
				raw = finder._SymbolFinder__find_raw(rec, [ModuleDSN(m) for m in libs], word)
				out = show_key(rec.key_of(raw))
			except Exception as e:  # noqa: BLE001
				out = exc_enum(e)
			ops.append(('s!\t' if malformed else '') + f'std\t{hx(word)}')
			outs.append(f'S={out}' if malformed else both(out))
		cases.append(({'malformed': malformed, 'table': len(db)}, ops, outs))
	st = common.correspond('scope-synth', cases, 'scope', classify=lambda d: 'malformed-keys(string layer only)' if d['malformed'] else 'wellformed(both layers)')
	st.histogram.update({f'result:{k}': v for k, v in hist.items()})
	st.note = 'real SymbolFinder over fake reflections: prefix-sharing names, dotted base-class names, imports across modules, empty library list, empty and dotted domain names, prop names; every fifth world has malformed keys and is compared with the string layer only'
	return st


def hazardous(decl: list[Any], add: list[Any]) -> bool:
	"""True when some scope / fullyname is not the encoding of a well-formed key (outside the abstract layer's domain)."""
	for v in [*decl, *add]:
		for k in (v.scope, v.fullyname):
			if k.count('#') > 1 or '..' in k or k.endswith(('.', '#')) or k.startswith(('#', '.')) or '#.' in k or k == '':
				return True
	return False


def var_tok(v: Any) -> str:
	return f'{hx(v.fullyname)}:{hx(v.domain_name)}:{hx(v.scope)}'


def stream_merge(ctx: Ctx) -> Stream:
	"""The REAL VarsCollector._merged on fake declarations, and _collect_impl on the functions of generated nests."""
	import rogw.tranp.syntax.node.definition as defs
	from rogw.tranp.syntax.node.definition.statement_compound import VarsCollector
	rng = ctx.sub_rng('merge')
	cases = []
	flow = ['if@1', 'if@10', 'if@107', 'for@1', 'for@10', 'for@107', 'if_clause@11', 'if_clause@110', 'else@12', 'while@2', 'while@20', 'try@3', 'with@30']
	for i in budgeted(range(ctx.scale(250, 4000))):
		fn_scope = rng.choice(['m#f', 'm#ab', 'm#abc', 'm', 'pkg.mod#Abc.f', 'pkg.mod2#Abc.f'])
		vars_ = []
		for _ in range(rng.randint(2, 9)):
			sc = fn_scope
			for _ in range(rng.randint(0, 3)):
				sc = sc + ('.' if '#' in sc else '#') + rng.choice(flow)
			if rng.random() < 0.1:
				sc = rng.choice(['m#f', 'm#ff', 'm#ab', 'm#abc', 'mm#f'])
			if i % 10 == 9 and rng.random() < 0.4:
				sc = rng.choice(['m#f..if@1', 'm##f', 'm#f.', '#f', 'm#.f', 'm#f#for@10'])
			dn = rng.choice(['x', 'xs', 'x', 'ab', 'abc'])
			vars_.append(pytypes.SimpleNamespace(fullyname=sc + ('.' if '#' in sc else '#') + dn, domain_name=dn, scope=sc))
		cut = rng.randint(0, len(vars_))
		decl = list({v.fullyname: v for v in vars_[:cut]}.values())
		add = list({v.fullyname: v for v in vars_[cut:]}.values())
		haz = hazardous(decl, add)
		try:
			got = VarsCollector._merged({v.fullyname: v for v in decl}, {v.fullyname: v for v in add})
			out = hl([v.fullyname for v in got.values()])
		except Exception as e:  # noqa: BLE001
			out = exc_enum(e)
		op = ('s!\t' if haz else '') + f"merge\t{','.join(var_tok(v) for v in decl) or '~'}\t{','.join(var_tok(v) for v in add) or '~'}"
		cases.append(({'kind': 'merged', 'hazard': haz}, [op], [f'S={out}' if haz else both(out)]))

	# _collect_impl on real function / module blocks
	real = Real(ctx)

	def stmt_tokens(node: Any, allow: type) -> list[str]:
		own: list[list[Any]] = []
		if isinstance(node, (defs.AnnoAssign, defs.MoveAssign, defs.For)):
			own.append([s for s in node.symbols if isinstance(s, allow)])
		elif isinstance(node, defs.Try):
			own.extend([s for s in c.symbols if isinstance(s, allow)] for c in node.catches)
		elif isinstance(node, defs.With):
			own.extend([s for s in e.symbols if isinstance(s, allow)] for e in node.entries)
		blocks: list[list[Any]] = []
		if isinstance(node, (defs.If, defs.Try)):
			blocks = [list(b.statements) for b in node.having_blocks]
		elif isinstance(node, (defs.While, defs.For, defs.With)):
			blocks = [list(node.block.statements)]
		toks = ['(']
		for syms in own:
			toks += ['[', *[var_tok(s) for s in syms], ']']
		for b in blocks:
			toks.append('{')
			for s in b:
				toks += stmt_tokens(s, allow)
			toks.append('}')
		toks.append(')')
		return toks

	for i in budgeted(range(ctx.scale(8, 80))):
		src, _ = c08gen.generate_nest(random.Random(rng.getrandbits(48)), 2 + i % 2)
		try:
			module = real.load(src)
		except Exception:  # noqa: BLE001
			continue
		holders = [n for n in module.entrypoint.procedural() if isinstance(n, defs.Function)] + [module.entrypoint]
		for h in holders:
			block = h if isinstance(h, defs.Entrypoint) else h.block
			try:
				got = VarsCollector._collect_impl(block, defs.DeclLocalVar)
				out = hl([v.fullyname for v in got.values()])
				toks: list[str] = []
				vs = []
				for s in block.statements:
					toks += stmt_tokens(s, defs.DeclLocalVar)
				haz = False
			except Exception as e:  # noqa: BLE001
				continue
			_ = vs
			cases.append(({'kind': 'collect', 'hazard': haz}, [('s!\t' if haz else '') + 'collect\t' + ' '.join(toks)], [f'S={out}' if haz else both(out)]))
	st = common.correspond('merge', cases, 'scope', classify=lambda d: f"{d['kind']}:{'malformed-scope(string layer only)' if d['hazard'] else 'wellformed(both layers)'}")
	st.note = 'VarsCollector._merged on fake declarations whose scopes share string prefixes (for@10 / for@107, ab / abc, m / mm) — both layers; every tenth case may carry a malformed scope (string layer only); _collect_impl on the function and module blocks of generated nests'
	return st


# ---------------------------------------------------------------------------------------------
# search: resolution of every variable reference vs CPython's own binding analysis (symtable)


def _symtable_block(table: Any, qual: list[str]) -> Any | None:
	cur = table
	for name in qual:
		nxt = [c for c in cur.get_children() if c.get_name() == name and c.get_type() in ('function', 'class')]
		if len(nxt) != 1:
			return None
		cur = nxt[0]
	return cur


def expected_binding(table: Any, qual: list[str], name: str) -> tuple[str, list[str]] | None:
	"""('local'|'free'|'global', qualified path of the binding scope) as CPython's symtable sees the reference; None = not decided here."""
	block = _symtable_block(table, qual)
	if block is None or block.get_type() != 'function':
		return None
	try:
		sym = block.lookup(name)
	except KeyError:
		return None
	if sym.is_local() or sym.is_parameter():
		return 'local', qual
	if sym.is_free():
		for cut in range(len(qual) - 1, 0, -1):
			outer = _symtable_block(table, qual[:cut])
			if outer is None or outer.get_type() != 'function':
				continue
			try:
				s2 = outer.lookup(name)
			except KeyError:
				continue
			if s2.is_local() or s2.is_parameter():
				return 'free', qual[:cut]
		return None
	if sym.is_global():
		return 'global', []
	return None


def resolution_mismatches(real: Real, source: str) -> tuple[int, list[dict[str, Any]]]:
	"""Every `Var` reference inside a function body: the key tranp resolves it to vs the binding CPython computes."""
	import symtable

	import rogw.tranp.syntax.node.definition as defs
	from rogw.tranp.dsn.module import ModuleDSN
	from rogw.tranp.semantics.finder import SymbolFinder
	module = real.load(source)
	db = real.db()
	finder = real.app.resolve(SymbolFinder)
	table = symtable.symtable(source, '<c08>', 'exec')
	main = real.app.main
	checked = 0
	bad: list[dict[str, Any]] = []
	for node in module.entrypoint.procedural():
		if type(node) is not defs.Var:
			continue
		mod, elems = ModuleDSN.expanded(node.scope)
		qual = [e for e in elems if '@' not in e]
		if any(e.startswith(('lambda@', 'list_comp@', 'dict_comp@')) for e in elems):
			continue
		exp = expected_binding(table, qual, node.tokens)
		if exp is None:
			continue
		checked += 1
		rec = RecDB(db)
		try:
			raw = finder.find_by_symbolic(rec, node)  # type: ignore[arg-type]
			key = rec.key_of(raw)
		except Exception as e:  # noqa: BLE001
			key = f'<{exc_enum(e)}>'
		kind, where = exp
		ok = False
		if key is not None and not key.startswith('<'):
			kmod, kelems = ModuleDSN.expanded(key)
			kplain = [e for e in kelems if '@' not in e]
			if kind in ('local', 'free'):
				ok = kmod == main and kplain == [*where, node.tokens]
			else:
				ok = kplain == [node.tokens]   # module-level name, import, or a library builtin
		if not ok:
			# diagnosis: is an equally named declaration hidden behind a bare string-prefix relation of two flow scopes?
			cause = ''
			if key is None:
				for k in db.keys():
					if k.endswith(f'.{node.tokens}'):
						sc = k[:-len(node.tokens) - 1]
						if node.scope.startswith(sc) and node.scope != sc and node.scope[len(sc)] not in '.#':
							cause = 'merge-scope-id-prefix'
			bad.append({'name': node.tokens, 'at': node.full_path, 'scope': node.scope, 'cpython': f"{kind} in {'.'.join(where) or '<module>'}", 'tranp': key, 'cause': cause})
	return checked, bad


def search_symtable(ctx: Ctx) -> SearchResult:
	rng = ctx.sub_rng('symtable')
	res = SearchResult("every variable reference in a function body resolves to the binding CPython's symtable computes, for P and for r(P) (real code, independent oracle)")
	real = Real(ctx)
	reserved = real.reserved()
	hist: Counter[str] = Counter()
	deadline = Deadline(ctx, 30, 200)
	for i in budgeted(range(ctx.scale(14, 110))):
		if deadline.cut(hist, i, ctx.scale(14, 110)):
			break
		src, _ = c08gen.generate_nest(random.Random(rng.getrandbits(48)), 1 + i % 3)
		variants = [('P', src, {})]
		try:
			dom = c08gen.renaming_domain(src, reserved)
			m = c08gen.make_renaming(rng, dom, set(c08gen.IDENT_RE.findall(src)), reserved, len(dom))
			variants.append(('r(P)', c08gen.rename_source(src, m), m))
		except Exception:  # noqa: BLE001
			pass
		for tag, text, mapping in variants:
			try:
				checked, bad = resolution_mismatches(real, text)
			except Exception as e:  # noqa: BLE001
				hist[f'{tag}:not-loadable:{exc_enum(e)}'] += 1
				continue
			res.cases += 1
			hist[f'{tag}:references'] += checked
			if bad and not res.findings:
				b = bad[0]
				res.findings.append(Finding(key=b['cause'] or f"resolve-vs-symtable:{b['cpython'].split(' ')[0]}",
					what=f"reference `{b['name']}` in scope {b['scope']} is {b['cpython']} for CPython but tranp resolves it to {b['tranp']} ({tag})",
					replay={'origin': 'symtable', 'variant': tag, 'source': text, 'renaming': mapping, 'mismatches': bad[:5]}))
			if len(res.samples) < 1 and checked:
				res.samples.append({'variant': tag, 'references_checked': checked})
	res.distinct = res.cases
	res.histogram = dict(hist)
	res.note = 'Var nodes whose scope (flow elements removed) names a Python function block; expected = local/parameter of that function, free variable of an enclosing function, or module-level/import/builtin'
	return res


# ---------------------------------------------------------------------------------------------
# search: the `_counterexample` of Props/C08.lean replayed on the real code


def two_loops(pad: int, names: tuple[str, str, str] = ('f', 'i', 'i')) -> str:
	fn, v1, v2 = names
	lines = [f'def {fn}() -> None:', f'\tfor {v1} in range(1):', f'\t\tprint({v1})']
	lines += ['\tprint(0)'] * pad
	lines += [f'\tfor {v2} in range(2):', f'\t\tprint({v2})']
	return '\n'.join(lines) + '\n'


def search_sibling_scopes(ctx: Ctx) -> SearchResult:
	"""Binding structure, not spelling: two SIBLING loops of one function that use the same loop variable must be handled the
	same way whatever number of statements stands between them. The oracle is the law itself on the real code: the outcome
	class (transpiles / which error) and — up to the padding lines — the emitted text do not depend on the padding.
	Regression for 526fc7c: with a bare `startswith` on the scope strings the case `for@10` / `for@107` (7 statements) failed."""
	import rogw.tranp.syntax.node.definition as defs
	from rogw.tranp.implements.cpp.transpiler.py2cpp import Py2Cpp
	rng = ctx.sub_rng('sibling')
	res = SearchResult('sibling flow scopes: outcome independent of the number of statements between two loops over the same variable (real code only)')
	real = Real(ctx)
	hist: Counter[str] = Counter()
	name_sets = [('f', 'i', 'i'), ('abc', 'ab', 'ab'), ('walk', 'idx2', 'idx2')]
	found = False
	deadline = Deadline(ctx, 40, 240)
	for names in name_sets[:ctx.scale(2, 3)]:
		outcomes: dict[int, tuple[str, str]] = {}
		ids: dict[int, list[int]] = {}
		corpus_pads = [int(rec['pad']) for rec in corpus_cases() if rec.get('kind') == 'sibling' and tuple(rec.get('names', [])) == names]
		pads = sorted(set(range(0, ctx.scale(24, 120))) | set(corpus_pads))
		for n_done, pad in enumerate(pads):
			if pad != 0 and deadline.cut(hist, n_done, len(pads)):
				break
			src = two_loops(pad, names)
			res.cases += 1
			try:
				with budget():
					module = real.load(src)
					ids[pad] = [n.id for n in module.entrypoint.procedural() if isinstance(n, defs.For)]
					out = real.app.resolve(Py2Cpp).transpile(module.entrypoint)
				body = '\n'.join(ln for ln in out.splitlines() if 'printf(0)' not in ln)
				outcomes[pad] = ('ok', body)
			except Exception as e:  # noqa: BLE001
				outcomes[pad] = (exc_enum(e), '')
			hist[outcomes[pad][0]] += 1
		ref = outcomes[0]
		for pad, oc in outcomes.items():
			if oc != ref and not found:
				found = True
				a, b = (ids.get(pad) or [0, 0])[:2] if len(ids.get(pad) or []) >= 2 else (0, 0)
				prefix = str(b).startswith(str(a))
				res.findings.append(Finding(
					key='merge-scope-id-prefix' if prefix else 'sibling-scope-padding',
					what=(f'two sibling loops over `{names[1]}` in `{names[0]}`: with {pad} statements between them the result is {oc[0]} instead of {ref[0]} '
						f'(flow scopes for@{a} and for@{b}: are scope strings compared without delimiters again?)'),
					replay={'origin': 'sibling-scopes', 'source': src if (src := two_loops(pad, names)) else '', 'pad': pad, 'for_ids': [a, b], 'outcome': oc[0], 'reference': ref[0]}))
		if len(res.samples) < 1:
			res.samples.append({'names': names, 'pads': len(outcomes), 'outcomes': dict(Counter(o[0] for o in outcomes.values()))})
	_ = rng
	res.distinct = res.cases
	res.histogram = dict(hist)
	return res


# ---------------------------------------------------------------------------------------------


STATEMENTS = {
	'equivariant_resolve': 'for every injective renaming r: find_by_symbolic(r·db, r·node, r·name) = r·find_by_symbolic(db, node, name) (scope walk + class-scope rule + import + library + inheritance walk)',
	'equivariant_scopes': '__make_scopes / __allow_scope commute with every injective renaming',
	'equivariant_recursive': '__find_raw_recursive (member / inheritance walk) commutes with every injective renaming',
	'equivariant_names': 'Node.scope / namespace / fullyname commute with every renaming',
	'equivariant_merging': 'VarsCollector._merged and _collect_impl commute with every injective renaming',
	'equivariant_reserved': 'a lookup of a word the code supplies itself (by_standard, get_object) commutes with an injective renaming that fixes reserved words',
	'string_refines_dsn': 'for well-formed names: ModuleDSN.expanded inverts the key encoding (injective), full_joined / expand_elements compute the encodings of append / identity',
	'string_refines_scopes': '__make_scopes on the joined strings = encoding of the abstract scopes, incl. safety of the string-LENGTH test of __allow_scope in its context',
	'string_refines_resolve': 'find_by_symbolic on the joined strings = encoding of the abstract lookup',
	'string_refines_standard': 'by_standard on the joined strings = encoding of the abstract lookup',
	'string_refines_names': 'Node.scope / namespace / fullyname / DeclThisVar.fullyname on strings = encodings of the abstract ones',
	'string_refines_merging': 'VarsCollector._merged / _collect_impl on the joined strings (ModuleDSN.expanded + element-wise prefix, as repaired in 526fc7c) = encoding of merging on element lists, for all well-formed declarations; the former counterexample witnesses (for@10 / for@107, ab / abc) are regression examples',
	'equivariant_naming': 'ClassDomainNaming.domain_name / accessible_name / fullyname (alias table, Embed.alias, enclosing classes) commute with every injective renaming',
	'equivariant_member_lookup': 'Enum.var_value (member lookup by name) commutes with every injective renaming',
	'string_refines_naming': 'class naming on strings (DSN.join, alias key aliases.<fullyname>) = dotted string of the abstract pieces, for well-formed keys and non-empty names',
	'string_refines_member_lookup': 'the member lookup on strings is the abstract lookup at N := Str (whole-name equality)',
	'naming_startswith_counterexample': 'REGRESSION (seeded mutation): accessible_name with a bare domain_name.startswith(namespace) guard does not refine — Box.BoxItem loses Box',
	'member_lookup_suffix_counterexample': 'REGRESSION (seeded mutation): lookup by var_name.endswith(member) is not lookup by name — DARK_RED finds RED',
	'relativefy_counterexample': 'DSN.relativefy as a function: the bare origin.split(starts)[1] is not the path after starts (ab.ab.c relative to ab); no caller reaches it with user names',
	'fragment_relay': "PatternParser.break_relay('recv<op>ident') = (recv, op) for every identifier and every non-empty one-line receiver",
	'fragment_dict_iterator': "PatternParser.break_dict_iterator('recv<op>m()') = (recv, op, m)",
	'fragment_cvar_suffix': 'sub_cvar_relay / sub_cvar_to strip a trailing <op>name() iff name IS on / a cast word (xon(), draw() untouched)',
	'initializer_call_callee': 'Py2Cpp.is_initializer_call accepts only <type>( … ) whose text before the last top-level block IS the type: a callee that merely begins with the type name (Widget_build, int_of) is rejected',
	'initializer_call_prefix_counterexample': 'REGRESSION (seeded mutation): the prefix test without its ( accepts Widget_build(2) for the type Widget',
	'fragment_class_var_name': "pluck_class_var_name('<type> <name> = …') = name for a blank-free type",
	'regex_identifier_closed': 'in every pattern of PatternParser / CppViewHelper (generated from the source on this run) every character test other than a fixed literal treats all identifier characters [A-Za-z0-9_] alike',
	'regex_charmap_invariant': 'for every generated pattern and EVERY text: fullmatch gives the same spans and groups on the text and on the text with its identifier characters permuted by any map fixing the identifier characters the pattern spells out',
	'site_table_defects': 'the generated table of all 183 string-comparison / order-by-spelling / template sites (ast + template scan, audited verdicts) contains exactly two defective sites: the substring tests of func_call/list_sort.j2 (reproduced, proposal written, listed as a known finding); the Iterator / ItemsView prefix tests were repaired in 3ee1aa1',
	'view_annotated_whole_name': "CppViewHelper.VarType.annotated('<type name><rest>', annotations, immutable types): const-qualified iff Embed::immutable or the WHOLE type name is listed (never by how the name begins); unchanged under Embed::mutable — for every type name and every rest that does not continue the name",
	'view_annotated_const_prefix_counterexample': "REGRESSION (fixed 448468e): with startswith('const') instead of startswith('const ') the class constant annotated Embed::immutable stays by-value",
	'view_var_type_origin': 'Param.var_type_origin of <name>, <name><…>, <name>…*, <name>…& and const <name>… is the whole type name, for every type name but the word const',
	'view_super_initializer': "SuperInitializer.parse('<Base>::__init__(<args>);') = (Base, args) for every identifier Base and every ;-free argument text",
	'equivariant_capture': 'Lambda.ref_vars / Closure.ref_vars (referenced variables minus the own parameters) and the capture list of make_lambda_binds (first reference first, each name once) commute with every injective renaming',
	'equivariant_templates': 'Function.templates / Method.templates (type variables of parameters and return type in order of first use, a method without those of its class: the C++ template header) commute with every injective renaming',
	'swapNames_injective': 'helper: swapping the names a and b is an injective renaming (used by templates_sorted_counterexample)',
	'templates_sorted_counterexample': 'REGRESSION (seeded mutation): type variables ordered by NAME (sorted(key=domain_name)) are not equivariant — swapping a and b does not swap the header',
	'capture_prefix_counterexample': 'REGRESSION (seeded mutation): parameters removed with startswith(<parameter names>) drop the captured factor_bias beside the parameter factor',
	'name_sites_guarded': 'in the table generated from py2cpp.py on this run (every comparison of a user-controlled name with words the transpiler spells out), each comparison of a MEMBER name with words a user class may use (items, keys, values, pop, sort, split, on, raw, name, value, …) stands under a guard on the TYPE of the receiver (type_is / cvars.contains / cvars.equals / isinstance(.types) / a Py2Cpp predicate that is such a site)',
	'equivariant': 'bundle of the equivariant_* theorems for an injective renaming that fixes the reserved words',
	'string_refines': 'bundle of the string_refines_* theorems for well-formed names',
}


def run(ctx: Ctx) -> int:
	with ctx.timed('translate'):
		translate_ok, translate_msg = translate(ctx)
	proof = common.prove(ctx, PROP, leanchecker=ctx.thorough)
	with ctx.timed('correspondence'):
		streams = [guarded_stream(ctx, name, fn) for name, fn in (('dsn', stream_dsn), ('scope-real', stream_real), ('scope-synth', stream_synth),
			('merge', stream_merge), ('naming', stream_naming), ('fragments', stream_fragments), ('regex', stream_regex), ('viewhelper', stream_viewhelper), ('capture', stream_capture), ('templates', stream_templates))]
	with ctx.timed('search'):
		searches = [guarded_search(ctx, label, fn) for label, fn in (('rename', search_rename), ('sibling-scopes', search_sibling_scopes),
			('symtable', search_symtable), ('fragments', search_fragments))]
	return common.finish(ctx, proof, streams, searches,
		translate_ok=translate_ok, translate_msg=translate_msg,
		statements=STATEMENTS,
		partial={
			'proved': 'name resolution, scope construction, fullyname/scope/namespace and declaration merging are equivariant under injective renamings (abstract layer); '
				'the string layer refines the abstract layer for identifier names for every modelled function, including VarsCollector._merged as repaired in 526fc7c; '
				'class naming, enum member lookup, the PatternParser regex helpers and the CppViewHelper type-name / base-class helpers return the parts of well-formed fragments verbatim and decide by whole names; '
				'every member-name comparison of py2cpp.py is type-guarded (kernel-decided over the generated table)',
			'correspondence_only': 'that the two model layers are what the Python does (streams dsn, scope-real, scope-synth, merge, naming, fragments, viewhelper, capture, templates); that the hand-written scanners of Fragment / ViewHelper equal the generated patterns (streams regex, viewhelper print both)',
			'search_only': 'the whole-pipeline law transpile(r(P)) == r(transpile(P)) incl. templates and the regex/string post-processing of py2cpp.py:1679-1836, symbol keys, inferred type strings',
			'not_modelled': 'the handler-less ClassDomainNaming.__namespace only on the string layer (dead from Py2Cpp); CppViewHelper.Param.parse (BlockParser: property C18) and Method.break_iterator_list_complex (its patterns are generated and matched, the function is not composed), Initializer.parse only as the composition over the generated patterns (no theorem), and the templates: search only',
			'generated': 'Generated/C08Regex.lean (15 compiled patterns, via re._parser), Generated/C08Sites.lean (comparison sites, ast scan vs translate/c08_sites_audited.json) and Generated/C08Names.lean (every comparison of a user-controlled name of py2cpp.py with constant words, the words evaluated in the imported module, with the type guards around it) are rewritten from the source on every run; the word sets of C08Names also drive the member-spelling programs of the search',
		},
		assumptions=[
			'names are non-empty strings without "." and "#" (every Python identifier; tranp scope words like if@115); module paths are non-empty without "#"',
			'a renaming is injective, maps user identifiers to names that are not keyword / builtin / tranp-reserved (c08gen.Reserved: self, cls, super, _, dunder names, every name of the loaded library modules, same leading-underscore class) and not present in the program; one relaxation, for NEW names only: a method / field may be renamed INTO a member spelling of Generated/C08Names.lean (items, pop, on, value, …) although the library defines members of that name — tranp decides by the receiver type there (name_sites_guarded); a name that coincides with a library name is never renamed AWAY (token-wise rewriting could not tell the occurrences of the user from those of the library)',
			'entry paths (Node.full_path) contain grammar tags and indices only',
		],
		trusted=['the harness-side extraction of (ancestor chain, symbol-table attributes) from real nodes and reflections', 'CPython ast/tokenize for the source-side renaming'])


def replay(ctx: Ctx, path: str) -> int:
	with open(path, encoding='utf-8') as f:
		rec = json.load(f)
	print(json.dumps(rec, indent=1)[:3000])
	inp = rec.get('input') or {}
	if rec.get('kind') == 'failing-input' and 'renaming' in inp:
		real = Real(ctx)
		base = real.observe(inp['source'])
		r = check_pair(real, inp['source'], inp['renaming'], base)
		print('replay: law', 'VIOLATED: ' + str(r) if isinstance(r, tuple) else f'holds ({r})')
		ctx.cleanup()
		return 1 if isinstance(r, tuple) else 0
	if rec.get('kind') == 'failing-input' and inp.get('origin') == 'sibling-scopes':
		real = Real(ctx)
		a, b = real.observe(two_loops(0), False), real.observe(inp['source'], False)
		print('replay: pad 0 ->', a['error'] or 'ok', '; recorded padding ->', b['error'] or 'ok')
		ctx.cleanup()
		return 1 if (a['error'] or 'ok') != (b['error'] or 'ok') else 0
	ctx2 = Ctx(PROP, rec.get('tier', 'quick'), int(rec.get('seed', 0)))
	return run(ctx2)


# ---------------------------------------------------------------------------------------------
# search: PatternParser commutes with renaming of identifier tokens (real code only)


FRAG_RESERVED = {'on', 'raw', 'ref', 'addr', 'weak', 'shared', 'const', 'return', 'auto', 'std', 'int', 'this', 'mutable', 'Any', 'void', 'static', 'inline', 'public'}


def search_fragments(ctx: Ctx) -> SearchResult:
	"""`f(rho(s)) == rho(f(s))` for every PatternParser helper, well-formed rendered fragments `s`, and injective renamings `rho` of
	the identifier tokens of `s` that are not reserved words of the patterns (on, raw, ref, ...; C++ keywords)."""
	from rogw.tranp.implements.cpp.transpiler.py2cpp import PatternParser
	rng = ctx.sub_rng('frag-search')
	res = SearchResult('PatternParser helpers commute with renaming of identifier tokens on well-formed fragments (real code only)')
	hist: Counter[str] = Counter()
	idents = ['ab', 'abc', 'item', 'items_', 'entry', 'node', 'Box', 'BoxItem', 'p', 'q2', 'a__b', 'recv', 'self_', 'value2']
	fresh = ['xon', 'button', 'draw', 'xraw', 'pref', 'aconst', 'on_', 'ons', 'raws', 'return_x', 'x', 'A', 'itemsx', 'o', 'n', 'shared_', 'weaker', 'i__n']
	ops = ['.', '->', '::']

	def chain(n: int) -> str:
		s = rng.choice(idents)
		for _ in range(n):
			s += rng.choice(ops) + rng.choice(idents) + rng.choice(['', '', '()', '(1)', '[0]'])
		return s

	shapes = {
		'break_relay': lambda: chain(rng.randint(0, 2)) + rng.choice(ops) + rng.choice(idents),
		'break_dict_iterator': lambda: chain(rng.randint(0, 2)) + rng.choice(['.', '->']) + rng.choice(['items', 'keys', 'values', *idents]) + '()',
		'pluck_class_var_name': lambda: f"{rng.choice(['int', 'std::map<std::string, int>', 'inline static Box', 'Box::BoxItem'])} {rng.choice(idents)} = {chain(1)};",
		'sub_cvar_relay': lambda: chain(rng.randint(0, 2)) + rng.choice(ops) + rng.choice(['on', 'on', *idents]) + '()',
		'sub_cvar_to': lambda: chain(rng.randint(0, 2)) + rng.choice(ops) + rng.choice(['raw', 'ref', 'addr', 'const', *idents]) + '()',
		'break_list_sort_key': lambda: (lambda e: f"[{rng.choice(['', '&', 'ab, p'])}]({rng.choice(['Box', 'Box::BoxItem', 'const Box&'])} {e}) -> {rng.choice(['int', 'Any'])} {{ return {e}{rng.choice(ops[:2])}{rng.choice(idents)}; }}")(rng.choice(idents)),
		'pluck_func_call_arguments': lambda: chain(1) + f"({', '.join(chain(rng.randint(0, 1)) for _ in range(rng.randint(0, 3)))})",
		'break_indexer': lambda: chain(1) + f'[{chain(rng.randint(0, 1))}]',
		'pluck_cvar_new': lambda: rng.choice(['Box', 'Box::BoxItem', 'ab']) + f"({', '.join(chain(0) for _ in range(rng.randint(0, 2)))})",
	}

	def apply(name: str, s: str) -> Any:
		try:
			out = getattr(PatternParser, name)(s)
			return tuple(out) if isinstance(out, (tuple, list)) else out
		except Exception as e:  # noqa: BLE001
			return f'<{exc_enum(e)}>'

	def ren(x: Any, m: dict[str, str]) -> Any:
		return tuple(c08gen.rename_text(y, m) for y in x) if isinstance(x, tuple) else c08gen.rename_text(x, m)

	for i in budgeted(range(ctx.scale(400, 5000))):
		name = rng.choice(sorted(shapes))
		s = shapes[name]()
		toks = sorted({t for t in c08gen.IDENT_RE.findall(s) if t not in FRAG_RESERVED})
		if not toks:
			continue
		chosen = rng.sample(toks, rng.randint(1, len(toks)))
		pool = [f for f in fresh + idents if f not in c08gen.IDENT_RE.findall(s)]
		rng.shuffle(pool)
		m = dict(zip(chosen, pool))
		res.cases += 1
		hist[name] += 1
		base = apply(name, s)
		got = apply(name, c08gen.rename_text(s, m))
		if isinstance(base, str) and base.startswith('<'):
			hist[f'{name}:shape-not-matched'] += 1
			continue
		if got != ren(base, m) and not res.findings:
			res.findings.append(Finding(key=f'fragment:{name}', what=f'PatternParser.{name}({s!r}) = {base!r}, but after renaming {m} the result is {got!r}',
				replay={'origin': 'fragment', 'function': name, 'text': s, 'renaming': m, 'base': base, 'renamed': got}))
		if len(res.samples) < 2:
			res.samples.append({'function': name, 'text': s, 'renaming': m, 'result': base})
	res.distinct = res.cases
	res.histogram = dict(hist)
	return res


# ---------------------------------------------------------------------------------------------
# round 3: class naming (naming.py), member lookup by name (Enum.var_value), fragment post-processing (PatternParser)


def _naming_fakes() -> dict[str, Any]:
	import rogw.tranp.syntax.node.definition as defs

	def mk(base: type, name: str) -> type:
		return type(name, (base,), {
			'__init__': lambda self, **kw: self.__dict__.update(kw),
			'fullyname': property(lambda self: self.__dict__['fn']),
			'domain_name': property(lambda self: self.__dict__['dn']),
			'module_path': property(lambda self: self.__dict__['mp']),
			'namespace': property(lambda self: self.__dict__.get('ns', '')),
			'alias_embedder': property(lambda self: self.__dict__.get('emb')),
			'parent': property(lambda self: self.__dict__['up']),
			'as_string': property(lambda self: self.__dict__['text']),
			'__hash__': lambda self: id(self),
			'__eq__': lambda self, other: self is other,
		})

	return {'Class': mk(defs.Class, 'NClass'), 'Entrypoint': mk(defs.Entrypoint, 'NEntrypoint'), 'Function': mk(defs.Function, 'NFunction'), 'String': mk(defs.String, 'NString')}


def cls_tok(c: Any) -> str:
	emb = c.alias_embedder
	if emb is None:
		return f'{hx(c.fullyname)}:{hx(c.domain_name)}:~:0'
	node = emb.arguments[0].value
	text = node.as_string if hasattr(node, 'as_string') and not isinstance(node, str) else node
	return f'{hx(c.fullyname)}:{hx(c.domain_name)}:{hx(text)}:{int(len(emb.arguments) == 2)}'


def stream_naming(ctx: Ctx) -> Stream:
	"""The REAL ClassDomainNaming on fake class nodes (nesting, prefix-sharing names, Embed.alias with and without prefix,
	translation table hits) and on the classes of generated programs with the real i18n table; handler-less __namespace (string layer)."""
	import rogw.tranp.syntax.node.definition as defs
	from rogw.tranp.dsn.translation import alias_dsn
	from rogw.tranp.semantics.reflection.helper.naming import ClassDomainNaming
	rng = ctx.sub_rng('naming')
	fk = _naming_fakes()
	cases = []
	names = ['Box', 'BoxItem', 'Item', 'Bo', 'B', 'Tree', 'TreeNode', 'Node', 'ab', 'abc', 'A_b', 'A__b', 'x', 'Box_', 'tree']

	def wrap(f) -> str:
		try:
			return hx(f())
		except Exception as e:  # noqa: BLE001
			return exc_enum(e)

	for i in budgeted(range(ctx.scale(200, 3000))):
		mod = rng.choice(MOD_POOL)
		entry = fk['Entrypoint'](mp=mod)
		depth = rng.randint(1, 4)
		chain: list[Any] = []
		up: Any = entry
		path: list[str] = []
		for d in range(depth):
			if rng.random() < 0.15 and d < depth - 1:
				fn = rng.choice(['f', 'make', 'ab'])
				path.append(fn)
				up = fk['Function'](fn=f'{mod}#' + '.'.join(path), dn=fn, mp=mod, up=up)   # defs.Function IS a ClassDef: it counts as an ancestor
				chain.append(up)
				continue
			n = rng.choice(names)
			emb = None
			k = rng.random()
			if k < 0.2:
				emb = pytypes.SimpleNamespace(arguments=[pytypes.SimpleNamespace(value=fk['String'](text=rng.choice(['Alias', 'ns::X', '', 'Box', 'a.b'])))])
			elif k < 0.35:
				emb = pytypes.SimpleNamespace(arguments=[pytypes.SimpleNamespace(value=fk['String'](text=rng.choice(['Pre', 'Box', 'C']))), pytypes.SimpleNamespace(value=None)])
			ns = f'{mod}#' + '.'.join(path) if path else mod
			path.append(n)
			c = fk['Class'](fn=f'{mod}#' + '.'.join(path), dn=n, mp=mod, up=up, emb=emb, ns=ns)
			chain.append(c)
			up = c
		target = chain[-1]
		ancestors = chain[:-1]
		table: dict[str, str] = {}
		for c in chain:
			if rng.random() < 0.2:
				table[alias_dsn(c.fullyname)] = rng.choice(['std::string', 'Renamed', '', 'Box', 'n.s'])
		handler = lambda key, fallback='': table.get(key, fallback)  # noqa: E731 - I18n.t
		tr = rng.random() < 0.7
		transpiler = (lambda node: f'"{node}"') if tr else None
		ops = ['alias.clear', *[f"alias.add\t{hx(k[len('aliases.'):])}\t{hx(v)}" for k, v in table.items()]]
		outs = ['ok'] * len(ops)
		ops.append(f"naming\t{int(tr)}\t{cls_tok(target)}\t{','.join(cls_tok(a) for a in ancestors) or '~'}\t{hx(mod)}")
		real = '|'.join([
			wrap(lambda: ClassDomainNaming.domain_name(target, handler, transpiler)),
			wrap(lambda: ClassDomainNaming.accessible_name(target, handler, transpiler)),
			wrap(lambda: ClassDomainNaming.fullyname(target, handler)),
		])
		outs.append(both(real))
		ops.append(f'naming.nohandler\t{hx(target.namespace)}\t{hx(mod)}')
		try:
			outs.append('ok ' + hx(_namespace_no_handler(target)))
		except Exception:  # noqa: BLE001
			outs.append('error')
		cases.append(({'kind': 'fake', 'depth': len(chain)}, ops, outs))

	# real classes of generated programs with the real translation table and the real alias transpiler
	real_app = Real(ctx)
	from rogw.tranp.i18n.i18n import I18n
	from rogw.tranp.implements.cpp.transpiler.py2cpp import Py2Cpp
	for i in budgeted(range(ctx.scale(6, 60))):
		src, _ = c08gen.generate_nest(random.Random(rng.getrandbits(48)), 1 + i % 3)
		try:
			module = real_app.load(src)
			i18n = real_app.app.resolve(I18n)
			py2cpp = real_app.app.resolve(Py2Cpp)
		except Exception:  # noqa: BLE001
			continue
		classes = [n for n in module.entrypoint.procedural() if isinstance(n, defs.ClassDef)]
		translation = i18n._I18n__translation.to
		ops = ['alias.clear']
		for c in classes:
			if alias_dsn(c.fullyname) in translation:
				ops.append(f'alias.add\t{hx(c.fullyname)}\t{hx(translation[alias_dsn(c.fullyname)])}')
		outs = ['ok'] * len(ops)
		for c in classes:
			ancestors = []
			cur = c.parent
			while not isinstance(cur, defs.Entrypoint):
				if isinstance(cur, defs.ClassDef):
					ancestors.insert(0, cur)
				cur = cur.parent

			def tok(x: Any) -> str:
				emb = x.alias_embedder
				if emb is None:
					return f'{hx(x.fullyname)}:{hx(x.domain_name)}:~:0'
				node = emb.arguments[0].value
				text = node.as_string if isinstance(node, defs.String) else py2cpp.transpile(node)[1:-1]
				return f'{hx(x.fullyname)}:{hx(x.domain_name)}:{hx(text)}:{int(len(emb.arguments) == 2)}'

			ops.append(f"naming\t1\t{tok(c)}\t{','.join(tok(a) for a in ancestors) or '~'}\t{hx(c.module_path)}")
			outs.append(both('|'.join([
				wrap(lambda: ClassDomainNaming.domain_name(c, i18n.t, py2cpp.transpile)),
				wrap(lambda: ClassDomainNaming.accessible_name(c, i18n.t, py2cpp.transpile)),
				wrap(lambda: ClassDomainNaming.fullyname(c, i18n.t)),
			])))
		cases.append(({'kind': 'real', 'depth': len(classes)}, ops, outs))
	st = common.correspond('naming', cases, 'scope', classify=lambda d: f"{d['kind']}:classes={min(d['depth'], 6)}")
	st.note = 'ClassDomainNaming.domain_name / accessible_name / fullyname with an alias handler on fake class chains (prefix-sharing names Box/BoxItem, functions between classes, Embed.alias text / prefix / empty, table hits incl. empty text) vs both layers; the handler-less __namespace vs the string layer; the classes of generated programs with the real i18n table'
	return st


def _namespace_no_handler(types: Any) -> str:
	"""`ClassDomainNaming.__namespace(types, None, None)` through the name-mangled private classmethod."""
	from rogw.tranp.semantics.reflection.helper.naming import ClassDomainNaming
	return ClassDomainNaming._ClassDomainNaming__namespace(types, None, None)


REGEX_TEXTS = {
	'PatternParser.RelayPattern': ['a.b', 'a->b', 'a::b', 'x.y->z', 'a', '.b', 'a.', 'a.b()', 'a\n.b', 'a:b', 'self->on'],
	'PatternParser.ListSortKeyPattern': ['[](Entry entry) -> Any { return entry.value; }', '[&](const Box& b) -> int { return b->n; }', '[](A a) { return a; }', '[](A a) -> int { return a.x }'],
	'PatternParser.DictIteratorPattern': ['d.items()', 'p->keys()', 'a.b.values()', 'd::items()', 'items()', 'd.items', 'd.items()\n'],
	'PatternParser.DeclClassVarNamePattern': ['int n = 0;', 'inline static int n = 0;', 'std::map<std::string, int> m = {};', 'n=0', ' n = 1', 'int n= 0', 'int  n_2  =  x = y'],
	'PatternParser.CVarRelaySubPattern': ['p.on()', 'p->on()', 'p::on()', 'p.xon()', 'p.on', 'on()', 'p.on()\n', 'p.on().on()'],
	'PatternParser.CVarToSubPattern': ['p.raw()', 'p->ref()', 'p.addr()', 'p.draw()', 'p.const()', 'p.raws()', 'p.shared()\n', 'a.weak().raw()'],
	'CppViewHelper.SuperInitializer.SuperCall': ['Base::__init__(1, 2);', 'Base_2::__init__();', 'a.Base::__init__(x);', 'Base::__init__(a; b);', 'Base::__init__(1)', 'Base::__init__(1);\n', '::__init__(1);'],
	'CppViewHelper.Initializer.MoveAssign': ['int this->n = 1;', 'std::string this->s_2 = a + b;', 'this->n = 1;', 'int this->n = 1', 'int  this->n  =  f(x);', 'int this->n = a; b;'],
	'CppViewHelper.Initializer.Initializer': ['Box this->b{1, 2};', 'Box this->b{};', 'Box this->b{a; b};', 'Box this->b {1};'],
	'CppViewHelper.Initializer.Empty': ['int this->n;', 'Box::Item this->item_1;', 'int this->n = 1;', 'this->n;'],
	'CppViewHelper.Param.VarType': ['const int& n', 'int* p', 'std::string s', 'const  Box::Item&', 'int', '*p', 'constant c', 'Box<int>&'],
	'CppViewHelper.VarType.PatternVarType': ['std::vector<int>', 'Box::Item*', 'const A', '<x>', 'a_b:c d', ''],
	'CppViewHelper.Method.PatternFor': ['for (auto i = 0; i < this->xs.size(); i++) {', 'for (auto i_2 = 0; i_2 < n; i_2 += 1) {', 'for (;;) {', 'for (auto i = 0; i < n; i++) {}'],
	'CppViewHelper.Method.PatternYield': ['\treturn this->xs[i];', '  return x;', 'return x;', '\treturn a; b;', '\n\treturn f(1);'],
	'CppViewHelper.Method.PatternIterates': ['this->xs[i]', 'a + this->b_2.c', 'that->x', 'this->', 'this->x this->y'],
}


def stream_regex(ctx: Ctx) -> Stream:
	"""CPython's `re` on the REAL compiled patterns vs the Lean matcher on the GENERATED patterns (fullmatch, search, sub)."""
	from translate import gen_c08_regex
	rng = ctx.sub_rng('regex')
	pats = gen_c08_regex.collect()
	cases = []
	alphabet = 'ab_1.:->()[]{};= \t\nxon&*<,'

	def show(m: Any) -> str:
		if m is None:
			return 'none'
		return f'ok {m.start()}:{m.end()} ' + '|'.join('~' if g is None else hx(g) for g in m.groups())

	for name in sorted(pats):
		p = pats[name]
		texts = list(REGEX_TEXTS.get(name, []))
		for base in list(texts):
			for _ in range(ctx.scale(3, 30)):
				t = list(base)
				for _ in range(rng.randint(1, 3)):
					k = rng.random()
					pos = rng.randrange(len(t) + 1)
					if k < 0.4 and t:
						t[min(pos, len(t) - 1)] = rng.choice(alphabet)
					elif k < 0.7:
						t.insert(pos, rng.choice(alphabet))
					elif t:
						del t[min(pos, len(t) - 1)]
				texts.append(''.join(t))
		for _ in range(ctx.scale(10, 100)):
			texts.append(''.join(rng.choice(alphabet) for _ in range(rng.randint(0, 12))))
		ops, outs = [], []
		for t in texts:
			ops.append(f're.fullmatch\t{name}\t{hx(t)}')
			outs.append(show(p.fullmatch(t)))
			ops.append(f're.search\t{name}\t{hx(t)}')
			outs.append(show(p.search(t)))
			ops.append(f're.sub\t{name}\t{hx(t)}')
			outs.append(hx(p.sub('', t)))
		cases.append(({'pattern': name}, ops, outs))
	st = common.correspond('regex', cases, 'scope', classify=lambda d: d['pattern'].split('.')[0])
	st.note = f'{len(pats)} compiled patterns of PatternParser / CppViewHelper (translated to Generated/C08Regex.lean on this run): fullmatch / search / sub(\'\') with spans and groups on hand-picked rendered statements, their mutations and random strings over a punctuation-heavy alphabet'
	return st


def stream_capture(ctx: Ctx) -> Stream:
	"""The REAL Lambda.ref_vars / Closure.ref_vars / Py2Cpp.make_lambda_binds on the lambdas and closures of generated programs —
	as generated and under renamings that make captured variables and parameters prefixes / suffixes of each other — vs the model."""
	import rogw.tranp.semantics.reflection.definition as refs
	import rogw.tranp.syntax.node.definition as defs
	from rogw.tranp.implements.cpp.transpiler.py2cpp import Py2Cpp
	from rogw.tranp.semantics.reflections import Reflections
	from rogw.tranp.syntax.node.definition.primary import PluckVars
	rng = ctx.sub_rng('capture')
	real = Real(ctx)
	reserved = real.reserved()
	avoid = c08gen.emitter_vocabulary() | reserved.words
	cases = []
	hist: Counter[str] = Counter()
	deadline = Deadline(ctx, 20, 150)
	n = ctx.scale(14, 120)
	for i in budgeted(range(n)):
		if deadline.cut(hist, i, n):
			break
		prng = random.Random(rng.getrandbits(48))
		src = c08gen.generate_pairs_program(prng, avoid) if i % 2 == 0 else c08gen.generate_nest(prng, 2)[0]
		if i % 4 != 3:
			try:
				dom = c08gen.renaming_domain(src, reserved)
				pairs = [p for p in c08gen.meeting_pairs(src) if 'captured' in p[2]]
				mapping, _ = c08gen.pair_renaming(prng, pairs, dom, set(c08gen.IDENT_RE.findall(src)), reserved, prng.randrange(c08gen.PAIR_COMBOS))
				if mapping:
					src = c08gen.rename_source(src, mapping)
					hist['program:captured/parameter names related'] += 1
			except Exception:  # noqa: BLE001
				pass
		try:
			module = real.load(src)
			reflections = real.app.resolve(Reflections)
			py2cpp = real.app.resolve(Py2Cpp)
			holders = [nd for nd in module.entrypoint.procedural() if isinstance(nd, (defs.Lambda, defs.Closure))]
		except Exception:  # noqa: BLE001
			hist['program:not-loadable'] += 1
			continue
		ops: list[str] = []
		outs: list[str] = []
		for nd in holders:
			try:
				params = [v.symbol.domain_name for v in nd.decl_vars]
				plucked = list(PluckVars.ref_vars(nd))
			except Exception:  # noqa: BLE001
				continue
			names = [v.domain_name for v in plucked]
			ops.append(f'capture\t{hl(params)}\t{hl(names)}')
			try:
				got = [v.domain_name for v in nd.ref_vars()]
				outs.append(f'{hl(got)}|{hl(list(dict.fromkeys(got)))}')
			except Exception as e:  # noqa: BLE001
				outs.append(exc_enum(e))
			# make_lambda_binds: the type test (classes and functions are not captured) is name-free: applied here, then the model decides
			try:
				if any(isinstance(v, defs.ThisRef) for v in plucked):
					continue
				typed = []
				for v in plucked:
					raw = reflections.type_of(v).impl(refs.Object)
					if raw.type_is(type) or raw.types.is_a(defs.Function):
						continue
					typed.append(v.domain_name)
			except Exception:  # noqa: BLE001
				continue
			ops.append(f'capture\t{hl(params)}\t{hl(typed)}')
			try:
				binds = py2cpp.make_lambda_binds(nd)
				outs.append(f'{hl([x for x in typed if x not in params])}|{hl(list(binds))}')
			except Exception as e:  # noqa: BLE001
				outs.append(exc_enum(e))
			hist['lambda' if isinstance(nd, defs.Lambda) else 'closure'] += 1
		if ops:
			cases.append(({'holders': len(holders)}, ops, outs))
	st = common.correspond('capture', cases, 'scope', classify=lambda d: f"lambdas+closures={min(d['holders'], 5)}")
	st.histogram.update(hist)
	st.note = ('Lambda.ref_vars / Closure.ref_vars (names of the referenced variables that are not parameters) and Py2Cpp.make_lambda_binds (capture list) of every lambda and closure of '
		'meeting-pair programs and nests, three quarters of them renamed so that a captured variable and a parameter are prefix / suffix / infix / case variants of each other')
	return st


def signature_type_vars(source: str) -> dict[tuple[str, str], tuple[list[str], list[str]]]:
	"""(class or '', function) -> (type variables of the class's Generic[...] bases, type variables used in the parameter and return
	annotations in source order), read off the CPython ast."""
	import ast
	tree = ast.parse(source)
	tvars = {t.id for st in tree.body if isinstance(st, ast.Assign) and isinstance(st.value, ast.Call) and isinstance(st.value.func, ast.Name) and st.value.func.id == 'TypeVar'
		for t in st.targets if isinstance(t, ast.Name)}

	def names(e: Any) -> list[str]:
		out: list[str] = []
		if e is None:
			return out
		if isinstance(e, ast.Constant) and isinstance(e.value, str):
			try:
				return names(ast.parse(e.value, mode='eval').body)
			except SyntaxError:
				return out
		if isinstance(e, ast.Name):
			return [e.id] if e.id in tvars else []
		for child in ast.iter_child_nodes(e):
			out += names(child)
		return out

	table: dict[tuple[str, str], tuple[list[str], list[str]]] = {}

	def visit(body: list[Any], cls: str, klass: list[str]) -> None:
		for st in body:
			if isinstance(st, ast.ClassDef):
				visit(st.body, st.name, [n for b in st.bases for n in names(b)])
			elif isinstance(st, (ast.FunctionDef, ast.AsyncFunctionDef)):
				used: list[str] = []
				for a in [*st.args.posonlyargs, *st.args.args, *st.args.kwonlyargs]:
					if a.arg not in ('self', 'cls'):
						used += names(a.annotation)
				used += names(st.returns)
				table[(cls, st.name)] = (klass if cls else [], used)

	visit(tree.body, '', [])
	return table


def stream_templates(ctx: Ctx) -> Stream:
	"""The REAL type-parameter list of every function / method / class method / constructor (`function_templates`: Function.templates,
	Method.templates) vs the model fed with the type variables of the signature as the CPython ast shows them."""
	import rogw.tranp.semantics.reflection.definition as refs
	import rogw.tranp.syntax.node.definition as defs
	from rogw.tranp.semantics.reflections import Reflections
	rng = ctx.sub_rng('templates')
	real = Real(ctx)
	reserved = real.reserved()
	avoid = c08gen.emitter_vocabulary() | reserved.words
	cases = []
	hist: Counter[str] = Counter()
	deadline = Deadline(ctx, 15, 120)
	n = ctx.scale(8, 80)
	for i in budgeted(range(n)):
		if deadline.cut(hist, i, n):
			break
		prng = random.Random(rng.getrandbits(48))
		src = c08gen.generate_pairs_program(prng, avoid) if i % 4 != 3 else c08gen.generate_nest(prng, 2)[0]
		if i % 2 == 1:
			try:
				dom = c08gen.renaming_domain(src, reserved)
				src = c08gen.rename_source(src, c08gen.reverse_order_renaming(dom, set(c08gen.IDENT_RE.findall(src)), reserved))
				hist['program:alphabetical order of all identifiers reversed'] += 1
			except Exception:  # noqa: BLE001
				pass
		try:
			table = signature_type_vars(src)
			module = real.load(src)
			reflections = real.app.resolve(Reflections)
			fns = [nd for nd in module.entrypoint.procedural() if isinstance(nd, defs.Function) and not isinstance(nd, defs.Closure)]
		except Exception:  # noqa: BLE001
			hist['program:not-loadable'] += 1
			continue
		ops: list[str] = []
		outs: list[str] = []
		for nd in fns:
			try:
				cls = nd.class_types.domain_name if isinstance(nd, (defs.Method, defs.ClassMethod, defs.Constructor)) else ''
				key = (cls, nd.domain_name)
			except Exception:  # noqa: BLE001
				continue
			if key not in table:
				continue
			klass, used = table[key]
			ops.append(f'templates\t{hl(klass)}\t{hl(used)}')
			try:
				outs.append(hl([t.domain_name for t in reflections.type_of(nd).impl(refs.Function).function_templates()]))
			except Exception as e:  # noqa: BLE001
				outs.append(exc_enum(e))
			hist[f'{type(nd).__name__}:type-vars={min(len(set(used) - set(klass)), 3)}'] += 1
		if ops:
			cases.append(({'functions': len(ops)}, ops, outs))
	st = common.correspond('templates', cases, 'scope', classify=lambda d: f"functions<{10 * (1 + d['functions'] // 10)}")
	st.histogram.update(hist)
	st.note = ('function_templates() of every function, method, class method and constructor of meeting-pair programs (generic class, generic method / class method / free function with two '
		'type variables declared and used in random order) and nests, half of them with the alphabetical order of all identifiers reversed; signature type variables from the CPython ast')
	return st


VIEW_TYPES = ['Box', 'Box::Item', 'constant', 'const_x', 'constBox', 'Const', 'std::string', 'std::vector', 'int', 'Iteratorx', 'A', 'const', 'a_b:c', 'x1']
VIEW_SUFFIXES = ['', '', '<int>', '*', '&', '<int>&', '<Box::Item>*', ' *', ' &', '[]', '<std::map<std::string, int>>', ' ', '<', '&&', '*x']
VIEW_IMMUTABLE = ['std::string', 'std::vector', 'std::map', 'std::function', 'Box', 'Box::Item', 'constant', 'const', 'std', 'Bo']
VIEW_ANNOS = ['Embed::mutable', 'Embed::immutable', 'Embed::other', 'mutable', 'Embed::immutablex']


def stream_viewhelper(ctx: Ctx) -> Stream:
	"""The REAL CppViewHelper functions that take type names, base-class names and member initialisers apart vs the hand-written
	scanners AND the compositions over the generated patterns (driver prints both; both must agree with the real result)."""
	from rogw.tranp.implements.cpp.view.cpp_view_helper import CppViewHelper
	rng = ctx.sub_rng('viewhelper')
	cases = []
	alphabet = 'ab_1:<>*& ;=(){}\t\nconst-.'

	def noise(t: str) -> str:
		chars = list(t)
		for _ in range(rng.randint(1, 2)):
			k = rng.random()
			pos = rng.randrange(len(chars) + 1)
			if k < 0.4 and chars:
				chars[min(pos, len(chars) - 1)] = rng.choice(alphabet)
			elif k < 0.7:
				chars.insert(pos, rng.choice(alphabet))
			elif chars:
				del chars[min(pos, len(chars) - 1)]
		return ''.join(chars)

	def call(f: Any, show: Any) -> str:
		try:
			return show(f())
		except Exception as e:  # noqa: BLE001
			return exc_enum(e)

	def two(x: str) -> str:
		return f'H={x} G={x}'

	pair = lambda ab: f'ok {hx(ab[0])}|{hx(ab[1])}'  # noqa: E731
	text = lambda t: f'ok {hx(t)}'  # noqa: E731
	for i in budgeted(range(ctx.scale(350, 5000))):
		ops: list[str] = []
		outs: list[str] = []
		ty = rng.choice(VIEW_TYPES)
		vt = rng.choice(['', '', 'const ', 'const  ', 'const\t', 'constant ']) + ty + rng.choice(VIEW_SUFFIXES)
		if i % 5 == 4:
			vt = rng.choice(['', '*p', '<x>', ' Box', 'const', 'const ', ':', noise(vt), ''.join(rng.choice(alphabet) for _ in range(rng.randint(0, 8)))])
		annos = rng.sample(VIEW_ANNOS, rng.randint(0, 2)) if rng.random() < 0.6 else []
		imm = rng.sample(VIEW_IMMUTABLE, rng.randint(0, 4))
		ops.append(f'view.annotated\t{hx(vt)}\t{hl(annos)}\t{hl(imm)}')
		outs.append(two(call(lambda: CppViewHelper.VarType.annotated(vt, annos, imm), text)))
		ops.append(f'view.origin\t{hx(vt)}')
		outs.append(two(call(lambda: CppViewHelper.Param(vt, 'x', '').var_type_origin, text)))
		ops.append(f'view.immutable\t{hx(vt)}')
		outs.append(call(lambda: CppViewHelper.VarType.to_immutable(vt), hx))
		base = rng.choice(['Base', 'Base_2', 'B', 'constant', 'Box__init__', 'x1', 'Outer::Base', 'a.Base', ''])
		args = rng.choice(['', '1', 'a, b', 'f(1), g(2)', 'a; b', '"x;"', 'a)', '(a', 'n\n'])
		st = f'{base}::__init__({args});' + rng.choice(['', '', '', '\n', ' ', ';', '\n\n'])
		if i % 4 == 3:
			st = rng.choice([noise(st), st[:-1], st.replace('::', ':', 1), st.replace('__init__', rng.choice(['__init', 'init__', '__init__x', '__new__'])), ''])
		ops.append(f'view.super\t{hx(st)}')
		outs.append(two(call(lambda: CppViewHelper.SuperInitializer.parse(st), pair)))
		field = rng.choice(['n', 'n_2', 'items', 'thisx', 'x1', 'const', ''])
		ini = rng.choice([f'int this->{field} = 1;', f'std::string this->{field} = a + b;', f'Box this->{field}{{1, 2}};', f'Box this->{field}{{}};', f'int this->{field};',
			f'Box::Item  this->{field}  =  f(x);', f'int this->{field} = this->m = 2;', f'this->{field} = 1;', f'int that->{field} = 1;', f'int this->{field} = a; b;',
			f'int this->{field} =  ;', f'int this->{field} = 1;\n', f'A\nB this->{field} = 1;', f'int this->{field} {{1}};', f'int this->{field}{{a; b}};'])
		if i % 6 == 5:
			ini = noise(ini)
		ops.append(f'view.init\t{hx(ini)}')
		outs.append(call(lambda: CppViewHelper.Initializer.parse(ini), pair))
		cases.append(({'malformed': i % 5 == 4 or i % 4 == 3}, ops, outs))
	stream = common.correspond('viewhelper', cases, 'scope', classify=lambda d: 'noisy' if d['malformed'] else 'structured')
	stream.note = ('CppViewHelper.VarType.annotated / to_immutable, Param.var_type_origin, SuperInitializer.parse, Initializer.parse on rendered type names '
		'(names that begin with const, nested names, template arguments, pointers / references, qualifier with blanks and tabs), base-class calls and member initialisers, '
		'with mutated and random texts; annotated / origin / super are answered twice by the model (hand-written scanner = the subject of the theorems, and the composition over the generated patterns)')
	return stream


def translate(ctx: Ctx) -> tuple[bool, str]:
	"""Regenerate the C08 tables from the source; a translator that no longer understands its input breaks the tie."""
	msgs = []
	ok = True
	for modname in ('gen_c08_regex', 'gen_c08_sites', 'gen_c08_names'):
		try:
			mod = __import__(f'translate.{modname}', fromlist=['generate'])
			for rec in mod.generate():
				ctx.generated_tables.append(rec)
		except Exception as e:  # noqa: BLE001
			ok = False
			msgs.append(f'{modname}: {type(e).__name__}: {e}')
	return ok, '; '.join(msgs)


FRAG_WORDS = ['on', 'xon', 'on_', 'raw', 'raws', 'draw', 'ref', 'addr', 'weak', 'shared', 'const', 'items', 'keys', 'values', 'item', 'ab', 'abc', 'a__b', 'n', 'Box', 'BoxItem', 'self', 'this', 'x1', '_p']
FRAG_OPS = ['.', '->', '::', ':', '-', '>', '..', '.->', ' ']


def gen_fragment(rng: random.Random) -> str:
	k = rng.random()
	w = lambda: rng.choice(FRAG_WORDS)  # noqa: E731
	if k < 0.45:
		s = w()
		for _ in range(rng.randint(0, 3)):
			s += rng.choice(FRAG_OPS[:3] if rng.random() < 0.8 else FRAG_OPS) + w() + rng.choice(['', '', '()', '(1)', '[0]'])
		return s + rng.choice(['', '', '()', '\n', ' ', '()\n', ';'])
	if k < 0.7:
		ty = rng.choice(['int', 'std::map<std::string, int>', 'inline static int', 'const A', 'A::B*', ''])
		return f"{rng.choice(['', ' ', '\t', 'public: '])}{ty}{rng.choice([' ', '  ', '\t', ''])}{w()}{rng.choice([' ', '', '  '])}={rng.choice([' ', ''])}{w()};"
	if k < 0.85:
		return rng.choice(['', '.', '->', 'on()', '.on()', '::raw()', 'a', 'a.', '.a', 'a\n.b', 'a.b\n', 'a .b', 'a. b', ' = ', 'x =', ' x= 1', ' x = = 1'])
	return ''.join(rng.choice('ab_.>-: ()=\n1') for _ in range(rng.randint(0, 10)))


def stream_fragments(ctx: Ctx) -> Stream:
	"""The REAL PatternParser regex helpers and Enum.var_value vs the model."""
	import rogw.tranp.syntax.node.definition as defs
	from rogw.tranp.implements.cpp.transpiler.py2cpp import PatternParser, Py2Cpp
	rng = ctx.sub_rng('fragments')
	cases = []

	def grp(f, s: str) -> str:
		try:
			return 'ok ' + '|'.join(hx(x) for x in f(s))
		except AttributeError:
			return 'none'   # `None.group`: the pattern did not match
		except Exception as e:  # noqa: BLE001
			return exc_enum(e)

	def txt(f, s: str) -> str:
		try:
			return hx(f(s))
		except Exception as e:  # noqa: BLE001
			return exc_enum(e)

	for i in budgeted(range(ctx.scale(600, 8000))):
		s = gen_fragment(rng)
		ops = [f'frag.relay\t{hx(s)}', f'frag.dictiter\t{hx(s)}', f'frag.subrelay\t{hx(s)}', f'frag.subto\t{hx(s)}', f'frag.classvar\t{hx(s)}']
		outs = [grp(PatternParser.break_relay, s), grp(PatternParser.break_dict_iterator, s), txt(PatternParser.sub_cvar_relay, s), txt(PatternParser.sub_cvar_to, s), txt(PatternParser.pluck_class_var_name, s)]
		# is_initializer_call(value, var_type): constructor calls, call chains, callees that merely begin with the type name
		ty = rng.choice(['A', 'Widget', 'int', 'Box::BoxItem', 'std::vector<int>'])
		callee = rng.choice([ty, ty, ty + '_build', ty + 'x', 'x' + ty, 'build', ty + '::make'])
		args = rng.choice(['', '1', 'a, b', 'f(1)', 'f(1), g(2)', '(1)', ')(', '('])
		val = callee + '(' + args + ')' + rng.choice(['', '', '', '.dup()', '.n', ';', '(2)'])
		ops.append(f'frag.initcall\t{hx(val)}\t{hx(ty)}')
		try:
			outs.append('true' if Py2Cpp.is_initializer_call(None, val, ty) else 'false')  # type: ignore[arg-type]
		except Exception as e:  # noqa: BLE001
			outs.append(exc_enum(e))
		cases.append(({'kind': 'fragment'}, ops, outs))

	# Enum.var_value on the enums of generated programs: members, and names that only share a prefix / suffix with a member
	real = Real(ctx)
	for i in budgeted(range(ctx.scale(6, 50))):
		src, _ = c08gen.generate_nest(random.Random(rng.getrandbits(48)), 1 + i % 2)
		try:
			module = real.load(src)
		except Exception:  # noqa: BLE001
			continue
		for en in [n for n in module.entrypoint.procedural() if isinstance(n, defs.Enum)]:
			members = [v.symbol.domain_name for v in en.vars]
			values = [v.declare.value for v in en.vars]
			ops, outs = [], []
			for m in members:
				for q in {m, 'x' + m, m + 'x', m[1:], m[:-1], members[0] + m, m + members[-1], ''}:
					ops.append(f'enum.value\t{hx(q)}\t{hl(members)}')
					try:
						got = en.var_value(q)
						idx = [j for j, v in enumerate(values) if v is got or v == got]
						outs.append(both(str(idx[0]) if idx else '?'))
					except Exception as e:  # noqa: BLE001
						outs.append(both(exc_enum(e)))
			if ops:
				cases.append(({'kind': 'enum'}, ops, outs))
	st = common.correspond('fragments', cases, 'scope', classify=lambda d: d['kind'])
	st.note = 'PatternParser.break_relay / break_dict_iterator / sub_cvar_relay / sub_cvar_to / pluck_class_var_name on well-formed and malformed rendered fragments (words that end in on / raw, single : - >, newlines, missing parts); Enum.var_value for member names and names sharing a prefix / suffix with a member'
	return st
