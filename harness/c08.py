"""C08 — Consistent renaming of user identifiers commutes with transpilation.

Theorems: lean/Tranp/Props/C08.lean over lean/Tranp/Model/Scope.lean (abstract layer: names are an abstract type) and
lean/Tranp/Model/ScopeStr.lean (string layer: the joined `module#a.b` strings the Python works on).
Tie: correspondence streams between the real `ModuleDSN` / `Node.scope|namespace|fullyname` / `SymbolFinder` /
`VarsCollector` and BOTH model layers (driver family `scope`).
Search: the property's own metamorphic oracle on the real code — `transpile(r(P)) == r(transpile(P))`, the same for the
symbol-table keys and the inferred type strings — for generated programs and injective renamings into adversarial fresh
names; plus the replay of the `_counterexample` witnesses of Props/C08.lean on the real code.
"""
from __future__ import annotations

import json
import os
import random
import types as pytypes
from collections import Counter
from typing import Any

from harness import c08gen, common
from harness.common import Ctx, Finding, SearchResult, Stream, exc_enum, hx

PROP = 'C08'
CORPUS = os.path.join(common.CORPUS_DIR, PROP)


# ---------------------------------------------------------------------------------------------
# real-code plumbing


def make_app(cache_dir: str) -> common.MemApp:
	"""In-memory App with the DI definitions of tests/unit/rogw/tranp/implements/cpp/transpiler/test_py2cpp.py."""
	from rogw.tranp.app.dir import tranp_dir
	from rogw.tranp.app.dummy import make_dummy_module_meta_factory
	from rogw.tranp.data.meta.types import ModuleMetaFactory
	from rogw.tranp.i18n.i18n import I18n, TranslationMapping
	from rogw.tranp.implements.cpp.providers.i18n import translation_mapping_cpp
	from rogw.tranp.implements.cpp.providers.view import renderer_helper_provider_cpp
	from rogw.tranp.implements.cpp.transpiler.py2cpp import Py2Cpp
	from rogw.tranp.lang.middleware import Middleware
	from rogw.tranp.lang.module import to_fullyname
	from rogw.tranp.transpiler.types import TranspilerOptions
	from rogw.tranp.view.render import Renderer, RendererEmitter, RendererHelperProvider, RendererSetting

	def make_renderer_setting(i18n: I18n, emitter: RendererEmitter) -> RendererSetting:
		template_dirs = [os.path.join(tranp_dir(), 'data/cpp/template')]
		env = {'immutable_param_types': ['std::string', 'std::vector', 'std::map', 'std::function']}
		return RendererSetting(template_dirs, i18n.t, emitter, env)

	# tranp's DI reads real annotation objects; this module uses postponed (string) annotations
	make_renderer_setting.__annotations__ = {'i18n': I18n, 'emitter': RendererEmitter, 'return': RendererSetting}

	return common.MemApp(cache_dir, {
		to_fullyname(Py2Cpp): Py2Cpp,
		to_fullyname(Renderer): Renderer,
		to_fullyname(RendererEmitter): Middleware,
		to_fullyname(RendererHelperProvider): renderer_helper_provider_cpp,
		to_fullyname(RendererSetting): make_renderer_setting,
		to_fullyname(TranslationMapping): translation_mapping_cpp,
		to_fullyname(TranspilerOptions): lambda: TranspilerOptions(verbose=False, env={}),
		to_fullyname(ModuleMetaFactory): make_dummy_module_meta_factory,
	})


class Real:
	"""One real tranp App; every observation reloads `__main__` from the given source."""

	def __init__(self, ctx: Ctx) -> None:
		self.ctx = ctx
		self.app = make_app(ctx.tmpdir())
		self._reserved: c08gen.Reserved | None = None

	def fresh(self) -> 'Real':
		return Real(self.ctx)

	def load(self, source: str) -> Any:
		return self.app.module(source)

	def db(self) -> Any:
		from rogw.tranp.semantics.reflection.db import SymbolDB
		return self.app.resolve(SymbolDB)

	def reserved(self) -> c08gen.Reserved:
		"""Reserved words = keywords + builtins + tranp's own words; the library part is read off the real symbol table."""
		if self._reserved is None:
			self.load('from typing import ClassVar\nfrom enum import Enum\n')
			from rogw.tranp.dsn.module import ModuleDSN
			names: set[str] = set()
			for key in self.db().keys():
				mod, elems = ModuleDSN.expanded(key)
				if mod != self.app.main:
					names.update(e.split('@')[0] for e in elems)
			self._reserved = c08gen.Reserved(names)
		return self._reserved

	def observe(self, source: str, with_types: bool = True) -> dict[str, Any]:
		"""Transpile and collect output text, symbol keys of the program's module (in table order) and type strings."""
		import rogw.tranp.syntax.node.definition as defs
		from rogw.tranp.implements.cpp.transpiler.py2cpp import Py2Cpp
		from rogw.tranp.semantics.reflections import Reflections
		obs: dict[str, Any] = {'out': None, 'error': None, 'keys': [], 'types': {}}
		try:
			module = self.load(source)
			obs['out'] = self.app.resolve(Py2Cpp).transpile(module.entrypoint)
		except Exception as e:  # noqa: BLE001
			obs['error'] = exc_enum(e)
			obs['message'] = str(e)[:300]
			return obs
		main = self.app.main
		db = self.db()
		obs['keys'] = [k for k in db.keys() if k == main or k.startswith(f'{main}#')]
		if with_types:
			reflections = self.app.resolve(Reflections)
			tys: dict[str, str] = {}
			for k in obs['keys']:
				try:
					tys[f'key:{k}'] = str(reflections.from_fullyname(k))
				except Exception as e:  # noqa: BLE001
					tys[f'key:{k}'] = exc_enum(e)
			for node in module.entrypoint.procedural():
				if isinstance(node, (defs.Declable, defs.Var, defs.Relay, defs.FuncCall, defs.Indexer)):
					try:
						tys[f'node:{node.full_path}'] = str(reflections.type_of(node))
					except Exception as e:  # noqa: BLE001
						tys[f'node:{node.full_path}'] = exc_enum(e)
			obs['types'] = tys
		return obs


# ---------------------------------------------------------------------------------------------
# search: the metamorphic law on the real code


def compare(base: dict[str, Any], renamed: dict[str, Any], mapping: dict[str, str]) -> tuple[str, str] | None:
	"""None when `renamed` is exactly `base` with the renaming applied; else (aspect, explanation)."""
	if renamed['error'] is not None:
		return 'error', f"transpile(r(P)) raises {renamed['error']}: {renamed.get('message', '')[:160]}"
	want = c08gen.rename_text(base['out'], mapping)
	if want != renamed['out']:
		a, b = want.splitlines(), renamed['out'].splitlines()
		for i in range(max(len(a), len(b))):
			la = a[i] if i < len(a) else '<eof>'
			lb = b[i] if i < len(b) else '<eof>'
			if la != lb:
				return 'diff', f'output line {i + 1}: r(transpile(P)) has {la.strip()!r}, transpile(r(P)) has {lb.strip()!r}'
	want_keys = [c08gen.rename_text(k, mapping) for k in base['keys']]
	if want_keys != renamed['keys']:
		if sorted(want_keys) == sorted(renamed['keys']):
			return 'key-order', 'symbol keys agree as a set but not in table order'
		d = sorted(set(want_keys) ^ set(renamed['keys']))
		return 'keys', f'symbol keys differ: {d[:4]}'
	want_types = {c08gen.rename_text(k, mapping): c08gen.rename_text(v, mapping) for k, v in base['types'].items()}
	if want_types != renamed['types']:
		for k in want_types:
			if want_types[k] != renamed['types'].get(k):
				return 'types', f'inferred type of {k}: r(.)={want_types[k]!r} vs {renamed["types"].get(k)!r}'
		return 'types', 'different sets of typed nodes'
	return None


def check_pair(real: Real, source: str, mapping: dict[str, str], base: dict[str, Any] | None = None) -> tuple[str, str] | None | str:
	"""Runs the law for one (P, r). Returns 'skip' when P itself is outside tranp's input language."""
	base = base if base is not None else real.observe(source)
	if base['error'] is not None:
		return 'skip'
	renamed_src = c08gen.rename_source(source, mapping)
	return compare(base, real.observe(renamed_src), mapping)


def legal_renaming(source: str, mapping: dict[str, str], reserved: c08gen.Reserved) -> bool:
	"""The oracle's domain: r is injective, touches only renamable user identifiers, and maps them to fresh names."""
	domain = c08gen.renaming_domain(source, reserved)
	idents = set(c08gen.IDENT_RE.findall(source))
	if not mapping or len(set(mapping.values())) != len(mapping):
		return False
	for a, b in mapping.items():
		if a not in domain or b in idents or not reserved.fresh_ok(b, a):
			return False
	return True


def shrink_renaming(real: Real, source: str, mapping: dict[str, str], base: dict[str, Any]) -> tuple[dict[str, str], tuple[str, str]]:
	"""Smallest sub-renaming that still violates the law (singletons first, then greedy removal)."""
	for n in sorted(mapping):
		one = {n: mapping[n]}
		res = check_pair(real, source, one, base)
		if isinstance(res, tuple):
			return one, res
	cur = dict(mapping)
	last = check_pair(real, source, cur, base)
	for n in sorted(mapping):
		if len(cur) <= 1:
			break
		cand = {k: v for k, v in cur.items() if k != n}
		res = check_pair(real, source, cand, base)
		if isinstance(res, tuple):
			cur, last = cand, res
	assert isinstance(last, tuple)
	return cur, last


def finding_of(real: Real, source: str, mapping: dict[str, str], base: dict[str, Any], origin: str) -> Finding:
	small, (aspect, why) = shrink_renaming(real, source, mapping, base)
	idents = set(c08gen.IDENT_RE.findall(source))
	kinds = c08gen.user_identifiers(source)
	rels = sorted({c08gen.relation_of(b, idents - {a}) for a, b in small.items()})
	key = f"{'+'.join(rels)}:{aspect}"
	what = f"renaming {small} ({', '.join(f'{a}: {kinds.get(a)}' for a in small)}) changes the result: {why}"
	return Finding(key=key, what=what, replay={'origin': origin, 'source': source, 'renaming': small, 'full_renaming': mapping, 'aspect': aspect, 'why': why})


def corpus_cases() -> list[dict[str, Any]]:
	out = []
	if os.path.isdir(CORPUS):
		for fn in sorted(os.listdir(CORPUS)):
			if fn.endswith('.json'):
				with open(os.path.join(CORPUS, fn), encoding='utf-8') as f:
					rec = json.load(f)
				rec['file'] = fn
				out.append(rec)
	return out


def program_stream(ctx: Ctx, rng: random.Random, n: int):
	"""(origin, source, histogram-tag): the nest generator of this property and the typed generator of C01."""
	try:
		from harness import gen_prog
	except Exception:  # noqa: BLE001
		gen_prog = None  # type: ignore
	for i in range(n):
		if gen_prog is not None and i % 4 == 3:
			try:
				p, _ = gen_prog.generate(random.Random(rng.getrandbits(48)), size=2)
				yield f'gen_prog#{i}', gen_prog.print_prog(p), 'gen_prog'
				continue
			except Exception:  # noqa: BLE001
				pass
		src, _ = c08gen.generate_nest(random.Random(rng.getrandbits(48)), 1 + i % 3)
		yield f'nest#{i}', src, 'nest'


def search_rename(ctx: Ctx) -> SearchResult:
	rng = ctx.sub_rng('rename')
	res = SearchResult('transpile(r(P)) == r(transpile(P)), same for symbol keys and inferred type strings (real code only)')
	real = Real(ctx)
	reserved = real.reserved()
	hist: Counter[str] = Counter()
	seen: set[str] = set()
	found_keys: set[str] = set()

	# 1. corpus: defect witnesses and past disagreements, replayed first
	for rec in corpus_cases():
		if rec.get('kind') != 'rename':
			continue
		src, mapping = rec['source'], rec['renaming']
		res.cases += 1
		hist['corpus'] += 1
		if not legal_renaming(src, mapping, reserved):
			ctx.notes.append(f"corpus {rec['file']}: renaming is outside the oracle's domain on this tree (ignored)")
			continue
		base = real.observe(src)
		r = check_pair(real, src, mapping, base)
		if isinstance(r, tuple):
			f = finding_of(real, src, mapping, base, f"corpus/{rec['file']}")
			if f.key not in found_keys:
				found_keys.add(f.key)
				res.findings.append(f)

	# 2. generated programs × adversarial renamings
	n_prog = ctx.scale(70, 900)
	per_prog = ctx.scale(4, 8)
	for origin, src, tag in program_stream(ctx, rng, n_prog):
		try:
			domain = c08gen.renaming_domain(src, reserved)
		except SyntaxError:
			continue
		base = real.observe(src)
		if base['error'] is not None:
			hist[f'{tag}:outside-input-language'] += 1
			continue
		idents = set(c08gen.IDENT_RE.findall(src))
		for j in range(per_prog):
			how = None if j else len(domain)   # first renaming of a program renames everything
			mapping = c08gen.make_renaming(rng, domain, idents, reserved, how)
			if not mapping:
				continue
			assert legal_renaming(src, mapping, reserved), mapping
			res.cases += 1
			sig = f'{hash(src)}:{sorted(mapping.items())}'
			seen.add(sig)
			hist[f'{tag}:|r|={min(len(mapping), 9) if len(mapping) < len(domain) else "all"}'] += 1
			for b_name in mapping.values():
				hist[f'fresh:{c08gen.relation_of(b_name, idents)}'] += 1
			for a_name in mapping:
				hist[f'kind:{domain[a_name]}'] += 1
			r = check_pair(real, src, mapping, base)
			if isinstance(r, tuple):
				# history independence of the verdict: confirm on a fresh App before reporting
				again = Real(ctx)
				if not isinstance(check_pair(again, src, mapping), tuple):
					ctx.notes.append(f'{origin}: disagreement not reproduced on a fresh App (session history) — not reported here (C04)')
					continue
				f = finding_of(again, src, mapping, again.observe(src), origin)
				if f.key not in found_keys:
					found_keys.add(f.key)
					res.findings.append(f)
			elif len(res.samples) < 2:
				res.samples.append({'origin': origin, 'renaming': dict(list(mapping.items())[:4]), 'output_lines': len(base['out'].splitlines()), 'keys': len(base['keys']), 'typed_nodes': len(base['types'])})
	res.distinct = len(seen)
	res.histogram = dict(hist)
	res.note = ('programs: nests (module names, classes, class vars, fields, methods, class methods, properties, nested classes, inheritance, enums, '
		'functions, closures, flow-scoped locals with sibling re-declaration, comprehensions) + gen_prog; renamings injective, into names that are not '
		'keyword/builtin/tranp-reserved (c08gen.Reserved), same underscore class, not occurring in P; domain excludes names the emitter can produce itself and data-string words')
	return res
