"""Canonical forms for the C11 oracle: the self-hosted parser's tuple tree and CPython's `ast` are both mapped to the same
nested-tuple language, on the subset of Python that data/syntax/py_gram.lark can express. Anything outside raises `Outside`.

expressions  ('name', id) ('const', repr) ('bin', op, l, r) ('neg', e) ('not', e) ('bool', 'and'|'or', [e…])
             ('cmp', e0, [(op, e)…]) ('ifexp', body, test, orelse) ('walrus', target, value) ('lambda', [names], body)
             ('attr', e, name) ('call', f, [('pos'|'star', e)…], [('kw', name, e)|('dstar', e)…])
             ('sub', e, ('idx', e) | ('slice', lo, hi, step|None)) ('list', […]) ('tuple', […]) ('dict', [(k, v)…])
statements   ('expr', e) ('assign', target, e) ('return', e|None) ('raise', e) ('break',) ('continue',) ('ellipsis',)
             ('if', test, body, orelse) ('for', target, iter, body) ('while', test, body)
             ('def', name, [(name, type, default|None)…], returns, body)
"""
from __future__ import annotations

import ast
from typing import Any


class Outside(Exception):
	"""The tree uses something the common language does not cover (or a shape the grammar cannot produce)."""


class NotCommon(Outside):
	"""A shape py_gram.lark CAN produce but CPython has no counterpart for (`def f() -> :`, `a[1:2:3:4]`): not comparable, not a defect."""


# ---------------------------------------------------------------------------------------------
# tranp side


def _is_tok(t: Any, name: str | None = None) -> bool:
	return isinstance(t[1], str) and (name is None or t[0] == name)


def _fold_left(items: list[Any], opname: str) -> Any:
	if len(items) < 3 or len(items) % 2 == 0:
		raise Outside(f'chain of {len(items)} items')
	acc = t_expr(items[0])
	for k in range(1, len(items), 2):
		if not _is_tok(items[k], opname):
			raise Outside(f'operator expected, got {items[k][0]}')
		acc = ('bin', items[k][1], acc, t_expr(items[k + 1]))
	return acc


def _t_cmp_op(t: Any) -> str:
	if t[0] != 'op_comp' or isinstance(t[1], str):
		raise Outside(f'op_comp expected, got {t[0]}')
	names = [c[0] for c in t[1]]
	if names == ['op_comp_s']:
		return t[1][0][1]
	table = {('op_in',): 'in', ('op_not', 'op_in'): 'not in', ('op_is',): 'is', ('op_is', 'op_not'): 'is not'}
	if tuple(names) in table:
		return table[tuple(names)]
	raise Outside(f'op_comp {names}')


def _t_args(items: list[Any]) -> tuple[list[Any], list[Any]]:
	pos: list[Any] = []
	kws: list[Any] = []
	i = 0
	while i < len(items):
		it = items[i]
		if _is_tok(it, 'name'):
			if i + 1 >= len(items):
				raise Outside('keyword without value')
			kws.append(('kw', it[1], t_expr(items[i + 1])))
			i += 2
		elif _is_tok(it, 'packing'):
			if i + 1 >= len(items):
				raise Outside('packing without value')
			if it[1] == '*':
				pos.append(('star', t_expr(items[i + 1])))
			else:
				kws.append(('dstar', t_expr(items[i + 1])))
			i += 2
		else:
			pos.append(('pos', t_expr(it)))
			i += 1
	return pos, kws


def _order_key(items: list[Any]) -> list[str]:
	"""relative order of positional/star vs keyword/dstar arguments is lost by CPython's ast; both sides drop it"""
	return []


def t_expr(t: Any) -> Any:
	name, body = t
	if isinstance(body, str):
		if name == 'boolean':
			return ('const', body)
		if name == 'none':
			return ('const', 'None')
		if name == 'digit':
			if not body.isascii() or not body.isdigit():
				raise Outside(f'digit token with text {body!r}')
			return ('const', repr(int(body)))
		if name == 'decimal':
			try:
				return ('const', repr(float(body)))
			except ValueError as e:
				raise Outside(f'decimal token with text {body!r}') from e
		if name == 'string':
			try:
				return ('const', repr(ast.literal_eval(body)))
			except Exception as e:  # noqa: BLE001
				raise Outside(f'string token {body!r}') from e
		raise Outside(f'token {name} as expression')
	if name == 'var' and len(body) == 1 and _is_tok(body[0], 'name'):
		return ('name', body[0][1])
	if name == 'lambda':
		if len(body) < 2:
			raise Outside('lambda shape')
		params = body[:-1]
		if len(params) == 1 and params[0] == ('__empty__', ''):
			names: list[str] = []
		else:
			if not all(_is_tok(p, 'name') for p in params):
				raise Outside('lambda params')
			names = [p[1] for p in params]
		return ('lambda', names, t_expr(body[-1]))
	if name == 'ternary' and len(body) == 3:
		return ('ifexp', t_expr(body[0]), t_expr(body[1]), t_expr(body[2]))
	if name == 'expr_move' and len(body) == 2:
		return ('walrus', t_expr(body[0]), t_expr(body[1]))
	if name in ('comp_or', 'comp_and'):
		opname, word = ('op_or', 'or') if name == 'comp_or' else ('op_and', 'and')
		if len(body) < 3 or len(body) % 2 == 0 or not all(body[k] == (opname, word) for k in range(1, len(body), 2)):
			raise Outside(f'{name} shape')
		return ('bool', word, [t_expr(body[k]) for k in range(0, len(body), 2)])
	if name == 'comp_not' and len(body) == 2 and body[0] == ('op_not', 'not'):
		return ('not', t_expr(body[1]))
	if name == 'comp':
		if len(body) < 3 or len(body) % 2 == 0:
			raise Outside('comp shape')
		return ('cmp', t_expr(body[0]), [(_t_cmp_op(body[k]), t_expr(body[k + 1])) for k in range(1, len(body), 2)])
	if name == 'calc_sum':
		return _fold_left(body, 'op_add')
	if name == 'calc_mul':
		return _fold_left(body, 'op_mul')
	if name == 'unary' and len(body) == 2 and body[0] == ('op_unary', '\\OP_UNARY_MINUS'):
		return ('neg', t_expr(body[1]))
	if name == 'relay' and len(body) == 2 and _is_tok(body[1], 'name'):
		return ('attr', t_expr(body[0]), body[1][1])
	if name == 'invoke' and len(body) >= 2:
		rest = body[1:]
		if rest == [('__empty__', '')]:
			rest = []
		pos, kws = _t_args(rest)
		return ('call', t_expr(body[0]), pos, kws)
	if name == 'indexer' and len(body) >= 2:
		return ('sub', t_expr(body[0]), _slice([t_expr(x) for x in body[1:]]))
	if name == 'list':
		if body == [('__empty__', '')]:
			return ('list', [])
		return ('list', [t_expr(x) for x in body])
	if name == 'tuple' and len(body) >= 2:
		return ('tuple', [t_expr(x) for x in body])
	if name == 'dict':
		if body == [('__empty__', '')]:
			return ('dict', [])
		out = []
		for kv in body:
			if kv[0] != 'key_value' or isinstance(kv[1], str) or len(kv[1]) != 2:
				raise Outside('dict entry shape')
			out.append((t_expr(kv[1][0]), t_expr(kv[1][1])))
		return ('dict', out)
	raise Outside(f'expression node {name}/{len(body)}')


def _slice(parts: list[Any]) -> Any:
	if len(parts) == 1:
		return ('idx', parts[0])
	if len(parts) == 2:
		return ('slice', parts[0], parts[1], None)
	if len(parts) == 3:
		return ('slice', parts[0], parts[1], parts[2])
	raise NotCommon(f'slice with {len(parts)} parts')


def _t_block(t: Any) -> list[Any]:
	if t[0] != 'block' or isinstance(t[1], str) or not t[1]:
		raise Outside('block shape')
	return [t_stmt(s) for s in t[1]]


def _t_type(t: Any) -> Any:
	if t[0] == 'type_none' and t[1] == [('none', 'None')]:
		return ('const', 'None')
	if t[0] == 'type_var' and not isinstance(t[1], str) and len(t[1]) == 1 and _is_tok(t[1][0], 'name'):
		return ('name', t[1][0][1])
	raise Outside(f'type node {t[0]}')


def t_stmt(t: Any) -> Any:
	name, body = t
	if isinstance(body, str):
		if name == 'break':
			return ('break',)
		if name == 'continue':
			return ('continue',)
		if name == 'pass':
			return ('ellipsis',)
		return ('expr', t_expr(t))
	if name == 'return' and len(body) == 1:
		return ('return', None if body[0] == ('__empty__', '') else t_expr(body[0]))
	if name == 'raise' and len(body) == 1:
		return ('raise', t_expr(body[0]))
	if name == 'move':
		if len(body) == 2 and _is_tok(body[0], 'name'):
			return ('assign', ('name', body[0][1]), t_expr(body[1]))
		if len(body) == 3 and _is_tok(body[1], 'name'):
			return ('assign', ('attr', t_expr(body[0]), body[1][1]), t_expr(body[2]))
		if len(body) >= 3:
			return ('assign', ('sub', t_expr(body[0]), _slice([t_expr(x) for x in body[1:-1]])), t_expr(body[-1]))
		raise Outside('move shape')
	if name == 'function' and len(body) == 4 and _is_tok(body[0], 'name'):
		params = []
		if body[1] != ('__empty__', ''):
			if body[1][0] != 'params':
				raise Outside('params shape')
			for p in body[1][1]:
				if p[0] != 'param' or len(p[1]) != 3 or not _is_tok(p[1][0], 'name'):
					raise Outside('param shape')
				params.append((p[1][0][1], _t_type(p[1][1]), None if p[1][2] == ('__empty__', '') else t_expr(p[1][2])))
		if body[2] == ('__empty__', ''):
			raise NotCommon('function without return type')
		return ('def', body[0][1], params, _t_type(body[2]), _t_block(body[3]))
	if name == 'if' and len(body) >= 2:
		then = body[0]
		if then[0] != 'then' or len(then[1]) != 2:
			raise Outside('then shape')
		chain = [(t_expr(then[1][0]), _t_block(then[1][1]))]
		for e in body[1:-1]:
			if e[0] != 'elif' or len(e[1]) != 2:
				raise Outside('elif shape')
			chain.append((t_expr(e[1][0]), _t_block(e[1][1])))
		last = body[-1]
		if last == ('__empty__', ''):
			orelse: list[Any] = []
		elif last[0] == 'else' and len(last[1]) == 1:
			orelse = _t_block(last[1][0])
		else:
			raise Outside('else shape')
		for test, blk in reversed(chain):
			orelse = [('if', test, blk, orelse)]
		return orelse[0]
	if name == 'for' and len(body) >= 3:
		names = body[:-2]
		if not all(_is_tok(n, 'name') for n in names):
			raise Outside('for targets')
		target = ('name', names[0][1]) if len(names) == 1 else ('tuple', [('name', n[1]) for n in names])
		return ('for', target, t_expr(body[-2]), _t_block(body[-1]))
	if name == 'while' and len(body) == 2:
		return ('while', t_expr(body[0]), _t_block(body[1]))
	return ('expr', t_expr(t))


def canon_tranp(tree: Any) -> Any:
	if tree[0] != 'entry' or isinstance(tree[1], str):
		raise Outside('entry shape')
	try:
		return [t_stmt(s) for s in tree[1]]
	except Outside:
		raise
	except Exception as e:  # noqa: BLE001 - the tree comes from the code under test
		raise Outside(f'unreadable tree ({type(e).__name__}: {e})') from e


# ---------------------------------------------------------------------------------------------
# CPython side


_BIN = {ast.Add: '+', ast.Sub: '-', ast.Mult: '*', ast.Div: '/', ast.Mod: '%'}
_CMP = {ast.Lt: '<', ast.Gt: '>', ast.Eq: '==', ast.LtE: '<=', ast.GtE: '>=', ast.NotEq: '!=', ast.In: 'in', ast.NotIn: 'not in', ast.Is: 'is', ast.IsNot: 'is not'}


def p_expr(n: ast.AST) -> Any:
	if isinstance(n, ast.Name):
		return ('name', n.id)
	if isinstance(n, ast.Constant):
		if n.value is Ellipsis or isinstance(n.value, (bytes, complex)) or n.kind is not None:
			raise Outside('constant kind')
		return ('const', repr(n.value))
	if isinstance(n, ast.BinOp) and type(n.op) in _BIN:
		return ('bin', _BIN[type(n.op)], p_expr(n.left), p_expr(n.right))
	if isinstance(n, ast.UnaryOp) and isinstance(n.op, ast.USub):
		return ('neg', p_expr(n.operand))
	if isinstance(n, ast.UnaryOp) and isinstance(n.op, ast.Not):
		return ('not', p_expr(n.operand))
	if isinstance(n, ast.BoolOp):
		return ('bool', 'and' if isinstance(n.op, ast.And) else 'or', [p_expr(v) for v in n.values])
	if isinstance(n, ast.Compare):
		return ('cmp', p_expr(n.left), [(_CMP[type(o)], p_expr(c)) for o, c in zip(n.ops, n.comparators)])
	if isinstance(n, ast.IfExp):
		return ('ifexp', p_expr(n.body), p_expr(n.test), p_expr(n.orelse))
	if isinstance(n, ast.NamedExpr):
		return ('walrus', p_expr(n.target), p_expr(n.value))
	if isinstance(n, ast.Lambda):
		a = n.args
		if a.posonlyargs or a.vararg or a.kwonlyargs or a.kwarg or a.defaults or a.kw_defaults:
			raise Outside('lambda arguments')
		return ('lambda', [x.arg for x in a.args], p_expr(n.body))
	if isinstance(n, ast.Attribute):
		return ('attr', p_expr(n.value), n.attr)
	if isinstance(n, ast.Call):
		pos = [('star', p_expr(a.value)) if isinstance(a, ast.Starred) else ('pos', p_expr(a)) for a in n.args]
		kws = [('dstar', p_expr(k.value)) if k.arg is None else ('kw', k.arg, p_expr(k.value)) for k in n.keywords]
		return ('call', p_expr(n.func), pos, kws)
	if isinstance(n, ast.Subscript):
		s = n.slice
		if isinstance(s, ast.Slice):
			if s.lower is None or s.upper is None:
				raise Outside('open slice')
			return ('sub', p_expr(n.value), ('slice', p_expr(s.lower), p_expr(s.upper), None if s.step is None else p_expr(s.step)))
		return ('sub', p_expr(n.value), ('idx', p_expr(s)))
	if isinstance(n, ast.List):
		return ('list', [p_expr(e) for e in n.elts])
	if isinstance(n, ast.Tuple):
		return ('tuple', [p_expr(e) for e in n.elts])
	if isinstance(n, ast.Dict):
		if any(k is None for k in n.keys):
			raise Outside('dict unpacking')
		return ('dict', [(p_expr(k), p_expr(v)) for k, v in zip(n.keys, n.values)])  # type: ignore[arg-type]
	raise Outside(f'ast node {type(n).__name__}')


def p_stmt(n: ast.AST) -> Any:
	if isinstance(n, ast.Expr):
		if isinstance(n.value, ast.Constant) and n.value.value is Ellipsis:
			return ('ellipsis',)
		return ('expr', p_expr(n.value))
	if isinstance(n, ast.Assign) and len(n.targets) == 1:
		return ('assign', p_expr(n.targets[0]), p_expr(n.value))
	if isinstance(n, ast.Return):
		return ('return', None if n.value is None else p_expr(n.value))
	if isinstance(n, ast.Raise) and n.exc is not None and n.cause is None:
		return ('raise', p_expr(n.exc))
	if isinstance(n, ast.Break):
		return ('break',)
	if isinstance(n, ast.Continue):
		return ('continue',)
	if isinstance(n, ast.If):
		return ('if', p_expr(n.test), [p_stmt(s) for s in n.body], [p_stmt(s) for s in n.orelse])
	if isinstance(n, ast.For) and not n.orelse:
		return ('for', p_expr(n.target), p_expr(n.iter), [p_stmt(s) for s in n.body])
	if isinstance(n, ast.While) and not n.orelse:
		return ('while', p_expr(n.test), [p_stmt(s) for s in n.body])
	if isinstance(n, ast.FunctionDef) and not n.decorator_list and n.returns is not None:
		a = n.args
		if a.posonlyargs or a.vararg or a.kwonlyargs or a.kwarg or a.kw_defaults:
			raise Outside('def arguments')
		defaults: list[Any] = [None] * (len(a.args) - len(a.defaults)) + [p_expr(d) for d in a.defaults]
		params = []
		for x, d in zip(a.args, defaults):
			if x.annotation is None:
				raise Outside('untyped parameter')
			params.append((x.arg, p_expr(x.annotation), d))
		return ('def', n.name, params, p_expr(n.returns), [p_stmt(s) for s in n.body])
	raise Outside(f'ast statement {type(n).__name__}')


def canon_cpython(source: str) -> Any:
	"""Raises SyntaxError when CPython rejects the text, Outside when its tree leaves the common language."""
	mod = ast.parse(source)
	return [p_stmt(s) for s in mod.body]


def shape_of(canon: Any, limit: int = 6) -> str:
	"""A coarse constructor path used to key findings (stable across identifier/literal choices)."""
	heads: list[str] = []

	def walk(c: Any) -> None:
		if isinstance(c, tuple) and c and isinstance(c[0], str):
			if c[0] not in ('name', 'const', 'pos') and len(heads) < limit and c[0] not in heads:
				heads.append(c[0])
			for x in c[1:]:
				walk(x)
		elif isinstance(c, (list, tuple)):
			for x in c:
				walk(x)

	walk(canon)
	return '+'.join(heads) or 'atom'


def rebind_walrus(c: Any) -> Any:
	"""Rewrite every ifexp(walrus(t, v), test, orelse) into walrus(t, ifexp(v, test, orelse)) (bottom-up): the reading CPython gives
	`t := v if test else orelse`. Used only to RECOGNISE the known grouping difference, never to excuse any other one."""
	if isinstance(c, tuple):
		c2 = tuple(rebind_walrus(x) for x in c)
		if len(c2) == 4 and c2[0] == 'ifexp' and isinstance(c2[1], tuple) and len(c2[1]) == 3 and c2[1][0] == 'walrus':
			return ('walrus', c2[1][1], ('ifexp', c2[1][2], c2[2], c2[3]))
		return c2
	if isinstance(c, list):
		return [rebind_walrus(x) for x in c]
	return c


def mismatch_key(got: Any, want: Any) -> str:
	"""Key of a tree mismatch: the specific known class when the two trees differ exactly by walrus-over-ternary grouping, else by shape."""
	if got != want and rebind_walrus(got) == want:
		return 'group:walrus-over-ternary'
	return f'tree-mismatch:{shape_of(want)}'
