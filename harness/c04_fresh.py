"""Fresh-process oracle of property C04 (run as a script under /venv/bin/python + compat shim, cwd=/repo).

stdin: JSON {"proj": dir, "queries": [{"id": .., "module": "app.a"} | {"id": .., "main": "<source>"}], "jobs": n}
stdout: one JSON line per query: {"id": .., "res": ["text", <text>] | ["load-error", <enum>] | ["render-error", <enum>]}

Every query runs in its own forked child (fork happens before any tranp object exists, so each child is a fresh
process state: no App, no loaded module, untouched class-level caches) with its own EMPTY cache directory.
The interpreter's hash seed is whatever PYTHONHASHSEED the caller set for this script.
"""
from __future__ import annotations

import json
import os
import shutil
import sys
import tempfile


def canon(e: BaseException) -> str:
	from harness.common import exc_enum
	s = exc_enum(e)
	return 'Other:lark' if s.startswith('Other:lark.') else s


def make_app(proj: str, cache_dir: str):
	from harness.c04 import make_app as mk
	return mk(proj, cache_dir)


def one(proj: str, q: dict, tpl: str | None = None) -> list:
	from harness.c04 import RealSession
	cache = tempfile.mkdtemp(prefix='c04-fresh-')
	try:
		try:
			ses = RealSession(proj, cache, tpl)
		except Exception as e:  # noqa: BLE001
			return ['app-error', canon(e)]
		if 'module' in q:
			kind, payload = ses.transpile(q['module'])
		else:
			kind, payload = ses.resubmit(q['main'])
		return [kind, payload]
	finally:
		shutil.rmtree(cache, ignore_errors=True)


def main() -> int:
	req = json.load(sys.stdin)
	proj = req['proj']
	jobs = max(1, int(req.get('jobs', 4)))
	# import the heavy modules once, before forking (module import creates no session state)
	import rogw.tranp.implements.cpp.transpiler.py2cpp  # noqa: F401
	import harness.c04  # noqa: F401
	pending = list(req['queries'])
	serial = 0
	running: dict[int, tuple[dict, str]] = {}
	out_dir = tempfile.mkdtemp(prefix='c04-fresh-out-')
	try:
		while pending or running:
			while pending and len(running) < jobs:
				q = pending.pop(0)
				serial += 1
				path = os.path.join(out_dir, f'{serial}.json')
				pid = os.fork()
				if pid == 0:
					code = 0
					# hard stop for one query (the operations themselves run under the per-operation budget of RealSession)
					import signal
					# (CPU time: the real-time timer belongs to the per-operation budget)
					signal.signal(signal.SIGPROF, signal.SIG_DFL)
					signal.setitimer(signal.ITIMER_PROF, 300)
					try:
						res = one(proj, q, req.get('tpl'))
						with open(path, 'w', encoding='utf-8') as f:
							json.dump(res, f)
					except BaseException as e:  # noqa: BLE001
						with open(path, 'w', encoding='utf-8') as f:
							json.dump(['oracle-crash', f'{type(e).__name__}: {e}'], f)
						code = 1
					finally:
						os._exit(code)
				running[pid] = (q, path)
			pid, status = os.wait()
			q, path = running.pop(pid)
			try:
				with open(path, encoding='utf-8') as f:
					res = json.load(f)
			except Exception as e:  # noqa: BLE001
				import signal
				if os.WIFSIGNALED(status) and os.WTERMSIG(status) == signal.SIGPROF:
					res = ['timeout', 'a fresh process did not answer within 300 s of CPU time']
				else:
					res = ['oracle-crash', f'no result file: {e}']
			sys.stdout.write(json.dumps({'id': q['id'], 'res': res}) + '\n')
			sys.stdout.flush()
	finally:
		shutil.rmtree(out_dir, ignore_errors=True)
	return 0


if __name__ == '__main__':
	sys.exit(main())
