"""C16 — A node's source span covers exactly the node's own text.

Theorems: lean/Tranp/Props/C16.lean over lean/Tranp/Model/Quotation.lean, Model/Hull.lean (and Model/LarkEntry.lean for the
span selection shared with C15).
Tie: correspondence streams `span-nodes` (real node.source_map and the real ErrorRender(Errors.X(node)) quotation text of
on-disk and in-memory modules vs the model), `span-quote` (Quotation on explicit spans incl. spans without positions, None,
out-of-range lines), `span-hull` (lark's actual metas vs the hull of the lexer tokens they contain; token order) and
`span-collector` (the self-hosted parser's ErrorCollector).
Search (real code only): spans vs CPython's tokenizer (token-aligned, holds exactly the subtree's named terminals, token
spans slice to the token text), child ⊆ parent and sibling order, quotation marks exactly [begin, end) of the reported
line — on fresh trees and again on trees restored from the on-disk cache; stored files with CRLF / bare CR (the text on
disk is the reference), the same text as an in-memory module, statement-free modules, edits within one mtime second.
Proved besides the renderer arithmetic (Props/C16.lean): the region a recorded span delimits is first token … last token and
holds exactly the consumed tokens (span_region, span_holds_exactly_own_tokens; ops tokswf/iregion/itoks of span-hull), and
the end-to-end statement tree_quotation (position arithmetic + line loading, no hypothesis about the file left).
"""
from __future__ import annotations

import io
import json
import keyword
import os
import random
import re
import sys
import time
import tokenize
from typing import Any

from harness import c15, common, diskproj, pygen
from harness.common import Ctx, Finding, SearchResult, Stream, exc_enum, hx

PROP = 'C16'

NAMED_TERMINALS = {'NAME', 'STRING', 'LONG_STRING', 'DEC_NUMBER', 'FLOAT_NUMBER', 'HEX_NUMBER', 'COMMENT'}
TYPE_IGNORE_RE = re.compile(r'#\s*type:\s*ignore[^\n]*')


# ---------------------------------------------------------------------------------------------
# module sets


def real_modules(ctx: Ctx, rng: random.Random, limit: int) -> list[str]:
	"""module paths (dotted) of real files of the repository without CR characters"""
	return [f[:-3].replace(os.sep, '.') for f in pygen.real_files(ctx.thorough, rng, limit)]


class Project:
	"""generated modules written to a temp project + real modules of /repo, all parsed through the on-disk cache"""

	def __init__(self, ctx: Ctx) -> None:
		self.proj = diskproj.DiskProject(os.path.join(ctx.tmpdir(), 'proj'), ctx.tmpdir())
		self.sources: dict[str, str] = {}
		self.labels: dict[str, str] = {}
		self.second = int(time.time()) - 1000

	def add_generated(self, rng: random.Random, i: int, eof_variant: bool = False, cr_variant: bool = False) -> str:
		src, d = pygen.gen_module(rng, n_statements=rng.randint(1, 5))
		label = f"generated#{i}:{d['unit']}"
		if eof_variant:
			src, tag = eof_variant_of(rng, src, d['indent'])
			label += f':{tag}'
		if cr_variant:
			src, tag = cr_variant_of(rng, src)
			label += f':{tag}'
		return self.add_source(f'gen.m{i}', src, label)

	def add_source(self, mp: str, src: str, label: str, frac_ns: int = 250_000_000) -> str:
		"""writes the module and stamps its mtime inside a fixed whole second (so that `rewrite` can change the file
		without leaving that second)"""
		rel = self.proj.write(mp, src)
		stamp = self.second * 1_000_000_000 + frac_ns
		os.utime(os.path.join(self.proj.root, rel), ns=(stamp, stamp))
		self.sources[mp] = src
		self.labels[mp] = label
		return mp

	def rewrite(self, mp: str, src: str, label: str) -> str:
		"""history: the module is edited after its tree was cached; only the fraction of its mtime second changes"""
		return self.add_source(mp, src, label, frac_ns=750_000_000)

	def add_real(self, mp: str) -> str:
		"""a real module is snapshotted into the project under its own module path (the project directory comes first in
		SourceEnvPath), so the text that is checked is the text that is parsed even while the repository is being edited"""
		with open(os.path.join(common.REPO, mp.replace('.', os.sep) + '.py'), encoding='utf-8', newline='') as f:
			src = f.read()
		return self.add_source(mp, src, mp.replace('.', os.sep) + '.py')

	def cwd_for(self, mp: str) -> str:
		"""ErrorRender looks the module file up relative to the working directory"""
		return self.proj.root


def eof_variant_of(rng: random.Random, src: str, unit: str) -> tuple[str, str]:
	"""end-of-file layouts: extra blank lines, no final line feed, an indented block closed only by the end of input
	(with or without a last line that holds nothing but indentation)"""
	r = rng.random()
	if r < 0.3:
		return src + '\n' * rng.randint(1, 2), 'eof-blank-lines'
	if r < 0.6:
		return src.rstrip('\n'), 'eof-no-newline'
	if r < 0.8:
		return src + f'def tail() -> None:\n{unit}pass', 'eof-block-no-newline'
	return src + f'def tail() -> None:\n{unit}pass\n{unit}', 'eof-indented-no-newline'


CR_LONG_STRINGS = ["'''l1\nl2'''\n", 's0 = """a\n\n  b\n"""\n', "# c\n'''x\n\t\tfar''' + a\n"]
CR_COMMENTS = ['# a\rb', '#\r', '# \r x = 1', '# tail\r\r']
CR_STRINGS = ["s0 = 'a\rb'", '"""d\rd"""', "s0 = f('\r', 1)"]


def cr_variant_of(rng: random.Random, src: str) -> tuple[str, str]:
	"""files with carriage returns, as they are stored: CRLF line ends (a long string then holds CR LF, a comment token ends
	in CR) and a bare CR inside a comment or a string literal in front of everything else. Only a line feed ends a line —
	for the parser, for the renderer's binary readlines and for a span; a reader that translates line ends shifts every
	later node against the file."""
	r = rng.random()
	if r < 0.3:
		return src.replace('\n', '\r\n'), 'crlf'
	if r < 0.5:
		return (rng.choice(CR_LONG_STRINGS) + src).replace('\n', '\r\n'), 'crlf-long-string'
	if r < 0.8:
		return rng.choice(CR_COMMENTS) + '\n' + src, 'cr-in-comment'
	return rng.choice(CR_STRINGS) + '\n' + src, 'cr-in-string'


class chdir:
	def __init__(self, d: str) -> None:
		self.d = d

	def __enter__(self) -> None:
		self.old = os.getcwd()
		os.chdir(self.d)

	def __exit__(self, *a: Any) -> None:
		os.chdir(self.old)


# ---------------------------------------------------------------------------------------------
# real observations


def sm_of(sm: Any) -> tuple[Any, Any, Any, Any]:
	return (sm['begin'][0], sm['begin'][1], sm['end'][0], sm['end'][1])


def real_smat(nodes: Any, path: str) -> str:
	try:
		return 'ok ' + ','.join(c15.pos_s(p) for p in sm_of(nodes.source_map(path)))
	except Exception as e:  # noqa: BLE001
		return exc_enum(e)


ERROR_CLASSES = ['InvalidSchema', 'UnresolvedSymbol', 'NotSupported', 'Logic']


def render_quotation(node: Any, k: int = 0) -> list[str] | str:
	"""the quotation lines of the real ErrorRender(Errors.X(node)) (its `__build_quotation`), or the exception enum.
	When the full `render()` text can be produced as well, the same lines must stand in it behind the stack trace
	(`render()` additionally formats `str(node)`, which is outside this property and may itself raise for odd nodes)."""
	from rogw.tranp.errors import Errors
	from rogw.tranp.view.error_render import ErrorRender
	cls = getattr(Errors, ERROR_CLASSES[k % len(ERROR_CLASSES)])
	try:
		raise cls(node)
	except Errors.Error as e:
		err = e
	try:
		q = ErrorRender(err)._ErrorRender__build_quotation()
	except Exception as ex:  # noqa: BLE001
		return exc_enum(ex)
	try:
		lines = ErrorRender(err).render().split('\n')
	except Exception:  # noqa: BLE001
		return q
	if q:
		i = lines.index('via Node:') if 'via Node:' in lines else -1
		if i < 0 or lines[i:i + 4] != q:
			return 'render-text-differs'
	elif 'via Node:' in lines:
		return 'render-text-differs'
	return q


def render_op(node: Any, path: str, k: int) -> tuple[str, str] | None:
	"""(op line, real output) for the whole ErrorRender(Errors.X(node)).render() text: stack trace lines, class path and
	message are taken from the real private builders (inputs of the model), the quotation and the assembly are modelled"""
	from rogw.tranp.errors import Errors
	from rogw.tranp.view.error_render import ErrorRender
	cls = getattr(Errors, ERROR_CLASSES[k % len(ERROR_CLASSES)])
	try:
		raise cls(node)
	except Errors.Error as e:
		err = e
	er = ErrorRender(err)
	try:
		traces = er._ErrorRender__build_stacktrace()
		name = er._ErrorRender__build_name()
		message = er._ErrorRender__build_message()
	except Exception:  # noqa: BLE001 - str(node) etc. are outside this property
		return None
	try:
		real = 'ok ' + hx(er.render())
	except Exception as ex:  # noqa: BLE001
		real = exc_enum(ex)
	return f"renderat\t{hx(path)}\t{','.join(hx(t) for t in traces)}\t{hx(name)}\t{hx(message)}", real


def show_quotation(q: list[str] | str) -> str:
	if isinstance(q, str):
		return q
	return 'ok []' if not q else 'ok ' + hx('\n'.join(q))


def quotation_direct(filepath: str, sm: tuple[Any, Any, Any, Any]) -> str:
	"""the Quotation class on an explicit 1-based span (shift + Quotation.build), without __build_quotation's guards"""
	from rogw.tranp.view.error_render import ErrorRender
	try:
		shifted = (sm[0] - 1, sm[1] - 1, sm[2] - 1, sm[3] - 1)
		return show_quotation(ErrorRender.Quotation(filepath, shifted).build())
	except Exception as e:  # noqa: BLE001
		return exc_enum(e)


def sample_paths(rng: random.Random, nodes: Any, paths: list[str], limit: int) -> list[str]:
	"""stratified: nodes without a span, multi-line nodes, single-line nodes"""
	groups: dict[str, list[str]] = {'zero': [], 'multi': [], 'single': [], 'other': []}
	for p in paths:
		try:
			s = sm_of(nodes.source_map(p))
		except Exception:  # noqa: BLE001
			groups['other'].append(p)
			continue
		if s == (0, 0, 0, 0):
			groups['zero'].append(p)
		elif None in s:
			groups['other'].append(p)
		elif s[0] != s[2]:
			groups['multi'].append(p)
		else:
			groups['single'].append(p)
	out: list[str] = []
	for k, share in (('other', 10), ('zero', limit // 8), ('multi', limit // 3), ('single', limit)):
		g = groups[k]
		out.extend(g if len(g) <= share else rng.sample(g, share))
	return out[:limit + 10]


# ---------------------------------------------------------------------------------------------
# streams


def stream_nodes(ctx: Ctx) -> Stream:
	rng = ctx.sub_rng('span-nodes')
	pr = Project(ctx)
	mods = [pr.add_source(f'gen.corpus{k}', src, f'corpus:{name}') for k, (name, src) in enumerate(corpus_modules())]  # replayed first
	mods += [pr.add_generated(rng, i, eof_variant=(i % 10 == 3)) for i in range(ctx.scale(24, 200))]
	mods += [pr.add_real(mp) for mp in real_modules(ctx, rng, ctx.scale(4, 40))]
	per_module = ctx.scale(50, 100)
	cases = []
	for mp in diskproj.bounded(mods, *diskproj.budgets(ctx)):
		cold_sexp: tuple[str, int] | None = None
		for restored in (False, True):
			try:
				ep = pr.proj.entrypoint(mp)
			except Exception:  # noqa: BLE001 - outside the grammar
				break
			nodes = diskproj.nodes_of(ep)
			root = nodes._Nodes__entries.by(ep.full_path)
			paths = diskproj.all_paths(ep)
			if len(paths) > 25000:
				break
			filepath = mp.replace('.', os.sep) + '.py'
			with chdir(pr.cwd_for(mp)):
				exists = os.path.exists(filepath)
				if restored and cold_sexp is not None and diskproj.is_restored(root):
					# the model restores the COLD tree itself (C16.restore); the real side is the tree the cache gave back
					ops = [f'tree\t{cold_sexp[0]}', 'restore']
					real = [f'ok {cold_sexp[1]}', 'ok']
				else:
					ops = [f'tree\t{c15.lark_sexp(root.source)}']
					real = [f'ok {c15.tree_size(root.source)}']
					cold_sexp = (c15.lark_sexp(root.source), c15.tree_size(root.source))
				ops.append(f"file\t{'1' if exists else '0'}\t{hx(filepath)}\t{hx(pr.sources[mp])}")
				real.append(f'ok {count_lines(pr.sources[mp])}')
				for k, p in enumerate(sample_paths(rng, nodes, paths, per_module)):
					ops.append(f'smat\t{hx(p)}')
					real.append(real_smat(nodes, p))
					try:
						node = nodes.by(p)
					except Exception:  # noqa: BLE001
						continue
					ops.append(f'quoteat\t{hx(p)}')
					real.append(show_quotation(render_quotation(node, k)))
					if k % 8 == 0:
						ro = render_op(node, p, k)
						if ro is not None:
							ops.append(ro[0])
							real.append(ro[1])
				for _ in range(3):
					p = rng.choice(paths) + rng.choice(['.x', '[9]', 'x'])
					ops.append(f'smat\t{hx(p)}')
					real.append(real_smat(nodes, p))
			kind = ('generated' if mp.startswith('gen.') else 'real') + (':restored' if diskproj.is_restored(root) else ':fresh')
			cases.append(({'kind': kind, 'label': pr.labels[mp], 'ops': len(ops)}, ops, real))
	# in-memory modules: no file, no quotation
	app = common.MemApp(ctx.tmpdir())
	for i in range(ctx.scale(3, 20)):
		src, _ = pygen.gen_module(rng, n_statements=2)
		ep = app.entrypoint(src)
		nodes = diskproj.nodes_of(ep)
		root = nodes._Nodes__entries.by(ep.full_path)
		filepath = '__main__.py'
		ops = [f'tree\t{c15.lark_sexp(root.source)}', f"file\t{'1' if os.path.exists(filepath) else '0'}\t{hx(filepath)}\t{hx(app.source)}"]
		real = [f'ok {c15.tree_size(root.source)}', f'ok {count_lines(app.source)}']
		for k, p in enumerate(sample_paths(rng, nodes, diskproj.all_paths(ep), 20)):
			try:
				node = nodes.by(p)
			except Exception:  # noqa: BLE001
				continue
			ops.append(f'quoteat\t{hx(p)}')
			real.append(show_quotation(render_quotation(node, k)))
		cases.append(({'kind': 'in-memory', 'label': f'mem#{i}', 'ops': len(ops)}, ops, real))
	st = common.correspond('span-nodes', cases, 'span', classify=lambda d: d['kind'])
	st.histogram['ops'] = sum(len(c[1]) for c in cases)
	st.histogram['render-ops'] = sum(1 for c in cases for o in c[1] if o.startswith('renderat'))
	st.note = 'every sampled node (span-less, multi-line, single-line strata) of on-disk generated (tab/2/4-space indented) and real modules, fresh and restored from the cache: Nodes.source_map and the quotation inside ErrorRender(Errors.X(node)).render(); plus the whole render() text for every 8th sampled node, unknown paths and in-memory modules (no file → no quotation)'
	return st


def count_lines(src: str) -> int:
	"""number of pieces `f.readlines()` of the binary file yields (split after every line feed only)"""
	return len(io.BytesIO(src.encode('utf-8')).readlines())


def stream_quote(ctx: Ctx) -> Stream:
	"""Quotation on explicit spans over small files: every branch incl. IndexError, negative lines (Python's negative
	indexing → last line), empty spans, multi-line spans, columns beyond the line, tabs, missing final line feed."""
	rng = ctx.sub_rng('span-quote')
	d = ctx.tmpdir()
	cases = []
	pieces = ['x = 1', '\tif a:', '\t\treturn (a +', '    b)', '', 'あ = "い"', 'a\tb\tc', '  ', '# c']
	for i in diskproj.bounded(range(ctx.scale(150, 2000)), *diskproj.budgets(ctx)):
		n = rng.randint(0, 5)
		content = '\n'.join(rng.choice(pieces) for _ in range(n))
		if n and rng.random() < 0.8:
			content += '\n'
		fp = os.path.join(d, f'q{i % 7}.py')
		with open(fp, 'wb') as f:
			f.write(content.encode('utf-8'))
		ops = [f'file\t1\t{hx(fp)}\t{hx(content)}']
		real = [f'ok {count_lines(content)}']
		for _ in range(8):
			bl = rng.randint(-1, n + 2)
			el = bl if rng.random() < 0.6 else bl + rng.randint(-1, 2)
			bc = rng.randint(-1, 12)
			ec = bc + rng.randint(-2, 8)
			sm = (bl, bc, el, ec)
			ops.append('quoteraw\t' + ','.join(str(x) for x in sm))
			real.append(quotation_direct(fp, sm))
		cases.append(({'kind': f'lines={n}'}, ops, real))
	# None positions take the real path through ErrorRender with a stub node (TypeError on `None - 1`)
	st = common.correspond('span-quote', cases, 'span', classify=lambda d: d['kind'])
	st.note = 'ErrorRender.Quotation(filepath, span − 1).build() on explicit spans: lines −1..n+2, columns −1..12, single/multi-line, empty and reversed column ranges, tabs, non-ASCII, files without final line feed, empty files'
	return st


def lexer_tokens(parser: Any, text: str) -> list[Any]:
	"""the token stream the LALR parser actually consumes (contextual lexer + PythonIndenter), via lark's interactive parser"""
	lk = parser.dirty_get_origin()
	return list(lk.parse_interactive(text).exhaust_lexer())


def span_s(t: tuple[int, int, int, int]) -> str:
	return ','.join(str(x) for x in t)


def stream_hull(ctx: Ctx) -> Stream:
	"""The interface hypothesis of the hull derivation, against lark's actual token stream and metas:
	(1) positions: (line, column) of every token = own line/column arithmetic on the parsed text at the token's offsets;
	(2) the lexer hands out tokens left to right (offsets start ≤ end ≤ next start; _INDENT/_DEDENT, which borrow the
	    offsets of the preceding _NEWLINE, left out);
	(3) every tree's recorded span = (begin of first, end of last) token of a contiguous token interval [lo, hi) — filtered
	    punctuation/keywords/_NEWLINE included — and
	(4) the children (kept tokens and sub-trees) consume sub-intervals in order without overlap, at every depth."""
	from rogw.tranp.syntax.ast.parser import SyntaxParser
	import lark
	rng = ctx.sub_rng('span-hull')
	app = common.MemApp(ctx.tmpdir())
	parser = app.resolve(SyntaxParser)
	sources: list[tuple[str, str]] = []
	for i in range(ctx.scale(32, 300)):
		src, d = pygen.gen_module(rng)
		label = f"generated#{i}:{d['unit']}"
		if i % 5 == 2:
			src, tag = eof_variant_of(rng, src, d['indent'])
			label += f':{tag}'
		sources.append((label, src))
	for mp in real_modules(ctx, rng, ctx.scale(4, 60)):
		with open(os.path.join(common.REPO, mp.replace('.', os.sep) + '.py'), encoding='utf-8', newline='') as f:
			sources.append((mp, f.read()))
	cases = []
	broken: list[dict[str, Any]] = []
	only_filtered = [0]
	empty_metas = [0]
	regions = [0]
	for label, src in diskproj.bounded(sources, *diskproj.budgets(ctx), label=lambda x: x[0]):
		app.source = src
		# the parser completes a last line without line feed (parser.py `__load_source`); lex and measure the same text
		text = src if src.endswith('\n') or src == '' else src + '\n'
		try:
			root = parser(app.main).source
			toks = [t for t in lexer_tokens(parser, text) if t.type not in ('_INDENT', '_DEDENT')]
		except Exception:  # noqa: BLE001
			continue
		offs = [(t.start_pos, t.end_pos) for t in toks]
		py_off = all(a <= b for a, b in offs) and all(x[1] <= y[0] for x, y in zip(offs, offs[1:]))
		ops = [f'file\t1\t-\t{hx(text)}', 'toks\t' + (';'.join(f'{a},{b}' for a, b in offs) or '-')]
		real = [f'ok {count_lines(text)}', f"ok {len(offs)} {'true' if py_off else 'false'}"]
		if not py_off:
			broken.append({'case': label, 'assumption': 'lexer tokens come left to right without overlap', 'real': 'false'})
		py_in = all(a < b <= len(text) for a, b in offs)
		ops.append('tokswf')
		real.append('true' if py_in else 'false')
		if not py_in:
			broken.append({'case': label, 'assumption': 'every lexer token is non-empty and lies inside the text', 'real': 'false'})
		for k in (range(len(toks)) if len(toks) <= 200 else rng.sample(range(len(toks)), 200)):
			t = toks[k]
			ops.append(f'tokpos\t{k}')
			real.append(f'ok {t.line},{t.column},{t.end_line},{t.end_column}')
		by_start = {t.start_pos: k for k, t in enumerate(toks)}
		by_end = {t.end_pos: k for k, t in enumerate(toks)}

		def interval(e: Any) -> tuple[int, int] | None:
			if type(e) is lark.Token:
				k = by_start.get(e.start_pos)
				return None if k is None else (k, k + 1)
			m = e._meta
			lo, hi = by_start.get(getattr(m, 'start_pos', None)), by_end.get(getattr(m, 'end_pos', None))
			return None if lo is None or hi is None else (lo, hi + 1)

		unaligned = [0]

		def itree(e: Any, out: list[str]) -> bool:
			"""interval tree of a non-empty tree/token; False when a span is not token-aligned"""
			iv = interval(e)
			if iv is None:
				unaligned[0] += 1
				return False
			out.extend(['(', str(iv[0]), str(iv[1])])
			ok = True
			if type(e) is lark.Tree:
				for c in e.children:
					if c is None or (type(c) is lark.Tree and (c._meta is None or c._meta.empty)):
						continue
					ok = itree(c, out) and ok
			out.append(')')
			return ok

		def py_wf(e: Any) -> bool:
			iv = interval(e)
			if iv is None or not iv[0] < iv[1]:
				return False
			pos = iv[0]
			if type(e) is lark.Tree:
				for c in e.children:
					if c is None or (type(c) is lark.Tree and (c._meta is None or c._meta.empty)):
						continue
					ci = interval(c)
					if ci is None or not (pos <= ci[0] < ci[1]) or not py_wf(c):
						return False
					pos = ci[1]
			return pos <= iv[1]

		trees_: list[Any] = []
		stack = [root]
		while stack:
			t = stack.pop()
			if type(t) is lark.Tree:
				below = [c for c in t.children if type(c) is lark.Token or (type(c) is lark.Tree and c._meta is not None and not c._meta.empty)]
				if t._meta is not None and not t._meta.empty:
					trees_.append(t)
					if not below:
						only_filtered[0] += 1  # `pass`, `[]`, `True` …: the whole interval consists of filtered tokens
				elif below:
					# `meta.empty` must mean "consumed no token": nothing positioned may hang below
					broken.append({'case': label, 'assumption': 'a tree with an empty meta holds no token and no positioned tree', 'real': f'{t.data} has {len(below)} positioned children'})
				else:
					empty_metas[0] += 1
				stack.extend(t.children)
		for t in (trees_ if len(trees_) <= ctx.scale(120, 300) else rng.sample(trees_, ctx.scale(120, 300))):
			m = t._meta
			iv = interval(t)
			ops.append(f'ispan\t{iv[0]}\t{iv[1]}' if iv else 'ispan\t0\t0')
			real.append(f'ok {m.line},{m.column},{m.end_line},{m.end_column}' if iv else 'not-token-aligned')
			if iv:
				# the region the recorded (line, column) span delimits, by the model's own position arithmetic, is lark's own
				# [start_pos, end_pos); the tokens whose recorded positions lie inside the recorded span are the consumed ones
				# (theorems span_region / span_holds_exactly_own_tokens: they must be exactly lo … hi−1)
				ops.append(f'iregion\t{iv[0]}\t{iv[1]}')
				real.append(f'ok {m.start_pos} {m.end_pos - m.start_pos} true')
				inside = [k for k, t in enumerate(toks) if (m.line, m.column) <= (t.line, t.column) and (t.end_line, t.end_column) <= (m.end_line, m.end_column)]
				run = bool(inside) and inside == list(range(inside[0], inside[0] + len(inside)))
				ops.append(f'itoks\t{iv[0]}\t{iv[1]}')
				real.append(f"ok {inside[0] if inside else 0} {len(inside)} {'true' if run or not inside else 'false'}")
				regions[0] += 1
				if inside != list(range(iv[0], iv[1])):
					broken.append({'case': label, 'assumption': 'the tokens whose recorded positions lie inside the span of a tree are exactly the tokens it consumed', 'real': f'{t.data} [{iv[0]}, {iv[1]}): {inside[:5]}… ({len(inside)})'})
		if root._meta is not None and not root._meta.empty:
			enc: list[str] = []
			aligned = itree(root, enc)
			if aligned:
				wf = py_wf(root)
				ops.append('iwf\t' + ' '.join(enc))
				real.append('true' if wf else 'false')
				if not wf:
					broken.append({'case': label, 'assumption': 'children consume sub-intervals of the parent interval, in order, without overlap', 'real': 'false'})
			else:
				broken.append({'case': label, 'assumption': 'every recorded span begins at a token start and ends at a token end', 'real': f'{unaligned[0]} unaligned'})
		kind = ('generated' if label.startswith('generated') else 'real') + (':' + label.split(':')[2] if label.count(':') > 1 else '')
		cases.append(({'kind': kind, 'label': label, 'tokens': len(offs)}, ops, real))
	st = common.correspond('span-hull', cases, 'span', classify=lambda d: d['kind'])
	st.disagreements.extend(broken)
	st.histogram['ops'] = sum(len(c[1]) for c in cases)
	st.histogram['trees-of-filtered-tokens-only'] = only_filtered[0]
	st.histogram['trees-with-empty-meta'] = empty_metas[0]
	st.histogram['regions-checked'] = regions[0]
	st.note = "lark's real token stream (parse_interactive().exhaust_lexer() on the text the parser parses, _INDENT/_DEDENT removed) and real metas: token (line, column) vs own arithmetic at the token offsets; offsets left-to-right; every sampled tree's meta vs the span of its token interval [lo, hi) (found by offset, so filtered punctuation/_NEWLINE/end-of-input dedents are inside); the whole tree's interval structure vs the interface hypothesis `ITree.wf`; a tree with an empty meta holds nothing positioned, trees made of filtered tokens only (pass, [], True …) are counted; every token non-empty and inside the text (tokswf); per sampled tree the characters whose own (line, column) lies in the recorded span vs lark's [start_pos, end_pos) (iregion) and the tokens whose recorded positions lie inside the recorded span vs the model's (itoks) — and they must be the consumed interval [lo, hi) itself"
	return st


def stream_collector(ctx: Ctx) -> Stream:
	from rogw.tranp.implements.syntax.tranp.syntax import ErrorCollector
	from rogw.tranp.implements.syntax.tranp.token import Token, TokenTypes
	from rogw.tranp.implements.syntax.tranp.tokenizer import Tokenizer
	rng = ctx.sub_rng('span-collector')
	cases = []
	tk = Tokenizer()
	for i in diskproj.bounded(range(ctx.scale(120, 1500)), *diskproj.budgets(ctx)):
		if i % 3 == 0:
			src = rng.choice(['a = b +\n', 'x := a (b | c)\n\ty := "s"\n', 'def f(a):\n\treturn a @ 1\n', "s = '''a\nb''' + 1\n", '\tif a:\n\t\tb ?\n', ''])
			try:
				tokens = tk.parse(src)
			except Exception:  # noqa: BLE001
				continue
			kind = 'tokenizer'
		else:
			n = rng.randint(0, 4)
			src = '\n'.join(rng.choice(['x = 1', '\ty', 'abc def', '', 'あい']) for _ in range(n)) + rng.choice(['', '\n'])
			tokens = []
			for _ in range(rng.randint(0, 4)):
				bl = rng.randint(-1, n + 1)
				bc = rng.randint(-1, 6)
				sm = rng.choice([Token.SourceMap(bl, bc, bl, bc + rng.randint(-1, 4)), Token.SourceMap(bl, bc, bl + rng.randint(1, 2), rng.randint(0, 3)), Token.SourceMap.EOF(), Token.SourceMap.empty()])
				tokens.append(Token(TokenTypes.Name, 't', sm))
			kind = 'synthetic'
		spans = ';'.join(span_s(tuple(t.source_map)) for t in tokens) or '-'
		ops = [f'file\t1\t-\t{hx(src)}']
		real = [f'ok {count_lines(src)}']
		for steps in {0, len(tokens) - 1, len(tokens), -1, rng.randint(-2, len(tokens) + 1)}:
			ops.append(f'collect\t{steps}\t{spans}')
			try:
				real.append(show_quotation(ErrorCollector(src, tokens, steps)._quotation_lines()))
			except Exception as e:  # noqa: BLE001
				real.append(exc_enum(e))
		cases.append(({'kind': kind}, ops, real))
	st = common.correspond('span-collector', cases, 'span', classify=lambda d: d['kind'])
	st.note = 'ErrorCollector._quotation_lines on token lists of the self-hosted tokenizer and on synthetic token spans (EOF −1 spans, multi-line tokens, lines/steps out of range → IndexError, negative steps)'
	return st


# ---------------------------------------------------------------------------------------------
# search: the statement on the real code, CPython's tokenizer as the independent oracle


def line_starts(src: str) -> list[int]:
	out = [0]
	for i, ch in enumerate(src):
		if ch == '\n':
			out.append(i + 1)
	return out


def py_tokens(src: str) -> list[tuple[str, str, tuple[int, int], tuple[int, int]]] | None:
	"""CPython tokens as (kind, text, begin, end) with 1-based columns; an f-string (3.12: FSTRING_START…END) is folded into
	one STRING token as the grammar lexes it. None when CPython cannot tokenize the text."""
	out: list[tuple[str, str, tuple[int, int], tuple[int, int]]] = []
	try:
		toks = list(tokenize.generate_tokens(io.StringIO(src).readline))
	except (tokenize.TokenError, SyntaxError, IndentationError):
		return None
	depth = 0
	start: tuple[int, int] | None = None
	for t in toks:
		name = tokenize.tok_name[t.type]
		if name == 'FSTRING_START':
			if depth == 0:
				start = t.start
			depth += 1
			continue
		if name == 'FSTRING_END':
			depth -= 1
			if depth == 0 and start is not None:
				out.append(('STRING', '', (start[0], start[1] + 1), (t.end[0], t.end[1] + 1)))
			continue
		if depth > 0:
			continue
		if name in ('INDENT', 'DEDENT', 'ENDMARKER'):
			continue
		end = (t.end[0], t.end[1] + 1)
		if '\n' in t.string and name == 'STRING':
			# CPython 3.12 reports a wrong end column for a token that spans lines when non-ASCII characters stand before it
			# on its first line (byte/character mix-up); the end follows from the start and the token text
			end = (t.start[0] + t.string.count('\n'), len(t.string) - t.string.rfind('\n'))
		out.append((name, t.string, (t.start[0], t.start[1] + 1), end))
	return out


def slice_of(src: str, starts: list[int], b: tuple[int, int], e: tuple[int, int]) -> str | None:
	if e == (len(starts) + 1, 1) and not src.endswith('\n'):
		# end of input of a text without final line feed, as seen by a parser that completes the last line
		e = (len(starts), len(src) - starts[-1] + 1)
	if not (1 <= b[0] <= len(starts) and 1 <= e[0] <= len(starts)):
		return None
	return src[starts[b[0] - 1] + b[1] - 1: starts[e[0] - 1] + e[1] - 1]


def grammar_literals() -> set[str]:
	"""identifier-like anonymous string terminals of data/grammar.lark ("Annotated", "ClassVar", "bound", …): CPython sees
	them as NAME, the grammar filters them out of the tree"""
	with open(os.path.join(common.REPO, 'data/grammar.lark'), encoding='utf-8') as f:
		text = re.sub(r'//[^\n]*', '', f.read())
	return set(re.findall(r'"([A-Za-z_][A-Za-z_0-9]*)"', text))


_FRESH_SEEN: set[tuple[str, str, str]] = set()


def add_finding(res: SearchResult, label: str, key: str, path: str, suffix: str, what: str, replay: dict[str, Any]) -> None:
	"""a failure seen on the fresh tree and again, at the same node, on the restored tree is one finding; a failure of the
	restored tree alone gets the `:restored` key"""
	if not suffix:
		_FRESH_SEEN.add((label, key, path))
	elif (label, key, path) in _FRESH_SEEN:
		return
	res.findings.append(Finding(key=f'{key}{suffix}', what=f'{label}: {what}', replay=replay))


_GRAMMAR_SETS: dict[str, Any] = {}
_CR_COMMENTS_REPORTED = [0]
_LEX_CACHE: dict[str, Any] = {}


def grammar_first_last(parser: Any) -> tuple[dict[str, set[str]], dict[str, set[str]]]:
	"""For every tree name of the grammar (rule name, alias or template name): the terminal types a derivation of it can
	begin with and end with. These are the GENERATED tables (translate/gen_grammar_first.py: lark's loaded rules and its
	FIRST/NULLABLE analysis) whose closure Props/C16.lean re-checks (`first_tables_ok`, `last_tables_ok`) and from which
	`span_begins_at_first_token` / `span_ends_at_last_token` follow. Independent of the positions under test."""
	if not _GRAMMAR_SETS:
		from translate import gen_grammar_first
		_GRAMMAR_SETS['first'], _GRAMMAR_SETS['last'] = gen_grammar_first.first_last_by_name()
	return _GRAMMAR_SETS['first'], _GRAMMAR_SETS['last']


def lexer_index(parser: Any, src: str) -> tuple[dict[tuple[int, int], str], dict[tuple[int, int], str]] | None:
	"""token type by begin position and by end position, from the parser's own lexer on the text the parser parses"""
	if src in _LEX_CACHE:
		return _LEX_CACHE[src]
	text = src if src.endswith('\n') or src == '' else src + '\n'
	try:
		toks = [t for t in lexer_tokens(parser, text) if t.type not in ('_INDENT', '_DEDENT')]
		out: Any = ({(t.line, t.column): t.type for t in toks}, {(t.end_line, t.end_column): t.type for t in toks})
	except Exception:  # noqa: BLE001
		out = None
	if len(_LEX_CACHE) > 8:
		_LEX_CACHE.clear()
	_LEX_CACHE[src] = out
	return out


def check_tree(label: str, src: str, root: Any, literals: set[str], res: SearchResult, suffix: str, grammar: Any = None) -> dict[str, tuple[Any, Any, Any, Any]]:
	"""all span statements for one tree (entries through the Entry interface only); returns path → span of every entry, so that
	the spans of the cache-restored tree can be compared with the cold ones node by node"""
	recorded: dict[str, tuple[Any, Any, Any, Any]] = {}
	lex = lexer_index(grammar, src) if grammar is not None else None
	first, last = grammar_first_last(grammar) if grammar is not None else ({}, {})
	starts = line_starts(src)
	eof = (len(starts), len(src) - starts[-1] + 1)
	# CPython's tokenizer translates a bare CR into a line break (the parser under test and the file do not): its positions are
	# not comparable there; the text-level clauses (token text = slice of the file, nesting, order, FIRST/LAST) still apply
	ptoks = py_tokens(src) if not re.search(r'\r(?!\n)', src) else None
	bounds: set[tuple[int, int]] = {eof, (1, 1)}
	if not src.endswith('\n'):
		bounds.add((len(starts) + 1, 1))
	strings: list[tuple[tuple[int, int], tuple[int, int]]] = []
	named_py: list[tuple[str, tuple[int, int], tuple[int, int]]] = []
	if ptoks is not None:
		for kind, text, b, e in ptoks:
			bounds.add(b)
			bounds.add(e)
			if kind == 'STRING':
				strings.append((b, e))
			if kind in ('NAME', 'NUMBER', 'STRING', 'COMMENT'):
				named_py.append((text, b, e))
	else:
		res.histogram['cpython-cannot-tokenize'] = res.histogram.get('cpython-cannot-tokenize', 0) + 1

	def find(key: str, what: str, path: str) -> None:
		add_finding(res, label, key, path, suffix, what, {'module': label, 'path': path, 'source': src[:20000]})

	def inside_string(p: tuple[int, int]) -> bool:
		return any(b < p < e for b, e in strings)

	def span(e: Any) -> tuple[Any, Any, Any, Any]:
		return sm_of(e.source_map)

	def py_end(pos: tuple[int, int]) -> tuple[int, int]:
		"""an end position that stands between the CR and the LF of a CRLF line end, moved in front of the CR (where CPython, for
		which CR LF is one line break, ends the token): only a comment token that swallowed the CR ends there — reported once
		per module under its own key `comment-span-includes-cr`, and not again by the clauses that compare with CPython"""
		if 1 <= pos[0] <= len(starts) and pos[1] >= 2:
			off = starts[pos[0] - 1] + pos[1] - 1
			if src[off - 1:off + 1] == '\r\n':
				return (pos[0], pos[1] - 1)
		return pos

	cr_comment_reported = [False]

	def terminals(e: Any, acc: list[tuple[str, tuple[int, int], tuple[int, int]]]) -> None:
		if e.is_terminal:
			s = span(e)
			# `match`/`case` are soft keywords: NAME for CPython, anonymous terminals kept under `name` by lark's python grammar
			if (e.name in NAMED_TERMINALS or keyword.issoftkeyword(e.value)) and s != (0, 0, 0, 0):
				acc.append((e.value, (s[0], s[1]), py_end((s[2], s[3])) if e.name == 'COMMENT' and None not in s else (s[2], s[3])))
		for c in e.children:
			terminals(c, acc)

	def walk(e: Any, path: str) -> None:
		s = span(e)
		recorded[path] = s
		if e.is_empty:
			return
		if len(res.findings) > 40:
			for i, c in enumerate(e.children):  # keep recording, stop reporting
				walk(c, f'{path}.{c.name}[{i}]' if [x.name for x in e.children].count(c.name) != 1 else f'{path}.{c.name}')
			return
		if s == (0, 0, 0, 0):
			res.histogram['entries-without-span'] = res.histogram.get('entries-without-span', 0) + 1
		elif None in s or not all(isinstance(x, int) for x in s):
			find('span-none:eof-dedent' if s[0] is not None and s[2] is None else 'span-none', f'span of {path} is {s}', path)
			return
		else:
			b, en = (s[0], s[1]), (s[2], s[3])
			res.histogram['entries-with-span'] = res.histogram.get('entries-with-span', 0) + 1
			if not b <= en:
				find('span-reversed', f'span of {path} is {s}', path)
			text = slice_of(src, starts, b, en)
			if text is None:
				find('span-outside-file', f'span of {path} is {s}, file has {len(starts)} lines', path)
			elif e.is_terminal:
				if text != e.value:
					find('token-slice', f'token {path} = {e.value!r} but its span {s} holds {text!r}', path)
				elif e.name == 'COMMENT' and py_end(en) != en and not cr_comment_reported[0] and _CR_COMMENTS_REPORTED[0] < 3:
					# the comment's span reaches into the line break: the CR of a CRLF line end is part of the token (reported for
					# the first three modules of a run only: the findings of one key must not use up the report budget of the search)
					cr_comment_reported[0] = True
					_CR_COMMENTS_REPORTED[0] += 1
					find('comment-span-includes-cr', f'comment {path} = {e.value!r}: its span {s} ends between the CR and the LF of the CRLF line end (the line break is cut in two; the comment text carries the CR)', path)
			if text is not None and not e.is_terminal and lex is not None:
				# the span begins at a token the node's own rule can begin with and ends at one it can end with (a span that
				# swallows a neighbouring token of the surrounding rule — `if` before a comprehension condition, `:` before an
				# annotation — begins with a token outside FIRST)
				tb, te = lex[0].get(b), lex[1].get(en)
				name = str(e.name)
				if tb is not None and name in first and tb not in first[name]:
					find('span-begin-not-first-token', f'span {s} of {path} begins at a {tb} token, but a {name} begins with one of {sorted(first[name])[:6]}', path)
				if te is not None and name in last and te not in last[name] and not (te == '_NEWLINE' and '_DEDENT' in last[name]):
					find('span-end-not-last-token', f'span {s} of {path} ends at a {te} token, but a {name} ends with one of {sorted(last[name])[:6]}', path)
				if tb is not None and name in first:
					res.histogram['first-last-checked'] = res.histogram.get('first-last-checked', 0) + 1
			if text is not None and not e.is_terminal and ptoks is not None:
				# token-aligned (quoted annotations are lexed by the grammar as ' NAME ': boundaries inside a CPython STRING are exempt)
				for pos, side in ((b, 'begin'), (py_end(en), 'end')):
					if pos not in bounds and not inside_string(pos):
						find('boundary', f'{side} {pos} of {path} (span {s}) is not a token boundary', path)
				acc: list[tuple[str, tuple[int, int], tuple[int, int]]] = []
				terminals(e, acc)
				mine = [t for t in acc if not inside_string(t[1])]
				theirs = [t for t in named_py if b <= t[1] and t[2] <= en]
				mine_set = {(t[1], t[2]) for t in mine}
				for t in mine:
					if (t[1], t[2]) not in {(x[1], x[2]) for x in theirs}:
						find('content-missing', f'terminal {t} of {path} is not a CPython token inside span {s}', path)
						break
				prev = (0, 0)
				for t in mine:
					if t[1] < prev:
						find('content-order', f'terminals of {path} are not in source order', path)
						break
					prev = t[2]
				for t in theirs:
					if (t[1], t[2]) in mine_set:
						continue
					quoted = any(t[1] < m[1] and m[2] < t[2] for m in acc)  # quoted annotation: the grammar's terminals sit inside it
					if not (keyword.iskeyword(t[0]) or t[0] in literals or quoted or (t[0].startswith('#') and TYPE_IGNORE_RE.fullmatch(t[0]))):
						find('content-extra', f'CPython token {t} lies inside span {s} of {path} but is not a terminal of the subtree', path)
						break
		if e.has_child:
			cs = e.children
			names = [c.name for c in cs]
			last_end: tuple[int, int] | None = None
			for i, c in enumerate(cs):
				el = c.name if names.count(c.name) == 1 else f'{c.name}[{i}]'
				cp = f'{path}.{el}'
				sc = span(c) if not c.is_empty else (0, 0, 0, 0)
				if sc != (0, 0, 0, 0) and None not in sc and s != (0, 0, 0, 0) and None not in s[:2]:
					cb, ce = (sc[0], sc[1]), (sc[2], sc[3])
					if cb < (s[0], s[1]) or (None not in s[2:] and ce > (s[2], s[3])):
						find('nesting', f'child {cp} span {sc} is not inside parent span {s}', cp)
					if last_end is not None and cb < last_end:
						find('sibling-order', f'child {cp} span {sc} begins before the previous sibling ends {last_end}', cp)
					last_end = ce
				elif sc != (0, 0, 0, 0) and s == (0, 0, 0, 0):
					find('nesting', f'child {cp} has span {sc} but its parent {path} has none', cp)
				walk(c, cp)

	walk(root, root.name)
	return recorded


def compare_with_cold(label: str, src: str, cold: dict[str, Any], warm: dict[str, Any], res: SearchResult) -> None:
	""""holds equally after the tree was restored from the cache": the restored tree must report, node by node, the spans the
	cold parse reported (the code's own answer "no position" is not a reason to skip a node that had one)"""
	if list(cold.keys()) != list(warm.keys()):
		res.findings.append(Finding(key='paths-differ-after-restore', what=f'{label}: the restored tree has {len(warm)} entries, the cold parse {len(cold)}', replay={'module': label, 'source': src[:20000]}))
		return
	n = 0
	for p, sc in cold.items():
		if warm[p] != sc:
			kind = 'span-lost-after-restore' if warm[p] == (0, 0, 0, 0) else 'span-differs-after-restore'
			res.findings.append(Finding(key=kind, what=f'{label}: {p} has span {sc} on the cold parse and {warm[p]} after the cache restore', replay={'module': label, 'path': p, 'cold': list(sc), 'restored': list(warm[p]), 'source': src[:20000]}))
			n += 1
			if n >= 3:
				break


def check_in_memory(mem: Any, label: str, src: str, cold: dict[str, Any], literals: set[str], res: SearchResult, grammar: Any) -> None:
	"""parses `src` as the in-memory `__main__` module exactly as given (MemApp.entrypoint would append a line feed) and
	evaluates the span statements on it; its spans must be, path by path, those of the stored file with the same text"""
	from rogw.tranp.syntax.ast.entrypoints import Entrypoints
	lab = f'{label}:in-memory'
	replay = {'module': lab, 'source': src[:20000]}
	try:
		mem.source = src
		eps = mem.resolve(Entrypoints)
		eps.unload(mem.main)
		ep = eps.load(mem.main)
		root = diskproj.nodes_of(ep)._Nodes__entries.by(ep.full_path)
	except Exception as e:  # noqa: BLE001 - the stored file with this text parsed
		res.findings.append(Finding(key=f'in-memory-parse-raises:{exc_enum(e)}', what=f'{lab}: the text parses as a stored file but raises {exc_enum(e)} as an in-memory module', replay=replay))
		return
	res.cases += 1
	res.histogram['in-memory'] = res.histogram.get('in-memory', 0) + 1
	try:
		spans = check_tree(lab, src, root, literals, res, '', grammar)
	except Exception as e:  # noqa: BLE001
		res.findings.append(Finding(key=f'span-raises:{exc_enum(e)}', what=f'{lab}: reading the spans raises {exc_enum(e)}', replay=replay))
		return
	if list(spans.values()) != list(cold.values()):
		diff = next(((p, q, a, b) for (p, a), (q, b) in zip(cold.items(), spans.items()) if a != b), None)
		what = f'{len(cold)} vs {len(spans)} entries' if diff is None else f'{diff[0]} has span {diff[2]} in the stored file and {diff[1]} has {diff[3]} in memory'
		res.findings.append(Finding(key='span-differs-in-memory', what=f'{lab}: {what}', replay=replay))


def entry_texts(root: Any) -> dict[str, str]:
	"""path → the entry's own text as the node API spells it: the token values of the entry's subtree, in source order, joined
	by '.' (own pre-order walk over the Entry interface; the paths are built as in `check_tree`)"""
	out: dict[str, str] = {}

	def walk(e: Any, path: str) -> list[str]:
		vals: list[str] = []
		if e.is_empty:
			out[path] = ''
			return vals
		if e.is_terminal:
			if e.value:
				vals.append(e.value)
		elif e.has_child:
			cs = e.children
			names = [c.name for c in cs]
			for i, c in enumerate(cs):
				vals.extend(walk(c, f'{path}.{c.name}' if names.count(c.name) == 1 else f'{path}.{c.name}[{i}]'))
		out[path] = '.'.join(vals)
		return vals

	walk(root, root.name)
	return out


DEF_TAIL = re.compile(r'(class_def|function_def)(\[\d+\])?$')


def check_node_level(label: str, src: str, ep: Any, root: Any, recorded: dict[str, Any], rng: random.Random, limit: int, res: SearchResult, suffix: str) -> None:
	"""The span statements at the level of NODES as the node API hands them out — the node of every (sampled) entry path and
	the nodes its expandable properties return (`symbol`, `decorators`, `parameters`, `block`, … = what `procedural()`
	flattens), including proxies and virtual children:
	  * the node of an entry reports its entry's span (whose content `check_tree` examined);
	  * a stand-in (an object of a run-time made class overriding attributes of the node it was made from) whose tokens are
	    NOT the text of the entry it stands on (an alias published under another name; compared without dots and white
	    space), or a node that stands on no entry at all (a virtual child), has no text of its own in the file: it reports no position — or a
	    span whose text is exactly its tokens — and an error raised on it is reported without quotation."""
	nodes = diskproj.nodes_of(ep)
	texts = entry_texts(root)
	starts = line_starts(src)
	paths = list(recorded.keys())
	defs = [p for p in paths if DEF_TAIL.search(p)]
	rest = [p for p in paths if not DEF_TAIL.search(p)]
	chosen = (defs if len(defs) <= limit else rng.sample(defs, limit)) + (rest if len(rest) <= limit else rng.sample(rest, limit))
	seen: set[tuple[str, str]] = set()

	def norm(text: str) -> str:
		# node classes spell their tokens differently (values joined by '.', or by nothing): compare without dots and blanks
		return re.sub(r'[.\s]+', '', text)

	def is_stand_in(m: Any) -> bool:
		# an object of a class made at run time (a local class deriving from the node's class and overriding attributes) that
		# stands in for the node of its path; the nodes the resolver and `as_a` build are instances of module-level classes
		return '<locals>' in type(m).__qualname__

	def examine(m: Any, via: str) -> None:
		try:
			mp, toks = str(m.full_path), m.tokens
		except Exception:  # noqa: BLE001 - node resolution / token text of odd nodes: C10's and C02's subject
			res.histogram['node-unreadable'] = res.histogram.get('node-unreadable', 0) + 1
			return
		if (mp, toks) in seen:
			return
		seen.add((mp, toks))
		replay = {'module': label, 'path': mp, 'via': via, 'tokens': toks[:200], 'source': src[:20000]}
		try:
			s = sm_of(m.source_map)
		except Exception as e:  # noqa: BLE001
			add_finding(res, label, f'node-source-map-raises:{exc_enum(e)}', f'{via}>{mp}', suffix, f'source_map of the node {via} → {mp} ({type(m).__name__}) raises {exc_enum(e)}', replay)
			return
		res.histogram['nodes-examined'] = res.histogram.get('nodes-examined', 0) + 1
		own = texts.get(mp)
		stand_in = is_stand_in(m)
		if own is not None and stand_in and norm(toks) == norm(own) and s == (0, 0, 0, 0):
			return  # an alias that happens to spell the original name: still a stand-in without a position of its own
		if own is not None and (not stand_in or norm(toks) == norm(own)):
			# the node of an entry (its class may summarise `tokens` in its own way — `n as fn` → 'fn'): the entry's span
			if s != recorded.get(mp):
				add_finding(res, label, 'node-span-differs-from-entry', f'{via}>{mp}', suffix, f'node {via} → {mp} ({type(m).__name__}) reports {s}, its entry {recorded.get(mp)}', replay)
			return
		# no own text in the file: an alias (tokens overridden) or a virtual child (no entry)
		kind = 'alias' if own is not None else 'virtual'
		res.histogram[f'nodes-without-own-text:{kind}'] = res.histogram.get(f'nodes-without-own-text:{kind}', 0) + 1
		if s != (0, 0, 0, 0):
			text = slice_of(src, starts, (s[0], s[1]), (s[2], s[3])) if None not in s else None
			if text is None or norm(text) != norm(toks):
				add_finding(res, label, f'node-span-not-own-text:{kind}', f'{via}>{mp}', suffix, f'node {via} → {mp} ({type(m).__name__}) has the tokens {toks[:60]!r} but reports the span {s}, which holds {None if text is None else text[:60]!r}', replay)
			return
		q = render_quotation(m, len(seen))
		if isinstance(q, str) or q:
			add_finding(res, label, 'quotation-spanless-node', f'{via}>{mp}', suffix, f'node {via} → {mp} has no span, yet the report quotes {q if isinstance(q, str) else q[1:4]}', replay)

	for p in chosen:
		try:
			n = nodes.by(p)
		except Exception:  # noqa: BLE001 - node resolution is C10's subject
			continue
		examine(n, p)
		try:
			keys = list(n.prop_keys())
		except Exception:  # noqa: BLE001
			keys = []
		for k in keys:
			try:
				v = getattr(n, k)
				ms = list(v) if isinstance(v, (list, tuple)) else [v]
			except Exception:  # noqa: BLE001 - a property that cannot be resolved on a merely syntactic program
				res.histogram['property-unresolvable'] = res.histogram.get('property-unresolvable', 0) + 1
				continue
			for m in ms:
				if hasattr(m, 'full_path') and hasattr(m, 'source_map'):
					examine(m, f'{p}.{k}')


_COLD_QUOTES: dict[tuple[str, str], Any] = {}


def expected_marks(src: str, s: tuple[int, int, int, int]) -> tuple[str, str, set[int]] | None:
	"""(label line number, quoted line, caret columns) the statement demands for a 1-based span, straight from the text"""
	lines = src.split('\n')
	if not 1 <= s[0] <= len(lines):
		return None
	line = lines[s[0] - 1]
	if s[0] == s[2]:
		cols = set(range(s[1] - 1, s[3] - 1)) or {s[1] - 1}  # an empty range is shown by one caret at its position
	else:
		cols = set(range(s[1] - 1, len(line))) or {s[1] - 1}
	return str(s[0]), line.replace('\t', ' '), cols


def check_quotations(pr: Project, mp: str, ep: Any, rng: random.Random, limit: int, res: SearchResult, suffix: str, sampled: list[str] | None = None) -> list[str]:
	"""Returns the sampled paths so that the restored tree is examined at the same nodes as the fresh one."""
	nodes = diskproj.nodes_of(ep)
	src = pr.sources[mp]
	label = pr.labels[mp]
	filepath = mp.replace('.', os.sep) + '.py'
	if sampled is None:
		sampled = sample_paths(rng, nodes, diskproj.all_paths(ep), limit)
	with chdir(pr.cwd_for(mp)):
		for k, p in enumerate(sampled):
			try:
				node = nodes.by(p)
			except Exception:  # noqa: BLE001 - node resolution is C10's subject
				continue
			res.cases += 1
			try:
				s = sm_of(node.source_map)
			except Exception as e:  # noqa: BLE001
				add_finding(res, label, f'source-map-raises:{exc_enum(e)}', p, suffix, f'node.source_map of {p} raises {exc_enum(e)}', {'module': label, 'path': p, 'source': src[:20000]})
				continue
			q = render_quotation(node, k)
			if not suffix:
				_COLD_QUOTES[(label, p)] = q
			elif (label, p) in _COLD_QUOTES and _COLD_QUOTES[(label, p)] != q:
				res.findings.append(Finding(key='quotation-differs-after-restore', what=f'{label}: the report for {p} is {_COLD_QUOTES[(label, p)]} on the cold parse and {q} after the cache restore', replay={'module': label, 'path': p, 'source': src[:20000]}))
			replay = {'module': label, 'path': p, 'span': list(s), 'quotation': q, 'source': src[:20000]}
			if None in s:
				if isinstance(q, str):
					add_finding(res, label, f'quotation-raises:{q}:span-none', p, suffix, f'reporting an error for {p} (span {s}) raises {q}', replay)
				continue
			if s == (0, 0, 0, 0):
				# a node without any token has no region; the statement can only be met by not pointing anywhere
				if isinstance(q, str) or q:
					add_finding(res, label, 'quotation-spanless-node', p, suffix, f'node {p} has no span, yet the report quotes {q if isinstance(q, str) else q[1:4]}', replay)
				continue
			exp = expected_marks(src, s)
			if isinstance(q, str) or len(q) != 4 or exp is None:
				key = 'quotation-missing' if not isinstance(q, str) else f'quotation-raises:{q}' + (':empty-module' if src == '' else '')
				add_finding(res, label, key, p, suffix, f'no quotation for {p} span {s}: {q}', replay)
				continue
			lno, line, cols = exp
			got_cols = {i for i, ch in enumerate(q[3][8:]) if ch == '^'}
			other = set(q[3][8:]) - {'^', ' '}
			if q[1] != f'  {filepath}:{lno}':
				add_finding(res, label, 'quotation-line-number', p, suffix, f'{p} span {s} reported as {q[1]!r}', replay)
			elif q[2] != f'    >>> {line}':
				add_finding(res, label, 'quotation-line-text', p, suffix, f'{p} span {s} quotes {q[2]!r}, line is {line!r}', replay)
			elif got_cols != cols or other or not q[3].startswith(' ' * 8):
				add_finding(res, label, 'quotation-carets', p, suffix, f'{p} span {s} marks columns {sorted(got_cols)[:3]}..{len(got_cols)}, expected {sorted(cols)[:3]}..{len(cols)}', replay)
			kind = 'multi-line' if s[0] != s[2] else 'single-line'
			res.histogram[kind] = res.histogram.get(kind, 0) + 1
	return sampled


def corpus_modules() -> list[tuple[str, str]]:
	out = []
	d = os.path.join(common.CORPUS_DIR, PROP)
	if os.path.isdir(d):
		for fn in sorted(os.listdir(d)):
			if fn.endswith('.json'):
				with open(os.path.join(d, fn), encoding='utf-8') as f:
					rec = json.load(f)
				if rec.get('kind') == 'module':
					out.append((fn[:-5], rec['source']))
	return out


def search_spans(ctx: Ctx) -> tuple[SearchResult, SearchResult]:
	rng = ctx.sub_rng('spans')
	res = SearchResult("spans vs CPython's tokenizer: token spans slice to the token text; tree spans are token-aligned and hold exactly the subtree's named terminals; child ⊆ parent; siblings ordered — fresh and cache-restored trees")
	resq = SearchResult('quotation of ErrorRender(Errors.X(node)) marks exactly columns [begin, end) of the reported line (text-level oracle) — fresh and cache-restored trees')
	literals = grammar_literals()
	from rogw.tranp.syntax.ast.parser import SyntaxParser
	grammar = common.MemApp(ctx.tmpdir()).resolve(SyntaxParser)  # the parser object, for its lexer and its rule table
	pr = Project(ctx)
	mods: list[str] = []
	for k, (name, src) in enumerate(corpus_modules()):
		mods.append(pr.add_source(f'gen.corpus{k}', src, f'corpus:{name}'))
	n_gen = ctx.scale(48, 600)
	for i in range(n_gen):
		mods.append(pr.add_generated(rng, i, eof_variant=(i % 6 == 1), cr_variant=(i % 6 == 3)))
	for k, src in enumerate(c15.STATEMENT_FREE):
		mods.append(pr.add_source(f'gen.free{k}', src, f'statement-free#{k}:{src!r}'))
	mods += [pr.add_real(mp) for mp in real_modules(ctx, rng, ctx.scale(6, 120))]
	mem = common.MemApp(ctx.tmpdir())
	seen = set()
	exercised = 0
	_FRESH_SEEN.clear()
	_COLD_QUOTES.clear()
	_CR_COMMENTS_REPORTED[0] = 0
	for mp in diskproj.bounded(mods, *diskproj.budgets(ctx), label=lambda m: pr.labels.get(m, m)):
		sampled: list[str] | None = None
		cold_spans: dict[str, Any] = {}
		for restored in (False, True):
			suffix = ':restored' if restored else ''
			try:
				ep = pr.proj.entrypoint(mp)
				root = diskproj.nodes_of(ep)._Nodes__entries.by(ep.full_path)
			except Exception as e:  # noqa: BLE001
				if restored:  # the fresh parse succeeded, so the stored form must load
					add_finding(res, pr.labels[mp], f'restore-raises:{exc_enum(e)}', 'file_input', suffix, f'loading the cached tree raises {exc_enum(e)}', {'module': pr.labels[mp], 'source': pr.sources[mp][:20000]})
				else:
					res.histogram['outside-grammar'] = res.histogram.get('outside-grammar', 0) + 1
				break
			if restored and not diskproj.is_restored(root):
				res.histogram['cache-not-exercised'] = res.histogram.get('cache-not-exercised', 0) + 1
			elif restored:
				exercised += 1
			res.cases += 1
			seen.add(hash(pr.sources[mp]))
			spans_ok: dict[str, Any] = {}
			try:
				spans = check_tree(pr.labels[mp], pr.sources[mp], root, literals, res, suffix, grammar)
				spans_ok = spans
				if restored:
					compare_with_cold(pr.labels[mp], pr.sources[mp], cold_spans, spans, res)
					res.histogram['entries-compared-with-cold'] = res.histogram.get('entries-compared-with-cold', 0) + len(spans)
				else:
					cold_spans = spans
			except Exception as e:  # noqa: BLE001
				add_finding(res, pr.labels[mp], f'span-raises:{exc_enum(e)}', 'file_input', suffix, f'reading the spans raises {exc_enum(e)}', {'module': pr.labels[mp], 'source': pr.sources[mp][:20000]})
			sampled = check_quotations(pr, mp, ep, rng, ctx.scale(32, 60), resq, suffix, sampled if restored else None)
			if spans_ok:
				try:
					with chdir(pr.cwd_for(mp)):
						check_node_level(pr.labels[mp], pr.sources[mp], ep, root, spans_ok, rng, ctx.scale(60, 200), res, suffix)
				except Exception as e:  # noqa: BLE001
					add_finding(res, pr.labels[mp], f'node-level-raises:{exc_enum(e)}', 'file_input', suffix, f'examining the nodes raises {exc_enum(e)}', {'module': pr.labels[mp], 'source': pr.sources[mp][:20000]})
			kind = pr.labels[mp].split('#')[0].split(':')[0] if mp.startswith('gen.') else 'real'
			res.histogram[kind + suffix] = res.histogram.get(kind + suffix, 0) + 1
		if cold_spans and (mp.startswith('gen.free') or (mp.startswith('gen.m') and int(mp[5:]) % 3 == 1)):
			# the same text as a module that exists only in memory (never cached, no file to quote): the spans are those of the
			# stored file — in particular for texts that do not end with a line feed
			check_in_memory(mem, pr.labels[mp], pr.sources[mp], cold_spans, literals, res, grammar)
		if mp.startswith('gen.m') and int(mp[5:]) % 4 == 0:
			# history: the file is edited (within the same whole second of its mtime) after its tree was cached; a fresh App on
			# the same cache directory must then report spans that delimit the CURRENT text
			new_src, _ = pygen.gen_module(rng, n_statements=rng.randint(1, 4))
			if rng.random() < 0.5:
				new_src = rng.choice(['x0 = 0\n', '# edited\n', '\n']) + pr.sources[mp]  # same text shifted by one line
			label = pr.labels[mp] + ':edited-after-caching'
			pr.rewrite(mp, new_src, label)
			try:
				ep = pr.proj.entrypoint(mp)
				root = diskproj.nodes_of(ep)._Nodes__entries.by(ep.full_path)
			except Exception as e:  # noqa: BLE001
				add_finding(res, label, f'reparse-after-edit-raises:{exc_enum(e)}', 'file_input', '', f'parsing the edited module raises {exc_enum(e)}', {'module': label, 'source': new_src[:20000]})
				continue
			res.cases += 1
			try:
				check_tree(label, new_src, root, literals, res, '', grammar)
			except Exception as e:  # noqa: BLE001
				add_finding(res, label, f'span-raises:{exc_enum(e)}', 'file_input', '', f'reading the spans raises {exc_enum(e)}', {'module': label, 'source': new_src[:20000]})
			check_quotations(pr, mp, ep, rng, ctx.scale(32, 60), resq, '')
			res.histogram['edited-after-caching'] = res.histogram.get('edited-after-caching', 0) + 1
		if len(res.samples) < 2:
			res.samples.append({'module': pr.labels[mp], 'bytes': len(pr.sources[mp])})
	res.distinct = len(seen)
	resq.distinct = resq.cases
	if not exercised and not res.findings and not resq.findings:
		raise common.InfraError('no module was restored from the on-disk cache: the restored half of the search did not run')
	res.note = 'every tree span begins at a token of FIRST(rule) and ends at a token of LAST(rule) (the generated, Lean-checked tables of translate/gen_grammar_first.py; token types from the parser\'s lexer); the cache-restored tree is compared with the cold parse node by node (every entry: span; sampled nodes: printed quotation); history: every 4th generated module is rewritten after its tree was cached (mtime changed only in its fractional second) and re-parsed by a fresh App on the same cache directory — the spans must delimit the current text; restrictions: positions inside a CPython STRING token are exempt from the boundary/content checks (quoted annotations are lexed by the grammar as QUOTE NAME QUOTE); CPython NAME tokens that are Python keywords or anonymous literals of grammar.lark, and `# type: ignore` comments (ignored by the grammar) need not be terminals; f-strings are folded into one STRING; the end of a multi-line CPython STRING token is recomputed from its start and text (CPython 3.12 miscounts it after non-ASCII text); stored files with CRLF line ends, CRLF + long strings and bare CR inside a leading comment / string are generated (every 6th module): all clauses are evaluated against the text on disk, only a line feed ends a line; the positions of CPython are not used for texts with a bare CR (its tokenizer turns it into a line break); a comment token that swallowed the CR of a CRLF line end is reported under its own key comment-span-includes-cr (first three modules) and compared with CPython without the CR; the same text is parsed as an in-memory module WITHOUT appending a line feed (every 3rd generated module, all end-of-file variants, the statement-free modules) and must give the spans of the stored file path by path; statement-free modules (empty, blank, white space, comment only) go through the cold→warm history; node level (check_node_level): the node of every sampled entry path and the nodes its expandable properties return (symbol, decorators, parameters, block … = what procedural() flattens; definitions decorated with @__actual__ / @Embed.alias are generated and occur in classes.py) — the node of an entry reports its entry span, a stand-in whose tokens are not the text of its entry (alias) and a virtual child (no entry) report no position or a span holding exactly their tokens, and are reported without quotation; real files with CR are excluded; for a text without final line feed (lines+1, 1) counts as end of input'
	resq.note = 'an empty column range is shown by one caret at its position (the renderer\'s documented minimum); nodes whose span has no position (0,0,0,0) must not be quoted at all (regression of fix dc3e568); a None position or a raising renderer is a finding (regression of fix 46d0462); CRLF files excluded'
	return res, resq


def search_collector(ctx: Ctx) -> SearchResult:
	"""The self-hosted parser's error summary: the text standing above the carets is the cause token's own text, on the
	line the summary names (oracle: the source text itself; no arithmetic of the collector is repeated)."""
	from rogw.tranp.implements.syntax.tranp.syntax import ErrorCollector
	from rogw.tranp.implements.syntax.tranp.token import TokenTypes
	from rogw.tranp.implements.syntax.tranp.tokenizer import Tokenizer
	rng = ctx.sub_rng('collector')
	res = SearchResult('ErrorCollector summary: the text above the carets is the cause token, on the named line')
	tk = Tokenizer()
	synthetic = {TokenTypes.NewLine, TokenTypes.Indent, TokenTypes.Dedent, TokenTypes.EOF, TokenTypes.Empty}
	seen = set()
	for i in diskproj.bounded(range(ctx.scale(60, 800)), *diskproj.budgets(ctx)):
		src, _ = pygen.gen_module(rng, n_statements=rng.randint(1, 3), unit=rng.choice(['\t', '  ']))
		try:
			tokens = tk.parse(src)
		except Exception:  # noqa: BLE001 - the self-hosted lexer rejects the text (C13's subject)
			res.histogram['lexer-rejects'] = res.histogram.get('lexer-rejects', 0) + 1
			continue
		seen.add(hash(src))
		lines = src.split('\n')
		idx = [k for k, t in enumerate(tokens) if t.type not in synthetic and t.string and '\\' not in t.string]
		for k in rng.sample(idx, min(len(idx), 12)):
			t = tokens[k]
			res.cases += 1
			try:
				out = ErrorCollector(src, tokens, k).summary().split('\n')
				head, mark = out[-2], out[-1]
				m = re.match(r'\((\d+)\) >>> ', head)
				assert m is not None
				quoted = head[m.end():]
				carets = [c for c, ch in enumerate(mark[m.end():]) if ch == '^']
				above = ''.join(quoted[c] if c < len(quoted) else '' for c in carets)
				first = t.string.split('\n')[0]
				ok = int(m.group(1)) - 1 < len(lines) and quoted == lines[int(m.group(1)) - 1] and above == first and len(mark) >= m.end() and set(mark[:m.end()]) <= {' '} and src.split('\n')[int(m.group(1)) - 1][carets[0]:].startswith(first)
				why = f'line {m.group(1)} quoted {quoted!r}, carets over {above!r}, token {t!r}'
			except Exception as e:  # noqa: BLE001
				ok, why = False, f'raises {exc_enum(e)} for token {t!r}'
			if not ok:
				res.findings.append(Finding(key='collector-carets', what=why, replay={'source': src, 'steps': k}))
				break
			kind = 'multi-line-token' if '\n' in t.string else 'single-line-token'
			res.histogram[kind] = res.histogram.get(kind, 0) + 1
	res.distinct = len(seen)
	return res


# ---------------------------------------------------------------------------------------------


STATEMENTS = {
	'mark': 'the quotation of a node with recorded span (bl,bc)..(el,ec), bl ≥ 1, bc ≥ 1, line bl loadable: label = line bl, quoted text = loaded line bl, carets exactly on columns [bc−1, ec−1) for a one-line span (one caret if empty) and [bc−1, len line) for a span continuing on later lines',
	'quotation_spanless': 'a node without a source position (begin line or column < 1, e.g. the span 0,0..0,0 of placeholders) is reported without quotation (fix dc3e568; regression witness corpus/C16/spanless-node.json)',
	'quotation': 'the whole statement for integer spans: the report is empty exactly for nodes without a position and otherwise points at the span (label, quoted line, caret columns), whenever line bl exists',
	'quotation_none_end': 'a None end position still raises TypeError in the renderer; None positions no longer occur since fix 46d0462 (search reports any; regression witness corpus/C16/eof-dedent-span.json)',
	'render_lines': 'in the whole render() text the quotation lines stand as lines of their own directly behind the stack trace lines and before name: message',
	'loadLine_no_lf': 'the quoted line never contains a line feed',
	'guard_generated': "the no-position guard of __build_quotation as the translator reads it from the source (disjuncts on the UNSHIFTED span, short-circuit or) is the model's guard",
	'guard_meaning': 'for integer positions the generated guard is true exactly when begin line < 1 or begin column < 1',
	'shift_generated': "the shift tuple read from the source is the model's minus-one shift",
	'buildQuotation_generated': '__build_quotation evaluated from the generated tables in the statement order found in the source (exists, guard, shift) equals the model buildQuotation',
	'lark_options': 'the parser is built with propagate_positions=True and postlex=PythonIndenter() (read from the source)',
	'first_tables_ok': 'the generated NULLABLE/FIRST tables are closed under every rule of the generated grammar (462 rules read from lark; decide +kernel)',
	'last_tables_ok': 'the same for the grammar with reversed right-hand sides (LAST)',
	'span_begins_at_first_token': 'every valid derivation by a rule that builds a tree named n begins with a terminal of the generated FIRST set of n — the search clause span-begin-not-first-token is a consequence of the interface hypothesis',
	'span_ends_at_last_token': 'and ends with a terminal of the generated LAST set of n (span-end-not-last-token)',
	'quotation_shape': "ErrorRender.Quotation as read from the source (readlines, the replace chain, the range expressions, fill characters and counts, line-number expression, the four templates) evaluates to the model's quotationBuild for every content and span",
	'collector_shape': "ErrorCollector as read from the source (range expressions, mark, line number, the two templates, source.split lookup) evaluates to the model's collectorLines",
	'mark_line': 'the loaded line is the bl-th piece of readlines = the bl-th piece of split("\\n"), without line feed, every tab replaced by exactly one blank (length and columns preserved)',
	'mark_aligned': 'quoted line and mark line are printed behind prefixes of equal width',
	'pos_mono': '(line, column) computed from the text by own arithmetic is monotone in the character offset',
	'tokens_chain': 'tokens handed out left to right (offsets) have ordered, non-overlapping (line, column) spans — the Chain hypothesis is derived',
	'span_nest': 'a tree consuming the token interval [lo, hi) whose children consume sub-intervals in order (interface hypothesis wf): every child span lies inside the tree span',
	'span_siblings': 'under the same hypothesis the spans of two children do not overlap and follow the order of the children',
	'pos_strict': 'inside the text a later character has a strictly later (line, column): positions identify characters',
	'span_region': 'the region the recorded span of a tree over tokens [lo, hi) delimits (characters whose own (line, column) lies in [begin, end)) is exactly the stretch from the first character of token lo to the last character of token hi−1 (tokens non-empty and inside the text)',
	'span_holds_exactly_own_tokens': 'the lexer tokens whose recorded positions lie inside that span are exactly the tokens lo … hi−1 the tree consumed, no other token of the module (tokens ordered, non-empty, inside the text)',
	'region_enumerated': "the driver's list behind op iregion enumerates exactly the characters of the region as defined",
	'tokens_enumerated': "the driver's list behind op itoks enumerates exactly the tokens inside the span as defined",
	'position_names_character': "the (line, column) computed for a character of the text is ≥ (1, 1), its line is one the renderer's __load_line can load, and column col of the loaded line holds that character (tab shown as blank): carets and characters are in register",
	'tree_quotation': 'end to end: for the tree over tokens [lo, hi) of a text (tokens non-empty, inside the text) the report built from its recorded span is never empty and PointsAt the span (label = line of its first token, that line quoted, carets from its first column on) — the hypothesis "the line exists" of `quotation` is discharged',
	'hull_nest': 'under the hull model (span = first..last consumed token, tokens ordered/non-overlapping) a child span lies inside the parent span',
	'hull_siblings': 'under the hull model sibling spans are ordered and do not overlap',
	'hull_chain_sub': 'token order is inherited by every subtree, so nesting/sibling order hold at every depth',
	'restore': 'Nodes.source_map and the printed quotation of the tree restored from the cache equal the fresh ones at every path (corollary of C15)',
	'collector': "the self-hosted collector quotes line bl of source.split('\\n'), carets exactly on the cause token's columns [bc, ec) (to the end of line for a multi-line token), prefixes of equal width",
}


def guard_stream(fn: Any, ctx: Ctx) -> Stream:
	def on_timeout(case: Any) -> Stream:
		st = Stream(fn.__name__.replace('stream_', 'span-'))
		st.disagreements.append({'case': case, 'op': '(budget)', 'real': 'the real code did not finish within the per-case budget', 'model': '-'})
		return st

	def on_error(case: Any, what: str) -> Stream:
		st = Stream(fn.__name__.replace('stream_', 'span-'))
		st.disagreements.append({'case': case, 'op': '(unreadable result)', 'real': f'an observation of the real code could not be taken or encoded: {what}', 'model': '-'})
		return st
	return diskproj.guarded(fn, ctx, on_timeout, on_error)


def guard_search(fn: Any, ctx: Ctx) -> Any:
	def on_timeout(case: Any) -> Any:
		res = SearchResult(f'{fn.__name__}: budget')
		res.findings.append(Finding(key='real-code-exceeds-budget', what=f'{fn.__name__}: the real code did not finish within the per-case budget on {case}', replay={'case': case}))
		return (res, SearchResult(f'{fn.__name__}: budget (quotations)')) if fn.__name__ == 'search_spans' else res

	def on_error(case: Any, what: str) -> Any:
		res = SearchResult(f'{fn.__name__}: unexpected exception')
		res.findings.append(Finding(key=f"oracle-raises:{what.split(':')[0]}", what=f'{fn.__name__}: evaluating the statement on {case} raised {what}', replay={'case': case, 'exception': what}))
		return (res, SearchResult(f'{fn.__name__}: unexpected exception (quotations)')) if fn.__name__ == 'search_spans' else res
	return diskproj.guarded(fn, ctx, on_timeout, on_error)


def run(ctx: Ctx) -> int:
	translate_ok, translate_msg = c15.translate(ctx)
	with ctx.timed('translate'):
		try:
			from translate import gen_grammar_first, gen_quotation_shape
			ctx.generated_tables.extend(gen_grammar_first.generate())
			ctx.generated_tables.extend(gen_quotation_shape.generate())
		except Exception as e:  # noqa: BLE001
			translate_ok, translate_msg = False, f'{translate_msg} {type(e).__name__}: {e}'.strip()
			ctx.notes.append(f'translator failed: {translate_msg}')
			print(f'[{PROP}] translator failed (the tie is broken): {translate_msg}', file=sys.stderr)
	proof = common.prove(ctx, PROP, leanchecker=ctx.thorough)
	with ctx.timed('correspondence'):
		streams = [guard_stream(f, ctx) for f in (stream_nodes, stream_quote, stream_hull, stream_collector)]
	with ctx.timed('search'):
		searches = [*guard_search(search_spans, ctx), guard_search(search_collector, ctx)]
	return common.finish(ctx, proof, streams, searches,
		translate_ok=translate_ok, translate_msg=translate_msg,
		statements=STATEMENTS,
		partial={
			'proved': "tranp's own span handling: span selection, minus-one shift, line loading with tab replacement, caret range (single/multi-line, empty), survival through the cache, the self-hosted collector; nesting/ordering consequences of the hull model",
			'assumed_and_streamed': "only the parser's interface: tokens come left to right; a tree consumes a contiguous token interval, its children sub-intervals in order; the recorded span is (begin of first, end of last) consumed token — all checked by span-hull against lark's actual token stream and metas; nesting/sibling order and the position arithmetic are proved",
			'proved_under_the_same_interface': "the region delimited by a recorded span is the stretch first token … last token and the lexer tokens inside it are exactly the tokens the tree consumed (span_region, span_holds_exactly_own_tokens; ops iregion/itoks of span-hull against lark's start_pos/end_pos and token positions)",
			'search_only': "that the consumed tokens are the subtree's named terminals plus filtered punctuation/keywords only, and that the lexer's tokens are Python's tokens (CPython tokenizer as oracle) — lark's tree construction and lexer are third-party",
		},
		assumptions=[
			"interface of lark's LALR parse with propagate_positions (validated by span-hull on every run): token offsets left to right; a tree consumes a contiguous token interval [lo, hi) incl. filtered tokens, children consume sub-intervals in order; recorded span = (begin of token lo, end of token hi−1); _INDENT/_DEDENT borrow the offsets of the preceding _NEWLINE; every token is non-empty and lies inside the parsed text (op tokswf)",
			'source files are valid UTF-8; only a line feed ends a line (CR is an ordinary character for the parser, the renderer and the model; CPython as oracle is used only for texts without a bare CR); a column is a character index (tabs and wide characters count as one)',
			'ErrorCollector._progress (repr of the token text) is not modelled; of ErrorRender.render the assembly and the quotation are modelled, the stack trace lines (regex over traceback text), the class path and str(node) are inputs',
		],
		trusted=['CPython tokenize as the independent oracle for token boundaries', "lark's LALR parser/contextual lexer/PythonIndenter (third-party)"])


def replay(ctx: Ctx, path: str) -> int:
	with open(path, encoding='utf-8') as f:
		rec = json.load(f)
	print(json.dumps(rec, indent=1, ensure_ascii=False)[:4000])
	ctx2 = Ctx(PROP, rec.get('tier', 'quick'), int(rec.get('seed', 0)))
	return run(ctx2)
