"""C17 — Folding constant expressions gives the value Python gives.

Theorems: lean/Tranp/Props/C17.lean over lean/Tranp/Model/Evaluator.lean, EmitValue.lean, CppLiteral.lean (+ generated lean/Tranp/Generated/EvalOps.lean,
          RelayLiteralize.lean, UnicodeDigits.lean (decimal digits and blanks of int()), PyEscapes.lean (one-character escapes)).
Tie:    stream `evalimpl`  real LiteralEvaluator.exec(node) on the members of generated Enum modules  vs  `execImpl`
        stream `evalpy`    CPython eval() of the same member texts                                     vs  `evalPy`
        (floats: the model computes a TERM over the abstract float operations; the harness interprets every term the model asks
         about with CPython's float operations — the `oracle` lines — so nothing is rounded on the Lean side)
        stream `unescape`  CPython's decoding of the escapes in a literal body                         vs  `decodeEsc`
        stream `cppread`   g++ -std=c++20 -pedantic reading "body" as a narrow string literal            vs  `cppBytes` (Model/CppLiteral.lean),
                           CPython reading 'body', UTF-8 encoded vs `utf8s ∘ decodeEsc`; the harness reader `cpp_read` vs g++
        stream `emitvalue` the text the real Py2Cpp.on_relay inlines for every Enum.Member.value read   vs  `emitValue`
Search: on the real code alone: exec(e) == eval(e) with equal type, or an application error (Errors.*), on the same generator
        including the formerly defective regions (big-int division, triple-quoted / prefixed strings, str() of a string, casts
        with two arguments — repaired in /repo, a mismatch there is a regression) and escaped strings (known finding).
"""
from __future__ import annotations

import json
import math
import operator
import os
import random
import re
import sys
import warnings
from typing import Any

from harness import common
from harness.common import Ctx, Finding, SearchResult, Stream, exc_enum, hx

PROP = 'C17'

# CPython refuses int <-> str conversions beyond 4300 digits by default; the model has no such limit and the harness itself prints
# big ints, so the limit is lifted for the whole process (it applies to the evaluator under test and to the eval() oracle alike).
if hasattr(sys, 'set_int_max_str_digits'):
	sys.set_int_max_str_digits(0)

KNOWN_FUNCS = ['int', 'float', 'str', 'abs', 'len', 'bool']
CHAIN_CLASSES = {'Sum', 'Term', 'ShiftBitwise', 'AndBitwise', 'XorBitwise', 'OrBitwise'}
ALL_REGIONS = frozenset(['triple', 'prefix', 'escape', 'strstr', 'bigint', 'arity', 'upperhex', 'otherfn', 'badref', 'confuse', 'tilde', 'fmt'])
# regions in which the evaluator is known to differ (known findings): none is left. (String tokens with escapes joined as texts were the
# last one — key `escape-merge-concat`, repaired in 05486b1: such joins are refused now; a mismatch there is a regression.)
EXCLUDED_KEYS: dict[str, str] = {}
# special regions a member gets at most ONE of (so that a finding is never attributed to the wrong one); all but `escape` were
# defects that are repaired now (c8f7860, 8fac22f, e338962, b7e37da): a mismatch there is a regression and gets a `mismatch:` key
SPECIAL_FEATURES = {'triple', 'prefix', 'escape', 'strstr', 'arity2', 'bigdiv'}
MALFORMED_REGIONS = {'badref', 'confuse', 'tilde', 'otherfn', 'arity', 'upperhex', 'fmt'}
REGION_FEATURE = {'triple', 'prefix', 'escape', 'strstr', 'arity'}
KEY_PRIORITY: list[str] = []
# a triple-quoted / prefixed string literal as the WHOLE enum value used to take the Literal shortcut of py2cpp.py (tokens[1:-1], no
# evaluator); repaired in 61fd1e4 (it is refused now): a mismatch there is a regression and keeps this key
LONE_LITERAL_KEY = 'output-lone-nonplain-string-literal'
# relay/literalize.j2 prints the content of a str value raw between double quotes: a double quote in the content ends the C++ literal early
OUTPUT_QUOTE_KEY = 'output-unescaped-double-quote'
# … and raw with its PYTHON escapes: C++ reads `\d` (unknown escape), `\x41b` (\x takes every hex digit), `\xe9` / `\351` (one byte, not the
# UTF-8 of U+00E9) and `\?` differently
OUTPUT_ESCAPE_KEY = 'output-python-escape-in-cpp-literal'
PY_ESCAPE_TAG = ' [the Python reading of the escapes would give CPython\'s value]'
UNESCAPED_DQ = re.compile(r'(?<!\\)(?:\\\\)*"')


# ---------------------------------------------------------------------------------------------
# generator: Enum modules whose member values are literal expressions


class Budget(Exception):
	"""A single real-code / oracle evaluation exceeded its time budget."""


def budgeted(seconds: float, fn: Any, *args: Any) -> Any:
	"""Run `fn(*args)` with a wall budget (SIGALRM, main thread): a hanging or very slow case raises Budget instead of stalling the check."""
	import signal

	def on_alarm(signum: int, frame: Any) -> None:
		raise Budget(f'no answer within {seconds:.0f} s')

	old = signal.signal(signal.SIGALRM, on_alarm)
	signal.setitimer(signal.ITIMER_REAL, seconds)
	try:
		return fn(*args)
	finally:
		signal.setitimer(signal.ITIMER_REAL, 0)
		signal.signal(signal.SIGALRM, old)


CASE_BUDGET_S = 30.0   # one module: load, every member twice through the real evaluator (or Py2Cpp), CPython eval of every member


def observe_guarded(ctx: Ctx, fn: Any, c: Any, *args: Any) -> None:
	"""One observation with its budget; whatever goes wrong is recorded on the case (the search turns it into a finding)."""
	try:
		budgeted(CASE_BUDGET_S, fn, *args)
	except Unencodable as e:
		c.error = f'unencodable: {e}'
	except Budget as e:
		c.error = f'observe: timeout ({e})'
	except Exception as e:  # noqa: BLE001 - the real code rejected a generated module: the search reports it
		c.error = f'observe: {exc_enum(e)}'


def past(ctx: Ctx, phase: str, deadline: float, done: int, planned: int) -> bool:
	"""Total wall deadline of a phase: stop generating further cases (recorded in the evidence notes), never hang."""
	import time
	if time.time() < deadline:
		return False
	ctx.notes.append(f'{phase}: wall deadline reached after {done} of {planned} cases; the rest was not generated')
	return True


class Danger(Exception):
	"""The candidate expression would make CPython allocate without bound (huge shift / repetition): regenerate."""


class Member:
	def __init__(self, enum: str, name: str, text: str, val: Any, feats: set[str]) -> None:
		self.enum = enum
		self.name = name
		self.text = text
		self.val = val  # CPython value, or an exception instance, as the generator computed it (used for steering only)
		self.feats = feats

	@property
	def key(self) -> str:
		return f'{self.enum}.{self.name}'


def _is_exc(v: Any) -> bool:
	return isinstance(v, BaseException)


def _kind(v: Any) -> str:
	if _is_exc(v):
		return 'exc'
	return {int: 'int', float: 'float', str: 'str'}.get(type(v), 'other')


OPS = {
	'+': operator.add, '-': operator.sub, '*': operator.mul, '/': operator.truediv, '%': operator.mod,
	'|': operator.or_, '^': operator.xor, '&': operator.and_, '<<': operator.lshift, '>>': operator.rshift,
}
LEVELS = [('or', ['|']), ('xor', ['^']), ('and', ['&']), ('shift', ['<<', '>>']), ('sum', ['+', '-']), ('term', ['*', '/', '%'])]


class Gen:
	"""Grammar-directed generator (levels of data/grammar.lark: or_expr > xor_expr > and_expr > shift_expr > sum > term > factor > primary)."""

	def __init__(self, rng: random.Random, regions: frozenset[str], max_depth: int, boost: float = 1.0) -> None:
		self.rng = rng
		self.regions = regions
		self.boost = boost  # > 1: the malformed stream (type confusion, bad references, ~, other calls, odd arities, 0X)
		self.max_depth = max_depth
		self.feats: set[str] = set()
		self.same: list[Member] = []      # earlier members of the enum being generated
		self.other: list[Member] = []     # members of earlier enums
		self.enum = ''
		self.later_names: list[str] = []  # names of members still to come (forward references)
		self.kinds = ['int', 'int', 'int', 'float', 'float', 'str', 'str']  # kinds a member is drawn from

	def on(self, region: str, p: float) -> bool:
		if region in REGION_FEATURE and self.excluded():
			# at most ONE special region per member (and its references), so that a finding can be keyed by it
			return False
		if region in MALFORMED_REGIONS:
			p = min(1.0, p * self.boost)
		return region in self.regions and self.rng.random() < p

	def excluded(self) -> set[str]:
		return self.feats & SPECIAL_FEATURES

	# -- value steering ---------------------------------------------------------------------

	def apply(self, op: str, a: Any, b: Any) -> Any:
		if _is_exc(a):
			return a
		if _is_exc(b):
			return b
		if op == '<<' and type(a) is int and type(b) is int and b > 160:
			raise Danger()
		if op == '*':
			if type(a) is int and type(b) is int and a.bit_length() + b.bit_length() > 5000:
				raise Danger()
			if (type(a) is str and type(b) is int and b > 24) or (type(b) is str and type(a) is int and a > 24):
				raise Danger()
		if op == '%' and type(a) is str:
			self.feats.add('fmt')
		if op == '/' and type(a) is int and type(b) is int and b != 0:
			try:
				naive: Any = float(a) / float(b)
			except OverflowError:
				naive = 'overflow'
			try:
				true: Any = a / b
			except OverflowError:
				true = 'overflow'
			if naive != true:
				self.feats.add('bigdiv')
		try:
			return OPS[op](a, b)
		except Exception as e:  # noqa: BLE001 - steering only
			return e

	# -- literals ---------------------------------------------------------------------------

	def lit_int(self) -> tuple[str, Any]:
		r = self.rng.random()
		if r < 0.45:
			n = self.rng.randint(0, 20)
		elif r < 0.7:
			n = self.rng.randint(0, 70000)
		elif r < 0.8:
			n = self.rng.choice([2 ** 31, 2 ** 32 - 1, 2 ** 53, 2 ** 53 + 1, 2 ** 63, 2 ** 64 - 1])
		elif 'bigint' in self.regions and r < 0.97:
			n = self.rng.randint(2 ** 53, 2 ** 70)
		elif 'bigint' in self.regions:
			n = self.rng.choice([2 ** 1023, 2 ** 1024 - 2 ** 970, 2 ** 1024 - 2 ** 970 - 1, 2 ** 1024, 10 ** 320])
		else:
			n = self.rng.randint(0, 300)
		f = self.rng.random()
		if f < 0.15:
			text = hex(n)
			if self.rng.random() < 0.4:
				text = '0x' + text[2:].upper()
			if self.on('upperhex', 0.3):
				text = '0X' + text[2:]
		elif f < 0.22 and n >= 1000:
			text = f'{n:_}'
		else:
			text = str(n)
		return text, n

	def lit_float(self) -> tuple[str, Any]:
		r = self.rng.random()
		if r < 0.5:
			text = f'{self.rng.randint(0, 99)}.{self.rng.choice(["0", "5", "25", "1", "75", "125", "3"])}'
		elif r < 0.62:
			text = self.rng.choice(['.5', '1.', '0.0', '.25', '2.', '10.'])
		elif r < 0.8:
			text = f'{self.rng.randint(1, 9)}{self.rng.choice(["e", "E"])}{self.rng.choice(["", "+", "-"])}{self.rng.randint(0, 12)}'
		elif r < 0.9:
			text = f'{self.rng.randint(1, 9)}.{self.rng.randint(0, 99)}e{self.rng.choice(["", "-"])}{self.rng.randint(0, 30)}'
		elif r < 0.95:
			text = self.rng.choice(['1_0.5', '1_000.25', '1e308', '1.7976931348623157e308', '5e-324', '1e-400', '1e400', '9007199254740993.0'])
		else:
			text = self.rng.choice(['0.1', '0.2', '0.3', '1.1', '2.2', '3.3'])
		return text, float(text.replace('_', ''))

	STR_BODIES = ['a', 'b', 'abc', '', 'x y', '12', '7', '1.5', ' 42 ', '-3', '+4', '1_0', '0x1f', 'nan', 'inf', '1e3', 'A-b', 'ab' * 3, '0', '.', 'é', '1 2']

	def boundary_str(self) -> tuple[str, Any]:
		# A string token whose body has length 0, 1 or 2, in every quoting form the evaluator has to tell apart: single and double quotes,
		# both triple-quoted forms, and the prefixed spellings of each (r R u f b rb Rb ...). The empty triple-quoted token (six quote
		# characters) looks like a plain token with four quotes inside; a one-character body may be the OTHER quote character.
		rng = self.rng
		q = rng.choice(["'", '"'])
		other = '"' if q == "'" else "'"
		body = rng.choice(['', '', '', 'a', '7', ' ', other, '-', 'ab', 'a' + other, other + 'a', '1_', '0'])
		form = rng.choice(['plain', 'plain', 'triple', 'triple', 'prefix', 'prefix-triple'])
		if form in ('triple', 'prefix-triple') and body.endswith(q):
			body = body[:-1]
		prefix = ''
		if form.startswith('prefix'):
			if self.on('prefix', 1.0):
				self.feats.add('prefix')
				prefix = rng.choice(['r', 'R', 'u', 'U', 'f', 'F', 'b', 'B', 'rb', 'Rb', 'br', 'rf', 'fr'])
			form = 'triple' if form == 'prefix-triple' else 'plain'
		if form == 'triple' and not prefix:
			if self.on('triple', 1.0):
				self.feats.add('triple')
			else:
				form = 'plain'
		qq = q * 3 if form == 'triple' else q
		text = f'{prefix}{qq}{body}{qq}'
		try:
			with warnings.catch_warnings():
				warnings.simplefilter('ignore')
				return text, eval(text, {'__builtins__': {}})  # noqa: S307 - steering value of a generated literal
		except Exception as e:  # noqa: BLE001 - e.g. an f-string body CPython rejects
			return text, e

	def lit_str(self) -> tuple[str, Any]:
		if self.rng.random() < 0.18:
			return self.boundary_str()
		body = self.rng.choice(self.STR_BODIES)
		q = self.rng.choice(["'", '"'])
		if self.rng.random() < 0.1:
			body += "'" if q == '"' else '"'
		if self.on('triple', 0.12):
			self.feats.add('triple')
			if self.rng.random() < 0.3:
				body = body + self.rng.choice(["it's", 'say "x"', "''"]).replace(q * 3, '')
				if body.endswith(q):
					body += '.'
			return f'{q * 3}{body}{q * 3}', body
		if self.on('prefix', 0.08):
			self.feats.add('prefix')
			p = self.rng.choice(['r', 'R', 'u', 'f', 'rf'])
			text = f'{p}{q}{body}{q}'
			try:
				return text, eval(text, {'__builtins__': {}})  # steering value only
			except Exception as e:  # noqa: BLE001
				return text, e
		if self.on('escape', 0.1):
			self.feats.add('escape')
			esc = self.rng.choice(['\\n', '\\t', '\\\\', '\\1', '\\0', '\\x41', '\\' + q, '\\12', '\\u00e9', '\\u4E2d', '\\U0001f600', '\\u0037', '\\xe9', '\\d', '\\?', '\\x41', '\\351'])
			parts = [body[:1], esc, body[1:]] if self.rng.random() < 0.5 else [body, esc]
			text = f"{q}{''.join(parts)}{q}"
			with warnings.catch_warnings():
				warnings.simplefilter('ignore')  # an unknown escape (`\\d`) is a SyntaxWarning
				return text, eval(text, {'__builtins__': {}})
		return f'{q}{body}{q}', body

	# -- references -------------------------------------------------------------------------

	def ref(self, kind: str) -> tuple[str, Any] | None:
		cands: list[tuple[str, Member]] = [(m.name, m) for m in self.same if _kind(m.val) == kind]
		cands += [(f'{m.enum}.{m.name}.value', m) for m in self.other if _kind(m.val) == kind]
		if self.on('badref', 0.04):
			r = self.rng.random()
			if r < 0.35 and self.later_names:
				return self.rng.choice(self.later_names), NameError('forward')
			if r < 0.6 and self.other:
				return f'{self.other[0].enum}.ZZ.value', NameError('member')
			if r < 0.8:
				return 'E99.M0.value', NameError('enum')
			if r < 0.9:
				return 'QQ', NameError('bare')
			errs = [(m.name, m) for m in self.same if _is_exc(m.val)] + [(f'{m.enum}.{m.name}.value', m) for m in self.other if _is_exc(m.val)]
			errs = [(t, m) for t, m in errs if len((self.feats | m.feats) & SPECIAL_FEATURES) <= 1]
			if errs:
				t, m = self.rng.choice(errs)
				self.feats |= m.feats
				return t, m.val
		cands = [(t, m) for t, m in cands if len((self.feats | m.feats) & SPECIAL_FEATURES) <= 1]
		if not cands:
			return None
		t, m = self.rng.choice(cands)
		self.feats |= m.feats
		return t, m.val

	# -- grammar ----------------------------------------------------------------------------

	def literal(self, kind: str) -> tuple[str, Any]:
		return {'int': self.lit_int, 'float': self.lit_float, 'str': self.lit_str}[kind]()

	def cast(self, kind: str, d: int) -> tuple[str, Any]:
		rng = self.rng
		if self.on('arity', 0.04):
			r = rng.random()
			if r < 0.3:
				return f'{kind}()', {'int': 0, 'float': 0.0, 'str': ''}[kind]
			if kind == 'int':
				base = rng.choice([16, 16, 10])
				body = rng.choice(['12', 'ff', '1f', '0x1f', '7', '10'])
				self.feats.add('arity2')
				try:
					return f"int('{body}', {base})", int(body, base)
				except ValueError as e:
					return f"int('{body}', {base})", e
		if kind == 'int':
			ak = rng.choice(['str', 'float', 'int', 'float'])
		elif kind == 'float':
			ak = rng.choice(['str', 'int', 'float', 'int'])
		else:
			ak = rng.choice(['int', 'float', 'int', 'float', 'str'] if 'strstr' in self.regions and not self.excluded() else ['int', 'float'])
		if ak == 'str' and kind != 'str' and rng.random() < 0.7:
			# a string literal as cast argument: every spelling class of Python's int(str) / float(str)
			body = self.cast_body(kind)
			q = rng.choice(["'", '"'])
			at = f'{q}{body}{q}'
			if '\\' in body:
				if self.excluded():
					body = body.replace('\\t', ' ')
					at = f'{q}{body}{q}'
				else:
					self.feats.add('escape')
			av = eval(at, {'__builtins__': {}})  # noqa: S307 - steering value of a generated literal
		else:
			at, av = self.level(ak, 0, d - 1)
		if _is_exc(av):
			return f'{kind}({at})', av
		if kind == 'str' and type(av) is str:
			self.feats.add('strstr')
		try:
			val: Any = {'int': int, 'float': float, 'str': str}[kind](av)
		except Exception as e:  # noqa: BLE001
			val = e
		return f'{kind}({at})', val

	def cast_body(self, kind: str) -> str:
		"""Body of a string literal handed to int() / float(): small and > 2**53 digit strings (sign, blanks, single underscores, leading
		zeros as int() accepts them), float-looking text under int() (CPython: ValueError), int-looking and special text under float(),
		and text neither accepts."""
		rng = self.rng
		if rng.random() < 0.15:
			self.feats.add('unidigit')
			return self.unicode_body(kind)
		r = rng.random()
		if r < 0.25:
			digits = str(rng.randint(0, 70000))
		elif r < 0.6:
			n = rng.choice([2 ** 53 + 1, 10 ** 17 + 1, 2 ** 64 - 1, 2 ** 64 + 1, 18014398509481985, 2 ** 53 + 3, rng.randint(2 ** 53, 2 ** 80) | 1, rng.randint(2 ** 53, 2 ** 64) | 1, 10 ** 22 + 1])
			digits = str(n)
		elif r < 0.8:
			return rng.choice(['2.7', '1e3', '1.0', '.5', '1_0.5', 'inf', 'nan', '-inf', '+inf', 'Infinity', ' 2.5 ', '1e400', '-0.0', '9007199254740993.0', '1E2', '12.'])
		elif r < 0.9:
			return rng.choice(['', 'abc', '1__0', '_1', '1_', '0x1f', '1 2', '+-3', '- 3', '1e', '.', '--1', '0b11', '1,5'])
		else:
			digits = rng.choice(['007', '0', '00', '0_0', '000123'])
		if rng.random() < 0.3 and len(digits) > 3:
			k = rng.randint(1, len(digits) - 1)
			digits = digits[:k] + '_' + digits[k:]
		sign = rng.choice(['', '', '', '-', '-', '+'])
		pad_l, pad_r = rng.choice([('', ''), ('', ''), ('', ''), (' ', ''), ('', ' '), ('  ', ' '), ('\\t', ' '),
			# what int()/float() strip beyond ASCII blanks, and what only str.isspace()/nothing counts as blank (ValueError)
			('\x0b', '\x0c'), ('\x85', '\xa0'), ('\u2003', '\u3000'), ('\u2028', '\u205f'), ('\x1c', ''), ('', '\x1f'), ('\u200b', ''), ('\ufeff', ' ')])
		return f'{pad_l}{sign}{digits}{pad_r}'

	def unicode_body(self, kind: str) -> str:
		"""Digits beyond ASCII: int()/float() read every Unicode decimal digit (category Nd, any script, scripts may be mixed) and reject
		the other numeric characters (superscripts, Ethiopic / Roman / CJK numerals, fractions: ValueError)."""
		rng = self.rng
		zeros = unicode_zeros()
		n = rng.choice([rng.randint(0, 99), rng.randint(0, 70000), rng.randint(2 ** 53, 2 ** 64) | 1])
		z = rng.choice(zeros)
		mode = rng.random()  # one script / mixed scripts / mixed with ASCII
		out = []
		for d in str(n):
			if mode < 0.4:
				out.append(chr(z + int(d)))
			elif mode < 0.7:
				out.append(chr(rng.choice(zeros) + int(d)))
			else:
				out.append(chr(z + int(d)) if rng.random() < 0.5 else d)
		if len(out) > 2 and rng.random() < 0.25:
			k = rng.randint(1, len(out) - 1)
			out.insert(k, '_')
		if kind == 'float' and rng.random() < 0.5:
			out.insert(rng.randint(0, len(out)), '.')
		if rng.random() < 0.2:
			out.insert(rng.randint(0, len(out)), rng.choice(['\xb2', '\u1369', '\u2167', '\xbd', '\u3007', '\u4e00', '\u2460', '\u0bf0', '\u3021']))
		sign = rng.choice(['', '', '-', '+'])
		pad_l, pad_r = rng.choice([('', ''), ('', ''), (' ', ''), ('\u2003', '\u3000'), ('', '\xa0')])
		return f'{pad_l}{sign}{"".join(out)}{pad_r}'

	def primary(self, kind: str, d: int) -> tuple[str, Any]:
		rng = self.rng
		r = rng.random()
		if d > 0:
			if r < 0.18:
				t, v = self.level(kind, 0, d - 1)
				return f'({t})', v
			if r < 0.36:
				return self.cast(kind, d)
			if r < 0.39 and self.on('otherfn', 1.0):
				fn = rng.choice(['abs', 'len', 'bool', 'foo'])
				t, v = self.level(kind, 0, d - 1)
				return f'{fn}({t})', TypeError('otherfn')
		if r < 0.6:
			got = self.ref(kind)
			if got is not None:
				return got
		return self.literal(kind)

	def factor(self, kind: str, d: int) -> tuple[str, Any]:
		rng = self.rng
		if kind != 'str' and rng.random() < 0.2:
			op = rng.choice(['-', '-', '-', '+'])
			if self.on('tilde', 0.1):
				op = '~'
			t, v = self.factor(kind, d)
			sep = ' ' if rng.random() < 0.2 else ''
			if _is_exc(v):
				return f'{op}{sep}{t}', v
			try:
				val: Any = {'-': operator.neg, '+': operator.pos, '~': operator.invert}[op](v)
			except Exception as e:  # noqa: BLE001
				val = e
			return f'{op}{sep}{t}', val
		return self.primary(kind, d)

	def level(self, kind: str, lvl: int, d: int) -> tuple[str, Any]:
		"""An expression of grammar level `lvl` (index into LEVELS; len(LEVELS) = factor)."""
		if lvl >= len(LEVELS):
			return self.factor(kind, d)
		rng = self.rng
		name, ops = LEVELS[lvl]
		usable = d > 0 and (
			(kind == 'int') or (kind == 'float' and name in ('sum', 'term')) or (kind == 'str' and name in ('sum', 'term')))
		if usable and kind == 'float' and rng.random() < 0.14:
			return self.sensitive_chain(name)
		if usable and kind == 'str' and name == 'sum' and rng.random() < 0.12 and self.on('escape', 1.0):
			return self.escape_join_chain()
		n = 1
		if usable:
			p = {'or': 0.12, 'xor': 0.12, 'and': 0.12, 'shift': 0.15, 'sum': 0.45, 'term': 0.35}[name]
			if kind == 'str':
				p = 0.5 if name == 'sum' else 0.04
			if rng.random() < p:
				n = rng.choice([2, 2, 2, 3, 3, 4])
		if n == 1:
			return self.level(kind, lvl + 1, d)
		# operand kinds
		texts: list[str] = []
		vals: list[Any] = []
		chosen_ops: list[str] = []
		for i in range(n):
			ok = kind
			if kind == 'float' and rng.random() < 0.45:
				ok = 'int'
			if kind == 'str' and name == 'term':
				ok = 'str' if i == 0 else 'int'
			if self.on('confuse', 0.03):
				ok = rng.choice(['int', 'float', 'str'])
			t, v = self.level(ok, lvl + 1, d - 1)
			texts.append(t)
			vals.append(v)
			if i > 0:
				if kind == 'str' and name == 'sum':
					op = '+'
				elif kind == 'str':
					op = '*' if not self.on('fmt', 0.2) else '%'
				elif kind == 'int' and name == 'term':
					op = rng.choice(['*', '*', '%', '%', '/'] if rng.random() < 0.08 else ['*', '*', '%'])
				elif kind == 'float' and name == 'term':
					op = rng.choice(['*', '/', '%', '%'])
				else:
					op = rng.choice(ops)
				chosen_ops.append(op)
		if kind == 'str' and name == 'term':
			# small repeat counts only
			texts[1:] = [str(rng.randint(0, 3)) for _ in texts[1:]]
			vals[1:] = [int(t) for t in texts[1:]]
		if name == 'shift' and kind == 'int':
			# shift counts: small literals most of the time (the rest is checked by `apply`)
			for i in range(1, n):
				# a count whose value the generator cannot foresee (forward reference, raising operand) is never left in place:
				# the real evaluator follows forward references and would build an integer of that many bits
				if rng.random() < 0.8 or type(vals[i]) is not int:
					c = rng.randint(0, 70) if rng.random() < 0.93 else -rng.randint(1, 3)
					texts[i] = str(c) if c >= 0 else f'-{-c}'
					vals[i] = c
		acc = vals[0]
		out = texts[0]
		for op, t, v in zip(chosen_ops, texts[1:], vals[1:]):
			acc = self.apply(op, acc, v)
			sp = rng.choice([' ', ' ', ''])
			if sp == '' and (t.startswith(('-', '+', '~')) or op in ('<<', '>>')):
				sp = ' '
			out = f'{out}{sp}{op}{sp}{t}'
		return out, acc

	# float literals whose sums / products round differently under another order, another grouping or a compensated algorithm
	SENS_SUM = ['0.1', '0.2', '0.3', '0.7', '1.1', '2.2', '3.3', '1e16', '1.0', '1e-16', '1e100', '-1e100', '-1e16', '0.1', '0.2', '1', '2']
	SENS_MUL = ['0.1', '0.2', '0.3', '0.7', '3.0', '10.0', '1e308', '1e-308', '1e200', '1e-200', '1.1', '3', '7']

	def sensitive_chain(self, name: str) -> tuple[str, Any]:
		"""A flat chain of 3-6 float (and a few int) literals on ONE level whose exact left-to-right IEEE result differs from what a
		re-associated, reordered or compensated evaluation gives (`0.1 + 0.2 + 0.3`, `1e16 + 1.0 + 1.0`, `1e100 + 1.0 + -1e100`,
		`0.1 * 3.0 * 1e308`): all `+` / all `*` most of the time, mixed with `-` / `/` otherwise."""
		rng = self.rng
		n = rng.choice([3, 3, 4, 5, 6])
		if name == 'sum':
			texts = rng.choices(self.SENS_SUM, k=n)
			ops = ['+'] * (n - 1) if rng.random() < 0.6 else [rng.choice(['+', '-']) for _ in range(n - 1)]
		else:
			texts = rng.choices(self.SENS_MUL, k=n)
			ops = ['*'] * (n - 1) if rng.random() < 0.7 else [rng.choice(['*', '*', '/']) for _ in range(n - 1)]
		if not any(('.' in t or 'e' in t) for t in texts):
			texts[0] = '0.1'
		acc: Any = eval(texts[0], {'__builtins__': {}})  # noqa: S307 - a number literal of the tables above
		out = texts[0]
		for op, t in zip(ops, texts[1:]):
			acc = self.apply(op, acc, eval(t, {'__builtins__': {}}))  # noqa: S307
			shown = f'({t})' if t.startswith('-') and rng.random() < 0.5 else t
			out = f'{out} {op} {shown}'
		return out, acc

	def escape_join_chain(self) -> tuple[str, Any]:
		"""A `+` chain of 2-3 string tokens whose JOIN sits at the boundary of an escape sequence: the (accumulated) left text ends in an
		escape of every length of its form — octal with one, two, three digits, `\\xhh`, `\\uhhhh`, a one-character escape, an escaped backslash
		(even / odd runs of backslashes before the digits) — and the right text starts with a character that would continue it (octal
		digit, 8 / 9, hexadecimal letter). All tokens are valid Python; CPython decodes each token on its own."""
		rng = self.rng
		self.feats.add('escape')
		form = rng.choice(['oct1', 'oct2', 'oct2', 'oct3', 'hex', 'u', 'simple', 'bs'])
		if form.startswith('oct'):
			k = int(form[3])
			digits = ''.join(rng.choice('01234567') for _ in range(k))
			if k == 3:
				digits = rng.choice('0123') + digits[1:]
			tail = '\\' + digits
		elif form == 'hex':
			tail = '\\x' + rng.choice(['41', '4', '0']) .ljust(2, rng.choice('0123456789abcdef'))
		elif form == 'u':
			tail = '\\u00' + rng.choice(['e9', '41', '37'])
		elif form == 'simple':
			tail = '\\' + rng.choice('ntrabfv0')
		else:
			tail = '\\\\' + rng.choice(['', '1', '12', '7'])           # an escaped backslash, then plain digits
		lead = rng.choice(['', '', 'x', 'a', '\\\\', '\\\\\\\\', ' '])  # nothing, text, one or two ESCAPED backslashes before the escape
		head = rng.choice(['0', '1', '3', '7', '7', '8', '9', 'a', 'F', 'x', 'n', ''])
		rest = rng.choice(['', '', 'y', '0', ' z'])
		qs = [rng.choice(["'", '"']) for _ in range(3)]
		parts = [f'{qs[0]}{lead}{tail}{qs[0]}', f'{qs[1]}{head}{rest}{qs[1]}']
		r = rng.random()
		if r < 0.3:
			parts.insert(0, f"{qs[2]}{rng.choice(['a', '', 'q '])}{qs[2]}")           # 'a' + '\01' + '0': the accumulated left text ends in the escape
		elif r < 0.45:
			parts.append(f"{qs[2]}{rng.choice(['7', 'b', ''])}{qs[2]}")
		text = ' + '.join(parts)
		with warnings.catch_warnings():
			warnings.simplefilter('ignore')
			try:
				return text, eval(text, {'__builtins__': {}})  # noqa: S307 - generated string literals
			except Exception as e:  # noqa: BLE001
				return text, e

	def member_expr(self) -> tuple[str, Any, set[str]]:
		for _ in range(40):
			self.feats = set()
			kind = self.rng.choice(self.kinds)
			d = self.rng.randint(0, self.max_depth)
			try:
				t, v = self.level(kind, 0, d)
			except Danger:
				continue
			if len(t) > 400 or len(self.excluded()) > 1:
				continue
			return t, v, set(self.feats)
		return '1', 1, set()


_ZEROS: list[int] = []


def unicode_zeros() -> list[int]:
	"""Code points of the zeros of all Unicode decimal-digit blocks of this interpreter's unicodedata (what the translator tabulates)."""
	if not _ZEROS:
		import unicodedata
		_ZEROS.extend(c for c in range(0x110000) if unicodedata.category(chr(c)) == 'Nd' and unicodedata.decimal(chr(c)) == 0)
	return _ZEROS


# member names that are proper suffixes / prefixes / substrings of each other: a lookup by anything but the exact name finds a sibling
NAME_FAMILIES = [['A', 'BA', 'CBA', 'AB', 'ABC', 'B', 'CB'], ['X', 'X1', 'X10', 'X0', 'AX', 'X_1', 'XX'], ['B', 'SUB', 'UB', 'U', 'S', 'SU', 'BB'],
	['M', 'M1', 'M11', 'MM', 'M_', 'xM', 'M1M'], ['N', 'NN', 'N1', 'ON', 'NO', 'ONE', 'N_1']]


def member_names(rng: random.Random, n: int) -> list[str]:
	"""`M0 … Mk` most of the time; otherwise names of one family in a random declaration order (so that a name is a proper suffix / prefix
	of EARLIER and of later siblings), topped up with `Wi`."""
	if rng.random() < 0.6:
		return [f'M{i}' for i in range(n)]
	fam = list(rng.choice(NAME_FAMILIES))
	rng.shuffle(fam)
	names = fam[:n]
	names += [f'W{i}' for i in range(n - len(names))]  # distinct from every family name
	assert len(set(names)) == len(names)
	rng.shuffle(names)
	return names


def gen_module(rng: random.Random, regions: frozenset[str], max_depth: int, n_enums: int, n_members: int, boost: float = 1.0,
		homogeneous: bool = False) -> list[list[Member]]:
	"""`homogeneous`: every enum is all-numeric or all-string (tranp types `Enum.X.value` by the enum's first member)."""
	g = Gen(rng, regions, max_depth, boost)
	enum_names = [f'E{ei}' for ei in range(n_enums)]
	if rng.random() < 0.3:
		# enum names that are suffixes / prefixes of each other (`E`, `BE`, `CBE`, `E1`), in any declaration order
		enum_names = rng.sample(['E', 'BE', 'CBE', 'E1', 'E10', 'EB', 'SubE'], n_enums)
	enums: list[list[Member]] = []
	for ei in range(n_enums):
		g.enum = enum_names[ei]
		if homogeneous:
			g.kinds = ['str'] if rng.random() < 0.3 else ['int', 'int', 'float']
		g.same = []
		names = member_names(rng, rng.randint(max(2, n_members - 3), n_members))
		for i, name in enumerate(names):
			g.later_names = names[i + 1:]
			t, v, feats = g.member_expr()
			g.same.append(Member(g.enum, name, t, v, feats))
		enums.append(g.same)
		g.other = g.other + g.same
	return enums


def module_source(enums: list[list[Member]]) -> str:
	out = ['from enum import Enum', '']
	for ms in enums:
		out.append(f'class {ms[0].enum}(Enum):')
		out.extend(f'\t{m.name} = {m.text}' for m in ms)
		out.append('')
	return '\n'.join(out)


# ---------------------------------------------------------------------------------------------
# observations


def show_value(v: Any, unquote: bool = False) -> str:
	if type(v) is int:
		return f'int {v}'
	if type(v) is float:
		return f'float {"nan" if math.isnan(v) else v.hex()}'
	if type(v) is str:
		return f'str {hx(v)}'
	return f'other {type(v).__name__}'


def show_error(e: BaseException) -> str:
	from rogw.tranp.errors import Errors
	if isinstance(e, Errors.Fatal):
		inner = e.args[2] if len(e.args) > 2 and isinstance(e.args[2], BaseException) else None
		return f'Errors.Fatal:{type(inner).__name__ if inner is not None else "?"}'
	return exc_enum(e)


def real_result(evaluator: Any, node: Any) -> str:
	try:
		return show_value(evaluator.exec(node))
	except Exception as e:  # noqa: BLE001
		return show_error(e)


class RecordingReflections:
	"""The evaluator's collaborator, observed: forwards to the real Reflections and records what `type_of` raised per node.
	(The evaluator asks it before following a reference — evaluator.py:161, 172 — and static type inference is not C17's subject:
	the outcome is an input of the model, attached to the reference node.)"""

	def __init__(self, inner: Any) -> None:
		self._inner = inner
		self.outcomes: dict[str, set[str]] = {}
		self.results: dict[str, Any] = {}        # node path -> the symbol type_of answered last
		self.log: list[tuple[str, str]] = []     # (node path, outcome) in call order

	def type_of(self, node: Any) -> Any:
		from rogw.tranp.errors import Errors
		try:
			r = self._inner.type_of(node)
		except Errors.Error as e:
			self.outcomes.setdefault(node.full_path, set()).add(show_error(e).replace('Errors.Fatal:', 'Errors.Fatal.'))
			self.log.append((node.full_path, show_error(e).replace('Errors.Fatal:', 'Errors.Fatal.')))
			raise
		except Exception as e:  # noqa: BLE001 - reaches the caller as Errors.Fatal (procedure.py:180)
			self.outcomes.setdefault(node.full_path, set()).add(f'Errors.Fatal.{type(e).__name__}')
			self.log.append((node.full_path, f'Errors.Fatal.{type(e).__name__}'))
			raise
		self.outcomes.setdefault(node.full_path, set()).add('-')
		self.results[node.full_path] = r
		self.log.append((node.full_path, '-'))
		return r

	def __getattr__(self, name: str) -> Any:
		return getattr(self._inner, name)


class _Raiser:
	def __init__(self, results: dict[str, Any], enum: str) -> None:
		self._results = results
		self._enum = enum

	def __getitem__(self, name: str) -> Any:
		key = f'{self._enum}.{name}'
		if key not in self._results:
			raise KeyError(name)
		r = self._results[key]
		if _is_exc(r):
			raise type(r)('re-raised: the member this name refers to did not evaluate')
		return r

	def keys(self) -> list[str]:  # mapping protocol
		return []


class _EnumView:
	"""`E0.M1.value` for the members of an earlier enum (a member whose evaluation raised re-raises when it is read)."""

	def __init__(self, results: dict[str, Any], enum: str) -> None:
		self._results = results
		self._enum = enum

	def __getattr__(self, name: str) -> Any:
		key = f'{self._enum}.{name}'
		if key not in self._results:
			raise AttributeError(name)
		return _MemberView(self._results[key])


class _MemberView:
	def __init__(self, r: Any) -> None:
		self._r = r

	@property
	def value(self) -> Any:
		if _is_exc(self._r):
			raise type(self._r)('re-raised')
		return self._r


PY_EXC = {'AttributeError': 'NameError', 'KeyError': 'NameError'}


def python_results(enums: list[list[Member]]) -> dict[str, Any]:
	"""CPython's value of every member text, evaluated top to bottom with the names bound so far (value or exception instance)."""
	builtins = {'int': int, 'float': float, 'str': str, 'abs': abs, 'len': len, 'bool': bool}
	results: dict[str, Any] = {}
	done: list[str] = []
	for ms in enums:
		enum = ms[0].enum
		glob: dict[str, Any] = {'__builtins__': builtins}
		for e in done:
			glob[e] = _EnumView(results, e)
		for m in ms:
			try:
				with warnings.catch_warnings():
					warnings.simplefilter('ignore')  # an unknown escape (`\\d`) still compiles, with a SyntaxWarning on stderr
					results[m.key] = eval(compile(m.text, '<member>', 'eval'), glob, _Raiser(dict(results), enum))  # noqa: S307 - generated literal expressions only
			except BaseException as e:  # noqa: BLE001
				results[m.key] = e
		done.append(enum)
	return results


def show_py(r: Any) -> str:
	if _is_exc(r):
		n = type(r).__name__
		return PY_EXC.get(n, n)
	return show_value(r)


# ---------------------------------------------------------------------------------------------
# node tree -> expression encoding of the Lean driver


class Unencodable(Exception):
	pass


def encode(node: Any, enum: str, own_names: set[str], outcomes: dict[str, set[str]]) -> str:
	import rogw.tranp.syntax.node.definition as defs
	out: list[str] = []

	def ty(site: Any) -> str:
		got = outcomes.get(site.full_path, {'-'})
		if len(got) != 1:
			raise Unencodable(f'type_of gave different outcomes at one node: {sorted(got)}')
		return next(iter(got))

	def go(n: Any) -> None:
		cls = type(n).__name__
		if isinstance(n, defs.Integer):
			out.append(f'i:{hx(n.tokens)}')
		elif isinstance(n, defs.Float):
			out.append(f'f:{hx(n.tokens)}')
		elif isinstance(n, defs.String):
			out.append(f's:{hx(n.tokens)}')
		elif isinstance(n, defs.Factor):
			out.extend(['(', 'factor', hx(n.operator.tokens)])
			go(n.value)
			out.append(')')
		elif cls in CHAIN_CLASSES:
			els = n.elements
			if len(els) % 2 != 1:
				raise Unencodable(f'{cls} with {len(els)} elements')
			out.extend(['(', 'chain', hx(f'on_{n.classification}')])
			go(els[0])
			for i in range(1, len(els), 2):
				out.append(hx(els[i].tokens))
				go(els[i + 1])
			out.append(')')
		elif isinstance(n, defs.Group):
			out.extend(['(', 'group'])
			go(n.expression)
			out.append(')')
		elif isinstance(n, defs.FuncCall):
			if not isinstance(n.calls, defs.Var):
				raise Unencodable('call of a non-name')
			out.extend(['(', 'call', hx(n.calls.tokens)])
			for a in n.arguments:
				if not isinstance(a.label, defs.Empty):
					raise Unencodable('keyword argument')
				go(a.value)
			out.append(')')
		elif isinstance(n, defs.Relay):
			r = n.receiver
			if n.prop.tokens == 'value' and isinstance(r, defs.Relay) and isinstance(r.receiver, defs.Var):
				e = r.receiver.tokens
				out.append(f'r:{hx(e)}:{hx(f"{e}.{r.prop.tokens}")}:{ty(r)}')
			else:
				raise Unencodable('relay other than Enum.Member.value')
		elif isinstance(n, defs.Var):
			t = n.tokens
			out.append(f'v:{hx(f"{enum}.{t}" if t in own_names else t)}:{ty(n)}')
		else:
			raise Unencodable(cls)

	go(node)
	return ' '.join(out)


# ---------------------------------------------------------------------------------------------
# the float interpretation the Lean terms are read in (CPython's own floats)


def eval_term(t: str) -> float:
	"""P<hex> | I<int> | A(a,b) S M D R | N(a) | T(<int>,<int>)  — evaluated with CPython float operations; raises what CPython raises."""
	pos = 0

	def parse() -> float:
		nonlocal pos
		c = t[pos]
		pos += 1
		if c == 'P':
			m = re.compile(r'-|[0-9a-f]+').match(t, pos)
			assert m is not None
			pos = m.end()
			return float(common.unhx(m.group(0)))
		if c == 'I':
			m = re.compile(r'-?\d+').match(t, pos)
			assert m is not None
			pos = m.end()
			return float(int(m.group(0)))
		if c == 'T':
			m = re.compile(r'\((-?\d+),(-?\d+)\)').match(t, pos)
			assert m is not None
			pos = m.end()
			return int(m.group(1)) / int(m.group(2))
		if c == 'N':
			assert t[pos] == '('
			pos += 1
			a = parse()
			assert t[pos] == ')'
			pos += 1
			return -a
		assert c in 'ASMDR' and t[pos] == '(', t
		pos += 1
		a = parse()
		assert t[pos] == ','
		pos += 1
		b = parse()
		assert t[pos] == ')'
		pos += 1
		if c == 'A':
			return a + b
		if c == 'S':
			return a - b
		if c == 'M':
			return a * b
		if c == 'D':
			return a / b
		return a % b

	v = parse()
	assert pos == len(t), (t, pos)
	return v


def answer(key: str) -> str:
	kind, term = key.split(':', 1)
	try:
		v = eval_term(term)
	except (ZeroDivisionError, ValueError, OverflowError) as e:
		if kind == 'ok':
			return type(e).__name__
		raise
	if kind == 'ok':
		return 'ok'
	if kind == 'hex':
		return 'nan' if math.isnan(v) else v.hex()
	if kind == 'str':
		return hx(str(v))
	if kind == 'toInt':
		try:
			return f'ok:{int(v)}'
		except (ValueError, OverflowError) as e:
			return type(e).__name__
	raise AssertionError(key)


# ---------------------------------------------------------------------------------------------
# cases


class Case:
	def __init__(self, enums: list[list[Member]], label: str) -> None:
		self.enums = enums
		self.label = label
		self.members = [m for ms in enums for m in ms]
		self.source = module_source(enums)
		self.real: dict[str, str] = {}
		self.py: dict[str, Any] = {}
		self.env_line = ''
		self.oracle: dict[str, str] = {}
		self.error: str | None = None
		self.real2: dict[str, str] = {}  # the same evaluator instance asked again, in shuffled order
		self.emit_lines: list[str] = []  # `emit` ops of the output cases
		self.out: dict[str, str] = {}    # what the real Py2Cpp emitted for `Enum.Member.value` (text <hex> | error)
		self.shape: dict[str, str] = {}  # kind of the member's value node (lone string literal token / signed non-literal / '')


def member_value_node(cls: Any, index: int, name: str) -> Any:
	"""The value node of the `index`-th member declaration of an Enum class, found by POSITION in the class body (the harness does not
	use `Enum.var_value`, the lookup under test: py2cpp.py:851 and evaluator.py on_relay go through it)."""
	import rogw.tranp.syntax.node.definition as defs
	assigns = [st for st in cls.statements if isinstance(st, defs.MoveAssign)]
	node = assigns[index]
	got = node.receivers[0].tokens
	if got != name:
		raise Unencodable(f'member {index} of {cls.domain_name} is {got!r}, expected {name!r}')
	return node.value


def observe(app: Any, case: Case, rng: random.Random | None = None) -> None:
	"""Run the real evaluator (ONE instance for the whole module, every member twice: in source order, then shuffled) and CPython
	on every member; build the `env` line from the real node tree."""
	import rogw.tranp.syntax.node.definition as defs
	from rogw.tranp.implements.transpiler.evaluator import LiteralEvaluator
	from rogw.tranp.semantics.reflections import Reflections
	mod = app.module(case.source)
	reflections = RecordingReflections(app.resolve(Reflections))
	evaluator = LiteralEvaluator(reflections)
	by_name = {c.domain_name: c for c in mod.entrypoint.statements if isinstance(c, defs.Enum)}
	nodes: dict[str, Any] = {}
	for ms in case.enums:
		cls = by_name[ms[0].enum]
		for m in ms:
			nodes[m.key] = member_value_node(cls, ms.index(m), m.name)
			case.real[m.key] = real_result(evaluator, nodes[m.key])
	order = list(case.members)
	(rng or random.Random(len(case.source))).shuffle(order)
	for m in order:
		case.real2[m.key] = real_result(evaluator, nodes[m.key])
	case.py = python_results(case.enums)
	enc: list[str] = []
	for ms in case.enums:
		own = {m.name for m in ms}
		for m in ms:
			enc.append(f'm:{hx(m.key)} {encode(nodes[m.key], m.enum, own, reflections.outcomes)}')
	known = KNOWN_FUNCS + [ms[0].enum for ms in case.enums]
	case.env_line = f"env\t{','.join(hx(k) for k in known)}\t{' '.join(enc)}"


def fill_oracles(cases: list[Case], max_rounds: int = 80) -> int:
	"""Ask the Lean driver, answer the float observations it needs, repeat until no case needs anything. Returns the rounds used."""
	pending = [c for c in cases if c.error is None]
	rounds = 0
	while pending:
		rounds += 1
		if rounds > max_rounds:
			raise common.InfraError(f'oracle rounds did not converge ({len(pending)} cases pending)')
		lines: list[str] = []
		spans: list[tuple[Case, int, int]] = []
		for c in pending:
			start = len(lines)
			lines.extend(case_lines(c, 'all'))
			spans.append((c, start, len(lines)))
		outs = common.lean_driver('eval', lines)
		nxt: list[Case] = []
		for c, a, b in spans:
			needs = {o[5:] for o in outs[a:b] if o.startswith('need ')}
			if any(o == 'bad-op' for o in outs[a:b]):
				c.error = 'bad-op'
				continue
			if needs:
				try:
					for k in needs:
						c.oracle[k] = answer(k)
				except Exception as e:  # noqa: BLE001 - a term the float interpretation cannot read: the case is dropped and counted
					c.error = f'oracle: {type(e).__name__}: {e}'
					continue
				nxt.append(c)
		pending = nxt
	return rounds


def case_lines(c: Case, which: str) -> list[str]:
	lines = [c.env_line]
	lines.extend(f'oracle\t{k}\t{v}' for k, v in sorted(c.oracle.items()))
	if which in ('impl', 'all'):
		lines.extend(f'impl\t{hx(m.key)}' for m in c.members)
	if which in ('py', 'all'):
		lines.extend(f'py\tpy\t{hx(m.key)}' for m in c.members)
	if which == 'all':
		lines.extend(f'py\tstrict\t{hx(m.key)}' for m in c.members)
	if which in ('emit', 'all'):
		lines.extend(c.emit_lines)
	return lines


def make_cases(ctx: Ctx, app: Any, name: str, n: int, regions: frozenset[str], corpus: bool) -> list[Case]:
	rng = ctx.sub_rng(name)
	cases: list[Case] = []
	if corpus:
		for label, enums in load_corpus():
			cases.append(Case(enums, f'corpus:{label}'))
	for i in range(n):
		depth = 1 + i % 4 if not ctx.thorough else 1 + i % 5
		if i % 5 == 4:
			cases.append(Case(gen_module(rng, regions, depth, 1 + i % 3, 4 + i % 5, boost=5.0), f'malformed#{i}'))
		else:
			cases.append(Case(gen_module(rng, regions - MALFORMED_REGIONS, depth, 1 + i % 3, 4 + i % 5), f'{name}#{i}'))
	import time
	deadline = time.time() + ctx.scale(60, 600)
	for k, c in enumerate(cases):
		if past(ctx, f'observe {name}', deadline, k, len(cases)):
			del cases[k:]
			break
		observe_guarded(ctx, observe, c, app, c, rng)
	return cases


def load_corpus() -> list[tuple[str, list[list[Member]]]]:
	out: list[tuple[str, list[list[Member]]]] = []
	d = os.path.join(common.CORPUS_DIR, PROP)
	if not os.path.isdir(d):
		return out
	for fn in sorted(os.listdir(d)):
		if not fn.endswith('.json'):
			continue
		with open(os.path.join(d, fn), encoding='utf-8') as f:
			rec = json.load(f)
		enums = [[Member(e['name'], n, t, None, set(rec.get('features', []))) for n, t in e['members']] for e in rec['enums']]
		out.append((fn[:-5], enums))
	return out


def classify_case(desc: dict[str, Any]) -> str:
	return desc['class']


def members_histogram(cases: list[Case], which: str) -> dict[str, int]:
	h: dict[str, int] = {}
	for c in cases:
		if c.error is not None:
			continue
		for m in c.members:
			r = c.real[m.key] if which == 'impl' else show_py(c.py[m.key])
			k = r.split(' ')[0]
			h[k] = h.get(k, 0) + 1
	return h


def stream_impl(ctx: Ctx, cases: list[Case]) -> Stream:
	triples = []
	for c in cases:
		if c.error is not None:
			continue
		ops = case_lines(c, 'impl')
		real = [f'ok {len(c.members)}'] + ['ok'] * len(c.oracle) + [c.real[m.key] for m in c.members]
		triples.append(({'class': c.label.split('#')[0].split(':')[0], 'label': c.label, 'source': c.source}, ops, real))
	st = common.correspond('evalimpl', triples, 'eval', classify=classify_case)
	st.histogram = {**st.histogram, **{f'result:{k}': v for k, v in members_histogram(cases, 'impl').items()}}
	st.cases = sum(len(c.members) for c in cases if c.error is None)
	st.distinct = len({m.text for c in cases if c.error is None for m in c.members})
	st.note = ('members of generated Enum modules (decimal/hex ints up to 2^1100, floats, plain/triple/prefixed/escaped strings, unary + - ~, '
		'parentheses, the ten operators in flat chains, int/float/str casts with 0-2 arguments, other calls, bare and Enum.Member.value '
		'references incl. forward/unknown ones); real LiteralEvaluator.exec vs execImpl; cases counted per member')
	return st


def stream_py(ctx: Ctx, cases: list[Case]) -> Stream:
	"""CPython vs evalPy. A model answer `unsupported` (outside the modelled CPython fragment) is not compared but counted and capped."""
	lines: list[str] = []
	spans = []
	for c in cases:
		if c.error is not None:
			continue
		a = len(lines)
		lines.extend(case_lines(c, 'py'))
		spans.append((c, a, len(lines)))
	outs = common.lean_driver('eval', lines)
	triples = []
	unsupported = 0
	total = 0
	for c, a, b in spans:
		model = outs[a:b]
		k = 1 + len(c.oracle)
		real = [f'ok {len(c.members)}'] + ['ok'] * len(c.oracle)
		for m, o in zip(c.members, model[k:]):
			total += 1
			if o == 'unsupported':
				unsupported += 1
				real.append('unsupported')
			else:
				real.append(show_py(c.py[m.key]))
		triples.append(({'class': c.label.split('#')[0].split(':')[0], 'label': c.label, 'source': c.source}, lines[a:b], real))
	st = common.correspond('evalpy', triples, 'eval', classify=classify_case)
	st.histogram = {**st.histogram, 'unsupported-by-model': unsupported, **{f'result:{k}': v for k, v in members_histogram(cases, 'py').items()}}
	st.cases = total
	st.distinct = len({m.text for c in cases if c.error is None for m in c.members})
	if total and unsupported / total > 0.25:
		st.disagreements.append({'case': 'evalpy', 'op': 'fraction of members outside the modelled CPython fragment', 'real': '<= 0.25', 'model': f'{unsupported}/{total}'})
	st.note = 'CPython eval() of every member text (names bound top to bottom) vs evalPy in mode `py`; `unsupported` answers are counted, not compared (capped at 25%)'
	return st




def gen_body(rng: random.Random) -> str:
	"""Body of a valid single-quoted token: plain pieces, octal (1-3 digits), \\xhh and one-character escapes, unknown escapes."""
	parts = []
	for _ in range(rng.randint(0, 6)):
		r = rng.random()
		if r < 0.35:
			n = rng.choice([1, 1, 2, 2, 3])
			digits = ''.join(rng.choice('01234567') for _ in range(n))
			if n == 3 and digits[0] > '3':
				digits = rng.choice('0123') + digits[1:]
			parts.append('\\' + digits)
		elif r < 0.43:
			parts.append('\\x' + rng.choice('0123456789abcdefABCDEF') + rng.choice('0123456789abcdefABCDEF'))
		elif r < 0.47:
			# \uhhhh / \Uhhhhhhhh of a scalar value (a lone surrogate is a Python str no Lean Char holds; beyond U+10FFFF CPython rejects)
			n = rng.choice([rng.randint(0, 0xD7FF), rng.randint(0xE000, 0xFFFF), rng.randint(0x10000, 0x10FFFF), rng.randint(0x30, 0x39)])
			h = f'{n:04x}' if n <= 0xFFFF and rng.random() < 0.7 else f'{n:08x}'
			h = ''.join(ch.upper() if rng.random() < 0.3 else ch for ch in h)
			parts.append(('\\u' if len(h) == 4 else '\\U') + h)
		elif r < 0.6:
			parts.append('\\' + rng.choice(['n', 't', 'r', 'a', 'b', 'f', 'v', '\\', "'", '"']))
		elif r < 0.65:
			parts.append('\\' + rng.choice(['d', 'w', 'z', ' ', '8', '9', '?', 'e']))
		else:
			parts.append(rng.choice(['a', 'b', '1', '2', '7', '8', '9', '0', ' ', 'x41', 'é', 'x', 'n', '"']))
	return ''.join(parts)


def stream_unescape(ctx: Ctx) -> Stream:
	"""`decodeEsc` / `joinsEscape` (the decoder and the join test `C17.join_decodes`, `catSafe_decodes` and `escape_counterexample` are
	stated with) against CPython's own decoding of a literal body and against the regular expressions of the proposed repair."""
	rng = ctx.sub_rng('unescape')
	from translate import gen_eval_ops
	try:
		pats = gen_eval_ops.read_joins_patterns()  # the two patterns of `_joins_escape`, as the source has them now
	except Exception:  # noqa: BLE001 - the translator stage reports the broken tie; the stream still runs against the proved patterns
		pats = (gen_eval_ops.JOINS_LEFT_EXPECTED, gen_eval_ops.JOINS_RIGHT_EXPECTED)
	joins_left, joins_right = re.compile(pats[0]), re.compile(pats[1])
	from rogw.tranp.implements.transpiler.evaluator import LiteralEvaluator
	real_joins = getattr(LiteralEvaluator, '_joins_escape', lambda *a: (_ for _ in ()).throw(AttributeError('_joins_escape')))
	triples = []
	for i in range(ctx.scale(400, 4000)):
		left, right = gen_body(rng), gen_body(rng)
		if rng.random() < 0.3:
			right = rng.choice('0123456789abx') + right
		ops, real = [], []
		for body in (left, right, left + right):
			try:
				with warnings.catch_warnings():
					warnings.simplefilter('ignore')  # `\\777` (> 0o377) and unknown escapes still decode, with a SyntaxWarning
					real.append(hx(eval(f"'{body}'", {'__builtins__': {}})))  # noqa: S307 - generated literal
			except Exception as e:  # noqa: BLE001
				real.append(type(e).__name__)
			ops.append(f'unesc\t{hx(body)}')
		ops.append(f'joins\t{hx(left)}\t{hx(right)}')
		real.append('true' if joins_left.search(left) is not None and joins_right.match(right) is not None else 'false')
		# … and the shipped method itself on the two quoted tokens (it does not look at `self`)
		ops.append(f'joins\t{hx(left)}\t{hx(right)}')
		try:
			real.append('true' if real_joins(None, f"'{left}'", f"'{right}'") else 'false')
		except Exception as e:  # noqa: BLE001
			real.append(exc_enum(e))
		triples.append(({'class': f"joins={real[-1]}", 'left': left, 'right': right}, ops, real))
	st = common.correspond('unescape', triples, 'eval', classify=classify_case)
	st.note = ('pairs of valid token bodies (plain pieces, octal 1-3 digits in greedy runs, \\xhh, one-character and unknown escapes): CPython eval of the quoted body vs decodeEsc '
		'for left, right and their join; the two regular expressions of the shipped `_joins_escape` (read from evaluator.py) vs joinsEscape')
	return st


# ---------------------------------------------------------------------------------------------
# the C++ reading of an inlined string body: own reader (search oracle), g++ (ground truth of the tie), stream `cppread`

CPP_SIMPLE = {'n': 10, 't': 9, 'r': 13, 'a': 7, 'b': 8, 'f': 12, 'v': 11, '\\': 92, "'": 39, '"': 34, '?': 63}
HEXDIGITS = '0123456789abcdefABCDEF'


def cpp_read(body: str) -> bytes | None:
	r"""The bytes of the C++ narrow string literal "body" (ISO C++ [lex.string], UTF-8 execution character set), or None when "body" is
	not one well-defined literal (unescaped double quote, raw line feed, an escape ISO C++ does not define, a \x / octal value beyond
	one byte, a \u / \U of a surrogate or beyond U+10FFFF, a body ending inside an escape). Written from the standard, independent of
	tranp and of the Lean model; checked against g++ by the stream `cppread` on every run."""
	out = bytearray()
	i, n = 0, len(body)
	while i < n:
		c = body[i]
		i += 1
		if c != '\\':
			if c in '"\n':
				return None
			out += c.encode('utf-8', errors='surrogatepass')
			continue
		if i >= n:
			return None
		e = body[i]
		i += 1
		if e in '01234567':
			v, k = int(e), 1
			while k < 3 and i < n and body[i] in '01234567':
				v, k, i = v * 8 + int(body[i]), k + 1, i + 1
			if v > 255:
				return None
			out.append(v)
		elif e == 'x':
			j = i
			while j < n and body[j] in HEXDIGITS:
				j += 1
			if j == i or int(body[i:j], 16) > 255:
				return None
			out.append(int(body[i:j], 16))
			i = j
		elif e in 'uU':
			w = 4 if e == 'u' else 8
			digits = body[i:i + w]
			if len(digits) != w or any(ch not in HEXDIGITS for ch in digits):
				return None
			v = int(digits, 16)
			if 0xD800 <= v <= 0xDFFF or v > 0x10FFFF:
				return None
			out += chr(v).encode('utf-8')
			i += w
		elif e in CPP_SIMPLE:
			out.append(CPP_SIMPLE[e])
		else:
			return None
	return bytes(out)


GXX_DIAG = re.compile(r'^[^:\n]*lits\.cpp:(\d+):\d+: (warning|error): ', re.M)


def gxx_read(tmpdir: str, bodies: list[str]) -> list[bytes | None] | None:
	"""g++ -std=c++20 -pedantic on one translation unit with one array per body; a diagnostic on a body's line = no well-defined
	reading (None for that body). Returns None (the caller skips, with a count) when g++ is missing, too slow or behaves unexpectedly."""
	import subprocess
	res: list[bytes | None] = [b'' for _ in bodies]
	live = list(range(len(bodies)))
	src = os.path.join(tmpdir, 'lits.cpp')
	exe = os.path.join(tmpdir, 'lits')
	try:
		for _ in range(4):
			head = ['#include <cstdio>', 'template <unsigned long N> static void d(const char (&s)[N]) { for (unsigned long i = 0; i + 1 < N; i++) std::printf("%02x", (unsigned char)s[i]); std::printf("\\n"); }']
			lines = head + [f'static const char s{k}[] = "{bodies[k]}";' for k in live]
			lines.append('int main() { ' + ' '.join(f'd(s{k});' for k in live) + ' return 0; }')
			with open(src, 'w', encoding='utf-8', errors='surrogatepass') as f:
				f.write('\n'.join(lines) + '\n')
			p = subprocess.run(['g++', '-std=c++20', '-pedantic', '-O0', '-fno-diagnostics-show-caret', '-fdiagnostics-color=never', '-o', exe, src],
				capture_output=True, text=True, timeout=120)
			flagged = {int(m.group(1)) - len(head) - 1 for m in GXX_DIAG.finditer(p.stderr)}
			flagged = {live[i] for i in flagged if 0 <= i < len(live)}
			if p.returncode != 0:
				if not flagged:
					return None
				for k in flagged:
					res[k] = None
				live = [k for k in live if k not in flagged]
				continue
			r = subprocess.run([exe], capture_output=True, text=True, timeout=60)
			rows = r.stdout.split('\n')
			if r.returncode != 0 or len(rows) < len(live):
				return None
			for k, row in zip(live, rows):
				res[k] = None if k in flagged else bytes.fromhex(row)
			return res
		return None
	except Exception:  # noqa: BLE001 - g++ missing / timeout / unreadable output: the stream is skipped with a count
		return None


def show_bytes(b: bytes | None) -> str:
	return 'none' if b is None else 'bytes ' + (b.hex() or '-')


def stream_cppread(ctx: Ctx) -> Stream:
	"""`cppBytes` (the C++ reader `C17.cpp_reads_python` / `output_string_cpp` are stated with) against g++, `utf8s ∘ decodeEsc` against
	CPython's own reading of the same body, and the law itself on the real tools: where `cppSafe` accepts, g++ and CPython agree."""
	rng = ctx.sub_rng('cppread')
	bodies: list[str] = ['a\\d', '\\x41b', '\\xe9', '\\351', '\\?', 'caf\\u00e9\\t!', '\\0', '', '\\x41', '\\x7fz', '\\400', '\\U0001F600', 'a\\\\d', "it's", '\\"q\\"']
	for _ in range(ctx.scale(500, 5000)):
		b = gen_body(rng)
		if rng.random() < 0.3:
			b = b.replace('"', '\\"')
		bodies.append(b)
	bodies = [b for b in dict.fromkeys(bodies) if not UNESCAPED_DQ.search(b)]  # an unescaped `"` cannot be put to g++ as ONE literal: decided in Lean only
	with ctx.timed('gxx'):
		gxx = gxx_read(ctx.tmpdir(), bodies)
	st_note = ''
	if gxx is None:
		ctx.notes.append(f'cppread: g++ gave no usable answer; the {len(bodies)} bodies were compared with the harness reader cpp_read only')
		st_note = ' (g++ unavailable in this run: compared with the harness reader only)'
		gxx = [cpp_read(b) for b in bodies]
	triples = []
	own_bad: list[dict[str, Any]] = []
	law_bad: list[dict[str, Any]] = []
	safe_lines = [f'cppsafe\t{hx(b)}' for b in bodies]
	safe = common.lean_driver('eval', safe_lines)
	hist = {'cppsafe': 0, 'cpp-none': 0, 'cpp-same-as-python': 0, 'cpp-differs-from-python': 0}
	for b, g, sf in zip(bodies, gxx, safe):
		try:
			with warnings.catch_warnings():
				warnings.simplefilter('ignore')
				py: bytes | None = eval(f'"{b}"', {'__builtins__': {}}).encode('utf-8', errors='surrogatepass')  # noqa: S307 - generated literal (no unescaped `"` in it)
		except Exception:  # noqa: BLE001 - not a Python literal: nothing to compare the C++ reading with
			py = None
		own = cpp_read(b)
		if own != g and len(own_bad) < 5:
			own_bad.append({'case': 'cppread', 'op': f'harness reader cpp_read({b!r})', 'real': show_bytes(g), 'model': show_bytes(own)})
		cls = 'cpp-none' if g is None else 'cpp-same-as-python' if g == py else 'cpp-differs-from-python'
		hist[cls] += 1
		if sf == 'true':
			hist['cppsafe'] += 1
			if (g is None or g != py) and len(law_bad) < 5:
				law_bad.append({'case': 'cppread', 'op': f'cppSafe accepts {b!r} but g++ and CPython read it differently', 'real': f'{show_bytes(g)} vs {show_bytes(py)}', 'model': 'true'})
		ops = [f'cppread\t{hx(b)}']
		real = [show_bytes(g)]
		if py is not None:
			ops.append(f'pyutf8\t{hx(b)}')
			real.append(show_bytes(py))
		triples.append(({'class': cls, 'body': b}, ops, real))
	st = common.correspond('cppread', triples, 'eval', classify=classify_case)
	st.disagreements.extend(own_bad + law_bad)
	st.histogram = {**st.histogram, **hist}
	st.note = ('bodies of valid Python tokens (plain text, octal, \\xhh, \\uhhhh, \\Uhhhhhhhh, one-character, unknown and C++-only escapes; no unescaped double quote): '
		'g++ -std=c++20 -pedantic on "body" (a diagnostic = no well-defined reading) vs cppBytes; CPython eval(\'body\').encode() vs utf8s(decodeEsc body); the harness reader '
		'cpp_read vs g++; and wherever cppSafe accepts, g++ == CPython (the statement of cpp_reads_python on the real tools)' + st_note)
	return st


# ---------------------------------------------------------------------------------------------
# search on the real code alone


ESC = re.compile(r'\\(x[0-9a-fA-F]{2}|u[0-9a-fA-F]{4}|U[0-9a-fA-F]{8}|[0-7]{1,3}|.)', re.S)
SIMPLE_ESC = {'n': '\n', 't': '\t', '\\': '\\', "'": "'", '"': '"', 'r': '\r', 'a': '\a', 'b': '\b', 'f': '\f', 'v': '\v'}


def unescape(s: str) -> str:
	def rep(m: re.Match[str]) -> str:
		g = m.group(1)
		if (g[0] == 'x' and len(g) == 3) or (g[0] == 'u' and len(g) == 5) or (g[0] == 'U' and len(g) == 9):
			return chr(int(g[1:], 16))
		if g[0] in '01234567':
			return chr(int(g, 8))
		return SIMPLE_ESC.get(g, '\\' + g)
	return ESC.sub(rep, s)


def compare(real: str, py: Any, escaped: bool) -> str | None:
	"""Never raises: whatever the real code returned, if it cannot be judged that is reported (a finding), not a harness crash."""
	try:
		return _compare(real, py, escaped)
	except Exception as e:  # noqa: BLE001
		return f'the result {real[:80]!r} could not be compared with {type(py).__name__}: {type(e).__name__}: {e}'


def _compare(real: str, py: Any, escaped: bool) -> str | None:
	"""None = the property holds for this member; otherwise a short description of the violation."""
	if not (real.startswith(('int ', 'float ', 'str ', 'other '))):
		if real.startswith('Errors.'):
			return None
		return f'exec raised {real}, which is not an application error'
	if _is_exc(py):
		if isinstance(py, (ValueError, TypeError, ZeroDivisionError, OverflowError)) and not isinstance(py, UnicodeError):
			# CPython rejects the operation itself (not an unbound name): folding it to a value is a different value than "none"
			return f'exec gives {real[:80]}, CPython raises {type(py).__name__}'
		return None  # a name CPython has not bound (forward reference): there is no value to differ from
	if real.startswith('str ') and type(py) is str:
		s = common.unhx(real[4:])
		content = s[1:-1]
		if escaped:
			content = unescape(content)
		return None if content == py else f'exec gives the string {s!r} (content {content!r}), CPython gives {py!r}'
	return None if real == show_value(py) else f'exec gives {real}, CPython gives {show_value(py)}'


def finding_key(feats: set[str], real: str, py: Any) -> str:
	for f in KEY_PRIORITY:
		if f in feats:
			return EXCLUDED_KEYS[f]
	return f"mismatch:{real.split(' ')[0]}-vs-{show_py(py).split(' ')[0]}"


def search_real(ctx: Ctx, app: Any, seen_cases: list[Case]) -> SearchResult:
	res = SearchResult('exec(e) == eval(e) with equal type, or an application error — real LiteralEvaluator vs CPython eval')
	rng = ctx.sub_rng('search')
	cases = list(seen_cases)
	n = ctx.scale(300, 4000)
	regions_all = ALL_REGIONS
	regions_in = ALL_REGIONS - {'triple', 'prefix', 'escape', 'strstr', 'arity'}
	import time
	deadline = time.time() + ctx.scale(60, 600)
	for i in range(n):
		depth = 1 + i % 5
		regions = regions_in if i % 3 else regions_all
		if past(ctx, 'search exec==eval', deadline, i, n):
			break
		c = Case(gen_module(rng, regions, depth, 1 + i % 3, 4 + i % 6, boost=3.0 if i % 7 == 6 else 1.0), f'search#{i}')
		observe_guarded(ctx, observe, c, app, c, rng)
		if c.error is not None and c.error.startswith('unencodable'):
			c.error = None  # the encoding is irrelevant here; only the observations are needed
		cases.append(c)
	hist: dict[str, int] = {}
	texts = set()
	for c in cases:
		if c.error is not None and c.error.startswith('observe:'):
			if sum(1 for f in res.findings if f.key == 'module-rejected') < 3:
				res.findings.append(Finding(key='module-rejected', what=f'tranp does not load a generated Enum module of literal expressions: {c.error}', replay={'source': c.source}))
			continue
		if not c.real:
			continue
		if not c.py:
			c.py = python_results(c.enums)
		for m in c.members:
			res.cases += 1
			texts.add(m.text)
			real, py = c.real.get(m.key), c.py[m.key]
			if real is None:
				continue
			feats = set(m.feats)
			bad = compare(real, py, 'escape' in feats)
			again = c.real2.get(m.key, real)
			if not bad and again != real:
				hist['second-exec-differs'] = hist.get('second-exec-differs', 0) + 1
				bad2 = compare(again, py, 'escape' in feats)
				if bad2:
					hist['finding:history-dependent'] = hist.get('finding:history-dependent', 0) + 1
					if sum(1 for f in res.findings if f.key == 'history-dependent') < 3:
						res.findings.append(Finding(key='history-dependent', what=f'{m.key} = {m.text}: a later exec() on the same evaluator instance: {bad2} (first exec: {real})',
							replay={'source': c.source, 'member': m.key, 'text': m.text, 'exec': again, 'first_exec': real, 'eval': show_py(py), 'features': sorted(feats)}))
			cls = ('refused' if real.startswith('Errors.') else 'value') + '/' + ('py-error' if _is_exc(py) else 'py-value')
			hist[cls] = hist.get(cls, 0) + 1
			if cls == 'value/py-error':
				k2 = f'value-where-python-raises:{type(py).__name__}'
				hist[k2] = hist.get(k2, 0) + 1
			for f in feats & (SPECIAL_FEATURES | {'unidigit'}):
				hist[f'region:{f}'] = hist.get(f'region:{f}', 0) + 1
			if bad:
				key = finding_key(feats, real, py)
				hist[f'finding:{key}'] = hist.get(f'finding:{key}', 0) + 1
				if sum(1 for f in res.findings if f.key == key) < 3:
					res.findings.append(Finding(key=key, what=f'{m.key} = {m.text}: {bad}',
						replay={'source': c.source, 'member': m.key, 'text': m.text, 'exec': real, 'eval': show_py(py), 'features': sorted(feats)}))
			elif len(res.samples) < 3 and not real.startswith('Errors.') and len(m.text) > 12:
				res.samples.append({'member': m.text, 'exec': real, 'eval': show_py(py)})
	novel = [f for f in res.findings if f.key not in EXCLUDED_KEYS.values()]
	res.findings = novel + [f for f in res.findings if f.key in EXCLUDED_KEYS.values()]
	res.distinct = len(texts)
	res.histogram = hist
	res.note = ('every member of the correspondence cases, of the corpus and of further generated modules (one third with the excluded regions: '
		'triple-quoted/prefixed/escaped strings, str() of a string, two-argument casts; all with ints up to 2^70 and beyond); '
		'strings compared by content [1:-1] (escape sequences decoded when the member uses them); findings keyed by the excluded region the member uses')
	return res


# ---------------------------------------------------------------------------------------------
# search at the property's second observation point: the enum value text in the transpiled output


def make_py2cpp_app(ctx: Ctx) -> Any:
	"""A MemApp with the DI wiring of tests/unit/rogw/tranp/implements/cpp/transpiler/test_py2cpp.py."""
	from rogw.tranp.app.dir import tranp_dir
	from rogw.tranp.i18n.i18n import I18n, TranslationMapping
	from rogw.tranp.implements.cpp.providers.i18n import translation_mapping_cpp
	from rogw.tranp.implements.cpp.providers.view import renderer_helper_provider_cpp
	from rogw.tranp.implements.cpp.transpiler.py2cpp import Py2Cpp
	from rogw.tranp.lang.middleware import Middleware
	from rogw.tranp.lang.module import to_fullyname
	from rogw.tranp.transpiler.types import TranspilerOptions
	from rogw.tranp.view.render import Renderer, RendererEmitter, RendererHelperProvider, RendererSetting

	def make_renderer_setting(i18n: I18n, emitter: RendererEmitter) -> RendererSetting:
		env = {'immutable_param_types': ['std::string', 'std::vector', 'std::map', 'std::function']}
		return RendererSetting([os.path.join(tranp_dir(), 'data/cpp/template')], i18n.t, emitter, env)

	# this module uses postponed annotations; the DI reads the annotation objects
	make_renderer_setting.__annotations__ = {'i18n': I18n, 'emitter': RendererEmitter, 'return': RendererSetting}

	return common.MemApp(ctx.tmpdir(), {
		to_fullyname(Py2Cpp): Py2Cpp,
		to_fullyname(Renderer): Renderer,
		to_fullyname(RendererEmitter): Middleware,
		to_fullyname(RendererHelperProvider): renderer_helper_provider_cpp,
		to_fullyname(RendererSetting): make_renderer_setting,
		to_fullyname(TranslationMapping): translation_mapping_cpp,
		to_fullyname(TranspilerOptions): lambda: TranspilerOptions(verbose=False, env={}),
	})


def read_emitted(text: str) -> tuple[str, Any] | None:
	"""Never raises (whatever text a changed transpiler emits): an unreadable text is `None`."""
	try:
		return _read_emitted(text)
	except Exception:  # noqa: BLE001
		return None


def _read_emitted(text: str) -> tuple[str, Any] | None:
	"""The literal py2cpp emitted for an `Enum.X.value` read (relay/literalize.j2: a number as is, anything else between double quotes)."""
	import ast
	t = text.strip()
	if len(t) >= 2 and t[0] == '"' and t[-1] == '"':
		return 'str', t[1:-1]
	# a negative number is emitted in parentheses since the repair of `-E.M.value` -> `--3` (py2cpp on_relay): `(-3)`
	if re.fullmatch(r'\(-[^()]+\)', t):
		t = t[1:-1]
	try:
		v = ast.literal_eval(t)
	except (ValueError, SyntaxError, MemoryError, RecursionError):
		try:
			v = float(t) if re.fullmatch(r'-?(inf|nan)', t) else None
		except ValueError:
			v = None
	if type(v) in (int, float):
		return type(v).__name__, v
	return None


def compare_output(text: str, py: Any, escaped: bool) -> str | None:
	try:
		return _compare_output(text, py, escaped)
	except Exception as e:  # noqa: BLE001
		return f'the emitted text {text[:80]!r} could not be compared with {type(py).__name__}: {type(e).__name__}: {e}'


def _compare_output(text: str, py: Any, escaped: bool) -> str | None:
	if _is_exc(py):
		return None
	got = read_emitted(text)
	if got is None:
		return f'the emitted text {text!r} is not a literal; CPython gives {show_value(py)}'
	kind, v = got
	if kind == 'str' and type(py) is str:
		if UNESCAPED_DQ.search(v):
			return f'the emitted text {text!r} is not one C++ string literal (unescaped double quote in the content); CPython gives {py!r}'
		# the reader of the emitted text is a C++ compiler: `cpp_read` (ISO C++ escapes, UTF-8; checked against g++ by the stream `cppread`)
		want = py.encode('utf-8', errors='surrogatepass')
		got_bytes = cpp_read(v)
		if got_bytes == want:
			return None
		# a text that would be right if C++ read escapes the way Python does: the raw Python body was inlined (one class of finding)
		tag = PY_ESCAPE_TAG if '\\' in v and unescape(v) == py else ''
		if got_bytes is None:
			return f'the emitted text {text!r} is not a well-defined C++ string literal (an escape ISO C++ does not define, or a \\x / octal value beyond one byte); CPython gives {py!r}{tag}'
		return f'the emitted text {text!r} is read by C++ as the bytes {got_bytes.hex()}, CPython gives {py!r} = bytes {want.hex()}{tag}'
	if kind in ('int', 'float') and type(py) in (int, float) and kind == type(py).__name__:
		return None if show_value(v) == show_value(py) else f'the emitted text {text!r} is {show_value(v)}, CPython gives {show_value(py)}'
	return f'the emitted text {text!r} is a {kind}, CPython gives {show_value(py)}'


def observe_output(app: Any, case: Case) -> None:
	"""Transpile every `Enum.Member.value` read of the module with the real Py2Cpp. The transpiler's two collaborators are observed:
	`reflections` (the type answers `on_relay` takes: inputs of `emitValue`) and, inside a fresh LiteralEvaluator, the `type_of`
	outcomes at reference nodes (inputs of `execImpl`)."""
	import rogw.tranp.semantics.reflection.definition as refs
	import rogw.tranp.syntax.node.definition as defs
	from rogw.tranp.implements.cpp.transpiler.py2cpp import Py2Cpp
	from rogw.tranp.implements.transpiler.evaluator import LiteralEvaluator
	from rogw.tranp.semantics.reflections import Reflections
	source = case.source + 'def f() -> None:\n' + ''.join(f'\t{m.enum}.{m.name}.value\n' for m in case.members)
	case.full_source = source
	mod = app.module(source)
	transpiler = app.resolve(Py2Cpp)
	real = app.resolve(Reflections)
	outer = RecordingReflections(real)
	inner = RecordingReflections(real)
	transpiler.reflections = outer
	transpiler.evaluator = LiteralEvaluator(inner)
	fn = [st for st in mod.entrypoint.statements if isinstance(st, defs.Function)][0]
	reads = list(fn.statements)
	by_name = {c.domain_name: c for c in mod.entrypoint.statements if isinstance(c, defs.Enum)}
	assert len(reads) == len(case.members)
	nodes: dict[str, Any] = {}
	ty: dict[str, tuple[str, str, str]] = {}
	for m, node in zip(case.members, reads):
		value_node = member_value_node(by_name[m.enum], [x.name for x in case.members if x.enum == m.enum].index(m.name), m.name)
		nodes[m.key] = value_node
		start = len(outer.log)
		try:
			case.out[m.key] = 'text ' + hx(transpiler.transpile(node))
		except Exception as e:  # noqa: BLE001
			case.out[m.key] = show_error(e)
		failed = [o for _, o in outer.log[start:] if o != '-']
		asked = (value_node.full_path, '-') in outer.log[start:]
		if failed:
			ty[m.key] = (failed[0], '-', '0')
		elif not asked and not case.out[m.key].startswith('text '):
			# the symbol table itself raised while resolving the receiver / the member (lazy type inference inside Reflections),
			# before line 845 was reached: the collaborator's failure is the input
			ty[m.key] = (case.out[m.key].replace('Errors.Fatal:', 'Errors.Fatal.'), '-', '0')
		elif asked:
			sym = outer.results[value_node.full_path].impl(refs.Object)
			ty[m.key] = ('-', hx(transpiler.to_domain_name(sym)), '1' if sym.type_is(str) else '0')
		else:
			raise Unencodable('on_relay did not ask for the type of the member value')
		if isinstance(value_node, defs.String):
			case.shape[m.key] = 'lone-string:' + value_node.tokens
		elif isinstance(value_node, defs.Factor) and not isinstance(value_node.value, defs.Literal):
			case.shape[m.key] = 'signed-non-literal'
	case.py = python_results(case.enums)
	enc: list[str] = []
	for ms in case.enums:
		own = {m.name for m in ms}
		for m in ms:
			enc.append(f'm:{hx(m.key)} {encode(nodes[m.key], m.enum, own, inner.outcomes)}')
	known = KNOWN_FUNCS + [ms[0].enum for ms in case.enums]
	case.env_line = f"env\t{','.join(hx(k) for k in known)}\t{' '.join(enc)}"
	case.emit_lines = [f'emit\t{hx(m.key)}\t{ty[m.key][0]}\t{ty[m.key][1]}\t{ty[m.key][2]}' for m in case.members]
	case.members_for_impl = False


def make_output_cases(ctx: Ctx, only: list[list[Member]] | None = None) -> list[Case]:
	rng = ctx.sub_rng('output')
	app = make_py2cpp_app(ctx)
	regions = ALL_REGIONS - {'confuse'}
	cases = [Case(enums, f'corpus:{label}') for label, enums in load_corpus()] if only is None else [Case(only, 'replay')]
	for i in range(ctx.scale(110, 500) if only is None else 0):
		cases.append(Case(gen_module(rng, regions, 1 + i % 4, 1 + i % 3, 4 + i % 5, boost=3.0 if i % 6 == 5 else 1.0, homogeneous=i % 4 != 3), f'output#{i}'))
	import time
	deadline = time.time() + ctx.scale(60, 400)
	for k, c in enumerate(cases):
		if past(ctx, 'observe output', deadline, k, len(cases)):
			del cases[k:]
			break
		observe_guarded(ctx, observe_output, c, app, c)
	return cases


def stream_emit(ctx: Ctx, cases: list[Case]) -> Stream:
	triples = []
	n = 0
	for c in cases:
		if c.error is not None:
			continue
		ops = case_lines(c, 'emit')
		real = [f'ok {len(c.members)}'] + ['ok'] * len(c.oracle) + [c.out[m.key] for m in c.members]
		triples.append(({'class': c.label.split('#')[0].split(':')[0], 'label': c.label, 'source': c.source}, ops, real))
		n += len(c.members)
	st = common.correspond('emitvalue', triples, 'eval', classify=classify_case)
	hist: dict[str, int] = {}
	for c in cases:
		for m in c.members:
			k = c.out.get(m.key, 'dropped').split(' ')[0]
			hist[f'result:{k}'] = hist.get(f'result:{k}', 0) + 1
	st.histogram = {**st.histogram, **hist}
	st.cases = n
	st.distinct = len({m.text for c in cases if c.error is None for m in c.members})
	st.note = ('the text the real Py2Cpp.on_relay inlines for every Enum.Member.value read of generated modules (all-numeric, all-string and mixed enums; '
		'literal shortcut, folded values, negative numbers in parentheses, quoting by the inferred type) vs emitValue; the type answers of Reflections are inputs')
	return st


def search_output(ctx: Ctx, cases: list[Case]) -> SearchResult:
	"""The emitted literal of every `Enum.Member.value` read must be CPython's value of the member (py2cpp.py:842-852)."""
	res = SearchResult('emitted text of Enum.Member.value == eval(member value) with equal type, or an application error — real Py2Cpp vs CPython eval')
	hist: dict[str, int] = {}
	texts = set()

	def add(key: str, what: str, replay: dict[str, Any]) -> None:
		hist[f'finding:{key}'] = hist.get(f'finding:{key}', 0) + 1
		if sum(1 for f in res.findings if f.key == key) < 3:
			res.findings.append(Finding(key=key, what=what, replay=replay))

	def klass(v: Any) -> str:
		return 'exc' if _is_exc(v) else 'str' if type(v) is str else 'num' if type(v) in (int, float) else 'other'

	for c in cases:
		source = getattr(c, 'full_source', c.source)
		if c.error is not None:
			if c.error.startswith('observe:'):
				add('module-rejected', f'tranp does not load a generated Enum module with .value reads: {c.error}', {'source': source, 'kind': 'output'})
			continue
		py = c.py
		mixed = [ms[0].enum for ms in c.enums if klass(py[ms[0].key]) not in ('str', 'num') or {klass(py[m.key]) for m in ms} - {'exc', klass(py[ms[0].key])}]
		if mixed:
			# tranp types `Enum.X.value` by the enum's first member (an enum mixing strings and numbers, or starting with a member that is
			# neither, is outside its typing, C03): whether the literal is quoted follows that type, so such modules are not judged here
			hist['info:module-with-mixed-enum-skipped'] = hist.get('info:module-with-mixed-enum-skipped', 0) + 1
			continue
		for m in c.members:
			res.cases += 1
			texts.add(m.text)
			out = c.out[m.key]
			if out.startswith('Errors.'):
				hist['refused'] = hist.get('refused', 0) + 1
				continue
			if not out.startswith('text '):
				add('output-non-app-error', f'{m.key} = {m.text}: transpiling {m.enum}.{m.name}.value raised {out}, which is not an application error',
					{'source': source, 'member': m.key, 'kind': 'output'})
				continue
			text = common.unhx(out[5:])
			shape = c.shape.get(m.key, '')
			lone = shape.startswith('lone-string:') and not re.fullmatch(r"'[^'\\\n]*'|\"[^\"\\\n]*\"", shape[12:])
			bad = compare_output(text, py[m.key], 'escape' in m.feats or lone)
			k = 'value/py-error' if _is_exc(py[m.key]) else 'value/py-value'
			hist[k] = hist.get(k, 0) + 1
			if shape == 'signed-non-literal':
				hist['shape:signed-non-literal'] = hist.get('shape:signed-non-literal', 0) + 1
			if lone:
				hist['shape:lone-nonplain-string-literal'] = hist.get('shape:lone-nonplain-string-literal', 0) + 1
			if bad:
				if 'unescaped double quote' in bad:
					key = OUTPUT_QUOTE_KEY
				elif bad.endswith(PY_ESCAPE_TAG):
					key = OUTPUT_ESCAPE_KEY
				elif lone:
					key = LONE_LITERAL_KEY
				else:
					key = f"output-mismatch:{(read_emitted(text) or ('text', None))[0]}-vs-{show_py(py[m.key]).split(' ')[0]}"
				add(key, f'{m.key} = {m.text}: {bad}', {'source': source, 'member': m.key, 'text': m.text, 'emitted': text, 'eval': show_py(py[m.key]), 'features': sorted(m.feats), 'kind': 'output'})
			elif len(res.samples) < 3 and len(m.text) > 10:
				res.samples.append({'member': m.text, 'emitted': text, 'eval': show_py(py[m.key])})
	known = set(EXCLUDED_KEYS.values()) | {OUTPUT_QUOTE_KEY, OUTPUT_ESCAPE_KEY}
	res.findings = [f for f in res.findings if f.key not in known] + [f for f in res.findings if f.key in known]
	res.distinct = len(texts)
	res.histogram = hist
	res.note = ('modules whose enums are all-numeric or all-string (tranp types Enum.X.value by the first member), one function reading every Enum.Member.value; each read '
		'transpiled by the real Py2Cpp (DI of test_py2cpp.py); the emitted literal parsed (number as is, optionally in parentheses; string between the double quotes, escapes decoded '
		'when the member uses them) and compared with CPython eval of the member value')
	return res


# ---------------------------------------------------------------------------------------------


STATEMENTS = {
	'sound': 'for every expression, environment, fuel and interpretation of float (FloatText: str(x) has no backslash, float(text) rejects a backslash): if CPython (0X literals and string tokens with a backslash cut out) evaluates e to v2 then the folder returns v ~ v2 (same type, same value, string content) or refuses (an application error that is not a wrapped Python exception, or the recursion limit) - induction over the fuel and the flat chains',
	'agree': "no guard on the expression: execImpl e = ok v and evalPy e = ok v2 imply v ~ v2, INCLUDING string tokens with escape sequences: a folder string is a raw body between two quote characters and CPython's string is what the body decodes to (decodeEsc: octal, \\xhh, \\uhhhh, \\Uhhhhhhhh, one-character and unknown escapes; \\N{...} and lone surrogates outside evalPy); needs FloatText of the float interpretation",
	'refuse': 'an error of execImpl is a refusal (OperationNotAllowed, UnresolvedSymbol, an error of type inference, the recursion limit) or CPython raises on e as well, as long as no 0X literal and no string token with a backslash is evaluated (int of an escaped digit string is a wrapped ValueError where CPython has a value: an application error, allowed)',
	'chain': 'evaluating the left-nested tree CPython builds for a flat chain = the left fold over the chain (operand, operation, left to right, first exception wins)',
	'consistent_bindAll': "executing the Enum bodies top to bottom yields an environment consistent with the folder's member lookup when member keys are distinct (hypothesis Cons is satisfiable)",
	'output_agree': "second observation point, no guard but one: whenever CPython evaluates the member value to v2 and the type answer of Reflections fits v2, the text Py2Cpp.on_relay inlines for Enum.Member.value (emitValue on top of execImpl: shortcut for Integer/Float tokens, str() of the folded value, parentheses for negatives, [1:-1] for str, relay/literalize.j2) read back denotes v2 with the same type; guard on the VALUE: a string value contains no double quote (the template prints the content raw)",
	'quote_in_value_counterexample': "the guard hq of output_agree/output_sound (a string value contains no double quote) is necessary: the enum value 'say \"hi\"' is inlined as \"say \"hi\"\", not one C++ literal (finding output-unescaped-double-quote); mixed-quote joins like 'a' + \"it's\" are fine (content and emitted text)",
	'output_sound': 'and when on_relay fails instead it is a refusal (0X literals cut out)',
	'upperhex_counterexample': 'guard H4 is necessary for sound/refuse: 0X1F is 31 in CPython, the folder raises a wrapped ValueError (an application error, allowed by the property)',
	'escape_counterexample': "documentation of the hazard: plain _cat does not commute with decoding escapes (decodeEsc: octal, \\xhh, \\uhhhh, \\Uhhhhhhhh, one-character and unknown escapes): the bodies \\1 and 2 would join to \\12 = one newline character; tokens with a backslash are outside evalPy",
	'join_decodes': 'for ALL pairs of bodies: unless the left one ends inside an escape the right one continues (joinsEscape), decoding the joined body = joining the decoded bodies',
	'catSafe_decodes': 'the positive statement about the SHIPPED join rule (since 05486b1 the string branch of _op_bin_each refuses when _joins_escape; the model step uses catSafe): what it returns decodes to the concatenation of what its operands decode to',
	'cpp_reads_python': "the far end of the second observation point: on every body cppSafe accepts (no unescaped double quote / raw line feed, only escapes both languages define, \\xhh and octal below 0x80, no hex digit right after \\xhh, \\u / \\U of a scalar value) the C++ narrow string literal \"body\" (cppBytes: ISO C++ escapes, \\x greedy, UTF-8) denotes exactly the UTF-8 encoding of the string CPython reads from 'body' - simulation of CPython's decoder by the C++ reader, state by state",
	'cpp_escape_counterexample': "the guard is necessary (finding output-python-escape-in-cpp-literal): a\\d is three characters in Python and no defined literal in ISO C++ (g++: ad, with a warning); examples beside it: \\x41b (out of range in C++), \\xe9 and \\351 (byte e9 in C++, U+00E9 = c3 a9 in Python), \\? (only C++ has it)",
	'output_string_cpp': "string values WITH escapes at the second observation point, no guard on the expression: when the folder returns the token s and CPython the string c, on_relay inlines the double-quoted s[1:-1], and if cppSafe accepts that body a C++ compiler reads it as the UTF-8 encoding of c (agree + emitValue + cpp_reads_python)",
	'pyInt_accepts_iff': "the model of Python's int(str), base 10, accepts exactly blanks sign? digit (_? digit)* blanks (blanks = C isspace + Unicode White_Space beyond ASCII; digit = any Unicode decimal digit, generated table) with the denoted value",
	'pyInt_rejects': 'and answers ValueError for every other text',
	'int_cast_accepts_iff': "the folder's int('<text>') yields n exactly for the texts of that grammar (applied to token[1:-1])",
}


def run(ctx: Ctx) -> int:
	translate_ok, translate_msg = True, ''
	try:
		from translate import gen_eval_ops, gen_literalize, gen_py_escapes, gen_unicode_digits
		ctx.generated_tables.extend(gen_eval_ops.generate())
		ctx.generated_tables.extend(gen_literalize.generate())
		ctx.generated_tables.extend(gen_unicode_digits.generate())
		ctx.generated_tables.extend(gen_py_escapes.generate())
	except Exception as e:  # noqa: BLE001
		translate_ok, translate_msg = False, f'translator: {type(e).__name__}: {e}'
	proof = common.prove(ctx, PROP, leanchecker=ctx.thorough)
	app = common.MemApp(ctx.tmpdir())
	streams: list[Stream] = []
	cases: list[Case] = []
	if proof.built:
		with ctx.timed('observe'):
			cases = make_cases(ctx, app, 'eval', ctx.scale(300, 2600), ALL_REGIONS, corpus=True)
		with ctx.timed('oracle_rounds'):
			rounds = fill_oracles(cases)
			ctx.notes.append(f'oracle rounds: {rounds}; cases dropped (not encodable): {sum(1 for c in cases if c.error)} {sorted({(c.error or "")[:60] for c in cases if c.error})}')
		with ctx.timed('correspondence'):
			streams = [stream_impl(ctx, cases), stream_py(ctx, cases), stream_unescape(ctx), stream_cppread(ctx)]
	out_cases: list[Case] = []
	if proof.built:
		with ctx.timed('observe_output'):
			out_cases = make_output_cases(ctx)
		with ctx.timed('oracle_rounds'):
			fill_oracles(out_cases)
		with ctx.timed('correspondence'):
			streams.append(stream_emit(ctx, out_cases))
	else:
		out_cases = make_output_cases(ctx)
	with ctx.timed('search'):
		searches = [search_real(ctx, app, cases), search_output(ctx, out_cases)]
	return common.finish(ctx, proof, streams, searches,
		translate_ok=translate_ok, translate_msg=translate_msg,
		statements=STATEMENTS,
		partial={
			'proved': 'a different value is never produced: agreement of value and type (no guard; string tokens with octal, \\xhh, \\uhhhh, \\Uhhhhhhhh and one-character escapes included), or refusal, for every expression of the model (literals, unary sign, parentheses, the ten operators in flat chains, casts, member references), for every interpretation of float',
			'correspondence_only': 'that execImpl is LiteralEvaluator on the Procedure machine and evalPy is CPython (incl. floor %, shifts, two\'s-complement bitwise ops, int()/float()/str() spellings); the control flow of the 20 hand-transcribed methods of LiteralEvaluator, of Enum.var_value (the member lookup by exact name) and of the value branch of Py2Cpp.on_relay is additionally pinned by the translators (normalised source against translate/c17_modelled_source.json, handler set: a change = broken tie); operator tables, ladders, quote lists, cast names/arity, join patterns, the template, the Unicode digit blocks, the blanks of int() and the one-character escapes are generated on every run',
			'search_only': 'IEEE behaviour of the real floats; that the C++ reader cppBytes is what a C++ compiler does is tied to g++ by the stream cppread (and the search reads every emitted string literal with an independent reader written from the standard, checked against g++ in the same stream)',
			'outside': 'string tokens with \\N{...} or an escape of a lone surrogate (evalPy answers unsupported; never generated)',
		},
		assumptions=[
			'FloatText: the float interpretation prints no backslash in str(x) and float(text) rejects a text with a backslash (true of CPython; hypotheses of sound/agree/refuse/output_*)',
			'float is abstract: the theorems hold for every interpretation of add/sub/mul/div/mod/neg/ofInt/toInt/parse/toStr/truediv; the tie instantiates it with CPython floats',
			'a member whose CPython evaluation raises is modelled as re-raising when read (CPython would abort the module)',
			'names of enum members do not shadow the called builtins; own-enum members are referenced by bare name, other enums as Enum.Member.value',
			'recursion depth of the generated cases stays below both Python\'s recursion limit and the model\'s fuel',
			"int(str) reads every Unicode decimal digit (category Nd; the table of the 0..9 blocks is generated from the interpreter's unicodedata on every run: Generated/UnicodeDigits.lean); the blanks int()/float() strip are measured on the interpreter on every run as well (Generated/UnicodeDigits.intBlanks); float(str) is the abstract ops.parse (interpreted by CPython in the tie)",
			"CPython's 4300-digit limit of int/str conversion is lifted in the harness process (the model has none)",
		],
		trusted=['the harness interpreter of float terms (harness/c17.py eval_term/answer) uses CPython float operations',
			'g++ -std=c++20 -pedantic as the reference reader of C++ narrow string literals (stream cppread; UTF-8 execution character set)'])


def parse_module_source(source: str) -> list[list[Member]]:
	"""Inverse of `module_source` (used by --replay)."""
	enums: list[list[Member]] = []
	for line in source.split('\n'):
		m = re.match(r'class (\w+)\(Enum\):', line)
		if m:
			enums.append([])
			cur = m.group(1)
			continue
		m = re.match(r'\t(\w+) = (.*)$', line)
		if m and enums:
			enums[-1].append(Member(cur, m.group(1), m.group(2), None, set()))
	return [ms for ms in enums if ms]


def replay(ctx: Ctx, path: str) -> int:
	"""Re-run the direct oracle on the recorded module (real LiteralEvaluator vs CPython); exit 1 while the recorded member still violates."""
	with open(path, encoding='utf-8') as f:
		rec = json.load(f)
	inp = rec.get('input', rec)
	print(json.dumps(rec, indent=1, ensure_ascii=False)[:3000])
	if 'source' not in inp:
		return run(Ctx(PROP, rec.get('tier', 'quick'), int(rec.get('seed', 0))))
	feats = set(inp.get('features', []))
	if inp.get('kind') == 'output':
		enums = parse_module_source(inp['source'].split('def f() -> None:')[0])
		for ms in enums:
			for m in ms:
				m.feats = set(feats) if m.key == inp.get('member') else set()
		res = search_output(ctx, make_output_cases(ctx, only=enums))
		hits = [f for f in res.findings if inp.get('member') in (None, f.replay.get('member'))]
		for f in hits:
			print(f'replay: VIOLATES [{f.key}] {f.what}')
		if not hits:
			print(f'replay: holds ({res.cases} Enum.Member.value reads transpiled, histogram {res.histogram})')
		ctx.cleanup()
		return 1 if hits else 0
	case = Case(parse_module_source(inp['source']), 'replay')
	app = common.MemApp(ctx.tmpdir())
	try:
		observe(app, case)
	except Unencodable:
		pass
	except Exception as e:  # noqa: BLE001
		print(f'replay: tranp does not load the module: {exc_enum(e)}')
		ctx.cleanup()
		return 1
	rc = 0
	for m in case.members:
		if inp.get('member') not in (None, m.key):
			continue
		real = case.real.get(m.key, '?')
		bad = compare(real, case.py[m.key], 'escape' in feats)
		print(f'replay: {m.key} = {m.text}: exec -> {real}; eval -> {show_py(case.py[m.key])}; {"VIOLATES: " + bad if bad else "holds"}')
		if bad:
			rc = 1
	for m in case.members:
		again = case.real2.get(m.key)
		if inp.get('member') in (None, m.key) and again is not None and again != case.real.get(m.key):
			bad2 = compare(again, case.py[m.key], 'escape' in feats)
			print(f'replay: {m.key}: a later exec() on the same instance -> {again}; {"VIOLATES: " + bad2 if bad2 else "holds"}')
			if bad2:
				rc = 1
	ctx.cleanup()
	return rc
