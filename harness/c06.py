"""C06 — Non-forced runs leave every output equal to a forced run.

Theorems: lean/Tranp/Props/C06.lean over lean/Tranp/Model/Runner.lean.
Tie (correspondence, family `runner` of the Lean driver):
  strprims  str.find / str.rfind / slicing with CPython's index adjustment, os.path.join, os.path.normpath
  header    MetaHeader.to_json / to_header_str / try_from_content / __eq__ on generated metas and contents (incl. malformed)
  paths     Runner.output_filepath (the real method, no file is written) on generated module paths × output_dirs × languages × cwds,
            including the configurations that would escape the project directory
  runner    the real command-line application in temporary projects: ops edit / run / run -f / rm-output / set-dirs /
            set-force / put (foreign content at an output path); observation per op: status, output files read during target
            selection, files written (audit hook, cross-checked with st_mtime_ns), first line of every output
Search (real code only):
  fixpoint  files_after(history + [run]) == files_after(history + [run -f]) on two clones of the same project state (same cache)
  roundtrip try_from_content(pre + to_header_str() + '\\n' + body) == header on generated metas
  paths     distinct modules never share an output path (pure function), on generated module sets × output_dirs
  force     `-f` rewrites every module also when config.yml says `force: false`
"""
from __future__ import annotations

import contextlib
import hashlib
import io
import json
import os
import random
import shutil
import time
from collections import Counter
from types import SimpleNamespace
from typing import Any

from harness import common, tproj
from harness.common import Ctx, Finding, SearchResult, Stream, hx

PROP = 'C06'
FAMILY = 'runner'
CALL_CPU_S = 20.0		# CPU budget of one call of a pure real function (output_filepath, try_from_content: microseconds when healthy)

# ---------------------------------------------------------------------------------------------
# protocol helpers


def hxl(items: list[str]) -> str:
	return ','.join(hx(i) for i in items) if items else '[]'


def spec(v: Any) -> str:
	"""JSON value → the driver's prefix spec."""
	if v is None:
		return 'N'
	if v is True:
		return 'T'
	if v is False:
		return 'F'
	if isinstance(v, int):
		return f'I{v}'
	if isinstance(v, str):
		return f'S{hx(v)}'
	if isinstance(v, list):
		return ' '.join([f'A{len(v)}', *(spec(x) for x in v)])
	if isinstance(v, dict):
		return ' '.join([f'O{len(v)}', *(f'{spec(k)} {spec(x)}' for k, x in v.items())])
	raise AssertionError(v)


_VERSIONS: list[tuple[str, str, str]] = []


def versions() -> tuple[str, str, str]:
	"""(Versions.app, Versions.py2cpp, transpiler module name) as shipped (captured before any run patches them)."""
	if not _VERSIONS:
		from rogw.tranp.data.version import Versions
		from rogw.tranp.implements.cpp.transpiler.py2cpp import Py2Cpp
		from rogw.tranp.lang.module import to_fullyname
		_VERSIONS.append((Versions.app, Versions.py2cpp, to_fullyname(Py2Cpp)))
	return _VERSIONS[0]


@contextlib.contextmanager
def patched_versions(app: str, py2cpp: str) -> Any:
	"""The version constants compiled into the program, as a later release would carry them (restored afterwards)."""
	from rogw.tranp.data.version import Versions
	versions()
	old = (Versions.app, Versions.py2cpp)
	Versions.app, Versions.py2cpp = app, py2cpp
	try:
		yield
	finally:
		Versions.app, Versions.py2cpp = old


def root_cause(e: BaseException) -> BaseException:
	"""Modules.load reports unexpected exceptions as Errors.Fatal(..., cause): the run status names the root cause."""
	try:
		from rogw.tranp.errors import Errors
		seen = 0
		while isinstance(e, Errors.Fatal) and e.__cause__ is not None and seen < 10:
			e = e.__cause__
			seen += 1
	except Exception:  # noqa: BLE001
		pass
	return e


def correspond_skip(name: str, cases: list[tuple[Any, list[str], list[str]]], classify: Any = None, max_report: int = 5) -> Stream:
	"""common.correspond, except that a model answer `out-of-model…` (the model's explicit guard: floats, NaN, lone surrogates,
	regex metacharacters) is counted and not compared."""
	st = Stream(name)
	all_lines: list[str] = []
	for _, ops, real in cases:
		assert len(ops) == len(real), (name, len(ops), len(real))
		all_lines.extend(ops)
	model = common.lean_driver(FAMILY, all_lines) if all_lines else []
	pos = 0
	seen: set[str] = set()
	hist: Counter[str] = Counter()
	for desc, ops, real in cases:
		mod = model[pos:pos + len(ops)]
		pos += len(ops)
		st.cases += 1
		seen.add(hashlib.sha1('\n'.join(ops).encode()).hexdigest())
		if classify:
			for k in classify(desc, real):
				hist[k] += 1
		for i, (o, r, m) in enumerate(zip(ops, real, mod)):
			if m.startswith('out-of-model'):
				hist['out-of-model'] += 1
				break
			if r != m:
				if len(st.disagreements) < max_report:
					st.disagreements.append({'case': desc, 'op_index': i, 'op': o, 'real': r, 'model': m, 'ops': ops[:i + 1]})
				else:
					st.disagreements.append({'op': o[:200], 'real': r[:200], 'model': m[:200]})
				break
		if len(st.samples) < 3:
			st.samples.append({'ops': ops[:6], 'real': real[:6]})
	st.distinct = len(seen)
	st.histogram = dict(hist)
	return st


# real-code exceptions that escaped inside a case builder (rule 14: an outcome, not a harness crash) and deadlines that cut a loop short
CRASHES: list[Finding] = []
DEADLINES: list[tproj.Deadline] = []


class Unconfined(Exception):
	"""A configuration the generators consider confined to the temporary project has — according to the REAL output_filepath —
	an output outside it (or a path that is not absolute): an outcome of the real code (a finding), never an infrastructure failure."""


def crashed(where: str, e: BaseException, replay: dict[str, Any]) -> None:
	import traceback
	if isinstance(e, Unconfined):
		if sum(1 for f in CRASHES if f.key == 'output-path-unconfined') < 3:
			CRASHES.append(Finding(key='output-path-unconfined', what=f'{where}: {e}'[:500], replay={**replay, 'where': where}))
		return
	tb = traceback.extract_tb(e.__traceback__)
	real = [f for f in tb if 'rogw' in f.filename]
	at = f'{os.path.basename(real[-1].filename)}:{real[-1].lineno} {real[-1].name}' if real else (f'{os.path.basename(tb[-1].filename)}:{tb[-1].lineno}' if tb else '?')
	CRASHES.append(Finding(key=f'unexpected-exception:{where}:{common.exc_enum(e)}', what=f'{where}: {type(e).__name__}: {e} (raised at {at})'[:400], replay={**replay, 'where': where, 'at': at}))


def new_deadline(name: str, seconds: float) -> tproj.Deadline:
	d = tproj.Deadline(name, seconds)
	DEADLINES.append(d)
	return d


def search_crashes(ctx: Ctx) -> SearchResult:
	res = SearchResult('no call of the real code made while building or observing a case raises outside the observed outcome classes')
	res.cases = len(CRASHES)
	res.findings = list(CRASHES)
	res.histogram = dict(Counter(f.key for f in CRASHES))
	return res


def load_corpus() -> list[dict[str, Any]]:
	d = os.path.join(common.CORPUS_DIR, PROP)
	out = []
	if os.path.isdir(d):
		for fn in sorted(os.listdir(d)):
			if fn.endswith('.json'):
				with open(os.path.join(d, fn), encoding='utf-8') as f:
					rec = json.load(f)
				rec['file'] = fn
				out.append(rec)
	return out


# ---------------------------------------------------------------------------------------------
# stream strprims


STR_ALPHABET = ['a', 'b', '}', '{', '\n', '/', '.', '@', 'é', '\U0001F600', ' ']


def gen_str(rng: random.Random, max_len: int = 10, alphabet: list[str] | None = None) -> str:
	alphabet = alphabet or STR_ALPHABET
	return ''.join(rng.choice(alphabet) for _ in range(rng.randint(0, max_len)))


def gen_index(rng: random.Random, n: int) -> int:
	return rng.choice([0, 1, -1, n, n - 1, n + 1, -n, -n - 1, rng.randint(-n - 3, n + 3)])


PATH_PIECES = ['a', 'b', '.', '..', '', 'out', 'x.h', '...', 'a.b']


def gen_pathstr(rng: random.Random) -> str:
	n = rng.randint(0, 6)
	s = '/'.join(rng.choice(PATH_PIECES) for _ in range(n))
	return rng.choice(['', '/', '//', '///', './', '../']) + s + rng.choice(['', '/', '//'])


def stream_strprims(ctx: Ctx) -> Stream:
	rng = ctx.sub_rng('strprims')
	cases = []
	import posixpath
	for _ in range(ctx.scale(600, 6000)):
		k = rng.randrange(5)
		try:
			if k == 0:
				s, sub = gen_str(rng), rng.choice(['@', 'a', 'ab', '\n', '}', gen_str(rng, 2), 'é'])
				if sub == '':
					sub = 'a'
				st = gen_index(rng, len(s))
				op, real = f'find\t{hx(s)}\t{hx(sub)}\t{st}', str(s.find(sub, st))
			elif k == 1:
				s, c = gen_str(rng), rng.choice(['}', 'a', '\n', 'é'])
				a, b = gen_index(rng, len(s)), gen_index(rng, len(s))
				op, real = f'rfind\t{hx(s)}\t{hx(c)}\t{a}\t{b}', str(s.rfind(c, a, b))
			elif k == 2:
				s = gen_str(rng)
				a, b = gen_index(rng, len(s)), gen_index(rng, len(s))
				op, real = f'slice\t{hx(s)}\t{a}\t{b}', hx(s[a:b])
			elif k == 3:
				a, b = gen_pathstr(rng), gen_pathstr(rng)
				op, real = f'join\t{hx(a)}\t{hx(b)}', hx(posixpath.join(a, b))
			else:
				p = gen_pathstr(rng)
				op, real = f'normpath\t{hx(p)}', hx(posixpath.normpath(p))
		except Exception as e:  # noqa: BLE001
			real = common.exc_enum(e)
		cases.append(({'kind': op.split('\t')[0]}, [op], [real]))
	return correspond_skip('strprims', cases, classify=lambda d, r: [d['kind']])


# ---------------------------------------------------------------------------------------------
# stream header


NASTY = ['"', '\\', '{', '}', '@tranp.meta', '@tranp.meta: {', '\n', '\t', '\r', '\x00', '\x1f', '\x7f', '\x08', '\x0c', 'é', 'あ', '\U0001F600',
	'\u2028', '/', ':', ',', ' ', "'", 'a', 'app.mod', '0123abcdef', '[', ']', '\ufeff', '\ud7ff', '\ue000', '\uffff', '\U00010000', '\U0010FFFF']


def gen_text(rng: random.Random, max_parts: int = 4) -> str:
	return ''.join(rng.choice(NASTY) for _ in range(rng.randint(0, max_parts)))


def gen_json(rng: random.Random, depth: int = 2) -> Any:
	r = rng.random()
	if depth <= 0 or r < 0.45:
		k = rng.randrange(8)
		if k == 0:
			return None
		if k == 1:
			return rng.choice([True, False])
		if k == 2:
			return rng.choice([0, 1, -1, 10, -305, 2 ** 70, 7])
		return gen_text(rng)
	if r < 0.65:
		return [gen_json(rng, depth - 1) for _ in range(rng.randint(0, 3))]
	return {gen_text(rng, 2): gen_json(rng, depth - 1) for _ in range(rng.randint(0, 3))}


def gen_module_meta(rng: random.Random) -> Any:
	r = rng.random()
	if r < 0.7:
		return {'hash': rng.choice([hashlib.md5(gen_text(rng).encode('utf-8', 'surrogatepass')).hexdigest(), gen_text(rng)]), 'path': rng.choice(['app.a', 'app.sub.x', gen_text(rng)])}
	if r < 0.8:
		return {'path': 'app.a', 'hash': 'h'}		# key order matters for the identity
	return gen_json(rng)


def gen_transpiler_meta(rng: random.Random) -> Any:
	if rng.random() < 0.7:
		return {'version': rng.choice(['1.0.0', gen_text(rng)]), 'module': rng.choice(['rogw.tranp.implements.cpp.transpiler.py2cpp.Py2Cpp', gen_text(rng)])}
	return gen_json(rng)


def gen_version(rng: random.Random) -> Any:
	r = rng.random()
	if r < 0.4:
		return None
	if r < 0.7:
		return rng.choice(['1.0.0', '2.0', gen_text(rng)])
	return rng.choice(['', 0, False, [], {}, None, 1, True, [0], {'a': 1}, -0])


def make_probe() -> Any:
	from rogw.tranp.data.meta.header import MetaHeader

	class Probe(MetaHeader):
		"""Records the text `try_from_content` hands to `from_json` (the classmethod dispatches through `cls`)."""
		seen: list[str] = []

		@classmethod
		def from_json(cls, json_str: str) -> Any:
			cls.seen.append(json_str)
			return super().from_json(json_str)

	return Probe


def has_out_of_model(v: Any) -> bool:
	if isinstance(v, float):
		return True
	if isinstance(v, str):
		return any(0xD800 <= ord(c) <= 0xDFFF for c in v)
	if isinstance(v, list):
		return any(has_out_of_model(x) for x in v)
	if isinstance(v, dict):
		return any(has_out_of_model(k) or has_out_of_model(x) for k, x in v.items())
	return False


def real_parse(probe: Any, content: str) -> str:
	probe.seen.clear()
	try:
		with tproj.run_budget(CALL_CPU_S):
			h = probe.try_from_content(content)
	except tproj.RunBudgetExceeded:
		tproj.BUDGET_HITS['try_from_content'] = tproj.BUDGET_HITS.get('try_from_content', 0) + 1
		return 'RunDoesNotEnd slice=?'
	except Exception as e:  # noqa: BLE001 - the outcome class is the observation
		sl = f' slice={hx(probe.seen[-1])}' if probe.seen else ' slice=?'
		return f'{common.exc_enum(e)}{sl}'
	if h is None:
		return 'none'
	return f'ok slice={hx(probe.seen[-1])} json={hx(h.to_json())}'


JSON_NOISE = ['{', '}', '[', ']', '"', ':', ',', '\\', ' ', '\n', '\t', '0', '1', '-', 'e', '.', 'n', 'null', 'true', 'x', '\\u00e9', '\\ud83d\\ude00', '\\n', '\\/', '\\x', '\\u12']


def mutate(rng: random.Random, s: str) -> str:
	for _ in range(rng.randint(1, 3)):
		if not s:
			return rng.choice(JSON_NOISE)
		i = rng.randrange(len(s) + 1)
		k = rng.randrange(4)
		if k == 0:
			s = s[:i] + s[i + 1:]
		elif k == 1:
			s = s[:i] + rng.choice(JSON_NOISE) + s[i:]
		elif k == 2:
			s = s[:i]
		else:
			j = min(len(s), i + rng.randint(1, 6))
			s = s[:i] + s[j:]
	return s


HANDWRITTEN_CONTENTS = [
	'', 'no header here\n', '@tranp.meta', '@tranp.meta:', '@tranp.meta: ', '@tranp.meta: {}', '@tranp.meta: {}\n', '@tranp.meta: {}}\n',
	'// @tranp.meta: {"version":"1.0.0","module":{"hash":"h","path":"p"},"transpiler":{"version":"1.0.0","module":"m"}}',
	'// @tranp.meta: {"version":"1.0.0","module":{"hash":"h","path":"p"},"transpiler":{"version":"1.0.0","module":"m"}}\n',
	'// @tranp.meta: {"version":"1.0.0","module":{"hash":"h","path":"p"},"transpiler":{"version":"1.0.0","module":"m"}} trailing } x\n',
	'// @tranp.meta: {"version":"1.0.0","module":{"hash":"h","path":"p"},"transpiler":{"version":"1.0.0","module":"m"}}\r\n#pragma once\n',
	'@tranp.meta: {"module":1,"transpiler":2}\n', '@tranp.meta: {"module":1,"transpiler":2,"version":""}\n', '@tranp.meta: [1]}\n', '@tranp.meta: "x"}\n',
	'@tranp.meta: 1}\n', '@tranp.meta: null}\n', '@tranp.meta:{"module":1,"transpiler":2,"version":3}\n', '@tranp.meta  {"module":1,"transpiler":2,"version":3}\n',
	'@tranp.meta: {"module":1,"module":2,"transpiler":{"a":1,"a":2,"b":3},"version":null}\n', '@tranp.meta: {"version":0,"transpiler":[],"module":{}}\n',
	'x@tranp.meta@tranp.meta: {"module":1,"transpiler":2,"version":3}\n', '\n\n@tranp.meta: \t {"module" : 1 , "transpiler" :\t2, "version":[ 1 , 2 ]  }  \n',
	'@tranp.meta: {"module":1.5,"transpiler":2,"version":3}\n', '@tranp.meta: {"module":NaN,"transpiler":2,"version":3}\n', '@tranp.meta: {"module":"\\ud800","transpiler":2,"version":3}\n',
	'@tranp.meta: {"module":01,"transpiler":2,"version":3}\n', '@tranp.meta: {"module":-0,"transpiler":-,"version":3}\n', '@tranp.meta: {"module":-0,"transpiler":-5,"version":3}\n',
	'@tranp.meta: {"module":1,"transpiler":2,"version":3,}\n', '@tranp.meta: {"module":[1,],"transpiler":2,"version":3}\n', '@tranp.meta: {"module":"a\tb","transpiler":2,"version":3}\n',
	'@tranp.meta: {"module":"\\u00E9\\u00e9\\/","transpiler":"\\ud83d\\ude00","version":"\\b\\f"}\n', '@tranp.meta: {"module":"\\x","transpiler":2,"version":3}\n',
	'@tranp.meta: {"module":1e5,"transpiler":2,"version":3}\n', '@tranp.meta: {"module":1E+,"transpiler":2,"version":3}\n', '@tranp.meta: {"module":1.,"transpiler":2,"version":3}\n',
	'@tranp.meta: \ufeff{"module":1,"transpiler":2,"version":3}\n', '@tranp.meta: {"module":1,"transpiler":2,"version":3} {}\n', '@tranp.meta: }{\n', '}@tranp.meta: \n}',
	'@tranp.meta: {"module":1,"transpiler":2,"version":3}x', '@tranp.meta: {"module":1,"transpiler":2,"version":3}}', '@tranp.meta: {"module":1,"transpiler":2,"version":3}}}',
]


def stream_header(ctx: Ctx) -> Stream:
	from rogw.tranp.data.meta.header import MetaHeader
	rng = ctx.sub_rng('header')
	probe = make_probe()
	av = versions()[0]
	cases: list[tuple[Any, list[str], list[str]]] = []

	def add(kind: str, op: str, real: str) -> None:
		cases.append(({'kind': kind}, [op], [real]))

	for rec in load_corpus():
		if rec.get('stream') == 'header':
			add('corpus', f"parse\t{hx(av)}\t{hx(rec['content'])}", real_parse(probe, rec['content']))
	for content in HANDWRITTEN_CONTENTS:
		add('parse:handwritten', f'parse\t{hx(av)}\t{hx(content)}', real_parse(probe, content))
	add('eq:other', 'eqother', _real_eq_other())
	def one() -> None:
		k = rng.random()
		if k < 0.12:
			v = gen_json(rng, 3)
			add('dumps', f'dumps\t{spec(v)}', hx(json.dumps(v, separators=(',', ':'))))
			return
		m, t, ver = gen_module_meta(rng), gen_transpiler_meta(rng), gen_version(rng)
		h = MetaHeader(m, t, ver)
		vs = '-' if ver is None else spec(ver)
		if k < 0.25:
			add('header', f'header\t{hx(av)}\t{spec(m)}\t{spec(t)}\t{vs}', hx(h.to_header_str()))
		elif k < 0.35:
			m2, t2, ver2 = (m, t, ver) if rng.random() < 0.4 else (gen_module_meta(rng), t, ver)
			vs2 = '-' if ver2 is None else spec(ver2)
			try:
				real = str(h == MetaHeader(m2, t2, ver2))
			except Exception as e:  # noqa: BLE001
				real = common.exc_enum(e)
			add('eq', f'eq\t{hx(av)}\t{spec(m)}\t{spec(t)}\t{vs}\t{spec(m2)}\t{spec(t2)}\t{vs2}', real)
		else:
			pre = rng.choice(['', '// ', '/* ', '#', gen_text(rng, 3), '\n// ', '// @tranp.met', '@tranp.meta'])
			line = h.to_header_str() if rng.random() < 0.8 else f'{MetaHeader.Tag}: {json.dumps(json.loads(h.to_json()), ensure_ascii=False, indent=rng.choice([None, None, 1]))}'
			tail = rng.choice(['\n', '\n', '\n', '', '\r\n', ' \n', '}\n', ' // }\n'])
			body = rng.choice(['', '#pragma once\n', gen_text(rng, 6), '}\n', 'int f() { return 1; }\n'])
			content = pre + line + tail + body
			kind = 'parse:wellformed' if (tail.endswith('\n') or body) else 'parse:no-newline'
			if rng.random() < 0.45:
				i = content.find(MetaHeader.Tag)
				content = content[:i + 11] + mutate(rng, content[i + 11:])
				kind = 'parse:mutated'
			add(kind, f'parse\t{hx(av)}\t{hx(content)}', real_parse(probe, content))

	for i in range(ctx.scale(500, 6000)):
		try:
			one()
		except Exception as e:  # noqa: BLE001 - rule 14
			if sum(1 for f in CRASHES if f.replay.get('where') == 'header-stream') < 3:
				crashed('header-stream', e, {'search': 'crash', 'stream': 'header', 'seed': ctx.seed, 'case': i})
	st = correspond_skip('header', cases, classify=lambda d, r: [d['kind'], f"{d['kind']}→{r[0].split(' ')[0][:12]}"] if d['kind'].startswith('parse') else [d['kind']])
	st.note = ('real MetaHeader (to_json, to_header_str, __eq__, try_from_content through a subclass that records the text handed to from_json) '
		'on generated metas (quotes, backslashes, braces, the tag itself, control and non-ASCII characters, falsy versions, non-dict metas) and on '
		'well-formed, newline-less and mutated contents; model answers `out-of-model` (floats, NaN, lone surrogates) are counted, not compared')
	return st


# ---------------------------------------------------------------------------------------------
# stream loads: the MODEL's json.loads (`loadsCodec`, the decoder header_rt_codec / loads_codec_sound are proved for) against CPython's


class _Pairs(list):		# an object as the list of its pairs, in the order and multiplicity written
	pass


def _dump_pairs(v: Any) -> str:
	if isinstance(v, _Pairs):
		return '{' + ','.join(f'{json.dumps(k)}:{_dump_pairs(x)}' for k, x in v) + '}'
	if isinstance(v, list):
		return '[' + ','.join(_dump_pairs(x) for x in v) + ']'
	return json.dumps(v)


def _outside_codec(text: str, value: Any) -> str:
	"""Why a text CPython decodes lies outside the documented domain of the codec model ('' = inside): white space other than
	leading, floats / NaN / Infinity, lone surrogates, repeated keys."""
	body = text.lstrip(' \t\n\r')
	in_str = esc = False
	for ch in body:
		if in_str:
			if esc:
				esc = False
			elif ch == '\\':
				esc = True
			elif ch == '"':
				in_str = False
		elif ch == '"':
			in_str = True
		elif ch in ' \t\n\r':
			return 'inner-whitespace'

	def walk(v: Any) -> str:
		if isinstance(v, float):
			return 'float'
		if isinstance(v, str):
			return 'lone-surrogate' if any(0xD800 <= ord(c) <= 0xDFFF for c in v) else ''
		if isinstance(v, _Pairs):
			keys = [k for k, _ in v]
			if len(set(keys)) != len(keys):
				return 'repeated-key'
			return next((w for w in (walk(k) or walk(x) for k, x in v) if w), '')
		if isinstance(v, list):
			return next((w for w in map(walk, v) if w), '')
		return ''
	return walk(value)


def real_loads(text: str) -> tuple[str, str]:
	"""(`ok <hex of the compact re-serialisation>` | exception enum, reason why the text is outside the codec's domain or '')"""
	try:
		with tproj.run_budget(CALL_CPU_S):
			v = json.loads(text, object_pairs_hook=_Pairs)
	except tproj.RunBudgetExceeded:
		return 'RunDoesNotEnd', ''
	except Exception as e:  # noqa: BLE001 - the outcome class is the observation
		return common.exc_enum(e), ''
	return f'ok {hx(_dump_pairs(v))}', _outside_codec(text, v)


LOADS_NOISE = ['{', '}', '[', ']', '"', ':', ',', '\\', '0', '1', '-', 'n', 'null', 'true', 'x', '\\u00e9', '\\ud83d\\ude00', '\\n', '\\/', '\\x', '\\u12', '01', '-0', '"a"', '\x01', 'é', '\U0001F600']


def stream_loads(ctx: Ctx) -> Stream:
	"""What `MetaHeader.from_json` hands to json.loads — a blank, then the compact dump of a header — and damaged versions of it:
	the model's decoder must give CPython's value (pairs as written) and reject what CPython rejects."""
	from rogw.tranp.data.meta.header import MetaHeader
	rng = ctx.sub_rng('loads')
	cases: list[tuple[Any, list[str], list[str]]] = []
	skipped: Counter[str] = Counter()
	for i in range(ctx.scale(500, 6000)):
		k = rng.random()
		try:
			if k < 0.45:
				text = MetaHeader(gen_module_meta(rng), gen_transpiler_meta(rng), gen_version(rng)).to_json()
				kind = 'header'
			else:
				text = json.dumps(gen_json(rng, 3), separators=(',', ':'))
				kind = 'value'
		except Exception:  # noqa: BLE001 - the printers are observed by the header stream
			continue
		text = rng.choice(['', ' ', ' ', ' ', '  ', '\t ', '\n']) + text
		if rng.random() < 0.45:
			body = text
			for _ in range(rng.randint(1, 2)):
				j = rng.randrange(len(body) + 1)
				m = rng.randrange(3)
				body = body[:j] + body[j + 1:] if m == 0 else (body[:j] + rng.choice(LOADS_NOISE) + body[j:] if m == 1 else body[:j])
			text, kind = body, kind + ':damaged'
		real, outside = real_loads(text)
		if outside:
			skipped[outside] += 1
			continue
		cases.append(({'kind': kind}, [f'loadsm\t{hx(text)}'], [real]))
	st = correspond_skip('loads', cases, classify=lambda d, r: [d['kind'], f"{d['kind']}→{r[0].split(' ')[0]}"])
	st.histogram.update({f'outside-the-codec:{k}': v for k, v in skipped.items()})
	st.note = ('the model decoder `loadsCodec` (Model/RunnerLoads.lean over Model/JsonCodec.lean) against json.loads(text, object_pairs_hook) on the texts from_json receives '
		'(blank + compact dump of generated headers / JSON values) and on damaged versions; texts CPython decodes to floats, lone surrogates, repeated keys or with inner '
		'white space are outside the codec (counted, not compared)')
	return st


def _real_eq_other() -> str:
	from rogw.tranp.data.meta.header import MetaHeader
	try:
		return str(MetaHeader(None, None) == 1)
	except Exception as e:  # noqa: BLE001
		return common.exc_enum(e)


# ---------------------------------------------------------------------------------------------
# stream paths: the real Runner.output_filepath as a pure function


def real_runner(output_dirs: list[str], output_language: str) -> Any:
	"""A Runner whose only initialised collaborator is the configuration: `output_filepath` / `fetch_output_path` read nothing else."""
	from rogw.tranp.bin.transpile import Runner
	r = Runner.__new__(Runner)
	r.config = SimpleNamespace(output_dirs=list(output_dirs), output_language=output_language)
	return r


def real_output_filepath(output_dirs: list[str], output_language: str, module: str, cwd: str) -> str:
	"""`ok <hex>` | exception enum; evaluated with the working directory `cwd` (must exist)."""
	from rogw.tranp.module.types import ModulePath
	old = os.getcwd()
	os.chdir(cwd)
	try:
		with tproj.run_budget(CALL_CPU_S):
			return f'ok {hx(real_runner(output_dirs, output_language).output_filepath(ModulePath(module, language="py")))}'
	except tproj.RunBudgetExceeded:
		tproj.BUDGET_HITS['output_filepath'] = tproj.BUDGET_HITS.get('output_filepath', 0) + 1
		return 'RunDoesNotEnd'
	except Exception as e:  # noqa: BLE001 - the outcome class is the observation
		return common.exc_enum(e)
	finally:
		os.chdir(old)


COND_PIECES = ['app', 'app/', 'app/sub/', 'app/s', 'a', 'lib/', 'app/*', 'app/sub/*', '*', 'app*', 'a.p/*', 'app/.*', '*/x.h', 'app/**', '', 'ap', 'app/x.h', 'lib/*', 'app/x', '.pp/', 'x', '*.h', 'app/-', 'app_2/', 'lib/', 'a/', 'app/sub/', 'sub/']
DIR_PIECES = ['out', './out', 'out/', '', '.', '..', '../x', '/abs', '//abs2', '///abs3', 'out/../out2', 'a//b', './', 'out/app', 'out/lib', 'o/./p', '/', '/abs/../..', 'out/sub']
MODULE_PATHS = ['app.x', 'app.sub.x', 'x', 'ap', 'app', 'appx.y', 'a.b.c', 'lib.x', 'lib.sub.x', 'app.x_h', 'sub.x', 'app.app.x', 'aXp.x', 'app.s', 'app.sx', 'app_2.x',
	# the text of a rule's condition occurs again later in the path
	'app.sub.app.x', 'app.sub.app.sub.x', 'lib.app.x', 'lib.lib.x', 'a.a.a']
ODD_MODULE_PATHS = ['app..x', '.x', 'x.', '', '..', 'app/x', 'a.-', 'é.x', 'a b.c']
LANGS = ['cpp:h', 'cpp:h', 'cpp:h', 'h', 'cpp:hpp', 'a:b:c', '', ':', 'cpp:', ':h', 'cpp:h.in']


def gen_dirs(rng: random.Random, malformed: bool) -> list[str]:
	n = rng.choice([0, 1, 1, 2, 2, 3])
	entries = [f'{rng.choice(COND_PIECES)}:{rng.choice(DIR_PIECES)}' for _ in range(n)]
	if malformed and entries and rng.random() < 0.5:
		i = rng.randrange(len(entries))
		entries[i] = rng.choice(['nocolon', 'a:b:c', ':', '::', 'app/:out:', rng.choice(COND_PIECES), 'a[b]*:out', 'a+*:out', '(*:out', 'app/$*:o', 'a|b*:o', '\\*:o'])
	fallback = rng.choice(DIR_PIECES)
	if malformed and rng.random() < 0.15:
		return entries		# no fallback entry: the last rule is taken as fallback, or the list is empty
	return [*entries, fallback]


def stream_paths(ctx: Ctx) -> Stream:
	rng = ctx.sub_rng('paths')
	base = os.path.realpath(ctx.tmpdir('tranp-c06-cwd-'))
	os.makedirs(os.path.join(base, 'sub', 'deeper'))
	cwds = [base, base, os.path.join(base, 'sub', 'deeper'), '/']
	cases: list[tuple[Any, list[str], list[str]]] = []
	for rec in load_corpus():
		if rec.get('stream') == 'paths':
			real = real_output_filepath(rec['dirs'], rec['lang'], rec['module'], base)
			cases.append(({'kind': 'corpus'}, [f"path\t{hx(base)}\t{hx(rec['lang'])}\t{hxl(rec['dirs'])}\t{hx(rec['module'])}"], [real]))
	for _ in range(ctx.scale(900, 12000)):
		malformed = rng.random() < 0.25
		dirs = gen_dirs(rng, malformed)
		lang = rng.choice(LANGS)
		cwd = rng.choice(cwds)
		if rng.random() < 0.85:
			m = rng.choice(MODULE_PATHS if rng.random() < 0.85 else ODD_MODULE_PATHS)
			real = real_output_filepath(dirs, lang, m, cwd)
			kind = 'malformed' if malformed else 'path'
			cases.append(({'kind': kind}, [f'path\t{hx(cwd)}\t{hx(lang)}\t{hxl(dirs)}\t{hx(m)}'], [real]))
		else:
			ms = rng.sample(MODULE_PATHS, rng.randint(1, 5))
			outs = [real_output_filepath(dirs, lang, m, cwd) for m in ms]
			real = str(all(o.startswith('ok ') for o in outs) and len(set(outs)) == len(outs))
			cases.append(({'kind': 'overlap'}, [f'overlap\t{hx(cwd)}\t{hx(lang)}\t{hxl(dirs)}\t{hxl(ms)}'], [real]))
	st = correspond_skip('paths', cases, classify=lambda d, r: [d['kind'], f"{d['kind']}→{r[0].split(' ')[0]}"])
	st.note = ('the real Runner.output_filepath / fetch_output_path (instance with only `config` set; no file is written) on module paths × '
		'output_dirs (prefix rules with and without trailing slash, glob rules with unescaped dots, absolute / dotted / doubled-slash directories, '
		'malformed entries, empty lists) × output_language × working directories; `overlap` = the decidable NoOverlap check against pairwise distinctness of the real paths')
	return st


# ---------------------------------------------------------------------------------------------
# stream writer: file/writer.py alone


def stream_writer(ctx: Ctx) -> Stream:
	"""`Writer(path).put(…)….flush()` replaces the file as a whole — the model's `World.write` (model line `wwrite`): sequences of
	writes of random lengths / contents (long then short, empty, non-ASCII, several `put`s) to a few paths, read back after each."""
	from rogw.tranp.file.writer import Writer
	rng = ctx.sub_rng('writer')
	base = os.path.realpath(ctx.tmpdir('tranp-c06-writer-'))
	cases = []
	alphabet = ['a', 'b', '\n', '}', 'é', 'あ', '\U0001F600', ' ', '\t', '/', '0']
	for ci in range(ctx.scale(40, 400)):
		paths = [os.path.join(base, f'c{ci}', *rng.choice([['x.h'], ['sub', 'x.h'], ['sub', 'deep', 'y.hpp'], ['z']])) for _ in range(rng.randint(1, 2))]
		ops: list[str] = []
		real: list[str] = []
		prev: dict[str, int] = {}
		for _ in range(rng.randint(2, 6)):
			p = rng.choice(paths)
			n = rng.choice([0, 1, 3, 20, 200, max(prev.get(p, 0) - rng.randint(1, 5), 0), prev.get(p, 0) + rng.randint(1, 9)])
			pieces = [''.join(rng.choice(alphabet) for _ in range(k)) for k in _split_len(rng, n)]
			try:
				w = Writer(p)
				for piece in pieces:
					w.put(piece)
				w.flush()
				with open(p, 'rb') as f:
					out = f'ok {hx(f.read())}'
			except Exception as e:  # noqa: BLE001 - the outcome class is the observation
				out = common.exc_enum(e)
			text = ''.join(pieces)
			prev[p] = len(text)
			ops.append(f'wwrite\t{hx(p)}\t{hx(text)}')
			real.append(out)
		kinds = []
		cases.append(({'kind': 'writer', 'n': len(ops)}, ops, real))
	shutil.rmtree(base, ignore_errors=True)
	st = correspond_skip('writer', cases, classify=lambda d, r: [f"writes:{d['n']}"])
	st.note = 'the real Writer (put … flush) on temporary paths, shorter-after-longer contents, empty and non-ASCII texts, nested new directories; read back as bytes after every flush'
	return st


def _split_len(rng: random.Random, n: int) -> list[int]:
	if n == 0 or rng.random() < 0.5:
		return [n]
	k = rng.randint(0, n)
	return [k, n - k]


# ---------------------------------------------------------------------------------------------
# stream metafile: which file module_meta_factory hashes


class _PathAsHash:
	"""A source loader whose `hash` of a file is the file path itself: the meta then shows which file was looked up."""

	def hash(self, filepath: str) -> str:
		return filepath


META_NAMES = ['shape', 'shape_utils', 'xshape', 'm1', 'm10', 'app.m1', 'app.m10', 'lib.app.m1', 'app.sub.m1', 'a', 'a.a', 'app', 'app.x', 'x', 'other']


def stream_metafile(ctx: Ctx) -> Stream:
	from rogw.tranp.module.types import ModulePath, ModulePaths
	from rogw.tranp.providers.module import module_meta_factory
	rng = ctx.sub_rng('metafile')
	cases = []
	for _ in range(ctx.scale(300, 3000)):
		n = rng.randint(0, 5)
		names = [rng.choice(META_NAMES) for _ in range(n)] if rng.random() < 0.3 else rng.sample(META_NAMES, n)
		mps = [(nm, rng.choice(['py', 'py', 'pyi', 'h'])) for nm in names]
		m = rng.choice(names) if names and rng.random() < 0.8 else rng.choice(META_NAMES)
		try:
			meta = module_meta_factory(ModulePaths([ModulePath(a, language=b) for a, b in mps]), _PathAsHash())(m)
			real = f"ok {hx(meta['hash'])}" if meta.get('path') == m else f'wrong-path:{meta}'
		except Exception as e:  # noqa: BLE001 - the outcome class is the observation
			real = common.exc_enum(e)
		kind = 'absent' if m not in names else ('duplicate' if names.count(m) > 1 else ('contained' if any(m != x and m in x for x in names) else 'plain'))
		cases.append(({'kind': kind}, [f"metafile\t{hxl([f'{a}:{b}' for a, b in mps])}\t{hx(m)}"], [real]))
	st = correspond_skip('metafile', cases, classify=lambda d, r: [d['kind'], f"{d['kind']}→{r[0].split(' ')[0]}"])
	st.note = ('the real module_meta_factory(module_paths, sources)(module_path) with a source loader whose hash of a file is its path, on module lists with '
		'duplicates, absent modules and names contained in one another (prefix / suffix / infix / sub-package)')
	return st


# ---------------------------------------------------------------------------------------------
# temporary projects


TYPES = [('int', '1'), ('str', "'x'"), ('float', '1.5'), ('bool', 'True')]
N_VARIANTS = 24


LONG_A = 'app.subsystem_alpha_components.implementation_details_layer.generated_adapters.module_with_a_rather_long_descriptive_name'
LONG_B = 'lib.shared_infrastructure_services.persistence_and_serialisation.long_named_value_objects'


def graph_shapes() -> dict[str, dict[str, list[str]]]:
	"""module (dotted, with package) ↦ direct imports; every module is a target. Two packages so that prefix rules can be exercised."""
	return {
		'chain2': {'app.a': ['app.b'], 'app.b': []},
		'chain3': {'app.a': ['app.b'], 'app.b': ['app.c'], 'app.c': []},
		'diamond': {'app.a': ['app.b', 'app.c'], 'app.b': ['app.d'], 'app.c': ['app.d'], 'app.d': []},
		'vee': {'app.a': ['app.c'], 'app.b': ['app.c'], 'app.c': []},
		'subpkg': {'app.x': ['app.sub.x'], 'app.sub.x': ['app.sub.y'], 'app.sub.y': []},
		'twopkg': {'app.x': ['lib.x'], 'lib.x': [], 'lib.sub.x': ['lib.x'], 'app.sub.x': []},
		# no imports at all: every output depends on its own source only
		'flat3': {'app.a': [], 'app.b': [], 'lib.a': []},
		'flatsub': {'app.x': [], 'app.sub.x': [], 'lib.x': [], 'lib.sub.x': []},
		'nestpkg': {'app.x': [], 'lib.app.x': [], 'lib.y': []},
		# dotted paths contained in one another (prefix, suffix, infix, sub-package), the longer ones listed first (MODULE_ORDER)
		'subnames': {'app.shape_utils': [], 'app.xshape': [], 'app.shape': [], 'app.other': []},
		'subnames_pkg': {'lib.app.m1': [], 'app.m10': ['app.m1'], 'app.sub.m1': [], 'app.m1': [], 'app.m': []},
		# modules whose source does not mention their own name (is_anon): empty `__init__.py` files in two packages and two copies
		# of one file — BYTE-IDENTICAL sources (equal md5) at different module paths, regenerated by the same run
		'twins': {'app.p.__init__': [], 'app.p.same': [], 'app.u': [], 'lib.q.__init__': [], 'lib.q.same': []},
		# the repository's own example package, copied into the project (sources byte-identical to REPO/example): the tranp root
		# holds a committed output (example/json.h) with the header of exactly this source — an existence check / header read-back
		# that is resolved against the tranp root instead of the working directory finds that twin
		'twinroot': {'example.json': []},		# (example/FW/string.py is copied as well but — as in example/config.yml — not a target)
		# dotted module paths of 70–120 characters (deep packages, long names): the header line grows with the path
		'longpath': {LONG_A: [LONG_B], LONG_B: [], 'app.s': []},
		'twins3': {'app.__init__': [], 'app.same': [], 'app.sub.__init__': [], 'app.sub.same': [], 'lib.same': []},
	}


# explicit module list order (= order of input_globs, one file per entry); other shapes use one recursive glob per package
MODULE_ORDER: dict[str, list[str]] = {
	'twinroot': ['example.json'],
	'subnames': ['app.shape_utils', 'app.xshape', 'app.shape', 'app.other'],
	'subnames_pkg': ['lib.app.m1', 'app.m10', 'app.sub.m1', 'app.m1', 'app.m'],
}


def ident(module: str) -> str:
	return module.replace('.', '_')


def is_anon(module: str) -> bool:
	"""Modules whose generated source depends on the variant only (never on the module's name): two of them with variants equal
	modulo 4 have byte-identical sources."""
	return module.rsplit('.', 1)[-1] in ('__init__', 'same')


def anon_source(module: str, variant: int) -> str:
	ty, lit = TYPES[variant % 4]
	if module.endswith('__init__'):
		return '' if variant % 4 == 0 else f'v = {lit}\n'
	return '\n'.join([f'def val() -> {ty}:', f'\treturn {lit}', '', f'v = {lit}', ''])


def module_source(name: str, imports: list[str], variant: int) -> str:
	"""A small typed module (same family as the C05 generator): `variant` selects the declared return type of `g_<name>`, where
	the module-level variable `v_<name>` takes its inferred type from, and what the local `z` in `h_<name>` is assigned from."""
	if is_anon(name):
		return anon_source(name, variant)
	ty, lit = TYPES[variant % 4]
	var_mode = (variant // 4) % 3
	loc_mode = (variant // 12) % 2
	n = ident(name)
	ids = [ident(d) for d in imports]
	lines = [f'from {d} import g_{i}, v_{i}' for d, i in zip(imports, ids)]
	lines += ['', f'def g_{n}() -> {ty}:', f'\treturn {lit}', '']
	if ids and var_mode == 1:
		lines.append(f'v_{n} = g_{ids[0]}()')
	elif ids and var_mode == 2:
		lines.append(f'v_{n} = v_{ids[-1]}')
	else:
		lines.append(f'v_{n} = {lit}')
	lines += ['', f'def h_{n}() -> int:']
	if ids and loc_mode == 1:
		lines.append(f'\tz = v_{ids[0]}')
	else:
		lines.append(f'\tz = v_{n}')
	lines += ['\treturn 0', '']
	return '\n'.join(lines)


def with_extras(source: str, name: str, extras: int) -> str:
	"""`extras` further functions after the module's fixed part (an edit can make the module — and its output — longer or shorter)."""
	n = 'anon' if is_anon(name) else ident(name)
	return source + ''.join(f"\ndef x{i}_{n}(a: int) -> int:\n\tb = a + {i}\n\treturn b * {i + 2}\n" for i in range(extras))


def closure(graph: dict[str, list[str]], m: str) -> set[str]:
	out: set[str] = set()
	stack = list(graph[m])
	while stack:
		d = stack.pop()
		if d not in out:
			out.add(d)
			stack.extend(graph[d])
	return out


SAFE_DIRS = ['out', './out', 'out/', 'out2', 'out/sub', './', 'out/../out3', 'o//p', 'out/./q', 'out/app', 'out/lib', '.']
SAFE_CONDS = ['app/', 'lib/', 'app/sub/', 'lib/sub/', 'app/*', 'lib/*', 'app/sub/*', '*', 'app/s', 'l', 'a.p/*', 'app/.*', '*/x.h', 'app/x.h', 'lib/x', 'zzz/', 'app/a*', '*a.h']


def gen_safe_dirs(rng: random.Random, simple: bool = False) -> list[str]:
	if simple or rng.random() < 0.3:
		return [rng.choice(['./out', 'out', './'])]
	n = rng.choice([0, 1, 1, 2, 3])
	return [*(f'{rng.choice(SAFE_CONDS)}:{rng.choice(SAFE_DIRS)}' for _ in range(n)), rng.choice(SAFE_DIRS)]


_TEMPLATE: dict[str, str] = {}


class TemplateRunFails(Exception):
	"""`run -f` over a one-module project with an empty cache fails: an outcome of the real code (a finding), not an infrastructure failure."""


def cache_template(ctx: Ctx) -> str:
	"""A `.cache` directory holding what a first run leaves for the library modules (copied into every new project: saves the
	~1 s library parse per case; the library sources never change during a check run)."""
	if 'dir' not in _TEMPLATE:
		with ctx.timed('cache_template'):
			root = os.path.realpath(ctx.tmpdir('tranp-c06-tpl-'))
			proj = tproj.Project(root, package='', input_globs=['app/**/*.py'])
			proj.write_module('app.z0', 'def g_z0() -> int:\n\treturn 1\n')
			res = proj.run(force=True)
			if not res.ok:
				raise TemplateRunFails(res.error, res.message)
			for rel in proj.cache_files():
				if rel.startswith('app/'):
					os.unlink(os.path.join(proj.cache_dir, rel))
			_TEMPLATE['dir'] = os.path.join(root, '.cache')
	return _TEMPLATE['dir']


def first_line(b: bytes) -> str:
	return b.split(b'\n', 1)[0].decode('utf-8', 'replace')


class TemplateProject(tproj.Project):
	"""A project whose configuration lists a project template directory BEFORE the shipped one (config `template_dirs`)."""
	template_dir = ''

	def write_config(self) -> None:
		super().write_config()
		if not self.template_dir:
			return
		path = os.path.join(self.root, 'config.yml')
		with open(path, encoding='utf-8') as f:
			text = f.read()
		stock = f'  - {tproj.REPO}/data/cpp/template\n'
		if stock not in text:
			raise common.InfraError('C06: template_dirs block of tproj.CONFIG_TEMPLATE not recognised')
		with open(path, 'w', encoding='utf-8') as f:
			f.write(text.replace(stock, f'  - {self.template_dir}\n{stock}', 1))


_TPL: dict[str, str] = {}


def depends_template_dir(ctx: Ctx) -> str:
	"""A template directory (outside every project) that overrides literal/string.j2 with the stock text plus the documented
	`emit_depends('<string>')`: a module with a string literal gets `#include <string>`, others do not."""
	if 'dir' not in _TPL:
		d = os.path.realpath(ctx.tmpdir('tranp-c06-tpldir-'))
		with open(os.path.join(common.REPO, 'data/cpp/template/literal/string.j2'), encoding='utf-8') as f:
			stock = f.read()
		os.makedirs(os.path.join(d, 'literal'))
		with open(os.path.join(d, 'literal', 'string.j2'), 'w', encoding='utf-8') as f:
			f.write("{{- emit_depends('<string>') -}}\n" + stock)
		_TPL['dir'] = d
	return _TPL['dir']


class RealCase:
	"""A temporary project and the op interpreter shared by the correspondence stream and the searches."""

	def __init__(self, ctx: Ctx, shape: str, variants: dict[str, int], dirs: list[str], force_cfg: bool | None = None, lang: str = 'cpp:h', seed_cache: bool = True,
			templates: bool = False) -> None:
		self.ctx = ctx
		self.shape = shape
		self.graph = graph_shapes()[shape]
		self.variants = dict(variants)
		self.extras: dict[str, int] = {}
		self.packages = sorted({m.split('.')[0] for m in self.graph})
		root = os.path.realpath(ctx.tmpdir('tranp-c06-'))
		globs = [m.replace('.', '/') + '.py' for m in MODULE_ORDER[shape]] if shape in MODULE_ORDER else [f'{p}/**/*.py' for p in self.packages]
		self.proj = TemplateProject(root, package='', output_dirs=dirs, output_language=lang, input_globs=globs, config_extra=self.force_line(force_cfg))
		if templates:
			self.proj.template_dir = depends_template_dir(ctx)
			self.proj.write_config()
		self.force_cfg = force_cfg
		self.vers = {'app': versions()[0], 'py2cpp': versions()[1]}
		for m in self.graph:
			self.proj.write_module(m, self.source(m))
		if shape == 'twinroot':
			with open(os.path.join(common.REPO, 'example', 'FW', 'string.py'), encoding='utf-8') as f:
				self.proj.write_module('example.FW.string', f.read())
		if seed_cache:
			shutil.copytree(cache_template(ctx), os.path.join(root, '.cache'), dirs_exist_ok=True, copy_function=shutil.copy2)
		# when each output was last written, as {module: source} snapshot (for the diagnosis of stale outputs)
		self.written_with: dict[str, dict[str, str]] = {}
		self.foreign: set[str] = set()

	@staticmethod
	def force_line(force_cfg: bool | None) -> str:
		return '' if force_cfg is None else f"force: {'true' if force_cfg else 'false'}\n"

	def adopt(self, proj: tproj.Project) -> 'RealCase':
		"""The same case description over a clone of the project directory."""
		c = RealCase.__new__(RealCase)
		c.__dict__.update(self.__dict__)
		c.proj = proj
		proj.__class__ = self.proj.__class__		# tproj.Project.clone builds a plain Project: keep the template-aware write_config
		c.variants = dict(self.variants)
		c.vers = dict(self.vers)
		c.extras = dict(self.extras)
		c.written_with = {k: dict(v) for k, v in self.written_with.items()}
		c.foreign = set(self.foreign)
		return c

	def source(self, m: str) -> str:
		if self.shape == 'twinroot':
			# byte-identical copy of the repository's example package (variant 0), or the copy plus a trailing comment line
			with open(os.path.join(common.REPO, *m.split('.')) + '.py', encoding='utf-8') as f:
				text = f.read()
			return text if self.variants[m] % 4 == 0 else text + f'\n# edited {self.variants[m] % 4}\n'
		return with_extras(module_source(m, self.graph[m], self.variants[m]), m, self.extras.get(m, 0))

	def token(self, m: str) -> str:
		return hashlib.md5(self.source(m).encode('utf-8')).hexdigest()

	def module_order(self) -> list[str]:
		from rogw.tranp.module.includer import include_module_paths
		old = os.getcwd()
		os.chdir(self.proj.root)
		try:
			out: list[str] = []
			for g in self.proj.input_globs:
				out.extend(p.path for p in include_module_paths(g, []))
			return out
		finally:
			os.chdir(old)

	def real_path(self, m: str) -> str:
		return real_output_filepath(self.proj.output_dirs, self.proj.output_language, m, self.proj.root)

	def safe(self, dirs: list[str] | None = None) -> bool:
		return not self.unsafe_reason(dirs)

	def unsafe_reason(self, dirs: list[str] | None = None) -> str:
		"""'' if every module's real output path is absolute, lies inside the project directory and is not a source, the config or a
		cache file; else what the real `output_filepath` answered for the first offending module."""
		dirs = self.proj.output_dirs if dirs is None else dirs
		for m in self.graph:
			r = real_output_filepath(dirs, self.proj.output_language, m, self.proj.root)
			if not r.startswith('ok '):
				continue
			p = common.unhx(r[3:])
			if not os.path.isabs(p):
				return f'output_filepath({m}) = {p!r} is not an absolute path (cwd {self.proj.root}): existence check, header read-back and write may resolve it differently'
			rel = os.path.relpath(p, self.proj.root)
			if rel.startswith('..') or os.path.isabs(rel) or rel.startswith('.cache') or rel == 'config.yml' or rel.endswith('.py'):
				return f'output_filepath({m}) = {p!r} is outside the project directory {self.proj.root} (or a source / config / cache file)'
			# the file system itself (a file where a directory is needed: NotADirectoryError / IsADirectoryError) is not modelled:
			# output files carry a dot in their name, directories never do (e.g. the prefix rule 'app/x.h:out/' maps app.x to the FILE 'out')
			parts = rel.split(os.sep)
			if rel in ('.', '') or os.path.isdir(p) or '.' not in parts[-1] or any('.' in d for d in parts[:-1]):
				return f'output_filepath({m}) = {p!r} needs a file where a directory is (file-system conflicts are not generated)'
		return ''

	def prelude(self) -> list[str]:
		av, tv, tm = versions()
		force = 'none' if self.force_cfg is None else ('true' if self.force_cfg else 'false')
		lines = [f'init\t{hx(av)}\t{hx(tv)}\t{hx(tm)}\t{hx(self.proj.root)}\t{hx(self.proj.output_language)}\t{hxl(self.proj.output_dirs)}\t{force}']
		for m in self.module_order():
			lines.append(f'mod\t{hx(m)}\t{hx(self.token(m))}\t{hxl(self.graph[m])}')
		return lines

	def listing(self) -> str:
		files = self.proj.output_files()
		items = sorted((os.path.join(self.proj.root, rel), first_line(data)) for rel, data in files.items())
		return ','.join(f'{hx(p)}:{hx(l)}' for p, l in items)

	def observe(self, status: str, reads: list[str], writes: list[str]) -> str:
		return f'{status}|{hxl(reads)}|{hxl(writes)}|{self.listing()}'

	def run(self, force: bool) -> tuple[str, list[str], list[str], tproj.RunResult]:
		"""One real command-line run; (status, outputs read, outputs written, result)."""
		before = self.proj.output_mtimes()
		with patched_versions(self.vers['app'], self.vers['py2cpp']):
			res, events = run_observed(self.proj, force)
		status = 'ok' if res.ok else res.error
		reads = [p for k, p in events if k == 'r']
		writes = [p for k, p in events if k == 'w']
		after = self.proj.output_mtimes()
		changed = sorted(os.path.join(self.proj.root, rel) for rel, t in after.items() if before.get(rel) != t)
		if changed != sorted(set(writes)):
			status += f'!mtime-changes:{changed}!audit-writes:{sorted(set(writes))}'
		snapshot = {m: self.source(m) for m in self.graph}
		for p in writes:
			self.written_with[p] = snapshot
			self.foreign.discard(p)
		return status, reads, writes, res

	def apply(self, op: list[Any]) -> tuple[str, str]:
		"""Executes one op on the real project; returns (model op line, real observation)."""
		kind = op[0]
		if kind == 'edit':
			m, v = op[1], int(op[2])
			self.variants[m] = v
			self.proj.write_module(m, self.source(m))
			return f'edit\t{hx(m)}\t{hx(self.token(m))}', self.observe('ok', [], [])
		if kind == 'run':
			status, reads, writes, _ = self.run(bool(int(op[1])))
			return f'run\t{int(op[1])}', self.observe(status, reads, writes)
		if kind == 'rm':
			r = self.real_path(op[1])
			if r.startswith('ok ') and os.path.isfile(common.unhx(r[3:])):
				os.unlink(common.unhx(r[3:]))
			return f'rm\t{hx(op[1])}', self.observe('ok', [], [])
		if kind == 'setdirs':
			self.proj.output_dirs = list(op[1])
			self.proj.write_config()
			return f'setdirs\t{hxl(op[1])}', self.observe('ok', [], [])
		if kind == 'setforce':
			self.force_cfg = op[1]
			self.proj.config_extra = self.force_line(op[1])
			self.proj.write_config()
			return f"setforce\t{'none' if op[1] is None else ('true' if op[1] else 'false')}", self.observe('ok', [], [])
		if kind == 'resize':
			# the module gets `op[2]` extra functions: growing and shrinking edits (for the model an edit like any other)
			self.extras[op[1]] = int(op[2])
			self.proj.write_module(op[1], self.source(op[1]))
			return f'edit\t{hx(op[1])}\t{hx(self.token(op[1]))}', self.observe('ok', [], [])
		if kind == 'setver':
			self.vers[op[1]] = op[2]
			return f'setver\t{op[1]}\t{hx(op[2])}', self.observe('ok', [], [])
		if kind == 'put':
			r = self.real_path(op[1])
			if not r.startswith('ok '):
				return f'put\t{hx(op[1])}\t{hx(op[2])}', self.observe('ok', [], [])
			p = common.unhx(r[3:])
			os.makedirs(os.path.dirname(p), exist_ok=True)
			with open(p, 'wb') as f:
				f.write(op[2].encode('utf-8'))
			self.foreign.add(p)
			return f'put\t{hx(op[1])}\t{hx(op[2])}', self.observe('ok', [], [])
		raise AssertionError(op)

	def dispose(self) -> None:
		shutil.rmtree(self.proj.root, ignore_errors=True)


def run_observed(proj: tproj.Project, force: bool) -> tuple[tproj.RunResult, list[tuple[str, str]]]:
	"""tproj.Project.run with the audit hook watching the whole project directory: returns additionally the output files (neither
	sources, config nor cache) opened for reading / writing, in order."""
	from rogw.tranp.app.app import App
	from rogw.tranp.bin.transpile import Args, TranspileApp
	argv = ['-c', 'config.yml', *(['-f'] if force else [])]
	old = os.getcwd()
	os.chdir(proj.root)
	t0 = time.time()
	res = tproj.RunResult(True)
	picked: list[tuple[str, str]] = []
	try:
		with tproj.AUDIT.watch(proj.root) as events, contextlib.redirect_stdout(io.StringIO()):
			try:
				with tproj.run_budget():
					App(TranspileApp.definitions(Args(list(argv)))).run(TranspileApp.run)
			except tproj.RunBudgetExceeded:
				tproj.budget_hit(res, 'run_observed')
			except Exception as e:  # noqa: BLE001 - the outcome class is the observation
				res.ok = False
				res.error = common.exc_enum(root_cause(e))
				res.message = f'{type(e).__name__}: {e}'[:300]
				res.exc = e
			raw = list(events)
		cache = proj.cache_dir + os.sep
		for k, p in raw:
			if k not in ('r', 'w') or p.startswith(cache) or p.endswith('.py') or p == os.path.join(proj.root, 'config.yml'):
				continue
			picked.append((k, p))
	finally:
		os.chdir(old)
	res.wall = time.time() - t0
	return res, picked


VERSION_POOL = ['1.0.0', '1.0.1', '2.0.0', '0.9']

FOREIGN_CONTENTS = [
	'', 'int x;\n', '// @tranp.meta', '// @tranp.meta: {}\n', '// @tranp.meta: {"version":"1.0.0","module":{"hash":"h","path":"p"},"transpiler":{"version":"1.0.0","module":"m"}}',
	'// @tranp.meta: {"version":"0.9","module":{"hash":"h","path":"p"},"transpiler":{"version":"1.0.0","module":"m"}}\nold\n',
	'// @tranp.meta: {"module":1,"transpiler":2}\n', '/* no header */\n#pragma once\n',
]


def gen_colliding_dirs(rng: random.Random, graph: dict[str, list[str]]) -> list[str] | None:
	"""output_dirs built from the module set so that two modules are candidates for one path (prefix rule that strips the directory of
	one module onto the directory of another with the same file name; glob rule onto the directory prefix of a longer module path)."""
	fallback = rng.choice(['out', './out', 'out2', 'out/sub'])
	mods = list(graph)
	cands: list[list[str]] = []
	for a in mods:
		for b in mods:
			if a == b:
				continue
			da, na = a.rsplit('.', 1)
			db, nb = b.rsplit('.', 1)
			if na == nb and da != db:
				cands.append([f"{da.replace('.', '/')}/:{fallback}/{db.replace('.', '/')}", fallback])
			if b.endswith('.' + a):
				prefix = b[:-len(a) - 1].replace('.', '/')
				cands.append([f"{da.replace('.', '/')}/*:{fallback}/{prefix}", fallback])
	return rng.choice(cands) if cands else None


def gen_owner_switch(rng: random.Random, graph: dict[str, list[str]]) -> tuple[list[str], list[str]] | None:
	"""Two injective output_dirs settings under which one output path belongs to different modules: the prefix rule strips the
	directory of one of two same-named modules, then that of the other (`['alpha/:out/', 'rest/']` → `['beta/:out/', 'rest/']`)."""
	mods = list(graph)
	pairs = [(a, b) for a in mods for b in mods if a != b and a.rsplit('.', 1)[1] == b.rsplit('.', 1)[1]]
	if not pairs:
		return None
	a, b = rng.choice(pairs)
	out, rest = rng.choice([('out/', 'rest/'), ('out', 'rest'), ('./out', 'out2')])
	da, db = a.rsplit('.', 1)[0].replace('.', '/'), b.rsplit('.', 1)[0].replace('.', '/')
	return [f'{da}/:{out}', rest], [f'{db}/:{out}', rest]


def gen_variants(rng: random.Random, graph: dict[str, list[str]]) -> dict[str, int]:
	out = {m: rng.randrange(N_VARIANTS) for m in graph}
	if any(m.startswith('example.') for m in graph):
		out = {m: 0 for m in graph}		# the copies start byte-identical to the repository's files
	# name-free modules mostly start byte-identical (all `__init__.py` empty, all copies of `same.py` equal)
	if any(is_anon(m) for m in graph) and rng.random() < 0.8:
		v = rng.randrange(N_VARIANTS)
		for m in graph:
			if is_anon(m):
				out[m] = 0 if m.endswith('__init__') else v
	return out


def next_op(rng: random.Random, case: RealCase, with_put: bool = True, with_force: bool = True, with_dirs: bool = True, with_ver: bool = True) -> list[Any]:
	r = rng.random()
	mods = list(case.graph)
	if r < 0.08:
		m = rng.choice(mods)
		cur = case.extras.get(m, 0)
		return ['resize', m, rng.choice([k for k in (0, 1, 2, 4) if k != cur])]
	if r < 0.26:
		m = rng.choice(mods)
		v = rng.randrange(N_VARIANTS) if rng.random() < 0.7 else (case.variants[m] + 1) % 4 + 4 * (case.variants[m] // 4)
		if rng.random() < 0.1:
			v = case.variants[m]		# rewrite without change: new mtime, same hash
		twins = [o for o in mods if o != m and is_anon(o) and is_anon(m) and o.rsplit('.', 1)[-1] == m.rsplit('.', 1)[-1]]
		if twins and rng.random() < 0.5:
			v = case.variants[rng.choice(twins)]		# the module becomes a byte-identical copy of its twin
		return ['edit', m, v]
	if r < 0.48:
		return ['run', 0]
	if r < 0.61:
		return ['run', 1]
	if r < 0.70:
		return ['rm', rng.choice(mods)]
	if r < 0.80 and with_dirs:
		for _ in range(20):
			dirs = gen_safe_dirs(rng)
			if case.safe(dirs):
				return ['setdirs', dirs]
		return ['run', 0]
	if r < 0.86 and with_force:
		return ['setforce', rng.choice([None, True, False])]
	if r < 0.92 and with_ver:
		which = rng.choice(['app', 'app', 'py2cpp'])
		return ['setver', which, rng.choice([v for v in VERSION_POOL if v != case.vers[which]] + [case.vers[which]])]
	if with_put:
		m = rng.choice(mods)
		if rng.random() < 0.4:
			# the header of another module / an older source of this module
			other = rng.choice(mods)
			from rogw.tranp.data.meta.header import MetaHeader
			av, tv, tm = versions()
			h = MetaHeader({'hash': rng.choice([case.token(other), 'deadbeef']), 'path': rng.choice([other, m])}, {'version': tv, 'module': tm})
			return ['put', m, f'// {h.to_header_str()}' + rng.choice(['\n', '\nbody\n', ''])]
		return ['put', m, rng.choice(FOREIGN_CONTENTS)]
	return ['run', 0]


def case_runner(ctx: Ctx, rng: random.Random, n_ops: int, fixed: dict[str, Any] | None = None) -> tuple[dict[str, Any], list[str], list[str]]:
	if fixed is not None:
		shape, variants, dirs, force_cfg, lang = fixed['shape'], fixed['variants'], fixed['dirs'], fixed.get('force_cfg'), fixed.get('lang', 'cpp:h')
	else:
		shape = rng.choice(list(graph_shapes()))
		variants = gen_variants(rng, graph_shapes()[shape])
		force_cfg = rng.choice([None, None, None, True, False])
		lang = rng.choice(['cpp:h', 'cpp:h', 'h', 'cpp:hpp', 'a:b:c'])
		dirs = ['./out']
	case = RealCase(ctx, shape, variants, dirs, force_cfg, lang)
	if fixed is None:
		for _ in range(20):
			d = gen_safe_dirs(rng)
			if case.safe(d):
				case.proj.output_dirs = d
				case.proj.write_config()
				break
	elif not case.safe():
		raise Unconfined(f"corpus case {fixed.get('file')}: {case.unsafe_reason()}")
	lines = case.prelude()
	real = [case.observe('ok', [], [])] * len(lines)
	kinds: list[str] = []
	done: list[list[Any]] = []
	init_dirs = list(case.proj.output_dirs)
	ops = fixed['ops'] if fixed is not None else None
	for i in range(len(ops) if ops is not None else n_ops):
		op = ops[i] if ops is not None else next_op(rng, case)
		if op[0] == 'setdirs' and not case.safe(op[1]):
			raise Unconfined(f'output_dirs {op[1]}: {case.unsafe_reason(op[1])}')
		line, obs = case.apply(op)
		done.append(op)
		lines.append(line)
		real.append(obs)
		st = obs.split('|', 1)[0]
		kinds.append(f'{op[0]}{op[1]}:{st}' if op[0] == 'run' else op[0])
	desc = {'shape': shape, 'variants': variants, 'dirs': init_dirs, 'force_cfg': force_cfg, 'lang': lang, 'ops': done, 'kinds': kinds}
	case.dispose()
	return desc, lines, real


def stream_runner(ctx: Ctx) -> Stream:
	rng = ctx.sub_rng('runner')
	cases = []
	with ctx.timed('runner_real'):
		dl = new_deadline('stream runner', ctx.scale(240, 900))
		for rec in load_corpus():
			if rec.get('stream') == 'runner' or rec.get('search') in ('fixpoint', 'force'):
				try:
					cases.append(case_runner(ctx, rng, 0, fixed=rec))
				except common.InfraError:
					raise
				except Exception as e:  # noqa: BLE001 - rule 14
					crashed('runner-stream', e, {'search': 'fixpoint', **{k: rec[k] for k in ('shape', 'variants', 'dirs', 'ops') if k in rec}})
		n = ctx.scale(18, 160)
		for i in range(n):
			if dl.over(n - i):
				break
			try:
				cases.append(case_runner(ctx, rng, ctx.scale(9, 16)))
			except common.InfraError:
				raise
			except Exception as e:  # noqa: BLE001 - rule 14
				crashed('runner-stream', e, {'search': 'crash', 'stream': 'runner', 'seed': ctx.seed, 'case': i})
	st = correspond_skip('runner', cases, classify=lambda d, r: [d['shape'], f"dirs:{len(d['dirs'])}", *d['kinds']])
	st.note = ('real TranspileApp in temporary projects (two packages, chains / diamond / flat graphs); ops edit / run / run -f / rm-output / set-dirs '
		'(only configurations whose real output paths stay inside the project) / set-force / put (foreign or stale content at an output path); '
		'observation per op: status, outputs read during target selection, outputs written in order (audit hook, cross-checked with st_mtime_ns), '
		'first line of every output; the model receives the md5 of each source as its opaque source token')
	return st


# ---------------------------------------------------------------------------------------------
# search (real code only)


def matched_rule(dirs: list[str], lang: str, module: str, cwd: str) -> str:
	"""Which kind of entry of output_dirs decides the path of `module` — found with the real function alone: the first k for which
	the rules dirs[:k] (followed by a sentinel fallback) no longer send the module to the sentinel."""
	sentinel = 'zz-sentinel-zz'
	for k in range(1, len(dirs)):
		r = real_output_filepath([*dirs[:k], sentinel], lang, module, cwd)
		if not r.startswith('ok '):
			return 'error'
		if sentinel not in common.unhx(r[3:]):
			return 'glob' if dirs[k - 1].split(':')[0].endswith('*') and common.unhx(r[3:]).endswith(module.replace('.', '/') + '.' + (lang.split(':')[1] if len(lang.split(':')) == 2 else lang.split(':')[0])) else 'prefix'
	return 'fallback'


def collision_key(dirs: list[str], lang: str, mods: list[str], cwd: str) -> str:
	kinds = {matched_rule(dirs, lang, m, cwd) for m in mods}
	if 'prefix' in kinds:
		return 'output-path-collision-prefix'
	if 'glob' in kinds:
		return 'output-path-collision-glob'
	return 'output-path-collision-normalisation'


def diagnose_fixpoint(ctx: Ctx, case: RealCase, a: tuple[str, dict[str, bytes], list[str]], b: tuple[str, dict[str, bytes], list[str]]) -> tuple[str, str]:
	"""Names the failing input class of `plain run` ≠ `forced run` (a = plain, b = forced: status, files, files written)."""
	from rogw.tranp.data.meta.header import MetaHeader
	if a[0] != b[0]:
		return f'status-divergence:{a[0]}/{b[0]}', f'plain run ends with {a[0]}, forced run with {b[0]}'
	diff = sorted(k for k in set(a[1]) | set(b[1]) if a[1].get(k) != b[1].get(k))
	rel = diff[0]
	path = os.path.join(case.proj.root, rel)
	at = [m for m in case.graph if case.real_path(m) == f'ok {hx(path)}']
	detail = f'{rel}: ' + _first_diff(a[1].get(rel, b''), b[1].get(rel, b''))
	if len(at) >= 2:
		return collision_key(case.proj.output_dirs, case.proj.output_language, at, case.proj.root), f'modules {at} share the output path {rel}; {detail}'
	if not at:
		return 'orphan-output-differs', f'{rel} is the output path of no module; {detail}'
	m = at[0]
	if rel not in a[1]:
		return 'output-missing-after-plain-run', f'{rel} (module {m}) does not exist after the plain run'
	if path in a[2]:
		return 'output-depends-on-run-set', (f'module {m} was regenerated by both runs with different results: its output depends on which other modules '
			f'the same process transpiled (plain run wrote {len(a[2])} file(s), forced run {len(b[2])}); {detail}')
	# the header the stale file records, read with the harness' own parser (not with the code under test)
	line = first_line(a[1][rel])
	try:
		recorded = json.loads(line.split(f'{MetaHeader.Tag}: ', 1)[1])
	except Exception as e:  # noqa: BLE001
		return f'stale-output-unreadable-header:{type(e).__name__}', detail
	rec_path = (recorded.get('module') or {}).get('path')
	if rec_path != m:
		return 'stale-foreign-output', (f'{rel} is now the output path of module {m} but still holds the output of module {rec_path} '
			f'(the mapping changed); the plain run skipped it; {detail}')
	rec_versions = (recorded.get('version'), (recorded.get('transpiler') or {}).get('version'))
	if rec_versions != (case.vers['app'], case.vers['py2cpp']):
		return 'stale-version-output', (f'module {m}: {rel} records application / transpiler version {rec_versions}, the running program is '
			f"{(case.vers['app'], case.vers['py2cpp'])}; the plain run does not regenerate it; {detail}")
	own_unchanged = recorded.get('module') == {'hash': case.token(m), 'path': m}
	snap = case.written_with.get(path, {})
	if not own_unchanged and snap.get(m) != case.source(m):
		return 'stale-own-output', (f"module {m}: its own source was edited since {rel} was written (recorded hash {(recorded.get('module') or {}).get('hash')}, "
			f'md5 of the current source {case.token(m)}), yet the plain run does not regenerate it; {detail}')
	changed_deps = sorted(d for d in closure(case.graph, m) if snap.get(d) != case.source(d))
	if own_unchanged and changed_deps:
		return 'stale-dependant-output', (f"module {m}: own source hash unchanged, imported module(s) {changed_deps} edited since {rel} was written; "
			f'the plain run keeps the old output; {detail}')
	return 'stale-output-unexplained', f'module {m} (own source unchanged: {own_unchanged}, edited imports: {changed_deps}); {detail}'


def _first_diff(x: bytes, y: bytes) -> str:
	la, lb = x.decode('utf-8', 'replace').split('\n'), y.decode('utf-8', 'replace').split('\n')
	for p, q in zip(la, lb):
		if p != q:
			return f'{p.strip()[:120]!r} vs {q.strip()[:120]!r}'
	return f'{len(la)} vs {len(lb)} lines'


def header_wrong(case: RealCase, files: dict[str, bytes], only_paths: list[str] | None = None) -> tuple[str, str]:
	"""The header a run writes into the output of a module is the header of THAT module under the versions in force (state
	sentence of the property: source hash, module path, transpiler and application version) — checked with the harness' own reading
	of the first line against the md5 of the module's current source, its dotted path and the version constants the run was given,
	for modules that do not share their output path. `only_paths`: absolute paths to look at (the files a plain run wrote).
	Returns (finding key, description) or ('', '')."""
	from rogw.tranp.data.meta.header import MetaHeader
	by_path: dict[str, list[str]] = {}
	for m in case.graph:
		by_path.setdefault(case.real_path(m), []).append(m)
	tm = versions()[2]
	for r, ms in by_path.items():
		if len(ms) != 1 or not r.startswith('ok '):
			continue
		if only_paths is not None and common.unhx(r[3:]) not in only_paths:
			continue
		rel = os.path.relpath(common.unhx(r[3:]), case.proj.root)
		if rel not in files:
			continue
		try:
			recorded = json.loads(first_line(files[rel]).split(f'{MetaHeader.Tag}: ', 1)[1])
			if not isinstance(recorded, dict):
				raise ValueError('not an object')
		except Exception as e:  # noqa: BLE001
			return 'header-hash-wrong', f'{rel} has no readable header ({type(e).__name__})'
		if recorded.get('module') != {'hash': case.token(ms[0]), 'path': ms[0]}:
			return 'header-hash-wrong', f"{rel} records module {recorded.get('module')}, module {ms[0]} has source md5 {case.token(ms[0])}"
		expected = {'version': case.vers['app'], 'transpiler': {'version': case.vers['py2cpp'], 'module': tm}}
		got = {'version': recorded.get('version'), 'transpiler': recorded.get('transpiler')}
		if got != expected:
			return 'header-version-wrong', (f"{rel} (module {ms[0]}) records application version {got['version']!r} and transpiler {got['transpiler']!r}; the run was made by "
				f"application version {case.vers['app']!r} with transpiler version {case.vers['py2cpp']!r} ({tm})")
	return '', ''


def probe_fixpoint(ctx: Ctx, case: RealCase, again: list[str] | None = None) -> tuple[tuple[str, dict[str, bytes], list[str]], tuple[str, dict[str, bytes], list[str]]]:
	"""The law at the current project state: a plain and a forced run, each on its own clone of the whole state (incl. caches).
	`again` receives what a second plain run right after the first one writes (must be nothing: no regeneration is needed)."""
	out = []
	for force in (False, True):
		clone = case.adopt(case.proj.clone(os.path.realpath(ctx.tmpdir('tranp-c06-probe-'))))
		try:
			status, _, writes, _ = clone.run(force)
			files = clone.proj.output_files()
			if not force and again is not None and status == 'ok':
				st2, _, w2, _ = clone.run(False)
				again.extend([os.path.relpath(p, clone.proj.root) for p in w2] if st2 == 'ok' else [f'second run: {st2}'])
				files = files if not w2 else files		# the comparison uses the state after the first run
		except Exception as e:  # noqa: BLE001 - rule 14: an exception of the real code inside the oracle is an outcome
			status, writes, files = f'oracle-exception:{common.exc_enum(e)}', [], {}
		# paths relative to the clone are comparable; rewrite written paths to the case's root
		out.append((status, files, [os.path.join(case.proj.root, os.path.relpath(p, clone.proj.root)) for p in writes]))
		clone.dispose()
	return out[0], out[1]


def fresh_forced(ctx: Ctx, case: RealCase) -> tuple[str, dict[str, bytes]]:
	"""What a forced run WOULD WRITE for the current sources and settings: the same project state (sources, config, caches) with
	every output file removed first, then `run -f`."""
	clone = case.adopt(case.proj.clone(os.path.realpath(ctx.tmpdir('tranp-c06-fresh-'))))
	try:
		for rel in clone.proj.output_files():
			os.unlink(os.path.join(clone.proj.root, rel))
		status = clone.run(True)[0]
		files = clone.proj.output_files()
	except Exception as e:  # noqa: BLE001 - rule 14
		status, files = f'oracle-exception:{common.exc_enum(e)}', {}
	clone.dispose()
	return status, files


def cold_forced(ctx: Ctx, case: RealCase) -> dict[str, bytes]:
	clone = case.adopt(case.proj.clone(os.path.realpath(ctx.tmpdir('tranp-c06-cold-'))))
	clone.proj.clear_cache()
	shutil.copytree(cache_template(ctx), os.path.join(clone.proj.root, '.cache'), dirs_exist_ok=True, copy_function=shutil.copy2)
	clone.run(True)
	files = clone.proj.output_files()
	clone.dispose()
	return files


def fixpoint_history(ctx: Ctx, rng: random.Random, res: SearchResult, hist: Counter[str], seen: set[str], plan: dict[str, Any] | None,
		flat: bool, n_ops: int, budget: list[int]) -> None:
	if plan is not None:
		shape, variants, dirs, lang = plan['shape'], plan['variants'], plan['dirs'], plan.get('lang', 'cpp:h')
	else:
		shapes = [s for s, g in graph_shapes().items() if (not any(g.values())) == flat]
		shape = rng.choice(shapes)
		variants = gen_variants(rng, graph_shapes()[shape])
		dirs, lang = ['./out'], 'cpp:h'
	templates = bool(plan.get('templates')) if plan is not None else (rng.random() < 0.25)
	case = RealCase(ctx, shape, variants, dirs, None, lang, templates=templates)
	directed: list[list[Any]] = []
	if plan is None:
		r = rng.random()
		cd = gen_colliding_dirs(rng, case.graph) if r < 0.3 else None
		if cd is not None and case.safe(cd):
			case.proj.output_dirs = cd
			case.proj.write_config()
		elif r < 0.7:
			for _ in range(20):
				d = gen_safe_dirs(rng)
				if case.safe(d):
					case.proj.output_dirs = d
					case.proj.write_config()
					break
		switch = gen_owner_switch(rng, case.graph)
		if switch is not None and rng.random() < 0.25 and case.safe(switch[0]) and case.safe(switch[1]):
			# a path changes its owner while the old owner stays a listed module
			directed = [['setdirs', switch[0]], ['run', rng.choice([0, 1])], ['setdirs', switch[1]]]
		elif rng.random() < 0.15:
			# a run, then a release with another application / transpiler version
			which = rng.choice(['app', 'py2cpp'])
			directed = [['run', rng.choice([0, 1])], ['setver', which, rng.choice(VERSION_POOL[1:])]]
		elif not flat and rng.random() < 0.5:
			# a run, then a change of the declared type in a module that others import
			imported = sorted({d for ds in case.graph.values() for d in ds})
			d = rng.choice(imported)
			directed = [['run', rng.choice([0, 1])], ['edit', d, (case.variants[d] + rng.randint(1, 3)) % 4 + 4 * (case.variants[d] // 4)]]
	if not case.safe():
		case.dispose()
		why = case.unsafe_reason()
		raise Unconfined(f'fix-point plan {shape} {list(case.proj.output_dirs)}: {why}')
	init_dirs = list(case.proj.output_dirs)
	done: list[list[Any]] = []
	ops = plan['ops'] if plan is not None else None
	total = len(ops) if ops is not None else n_ops
	for i in range(total + 1):
		# probe at the end and (randomly) in between; never right after a forced run of the same state without change
		if i == total or (ops is None and done and done[-1][0] != 'run' and rng.random() < 0.45):
			if budget[0] <= 0 and plan is None:
				break
			budget[0] -= 4
			again: list[str] = []
			a, b = probe_fixpoint(ctx, case, again)
			res.cases += 1
			seen.add(json.dumps([shape, variants, init_dirs, done], sort_keys=True))
			hist[f"{shape}:{'equal' if (a[0], a[1]) == (b[0], b[1]) else 'differs'}"] += 1
			replay = {'search': 'fixpoint', 'shape': shape, 'variants': variants, 'dirs': init_dirs, 'lang': lang, 'templates': templates, 'ops': list(done)}
			if b[0] != 'ok':
				# generated modules are valid and the configuration is well-formed: a forced run has to succeed
				res.findings.append(Finding(key=f'run-fails:{b[0]}', what=f'forced run over a valid project fails with {b[0]} (plain run: {a[0]})', replay=replay))
				hist[f'finding:run-fails'] += 1
				break
			# every output equals what a forced run would write: reference = forced run of the same state into an emptied output tree
			fst, fresh = fresh_forced(ctx, case)
			off = sorted(rel for rel in fresh if b[1].get(rel) != fresh[rel]) if fst == 'ok' else []
			if fst != 'ok' or off:
				if fst != 'ok':
					key, why = f'run-fails:{fst}', f'forced run into an emptied output tree fails with {fst}'
				else:
					rel = off[0]
					on_disk = b[1].get(rel, b'')
					tail = len(on_disk) > len(fresh[rel]) and on_disk.startswith(fresh[rel])
					key = 'output-stale-tail' if tail else 'output-differs-from-fresh-forced'
					why = (f'{rel} after a forced run over the existing outputs ({len(on_disk)} bytes) differs from the forced run into an emptied output tree '
						f'({len(fresh[rel])} bytes)' + (f': the fresh text is a proper prefix, {len(on_disk) - len(fresh[rel])} bytes of an older, longer output are left behind it'
						if tail else f'; {_first_diff(on_disk, fresh[rel])}'))
				res.findings.append(Finding(key=key, what=why, replay=replay))
				hist[f'finding:{key}'] += 1
				break
			wkey, wrong = header_wrong(case, b[1])
			if wrong:
				res.findings.append(Finding(key=wkey, what=f'after a forced run {wrong}', replay=replay))
				hist[f'finding:{wkey}'] += 1
			elif a[0] == 'ok':
				# … and so is every file the PLAIN run wrote
				wkey, wrong = header_wrong(case, a[1], only_paths=a[2])
				if wrong:
					res.findings.append(Finding(key=wkey, what=f'after a plain run that regenerated it, {wrong}', replay=replay))
					hist[f'finding:{wkey}'] += 1
			if again and not wrong and (a[0], a[1]) == (b[0], b[1]):
				# files that need no regeneration are left untouched: right after a plain run nothing needs regeneration
				by_path: dict[str, list[str]] = {}
				for m in case.graph:
					by_path.setdefault(case.real_path(m), []).append(m)
				shared = sorted(ms for ms in by_path.values() if len(ms) > 1)
				key = collision_key(case.proj.output_dirs, case.proj.output_language, shared[0], case.proj.root) if shared else 'second-run-rewrites'
				res.findings.append(Finding(key=key, what=f'a second plain run right after a plain run rewrites {again}' +
					(f': modules {shared[0]} share an output path, each plain run rewrites the one whose header is not in the file' if shared else ''), replay=replay))
				hist[f'finding:{key}'] += 1
				break
			if (a[0], a[1]) != (b[0], b[1]):
				key, why = diagnose_fixpoint(ctx, case, a, b)
				cold = cold_forced(ctx, case)
				note = 'the forced run from an emptied (library-seeded) cache writes the same as the forced run from the current cache' if cold == b[1] else \
					'NOTE: the forced run from an emptied cache differs from the forced run over the current cache (symbol-cache staleness, property C05); the comparison above uses one cache state for both runs'
				res.findings.append(Finding(key=key, what=f'plain run ≠ forced run on the same project state: {why}; {note}',
					replay={'search': 'fixpoint', 'shape': shape, 'variants': variants, 'dirs': init_dirs, 'lang': lang, 'templates': templates, 'ops': list(done)}))
				hist[f'finding:{key}'] += 1
				break
			if wrong:
				break
		if i == total:
			break
		op = ops[i] if ops is not None else (directed.pop(0) if directed else next_op(rng, case, with_put=False, with_force=False))
		case.apply(op)
		done.append(op)
	if len(res.samples) < 2:
		res.samples.append({'shape': shape, 'variants': variants, 'dirs': init_dirs, 'ops': done})
	case.dispose()


DIRECTED_PLANS: list[dict[str, Any]] = [
	# a fresh copy of the repository's example package, outputs beside the sources (the shipped example/config.yml does the same),
	# no output yet: the plain run has to write every output INTO THE PROJECT (the tranp root holds example/json.h with an equal header)
	{'search': 'fixpoint', 'shape': 'twinroot', 'variants': {'example.json': 0}, 'dirs': ['./'], 'lang': 'cpp:h', 'ops': []},
	{'search': 'fixpoint', 'shape': 'twinroot', 'variants': {'example.json': 0}, 'dirs': ['./'], 'lang': 'cpp:h', 'ops': [['run', 0], ['rm', 'example.json']]},
	# module paths of 70–120 characters: a run, an edit of the long-named modules, a plain run has to regenerate them
	{'search': 'fixpoint', 'shape': 'longpath', 'variants': {LONG_A: 5, LONG_B: 2, 'app.s': 1}, 'dirs': ['./out'], 'lang': 'cpp:h',
		'ops': [['run', 0], ['edit', LONG_A, 6], ['edit', 'app.s', 2]]},
	# byte-identical sources at different module paths (two empty __init__.py, two copies of one file), regenerated by one run
	{'search': 'fixpoint', 'shape': 'twins', 'variants': {'app.p.__init__': 0, 'app.p.same': 5, 'app.u': 2, 'lib.q.__init__': 0, 'lib.q.same': 5}, 'dirs': ['./out'], 'lang': 'cpp:h',
		'ops': []},
	{'search': 'fixpoint', 'shape': 'twins3', 'variants': {'app.__init__': 0, 'app.same': 2, 'app.sub.__init__': 0, 'app.sub.same': 3, 'lib.same': 2}, 'dirs': ['out'], 'lang': 'cpp:h',
		'ops': [['run', 0], ['edit', 'app.sub.same', 2], ['edit', 'app.same', 6], ['edit', 'lib.same', 6]]},
	# releases that change the application version and the transpiler version independently of each other
	{'search': 'fixpoint', 'shape': 'flat3', 'variants': {'app.a': 0, 'app.b': 1, 'lib.a': 2}, 'dirs': ['./out'], 'lang': 'cpp:h',
		'ops': [['setver', 'py2cpp', '2.0.0'], ['run', 0], ['setver', 'app', '1.0.1'], ['run', 0], ['setver', 'py2cpp', '0.9']]},
	# a release with another TRANSPILER version after a run (the application version is the corpus case fixpoint-version-change.json)
	{'search': 'fixpoint', 'shape': 'chain2', 'variants': {'app.a': 0, 'app.b': 0}, 'dirs': ['./out'], 'lang': 'cpp:h',
		'ops': [['run', 0], ['setver', 'py2cpp', '1.0.1']]},
	# growing then shrinking edits: the regenerated output is shorter than the file on disk (an imported module and its dependant)
	{'search': 'fixpoint', 'shape': 'chain2', 'variants': {'app.a': 4, 'app.b': 1}, 'dirs': ['./out'], 'lang': 'cpp:h',
		'ops': [['resize', 'app.b', 3], ['run', 0], ['resize', 'app.b', 0], ['edit', 'app.b', 0], ['run', 0]]},
	{'search': 'fixpoint', 'shape': 'flat3', 'variants': {'app.a': 1, 'app.b': 2, 'lib.a': 3}, 'dirs': ['out'], 'lang': 'cpp:h',
		'ops': [['resize', 'lib.a', 2], ['run', 1], ['resize', 'lib.a', 0]]},
	# an output path changes its owner (same-named modules in two packages) between two plain runs; both mappings are injective
	{'search': 'fixpoint', 'shape': 'flat3', 'variants': {'app.a': 0, 'app.b': 1, 'lib.a': 2}, 'dirs': ['app/:out/', 'rest/'], 'lang': 'cpp:h',
		'ops': [['run', 0], ['setdirs', ['lib/:out/', 'rest/']]]},
	# project template with emit_depends: the first module (string literal) reports <string>; only the last module is stale
	{'search': 'fixpoint', 'shape': 'subnames', 'variants': {'app.shape_utils': 1, 'app.xshape': 0, 'app.shape': 2, 'app.other': 0}, 'dirs': ['./out'], 'lang': 'cpp:h',
		'templates': True, 'ops': [['run', 0], ['edit', 'app.other', 2]]},
	{'search': 'fixpoint', 'shape': 'subnames', 'variants': {'app.shape_utils': 0, 'app.xshape': 1, 'app.shape': 2, 'app.other': 3}, 'dirs': ['./out'], 'lang': 'cpp:h',
		'ops': [['run', 0], ['edit', 'app.shape', 3]]},
	{'search': 'fixpoint', 'shape': 'subnames_pkg', 'variants': {'lib.app.m1': 0, 'app.m10': 5, 'app.sub.m1': 2, 'app.m1': 3, 'app.m': 1}, 'dirs': ['out'], 'lang': 'cpp:h',
		'ops': [['run', 1], ['edit', 'app.m', 2], ['edit', 'app.sub.m1', 0]]},
]


def search_fixpoint(ctx: Ctx) -> SearchResult:
	rng = ctx.sub_rng('fixpoint')
	res = SearchResult('files_after(history + [run]) == files_after(history + [run -f]): both runs on clones of one project state (sources, outputs, caches)')
	hist: Counter[str] = Counter()
	seen: set[str] = set()
	budget = [ctx.scale(80, 1100)]
	with ctx.timed('search_fixpoint'):
		dl = new_deadline('search fixpoint', ctx.scale(300, 1200))

		def guarded(plan: dict[str, Any] | None, flat: bool, n_ops: int, i: int) -> None:
			try:
				fixpoint_history(ctx, rng, res, hist, seen, plan, flat, n_ops, budget)
			except common.InfraError:
				raise
			except Exception as e:  # noqa: BLE001 - rule 14: an exception of the real code inside the oracle is an outcome
				crashed('fixpoint-search', e, dict(plan) if plan is not None else {'search': 'crash', 'oracle': 'fixpoint', 'seed': ctx.seed, 'history': i})
				budget[0] -= 4

		for rec in load_corpus():
			if rec.get('search') == 'fixpoint':
				guarded(rec, False, 0, -1)
		# directed histories that every run executes: module names contained in one another, the shorter one edited after a run
		for plan in DIRECTED_PLANS:
			guarded(plan, False, 0, -1)
		i = 0
		while budget[0] > 0:
			if dl.over(max(budget[0] // 4, 1)):
				break
			# graphs without imports: every output depends on its own source only — here the law must hold exactly
			guarded(None, i % 2 == 0, ctx.scale(8, 14), i)
			i += 1
	res.distinct = len(seen)
	res.histogram = dict(hist)
	res.note = ('histories of edit / run / run -f / rm-output / set-dirs (configurations confined to the project) over import graphs and over graphs without imports; '
		'a difference is classified by the real code alone: shared output path (collision-prefix/glob/normalisation), own hash unchanged + edited import (stale-dependant-output), …')
	return res


def search_roundtrip(ctx: Ctx) -> SearchResult:
	from rogw.tranp.data.meta.header import MetaHeader
	rng = ctx.sub_rng('roundtrip')
	res = SearchResult("MetaHeader.try_from_content(pre + h.to_header_str() + '\\n' + body) == h (real __eq__, and equal to_json) on generated metas")
	hist: Counter[str] = Counter()
	seen: set[str] = set()
	nasty = [*NASTY, '\ud800', '\udfff']
	for rec in load_corpus():
		if rec.get('search') == 'roundtrip':
			pass
	for _ in range(ctx.scale(1500, 30000)):
		def txt(n: int = 4) -> str:
			return ''.join(rng.choice(nasty) for _ in range(rng.randint(0, n)))
		shape = rng.random()
		if shape < 0.75:
			m: Any = {'hash': rng.choice([hashlib.md5(txt().encode('utf-8', 'surrogatepass')).hexdigest(), txt()]), 'path': rng.choice(['app.a', txt()])}
			t: Any = {'version': rng.choice(['1.0.0', txt()]), 'module': rng.choice(['rogw.tranp.implements.cpp.transpiler.py2cpp.Py2Cpp', txt()])}
			ver: Any = rng.choice([None, '1.0.0', '2.0.0', '0.9', txt(), ''])
			kind = 'shaped'
		else:
			m, t, ver = gen_json(rng, 3), gen_json(rng, 2), gen_version(rng)
			kind = 'generic'
		pre = rng.choice(['', '// ', '/* ', '# ', '\n// ', txt(3).replace(MetaHeader.Tag, '@tranp_meta')])
		if MetaHeader.Tag in pre:
			pre = '// '
		body = rng.choice(['', '#pragma once\n', txt(6), '}\n', '// @tranp.meta: {}\n', 'int f() { return 1; }\n'])
		res.cases += 1
		hist[kind] += 1
		outcome = 'ok'
		try:
			h = MetaHeader(m, t, ver)
			content = pre + h.to_header_str() + '\n' + body
			seen.add(hashlib.sha1(content.encode('utf-8', 'surrogatepass')).hexdigest())
			h2 = MetaHeader.try_from_content(content)
			if h2 is None:
				outcome = 'none'
			elif json.dumps(h2.app_version) != json.dumps(h.app_version):
				# compared as JSON text: a str holding a high and a low surrogate side by side (not valid Unicode, cannot come from a
				# decoded file) is printed like the single non-BMP character and read back as that character
				outcome = 'version-differs'
			elif not (h2 == h) or h2.to_json() != h.to_json():
				outcome = 'differs'
		except Exception as e:  # noqa: BLE001 - rule 14
			outcome = common.exc_enum(e)
		if outcome != 'ok':
			res.findings.append(Finding(key=f'header-roundtrip:{outcome}', what=f'header of module meta {m!r} is not read back ({outcome})',
				replay={'search': 'roundtrip', 'ascii_json': json.dumps({'module': m, 'transpiler': t, 'version': ver, 'pre': pre, 'body': body})}))
			hist[f'finding:{outcome}'] += 1
	# the documented edge (not a finding: the template always ends the header line): header as the last line without line break
	try:
		MetaHeader.try_from_content('// ' + MetaHeader({'hash': 'h', 'path': 'p'}, {'version': '1', 'module': 'm'}).to_header_str())
		hist['edge:no-newline-ok'] += 1
	except Exception as e:  # noqa: BLE001
		hist[f'edge:no-newline-{common.exc_enum(e)}'] += 1
	res.distinct = len(seen)
	res.histogram = dict(hist)
	res.note = 'strings with quotes, backslashes, braces, the tag, control / non-ASCII / non-BMP characters and lone surrogates; prefixes never contain the tag; bodies may'
	return res


def expected_output_path(dirs: list[str], lang: str, module: str, cwd: str) -> tuple[str, str] | None:
	"""The documented meaning of output_dirs ('{input dir}/*:{output dir}' keeps the path below the output directory,
	'{input dir}/:{output dir}' replaces the leading input directory, the last entry is the fallback), written independently of
	bin/transpile.py. Returns (absolute path, deciding rule kind), or None outside the domain in which this reading is exact
	(a glob condition must be `<literal directory>/*` without dots or further stars; entries must be `condition:directory`)."""
	import posixpath
	parts = lang.split(':')
	ext = parts[1] if len(parts) == 2 else parts[0]
	filepath = module.replace('.', '/') + '.' + ext
	if not dirs:
		return None
	chosen: tuple[str, str, str] | None = None
	for entry in dirs[:-1]:
		if entry.count(':') != 1:
			return None
		cond, out = entry.split(':')
		if cond.endswith('*'):
			stem = cond[:-1]
			if '*' in stem or '.' in stem or not stem.endswith('/') or not all(c.isalnum() or c in '_/-' for c in stem):
				return None
			if filepath.startswith(stem) and len(filepath) > len(stem):
				chosen = (out, filepath, 'glob')
				break
			continue
		if '*' in cond:
			continue		# a star inside a prefix condition never occurs in a file path
		if filepath.startswith(cond):
			chosen = (out, filepath[len(cond):], 'prefix')
			break
	if chosen is None:
		chosen = (dirs[-1], filepath, 'fallback')
	return posixpath.normpath(posixpath.join(cwd, posixpath.join(chosen[0], chosen[1]))), chosen[2]


def search_paths(ctx: Ctx) -> SearchResult:
	rng = ctx.sub_rng('paths-inj')
	res = SearchResult('distinct module paths never share an output path: real Runner.output_filepath on generated module sets × output_dirs (no file is written)')
	hist: Counter[str] = Counter()
	seen: set[str] = set()
	base = os.path.realpath(ctx.tmpdir('tranp-c06-inj-'))
	plans: list[tuple[list[str], str, list[str]]] = []
	for rec in load_corpus():
		if rec.get('search') == 'paths':
			plans.append((rec['dirs'], rec['lang'], rec['modules']))
	for _ in range(ctx.scale(700, 12000)):
		plans.append((gen_dirs(rng, malformed=False), rng.choice(['cpp:h', 'cpp:h', 'h', 'cpp:hpp']), rng.sample(MODULE_PATHS, rng.randint(2, 6))))
	# the shipped configuration: fallback only
	plans.append((['./'], 'cpp:h', list(MODULE_PATHS)))
	for dirs, lang, mods in plans:
		res.cases += 1
		seen.add(json.dumps([dirs, lang, sorted(mods)]))
		outs = {m: real_output_filepath(dirs, lang, m, base) for m in mods}
		bad = sorted({o for o in outs.values() if not o.startswith('ok ')})
		if bad:
			# every generated entry is `condition:directory` over [A-Za-z0-9_/.*-]: the real function has no reason to raise
			hist['error'] += 1
			if sum(1 for f in res.findings if f.key.startswith('output-path-error')) < 3:
				res.findings.append(Finding(key=f'output-path-error:{bad[0]}', what=f'output_dirs {dirs}: output_filepath raises {bad} for a well-formed configuration',
					replay={'search': 'paths', 'dirs': dirs, 'lang': lang, 'modules': mods}))
			continue
		# `output_filepath` answers with an ABSOLUTE path: the existence check, the header read-back (source loader: cwd, then the
		# tranp root, then its library directory) and the Writer must all mean the same file
		rel = sorted(m for m, o in outs.items() if not os.path.isabs(common.unhx(o[3:])))
		if rel:
			hist['finding:output-path-not-absolute'] += 1
			if sum(1 for f in res.findings if f.key == 'output-path-not-absolute') < 3:
				res.findings.append(Finding(key='output-path-not-absolute', what=f'output_dirs {dirs}: output_filepath({rel[0]}) = {common.unhx(outs[rel[0]][3:])!r} is not absolute (cwd {base})',
					replay={'search': 'paths', 'dirs': dirs, 'lang': lang, 'modules': rel[:1]}))
			continue
		# each path against the documented meaning of the rules (an oracle that does not call the code under test)
		wrong = False
		for m, o in outs.items():
			exp = expected_output_path(dirs, lang, m, base)
			if exp is None:
				hist['reference:outside-domain'] += 1
				continue
			hist['reference:checked'] += 1
			if common.unhx(o[3:]) != exp[0]:
				wrong = True
				key = f'output-path-wrong:{exp[1]}'
				hist[f'finding:{key}'] += 1
				if sum(1 for f in res.findings if f.key == key) < 3:
					res.findings.append(Finding(key=key, what=f'output_dirs {dirs}: module {m} goes to {common.unhx(o[3:])}, the {exp[1]} rule says {exp[0]}',
						replay={'search': 'paths', 'dirs': dirs, 'lang': lang, 'modules': [m]}))
		if wrong:
			continue
		by_path: dict[str, list[str]] = {}
		for m, o in outs.items():
			by_path.setdefault(o, []).append(m)
		dup = sorted(ms for ms in by_path.values() if len(ms) > 1)
		hist['collision' if dup else 'injective'] += 1
		hist[f'rules:{len(dirs)}'] += 1
		if dup:
			key = collision_key(dirs, lang, dup[0], base)
			hist[f'finding:{key}'] += 1
			if sum(1 for f in res.findings if f.key == key) < 3:
				res.findings.append(Finding(key=key, what=f'output_dirs {dirs}: modules {dup[0]} map to the same output path {common.unhx(outs[dup[0][0]][3:])}',
					replay={'search': 'paths', 'dirs': dirs, 'lang': lang, 'modules': dup[0]}))
	res.distinct = len(seen)
	res.histogram = dict(hist)
	return res


def force_case(ctx: Ctx, shape: str, variants: dict[str, int], force_cfg: bool | None, pre_ops: list[list[Any]]) -> tuple[bool, str, dict[str, Any]]:
	"""`run -f` must invoke the Writer for every module. Returns (violated, description, replay)."""
	case = RealCase(ctx, shape, variants, ['./out'], force_cfg)
	replay = {'search': 'force', 'shape': shape, 'variants': variants, 'dirs': ['./out'], 'force_cfg': force_cfg, 'ops': [*pre_ops, ['run', 1]]}
	try:
		for op in pre_ops:
			case.apply(op)
		status, _, writes, _ = case.run(True)
		expected = sorted(os.path.normpath(os.path.join(case.proj.root, common.unhx(case.real_path(m)[3:]))) for m in case.graph)
		missing = [os.path.relpath(p, case.proj.root) for p in expected if p not in writes]
		if status != 'ok':
			return True, f'run -f fails with {status}', replay
		if missing:
			return True, f"config.yml says `force: {str(force_cfg).lower()}`; `run -f` rewrote {len(writes)} of {len(expected)} outputs (not rewritten: {missing})", replay
		return False, '', replay
	finally:
		case.dispose()


def search_fresh_outputs(ctx: Ctx) -> SearchResult:
	"""Outputs are checked for, read back and written at ONE place — the project: a plain run over a project without outputs writes
	every module's output where the documented rules put it (the harness' own `expected_output_path`, not the code under test),
	and writes it again after it was deleted. The projects are copies of the repository's example package (whose committed
	example/json.h under the tranp root carries the header of exactly that source) and generated ones, with relative output_dirs
	and a working directory that is not the tranp root."""
	rng = ctx.sub_rng('fresh-outputs')
	res = SearchResult('a plain run over a project without outputs writes every output into the project, and again after the output was deleted (relative output_dirs, cwd ≠ tranp root)')
	hist: Counter[str] = Counter()
	plans: list[tuple[str, dict[str, int], list[str]]] = [('twinroot', {'example.json': 0}, ['./']), ('twinroot', {'example.json': 0}, [rng.choice(['out', './out', 'example/:gen/', 'example/*:out2'])])]
	shape = rng.choice(['chain2', 'flat3', 'subpkg'])
	plans.append((shape, gen_variants(rng, graph_shapes()[shape]), [rng.choice(['./', 'out', './out'])]))
	for shape, variants, dirs in plans:
		replay = {'search': 'fresh-outputs', 'shape': shape, 'variants': variants, 'dirs': dirs}
		try:
			case = RealCase(ctx, shape, variants, dirs)
			expected: dict[str, str] = {}
			for m in case.graph:
				exp = expected_output_path(dirs, 'cpp:h', m, case.proj.root)
				if exp is not None:
					expected[m] = os.path.relpath(exp[0], case.proj.root)
			for step in ('first run', 'run after the outputs were deleted'):
				res.cases += 1
				status = case.run(False)[0]
				files = case.proj.output_files()
				missing = sorted(rel for rel in expected.values() if rel not in files)
				hist[f"{shape}:{'ok' if status == 'ok' and not missing else 'violated'}"] += 1
				if status != 'ok':
					res.findings.append(Finding(key=f'run-fails:{status}', what=f'plain run over a valid project without outputs ({step}) fails with {status}', replay=replay))
					break
				if missing:
					res.findings.append(Finding(key='output-not-written-into-project', what=f'{step}: the plain run ends with ok, yet {missing} do(es) not exist in the project (output_dirs {dirs}, cwd {case.proj.root}); '
						f'files there: {sorted(files)}', replay=replay))
					break
				for rel in expected.values():
					os.unlink(os.path.join(case.proj.root, rel))
			case.dispose()
		except common.InfraError:
			raise
		except Exception as e:  # noqa: BLE001 - rule 14
			crashed('fresh-outputs-search', e, replay)
	res.distinct = len(plans)
	res.histogram = dict(hist)
	return res


def search_force(ctx: Ctx) -> SearchResult:
	rng = ctx.sub_rng('force')
	res = SearchResult('`-f` regenerates every module whatever the config file says (config force key absent / true / false), after arbitrary earlier runs')
	hist: Counter[str] = Counter()
	seen: set[str] = set()
	plans: list[tuple[str, dict[str, int], bool | None, list[list[Any]]]] = []
	for rec in load_corpus():
		if rec.get('search') == 'force':
			plans.append((rec['shape'], rec['variants'], rec.get('force_cfg'), [op for op in rec['ops'][:-1]]))
	for i in range(ctx.scale(3, 24)):
		shape = rng.choice(list(graph_shapes()))
		pre: list[list[Any]] = [['run', rng.choice([0, 1])]] if rng.random() < 0.8 else []
		if rng.random() < 0.5:
			pre.append(['edit', rng.choice(list(graph_shapes()[shape])), rng.randrange(N_VARIANTS)])
		plans.append((shape, gen_variants(rng, graph_shapes()[shape]), [None, True, False][i % 3], pre))
	with ctx.timed('search_force'):
		for shape, variants, force_cfg, pre in plans:
			res.cases += 1
			seen.add(json.dumps([shape, variants, force_cfg, pre], sort_keys=True))
			try:
				bad, why, replay = force_case(ctx, shape, variants, force_cfg, pre)
			except common.InfraError:
				raise
			except Exception as e:  # noqa: BLE001 - rule 14
				bad, why, replay = True, f'oracle exception {common.exc_enum(e)}: {e}', {'search': 'force', 'shape': shape, 'variants': variants, 'force_cfg': force_cfg, 'ops': pre}
			hist[f'force_cfg={force_cfg}:{"violated" if bad else "ok"}'] += 1
			if bad:
				key = 'config-force-overrides-flag' if force_cfg is False and 'rewrote' in why else f'forced-run-incomplete:{force_cfg}'
				res.findings.append(Finding(key=key, what=why, replay=replay))
	res.distinct = len(seen)
	res.histogram = dict(hist)
	return res


# ---------------------------------------------------------------------------------------------


STATEMENTS = {
	'json_no_newline': 'to_json() (the json.dumps printer, all JSON values without floats) never contains a raw line break',
	'json_ends_with_brace': 'to_json() ends with the closing brace of its top-level object',
	'header_slice': "for every header, body and every prefix in which the tag does not start, the text try_from_content hands to from_json is exactly ' ' + to_json()",
	'header_rt': "try_from_content(pre + to_header_str() + '\\n' + body) == header, given that json.loads decodes this header's JSON (parser not modelled)",
	'header_rt_codec': "header_rt with json.loads := loadsCodec (leading white space skipped, then the JSON codec parser of Model/JsonCodec.lean; stream `loads` ties it to CPython's decoder): try_from_content(pre + to_header_str() + '\\n' + body) == header for EVERY header over the model's JSON values — no hypothesis on the decoder (the model's json.dumps printer is proved equal to the codec's printer, whose parser inverts it)",
	'loads_codec_sound': 'the decoder hypothesis LoadsSound of the history theorems (fixpoint_fresh_partial, version_bump, skip_implies_equal_header_inputs, …) holds for every environment whose json.loads is loadsCodec: all module lists, versions and sources',
	'header_rt_no_newline_counterexample': 'without a line break after the header line the slice loses the closing brace (find() = -1 is taken as an end bound by rfind): statement false',
	'generated_shapes': 'the statements of can_transpile / MetaHeader (__eq__, identity, to_json, __init__, from_json, to_header_str, try_from_content) / module_meta_factory / Py2Cpp.meta / try_load_meta_header / _run_impl / Config.force / Writer (__init__, put, flush, _flush), read from the source by the translator on every run, are the ones the model implements',
	'compared_fields_generated': 'the header the model builds has exactly the generated compared fields (version, module.hash, module.path, transpiler.version, transpiler.module) and they carry the current inputs',
	'skip_implies_equal_header_inputs': 'a skipped module has a parsable stored header with the identity of the current header; with md5 collision-free on the two texts and json.loads decoding them every generated compared field equals the current input',
	'compared_inputs_distinct': 'the five compared header fields are computed from five pairwise different sources read from the code on every run (Versions.app, sources.hash(filepath), module_path.path, Versions.py2cpp, to_fullyname(Py2Cpp)): the two version fields read two different constants',
	'shipped_versions_nonempty': 'the version constants read from data/version.py are non-empty (the VersNonEmpty hypothesis holds for the shipped release)',
	'paths_fallback_only_noOverlap': 'the path hypothesis of the history theorems (NoOverlap) holds for every fallback-only output_dirs and every duplicate-free list of clean module paths',
	'regen': 'target selection: a module is regenerated iff it is listed and (effective force ∨ no file ∨ no header ∨ recorded header identity ≠ current); order kept',
	'untouched': 'a path the Writer is not invoked with keeps bytes and mtime; the Writer is invoked only with paths of selected targets',
	'force_flag': "`-f` always forces (args.force or config.get('force', False)): run -f transpiles and writes every module, whatever the config file says",
	'force_config': 'without the flag a run is forced exactly when the config file says force: true',
	'fixpoint_counterexample': 'two modules, b imports c: run; edit c; a plain run keeps b.h, a forced run rewrites it — the fix-point law is false (header hashes own source only)',
	'fixpoint_fresh_partial': 'for ALL histories (edit/run/run -f/rm-output/set-dirs/set-force/set-version) and ANY transpiler body whose reads are bounded by deps (import closure): plain run = forced run on every path that is not stale (skipped although a module of deps was edited since the file was written: the known finding)',
	'fixpoint_fresh': 'corollary: if no skipped module has an edited dependency, the plain run leaves exactly the forced run\'s contents',
	'fixpoint_partial': 'corollary: with own-source-only outputs and collision-free md5 no path is ever stale, the law holds for all histories',
	'version_bump': 'after ANY history a release with a version (app or transpiler) not used before makes the plain run the forced run: every module is regenerated',
	'meta_lookup_exact': 'module_meta_factory on a module list without duplicate paths records the md5 of exactly the listed module\'s own file',
	'meta_lookup_first': 'with duplicate paths the first entry decides (list.index); an unlisted path raises ValueError',
	'meta_lookup_substring_counterexample': 'regression example: lookup by substring containment gives shape the entry (hash) of shape_utils listed before it',
	'fixpoint_shared_path_counterexample': 'fixpoint_partial without pairwise distinct paths is false: two modules at one path make every plain run rewrite the other module (targets are selected up front), unlike a forced run',
	'paths_iff': 'the decidable NoOverlap check ⇔ every listed module has a path and different list positions have different paths',
	'paths_counterexample': "prefix rule 'app/:out' + fallback 'out' sends app.x and x to the same file: path injectivity is false in general",
	'output_path_absolute': 'output_filepath answers with an ABSOLUTE path for every configuration and module path when the working directory is absolute: existence check, header read-back (the source loader resolves relative paths against cwd, then the tranp root, then its library directory) and the Writer mean one file (real regression class: searches `paths` output-path-not-absolute and `fresh-outputs`)',
	'paths_fallback_only': 'with a fallback-only output_dirs (the shipped configuration) distinct clean module paths never share an output path — for all module paths, directories, absolute cwds',
}


def build_streams(ctx: Ctx) -> list[Stream]:
	return [stream_strprims(ctx), stream_header(ctx), stream_loads(ctx), stream_paths(ctx), stream_metafile(ctx), stream_writer(ctx), stream_runner(ctx)]


def build_searches(ctx: Ctx) -> list[SearchResult]:
	out = [search_roundtrip(ctx), search_paths(ctx), search_force(ctx), search_fresh_outputs(ctx), search_fixpoint(ctx)]
	out.append(search_crashes(ctx))
	ctx.notes.extend(n for n in (d.note() for d in DEADLINES) if n)
	ctx.notes.extend(tproj.budget_notes())
	return out


def translate(ctx: Ctx) -> tuple[bool, str]:
	"""What the regeneration decision compares, read from the source on every run (translate/gen_runner_header.py →
	Generated/RunnerHeader.lean); a shape the translator does not recognise breaks the tie."""
	import sys
	with ctx.timed('translate'):
		try:
			from translate import gen_runner_header
			ctx.generated_tables.extend(gen_runner_header.generate())
			return True, ''
		except Exception as e:  # noqa: BLE001
			msg = f'{type(e).__name__}: {e}'
			ctx.notes.append(f'translator failed: {msg}')
			print(f'[{ctx.prop}] translator failed (the tie is broken): {msg}', file=sys.stderr)
			return False, msg


def run(ctx: Ctx) -> int:
	translate_ok, translate_msg = translate(ctx)
	proof = common.prove(ctx, PROP, leanchecker=ctx.thorough)
	streams: list[Stream] = []
	searches: list[SearchResult] = []
	try:
		cache_template(ctx)
	except TemplateRunFails as e:
		res = SearchResult('`run -f` over a one-module project (app/z0.py: one function returning 1) with an empty cache directory succeeds')
		res.cases = 1
		res.findings.append(Finding(key=f'run-fails:{e.args[0]}', what=f'forced run over a valid one-module project fails: {e.args[1]}'[:400],
			replay={'search': 'fixpoint', 'shape': 'chain2', 'variants': {'app.a': 0, 'app.b': 0}, 'dirs': ['./out'], 'lang': 'cpp:h', 'ops': []}))
		searches = [res]
	if not searches:
		with ctx.timed('correspondence'):
			streams = build_streams(ctx)
		with ctx.timed('search'):
			searches = build_searches(ctx)
	return common.finish(ctx, proof, streams, searches, translate_ok=translate_ok, translate_msg=translate_msg,
		statements=STATEMENTS,
		partial={
			'proved': 'the decision compares exactly the header fields read from the source (generated_shapes, compared_fields_generated, skip_implies_equal_header_inputs over Generated/RunnerHeader.lean); header read-back (header_slice, header_rt over the real json.dumps printer; json_no_newline, json_ends_with_brace), regeneration decision (regen), '
				'untouched files (untouched), path-injectivity check (paths_iff, paths_fallback_only), fix-point over all histories on every non-stale path for any transpiler body (fixpoint_fresh_partial, fixpoint_fresh, corollary fixpoint_partial), version change (version_bump), exact module lookup of the header hash (meta_lookup_exact, meta_lookup_first), '
				'flag semantics (force_flag, force_config) — all on the model',
			'proved_false': 'fix-point law in general (fixpoint_counterexample: stale dependants; fixpoint_shared_path_counterexample), '
				'path injectivity under prefix/glob rules (paths_counterexample), header read-back without trailing line break (header_rt_no_newline_counterexample)',
			'correspondence_only': 'json.loads on malformed / white-space-carrying texts (driver-side parser tied by the header stream; on the texts the runner writes the decoder is the proved loadsCodec, stream `loads`), the transpiler body, file-system semantics (file vs directory conflicts are excluded from generated configurations)',
			'search_only': 'that real outputs depend on imported modules (fix-point search on import graphs); that the law holds on graphs without imports',
		},
		assumptions=[
			'md5 is collision-free on the header texts of a history (IdInj, in Sound) and — only for fixpoint_partial — on the sources (HashInj)',
			'Writer.put/flush = whole-content write: a flush replaces the file by the buffer (model World.write) — tied by the writer stream and pinned by generated_shapes (open(..., mode=\'wb\'))',
			'version strings are non-empty (an empty Versions.app would be replaced on reading: `app_version or Versions.app`)',
			'deps m over-approximates the modules whose source the output of m reads (OutDeps); the forced run can transpile the stale modules',
			"json.loads decodes the headers the runner itself writes (hypothesis LoadsSound of the history theorems): DISCHARGED for the modelled decoder loadsCodec (loads_codec_sound, header_rt_codec); what remains assumed is that CPython's json.loads agrees with loadsCodec on these texts (stream `loads`, and C15's codec streams)",
			'glob conditions use only [A-Za-z0-9_/-.*]: other regex metacharacters answer out-of-model',
			'JSON values without floats / NaN / lone surrogates',
		],
		trusted=['translate/gen_runner_header.py (AST reader of header.py, types.py, providers/module.py, py2cpp.py, version.py, bin/transpile.py; unknown shapes raise TranslateError)', 'posixpath.join/normpath/abspath and str.find/rfind/slicing are modelled by hand and tied by the strprims and paths streams',
			'yaml loading of config.yml, glob order of include_module_paths (taken from the real function), Jinja rendering of entrypoint.j2 (first line observed)'])


def replay(ctx: Ctx, path: str) -> int:
	with open(path, encoding='utf-8') as f:
		rec = json.load(f)
	print(json.dumps(rec, indent=1, ensure_ascii=False)[:3000])
	inp = rec.get('input', rec)
	kind = inp.get('search')
	if rec.get('kind') == 'proof-or-correspondence-broken' or kind is None or kind == 'crash':
		print('replay: re-running the full check with the recorded seed')
		return run(Ctx(PROP, rec.get('tier', 'quick'), int(rec.get('seed', 0))))
	res = SearchResult(f'replay:{kind}')
	hist: Counter[str] = Counter()
	if kind == 'fixpoint':
		fixpoint_history(ctx, ctx.sub_rng('replay'), res, hist, set(), inp, False, 0, [10])
	elif kind == 'force':
		bad, why, _ = force_case(ctx, inp['shape'], inp['variants'], inp.get('force_cfg'), inp['ops'][:-1])
		if bad:
			res.findings.append(Finding('replay', why, inp))
	elif kind == 'fresh-outputs':
		r2 = search_fresh_outputs(ctx)
		res.findings.extend(r2.findings)
	elif kind == 'paths':
		base = os.path.realpath(ctx.tmpdir('tranp-c06-inj-'))
		outs = {m: real_output_filepath(inp['dirs'], inp['lang'], m, base) for m in inp['modules']}
		print({m: (common.unhx(o[3:]) if o.startswith('ok ') else o) for m, o in outs.items()})
		if len(set(outs.values())) < len(outs):
			res.findings.append(Finding('replay', 'modules share an output path', inp))
		for m, o in outs.items():
			exp = expected_output_path(inp['dirs'], inp['lang'], m, base)
			if exp is not None and o.startswith('ok ') and common.unhx(o[3:]) != exp[0]:
				res.findings.append(Finding('replay', f'module {m} goes to {common.unhx(o[3:])}, the {exp[1]} rule says {exp[0]}', inp))
	elif kind == 'roundtrip':
		from rogw.tranp.data.meta.header import MetaHeader
		inp = json.loads(inp['ascii_json']) if 'ascii_json' in inp else inp
		try:
			h = MetaHeader(inp['module'], inp['transpiler'], inp['version'])
			h2 = MetaHeader.try_from_content(inp['pre'] + h.to_header_str() + '\n' + inp['body'])
			if h2 is None or not (h2 == h):
				res.findings.append(Finding('replay', 'header not read back', inp))
		except Exception as e:  # noqa: BLE001
			res.findings.append(Finding('replay', f'{common.exc_enum(e)}: {e}', inp))
	for fd in res.findings:
		print(f'REPRODUCED: {fd.key}: {fd.what}')
	if not res.findings:
		print('not reproduced')
	ctx.cleanup()
	return 1 if res.findings else 0
