"""C13 — Tokenizer agrees with Python and ignores insignificant layout.

Theorems: lean/Tranp/Props/C13.lean over lean/Tranp/Model/Lexer.lean, parameterised by lean/Tranp/Generated/TokenDef.lean
(dumped on every run by translate/gen_token_def.py from TokenDefinition() and gram_tokenizer()).
Tie: correspondence streams `lex` (generated sources), `lex-real` (real modules / grammar files) and `lex-malformed`
(character soup, arbitrary offsets, arbitrary token lists) between the real Lexer / Tokenizer / Token.SourceMap and the model.
Search (real code only): (a) Tokenizer().parse == CPython tokenize under the canonical map on the exact supported subset
(harness/lexgen.py), (b) layout rewrites leave the token sequence unchanged, (c) INDENT/DEDENT balance, (d) concat and span laws.
"""
from __future__ import annotations

import json
import os
import random
from collections import Counter
from typing import Any

from harness import common
from harness import lexgen as G
from harness.common import Ctx, Finding, SearchResult, Stream, exc_enum, hx

PROP = 'C13'
CORPUS = os.path.join(common.CORPUS_DIR, PROP)


# ---------------------------------------------------------------------------------------------
# real-code plumbing


class CaseTimeout(Exception):
	"""A single real-code call exceeded its budget (a hang of the real code must become a finding, never a hang of the check)."""


class _Budget:
	"""Per-call wall budget for real-code calls (SIGALRM; the harness runs them in the main thread). After a few calls have
	run into the budget (a real code that no longer terminates does so on most inputs) the budget of the remaining calls
	shrinks, so that the whole check still ends within minutes; the count goes to the evidence notes."""

	timeouts = 0
	SHRINK_AFTER = 3
	SHRUNK_S = 4.0

	def __init__(self, seconds: float) -> None:
		self.seconds = seconds if _Budget.timeouts < _Budget.SHRINK_AFTER else min(seconds, _Budget.SHRUNK_S)

	def __enter__(self) -> '_Budget':
		import signal
		self._old = None
		try:
			def on_alarm(signum: int, frame: Any) -> None:
				_Budget.timeouts += 1
				raise CaseTimeout(f'real-code call exceeded {self.seconds}s')
			self._old = signal.signal(signal.SIGALRM, on_alarm)
			signal.setitimer(signal.ITIMER_REAL, self.seconds)
		except (ValueError, AttributeError):  # not the main thread / no SIGALRM: run unbudgeted
			self._old = None
		return self

	def __exit__(self, *a: Any) -> None:
		import signal
		if self._old is not None:
			signal.setitimer(signal.ITIMER_REAL, 0)
			signal.signal(signal.SIGALRM, self._old)


CASE_BUDGET_S = float(os.environ.get('VERIF_C13_CASE_BUDGET', '20'))


class _Timed:
	"""Proxy of a real object whose method calls run under the per-call budget."""

	def __init__(self, obj: Any) -> None:
		object.__setattr__(self, '_obj', obj)

	def __getattr__(self, name: str) -> Any:
		attr = getattr(object.__getattribute__(self, '_obj'), name)
		if not callable(attr):
			return attr

		def call(*a: Any, **kw: Any) -> Any:
			with _Budget(CASE_BUDGET_S):
				return attr(*a, **kw)
		return call


class _Deadline:
	"""Total wall deadline of one stream / search: the loop stops generating, what was generated is still checked."""

	def __init__(self, ctx: Ctx, quick_s: float, thorough_s: float) -> None:
		import time
		self.t_end = time.time() + (thorough_s if ctx.thorough else quick_s)
		self.hit = False

	def over(self) -> bool:
		import time
		if time.time() > self.t_end:
			self.hit = True
		return self.hit


class _BadOp(Exception):
	pass


class Real:
	def __init__(self) -> None:
		from data.syntax.gram_tokenizer import gram_tokenizer
		from rogw.tranp.implements.syntax.tranp.token import SpecialSymbols, Token, TokenDefinition, TokenTypes
		from rogw.tranp.implements.syntax.tranp.tokenizer import Lexer, Tokenizer
		self.Token = Token
		self.TokenTypes = TokenTypes
		self.marker = SpecialSymbols.OpUnaryMinus.value
		self.defs = {'py': TokenDefinition(), 'gram': gram_tokenizer()._definition}
		self.lexers = {k: _Timed(Lexer(d)) for k, d in self.defs.items()}
		self.tokenizers = {k: _Timed(Tokenizer(definition=d)) for k, d in self.defs.items()}
		self.type_values = sorted({m.value for m in TokenTypes.__members__.values()})

	def show_tok(self, t: Any) -> str:
		m = t.source_map
		return f'{t.type.value}:{hx(t.string)}:{m.begin_line},{m.begin_column},{m.end_line},{m.end_column}'

	def show_toks(self, ts: list[Any]) -> str:
		return ' '.join(['ok', *[self.show_tok(t) for t in ts]])

	def make_tok(self, spec: tuple[int, str, tuple[int, int, int, int]]) -> Any:
		return self.Token(self.TokenTypes(spec[0]), spec[1], self.Token.SourceMap(*spec[2]))

	def op(self, dn: str, op: list[str]) -> str:
		lexer = self.lexers[dn]
		try:
			kind = op[0]
			if kind == 'impl':
				return self.show_toks(lexer.parse_impl(op[1]))
			if kind == 'lex':
				return self.show_toks(lexer.parse(op[1]))
			if kind == 'tok':
				return self.show_toks(self.tokenizers[dn].parse(op[1]))
			if kind == 'domain':
				return f'ok {lexer.analyze_domain(op[1], int(op[2])).value}'
			if kind == 'map':
				with _Budget(CASE_BUDGET_S):
					m = self.Token.SourceMap.make(op[1], int(op[2]), int(op[3]))
				return f'ok {m.begin_line},{m.begin_column},{m.end_line},{m.end_column}'
			if kind.startswith('p.'):
				fn = {'p.ws': lexer.parse_white_spece, 'p.comment': lexer.parse_comment, 'p.quote': lexer.parse_quote,
					'p.number': lexer.parse_number, 'p.ident': lexer.parse_identifier, 'p.symbol': lexer.parse_symbol}[kind]
				end, tok = fn(op[1], int(op[2]))
				return f'ok {end} {self.show_tok(tok)}'
			if kind == 'filter':
				return self.show_toks(lexer.post_filter([self.make_tok(s) for s in op[1]]))
			if kind == 'rebuild':
				return self.show_toks(self.tokenizers[dn]._rebuild([self.make_tok(s) for s in op[1]]))
			raise _BadOp(f'unknown op {op}')
		except _BadOp:
			raise
		except Exception as e:  # noqa: BLE001
			return exc_enum(e)

	def canonical(self, src: str) -> list[tuple[str, str]]:
		"""Tokenizer().parse(src) under the canonical map of the property."""
		T = self.TokenTypes
		out: list[tuple[str, str]] = []
		for t in self.tokenizers['py'].parse(src):
			if t.type == T.NewLine:
				out.append(('NEWLINE', ''))
			elif t.type == T.Indent:
				out.append(('INDENT', ''))
			elif t.type == T.Dedent:
				out.append(('DEDENT', ''))
			elif t.type == T.Minus and t.string == self.marker:
				out.append(('TOK', '-'))
			else:
				out.append(('TOK', t.string))
		return out

	def significant_fresh(self, src: str) -> list[tuple[str, str]]:
		"""The same through a brand-new Tokenizer (no shared instance, no history)."""
		from rogw.tranp.implements.syntax.tranp.tokenizer import Tokenizer
		return [(t.type.name, t.string) for t in _Timed(Tokenizer()).parse(src)]

	def pipeline(self, toks: list[Any]) -> list[tuple[str, str]]:
		"""_rebuild(post_filter(raw tokens) + [EOF]) as Tokenizer.parse composes them, simplified."""
		lexer, tokenizer = self.lexers['py'], self.tokenizers['py']
		return [(t.type.name, t.string) for t in tokenizer._rebuild([*lexer.post_filter(toks), self.Token.EOF()])]

	def lex_shaped(self, toks: list[Any]) -> bool:
		"""`lexShaped pyDef` of lean/Tranp/Lemmas/Lexer.lean."""
		T = self.TokenTypes
		ws = self.defs['py'].white_space
		space = lambda t: t.type in (T.WhiteSpace, T.LineBreak)
		for i, a in enumerate(toks):
			if a.type in (T.EOF, T.NewLine, T.Indent, T.Dedent):
				return False
			if space(a) and (len(a.string) == 0 or any(c not in ws for c in a.string)):
				return False
			if i + 1 < len(toks):
				b = toks[i + 1]
				if space(a) and space(b):
					return False
				if a.type == T.Comment and b.type != T.LineBreak:
					return False
		return True

	def significant(self, src: str) -> list[tuple[str, str]]:
		"""The significant token sequence as tranp itself sees it (type name, string) — unary marker kept."""
		return [(t.type.name, t.string) for t in self.tokenizers['py'].parse(src)]


def op_line(op: list[Any]) -> str:
	kind = op[0]
	if kind in ('impl', 'lex', 'tok'):
		return f'{kind}\t{hx(op[1])}'
	if kind in ('filter', 'rebuild'):
		spec = ';'.join(f'{ty}:{hx(s)}:{m[0]},{m[1]},{m[2]},{m[3]}' for ty, s, m in op[1]) or '-'
		return f'{kind}\t{spec}'
	return '\t'.join([kind, hx(op[1]), *[str(x) for x in op[2:]]])


def source_case(real: Real, rng: random.Random, dn: str, src: str, desc: dict[str, Any], probes: int) -> tuple[dict[str, Any], list[str], list[str]]:
	ops: list[list[Any]] = [['impl', src], ['lex', src], ['tok', src]]
	n = len(src)
	for _ in range(probes):
		b = rng.randint(0, n + 1) if rng.random() < 0.9 else n + rng.randint(0, 3)
		r = rng.random()
		if r < 0.2:
			ops.append(['domain', src, b])
		elif r < 0.4:
			e = rng.randint(0, n + 2) if rng.random() < 0.3 else min(n + 2, b + rng.randint(0, 12))
			ops.append(['map', src, b, e])
		else:
			ops.append([rng.choice(['p.ws', 'p.comment', 'p.quote', 'p.number', 'p.ident', 'p.symbol', 'p.symbol', 'p.quote']), src, b])
	if probes and n:
		# end-of-input boundary: every look-ahead of the sub-parsers (3 / 2 character symbol windows, the character after a
		# minus, closing sequences, run ends) evaluated where the window does not fit any more
		for b in sorted({max(0, n - k) for k in (1, 2, 3)}):
			ops.append([rng.choice(['p.symbol', 'p.symbol', 'p.symbol', 'p.quote', 'p.number', 'p.ident', 'p.comment', 'p.ws', 'domain']), src, b])
	lines = [f'def\t{dn}', *[op_line(o) for o in ops]]
	outs = ['ok', *[real.op(dn, o) for o in ops]]
	return desc, lines, outs


def gen_source(rng: random.Random, flavour: str, size: int) -> tuple[str, dict[str, Any]]:
	opts = G.GenOpts()
	if flavour in ('wide', 'triple-single', 'over-indent', 'cut-char'):
		opts.tranp_only_ops = True
		opts.escape_hazards = 0.05
	if flavour == 'hazard':
		opts.escape_hazards = 0.3
	prog = G.gen_program(rng, opts, size)
	lay = G.gen_layout(rng, prog)
	src = G.render(prog, lay)
	if flavour == 'over-indent':
		src = G.over_indent(rng, prog, lay)
	if flavour == 'triple-single':
		src = src.replace('"""', "'''")
	if flavour == 'cut-token':
		prog, lay = G.cut_at_end(rng, prog, lay, bare=rng.random() < 0.7)
		src = G.render(prog, lay)
	if flavour == 'cut-char' and src:
		# any prefix, also one ending inside a token / a string literal / a bracket (the model covers every string)
		src = src[:rng.randint(1, len(src))]
	feats = G.case_features(prog, src)
	return src, {'kind': flavour, **feats}


def gen_gram_source(rng: random.Random) -> str:
	names = ['expr', 'term', 'atom', 'name', 'NUMBER', 'stmt', '_block', 'entry']
	lines = []
	for _ in range(rng.randint(1, 8)):
		r = rng.random()
		if r < 0.2:
			lines.append(f"// {rng.choice(['comment', 'a / b', '\"q'])}")
			continue
		alts = []
		for _ in range(rng.randint(1, 3)):
			items = []
			for _ in range(rng.randint(1, 4)):
				k = rng.random()
				if k < 0.4:
					items.append(rng.choice(names))
				elif k < 0.6:
					items.append('"' + rng.choice(['+', '-', 'if', '(', '\\"', '//', '/']) + '"')
				elif k < 0.75:
					items.append('/' + rng.choice(['[a-z]+', '\\d+', '[^/]*', 'a\\/b', '\\\\']) + '/')
				elif k < 0.9:
					items.append(f"({rng.choice(names)} {rng.choice(['|', ''])} {rng.choice(names)}){rng.choice(['*', '+', '?', ''])}")
				else:
					items.append(f'[{rng.choice(names)}]')
			alts.append(' '.join(items))
		sep = rng.choice([' | ', '\n\t| ', '|'])
		lines.append(f"{rng.choice(names)} {rng.choice([':=', '::=', ':'])} {sep.join(alts)}{rng.choice(['', ' // c', ' -'])}")
	return '\n'.join(lines) + rng.choice(['', '\n', '\n\n'])


SOUP = [
	('abcxyz_019', 8), (' ', 10), ('\n', 5), ('\t', 3), ('\r\f', 1), ('\\', 3), ('\'"', 8), ('#', 2), ('()[]{}', 6),
	('=-+*/%&|^~!?<>', 10), ('@$.,:;`', 4), ('.0123456789', 4), ('rf', 3), ('é日', 1), ('/', 2),
]


def gen_soup(rng: random.Random, n: int) -> str:
	pools = [p for p, w in SOUP for _ in range(w)]
	out = []
	for _ in range(n):
		out.append(rng.choice(rng.choice(pools)))
	s = ''.join(out)
	r = rng.random()
	if r < 0.1:
		s += '-'
	elif r < 0.2:
		s += rng.choice(['\\', "'", '"""', ' ', '\n  ', '#'])
	elif r < 0.4:
		# a multi-character symbol (of either definition, or of neither) as the last characters of the input
		s += rng.choice(G.SHARED_COMBINED + G.PY_ONLY + G.TRANP_ONLY + [':=', '::=', '..', '.', '-', '--', '->'])
	return s


def gen_token_list(real: Real, rng: random.Random, focus: str) -> list[tuple[int, str, tuple[int, int, int, int]]]:
	T = real.TokenTypes
	common_types = [T.WhiteSpace, T.LineBreak, T.LineBreak, T.Comment, T.Name, T.Name, T.ParenL, T.ParenR, T.BracketL, T.BracketR,
		T.BraceL, T.BraceR, T.Minus, T.Colon, T.String, T.Digit]
	rare_types = [T.EOF, T.NewLine, T.Indent, T.Dedent, T.Empty, T.Unknown, T.Ellipsis, T.Regexp, T.Decimal, T.At]
	out = []
	for _ in range(rng.choice([0, 1, 2, 3, 5, 8, 12, 20])):
		ty = rng.choice(common_types) if rng.random() < (0.97 if focus == 'rebuild-clean' else 0.85) else rng.choice(rare_types)
		if ty == T.LineBreak:
			if rng.random() < 0.8:
				s = rng.choice(['\n', '\n\t', '\n    ', '\n        ', '\n  ', '  \n\t\t', '\n\n\t', '\n   ', '\n            ', '\n\t\t\t', ' \n'])
			else:
				# strings around the post filter regex `[ \t\f]*\[ \t\f]*\r?\n`
				s = ''.join(rng.choice(['[ \t\x0c', ']', '\r', '\n', ' ', '\t', '\x0c', '[', 'x', '[ \t\x0c]\n', '[ \t\x0c\r\n']) for _ in range(rng.randint(0, 5)))
		elif ty == T.WhiteSpace:
			s = rng.choice([' ', '  ', '\t', ''])
		elif ty == T.Comment:
			s = rng.choice(['# c', '#', '// c'])
		elif ty == T.EOF:
			s = rng.choice(['\\EOF', 'x', 'xy', '\\EOF!'])
		elif ty in (T.Name, T.String, T.Digit, T.Decimal, T.Regexp):
			s = rng.choice(['a', 'b', '"s"', '1', '1.5', ''])
		else:
			s = rng.choice(['(', ')', '-', '\\OP_UNARY_MINUS', ':', '', '\n'])
		m = tuple(rng.randint(-1, 9) for _ in range(4))
		out.append((ty.value, s, m))
	if focus.startswith('rebuild') and rng.random() < 0.7:
		out.append((T.EOF.value, '\\EOF', (-1, -1, -1, -1)))
	return out


# ---------------------------------------------------------------------------------------------
# streams


def corpus_sources() -> list[tuple[str, dict[str, Any]]]:
	out = []
	if os.path.isdir(CORPUS):
		for fn in sorted(os.listdir(CORPUS)):
			if fn.endswith('.json'):
				with open(os.path.join(CORPUS, fn), encoding='utf-8') as f:
					rec = json.load(f)
				out.append((fn, rec))
	return out


def stream_lex(ctx: Ctx, real: Real) -> Stream:
	rng = ctx.sub_rng('lex')
	dl = _Deadline(ctx, 90, 900)
	cases = []
	for fn, rec in corpus_sources():
		if dl.over():
			ctx.notes.append(f"deadline hit in stream_lex: generation stopped early (what was generated is still checked)")
			break
		cases.append(source_case(real, rng, rec.get('definition', 'py'), rec['source'], {'kind': f'corpus:{fn}'}, 6))
	flavours = ['subset', 'subset', 'cut-token', 'wide', 'wide', 'hazard', 'over-indent', 'triple-single', 'subset', 'cut-char']
	n = ctx.scale(160, 1400)
	for i in range(n):
		if dl.over():
			ctx.notes.append(f"deadline hit in stream_lex: generation stopped early (what was generated is still checked)")
			break
		fl = flavours[i % len(flavours)]
		# the list-based model indexes in O(offset): source sizes are kept where the driver stays within minutes
		src, desc = gen_source(rng, fl, 1 + (i * 7) % ctx.scale(12, 14))
		cases.append(source_case(real, rng, 'py', src, desc, 8))
	for i in range(ctx.scale(30, 300)):
		if dl.over():
			ctx.notes.append(f"deadline hit in stream_lex: generation stopped early (what was generated is still checked)")
			break
		src = gen_gram_source(rng)
		cases.append(source_case(real, rng, 'gram', src, {'kind': 'gram', 'max_depth': 0}, 8))
	st = common.correspond('lex', cases, 'lex', classify=lambda d: f"{d['kind'].split(':')[0]}/depth{d.get('max_depth', 0)}")
	st.note = ('generated sources (names, ints/floats, \' " r f triple-quoted strings with escapes, all single and combined operators incl. tranp-only '
		'ones, brackets across lines with comments, blocks to depth 6, over-indented blocks, \'\'\' strings, escape hazards) under TokenDefinition(), '
		'grammar-like sources under gram_tokenizer(); per source: parse_impl, Lexer.parse, Tokenizer.parse (types, strings, source maps) plus '
		'analyze_domain / parse_* / SourceMap.make at random offsets')
	return st


def stream_real(ctx: Ctx, real: Real) -> Stream:
	rng = ctx.sub_rng('lex-real')
	dl = _Deadline(ctx, 60, 600)
	cases = []
	files = common.repo_py_files('rogw/tranp', 'tests/unit/rogw/tranp/implements/syntax')
	rng.shuffle(files)
	for f in files[:ctx.scale(10, 60)]:
		if dl.over():
			ctx.notes.append(f"deadline hit in stream_real: generation stopped early (what was generated is still checked)")
			break
		with open(f, encoding='utf-8') as fh:
			text = fh.read()
		lines = text.split('\n')
		# whole small files, otherwise a window of whole lines (the list-based model is quadratic in the source length)
		if len(text) > ctx.scale(2500, 3000):
			k = rng.randrange(len(lines))
			acc: list[str] = []
			size = 0
			while k < len(lines) and size < ctx.scale(2500, 3000):
				acc.append(lines[k])
				size += len(lines[k]) + 1
				k += 1
			text = '\n'.join(acc)
		cases.append(source_case(real, rng, 'py', text, {'kind': 'real-py', 'file': os.path.relpath(f, common.REPO)}, 4))
	for gf in ['data/syntax/gram.lark', 'data/syntax/py_gram.lark']:
		p = os.path.join(common.REPO, gf)
		if os.path.exists(p):
			with open(p, encoding='utf-8') as fh:
				lines = fh.read().split('\n')
			for _ in range(ctx.scale(2, 10)):
				k = rng.randrange(len(lines))
				text = '\n'.join(lines[k:k + rng.randint(5, 40)])
				cases.append(source_case(real, rng, 'gram', text, {'kind': 'real-gram', 'file': gf}, 4))
	st = common.correspond('lex-real', cases, 'lex', classify=lambda d: d['kind'])
	st.note = 'real tranp modules (whole file or a window of whole lines; Japanese docstrings/comments included) under TokenDefinition(), windows of data/syntax/*.lark under gram_tokenizer()'
	return st


def stream_malformed(ctx: Ctx, real: Real) -> Stream:
	rng = ctx.sub_rng('lex-malformed')
	dl = _Deadline(ctx, 60, 600)
	cases = []
	for i in range(ctx.scale(250, 3000)):
		if dl.over():
			ctx.notes.append(f"deadline hit in stream_malformed: generation stopped early (what was generated is still checked)")
			break
		src = gen_soup(rng, rng.choice([0, 1, 2, 3, 5, 8, 13, 21, 40]))
		cases.append(source_case(real, rng, 'py' if i % 5 else 'gram', src, {'kind': 'soup'}, 5))
	for i in range(ctx.scale(250, 3000)):
		if dl.over():
			ctx.notes.append(f"deadline hit in stream_malformed: generation stopped early (what was generated is still checked)")
			break
		focus = ['filter', 'rebuild', 'rebuild-clean'][i % 3]
		toks = gen_token_list(real, rng, focus)
		dn = 'py' if i % 7 else 'gram'
		ops = [['filter', toks], ['rebuild', toks]]
		# post_filter followed by _rebuild, as Tokenizer.parse composes them
		lines = [f'def\t{dn}', *[op_line(o) for o in ops]]
		outs = ['ok', *[real.op(dn, o) for o in ops]]
		cases.append(({'kind': f'tokens-{focus}'}, lines, outs))
	st = common.correspond('lex-malformed', cases, 'lex', classify=lambda d: d['kind'])
	st.note = ('character soup (backslashes, unbalanced quotes/brackets, \\r \\f, non-ASCII, trailing minus) through parse_impl / parse / Tokenizer.parse and the '
		'sub-parsers at arbitrary (also out-of-range) offsets; arbitrary token lists (every TokenTypes value, EOF in the middle, line breaks around the '
		'post filter regex) through post_filter and _rebuild')
	return st


# ---------------------------------------------------------------------------------------------
# search: the property's own oracles on the real code


def first_diff(a: list[Any], b: list[Any]) -> int:
	k = 0
	while k < len(a) and k < len(b) and a[k] == b[k]:
		k += 1
	return k


def py_oracle_check(real: Real, src: str) -> tuple[str, str | None, dict[str, Any]]:
	"""('skip'|'ok'|'bad', key, detail)"""
	py = G.py_tokens(src)
	if py is None:
		return 'skip', None, {}
	try:
		tr = real.canonical(src)
	except Exception as e:  # noqa: BLE001
		# CPython accepts, tranp raises: classify by the string hazards CPython sees, else by the exception
		for kind, text in py:
			if kind == 'TOK' and G.ESC_QUOTE_BEFORE_TRIPLE.search(text) and text[:1] in '\'"rf':
				return 'bad', 'py-mismatch:string-escaped-quote-before-triple-close', {'exception': exc_enum(e)}
		for kind, text in py:
			if kind == 'TOK' and G.EVEN_BS_BEFORE_CLOSE.search(text) and text[:1] in '\'"rf':
				return 'bad', 'py-mismatch:string-even-backslash-run-before-close', {'exception': exc_enum(e)}
		return 'bad', f'py-accepts-tranp-raises:{exc_enum(e)}', {'exception': exc_enum(e)}
	if py == tr:
		return 'ok', None, {}
	k = first_diff(py, tr)
	return 'bad', G.classify_mismatch(py, tr), {'at': k, 'cpython': py[max(0, k - 2):k + 3], 'tranp': tr[max(0, k - 2):k + 3]}


EOF_CONTEXTS = ['', 'a ', 'a', 'x = b ', 'if a:\n\tb ', 'if a:\n    if b:\n        c\n    d', '(a)\n\nb ']
EOF_TAILS = ['', '\n', ' ', '  # c', '\n\n', '\n# c', '\t\n']
EOF_LAST = G.SINGLE_OPS + G.SHARED_COMBINED + ['a', 'rf', '0', '12', '3.5', '7.', "'s'", '"t"', 'r"u\\\\"', "'v\\''", 'f"{a}"', '"""m\nn"""']


def eof_boundary_cases() -> list[tuple[str, str, str]]:
	out = []
	for c in EOF_CONTEXTS:
		for t in EOF_LAST:
			if c and not c[-1].isspace() and not G.may_touch(G.Tok(G.NAME, 'a'), G.Tok(G.OP if t in G.SINGLE_OPS + G.SHARED_COMBINED else G.NAME, t)):
				continue
			for tail in EOF_TAILS:
				out.append((c, t, tail))
	return out


def shrink_program(prog: list[G.Line], lay: G.Layout, fails: Any) -> tuple[list[G.Line], G.Layout]:
	"""Drop whole logical lines (with their layout) while the failure persists."""
	idx = list(range(len(prog)))

	def build(keep: list[int]) -> tuple[list[G.Line], G.Layout]:
		p = [prog[i] for i in keep]
		# keep the block structure lexically valid: re-base depths so that each line is at most one deeper than the previous
		d_prev = -1
		fixed = []
		for line in p:
			d = min(line.depth, d_prev + 1) if d_prev >= 0 else 0
			fixed.append(G.Line(d, line.toks))
			d_prev = d
		lay2 = G.Layout(lay.unit, [lay.gaps[i] for i in keep], [lay.fill[i] for i in keep], [lay.trail[i] for i in keep], lay.tail, lay.final_newline)
		return fixed, lay2

	def still(keep: list[int]) -> bool:
		p, l2 = build(keep)
		return bool(p) and fails(p, l2)

	keep = common.shrink_list(idx, still, max_steps=150)
	return build(keep)


def shrink_layout_pair(real: Real, prog: list[G.Line], lay_a: G.Layout, lay_b: G.Layout) -> tuple[str, str]:
	"""Drop whole logical lines (from the program and from both layouts) while the two renderings still give different
	significant token sequences; returns the two shrunk sources."""
	def build(keep: list[int]) -> tuple[str, str]:
		d_prev = -1
		fixed = []
		for i in keep:
			d = min(prog[i].depth, d_prev + 1) if d_prev >= 0 else 0
			fixed.append(G.Line(d, prog[i].toks))
			d_prev = d
		cut = lambda lay: G.Layout(lay.unit, [lay.gaps[i] for i in keep], [lay.fill[i] for i in keep], [lay.trail[i] for i in keep], lay.tail, lay.final_newline)
		return G.render(fixed, cut(lay_a)), G.render(fixed, cut(lay_b))

	def still(keep: list[int]) -> bool:
		if not keep:
			return False
		a, b = build(keep)
		try:
			return real.significant(a) != real.significant(b)
		except Exception:  # noqa: BLE001 - a different failure: not the one being shrunk
			return False

	idx = list(range(len(prog)))
	try:
		keep = common.shrink_list(idx, still, max_steps=120) if still(idx) else idx
	except Exception:  # noqa: BLE001
		keep = idx
	return build(keep)


def search_cpython(ctx: Ctx, real: Real) -> SearchResult:
	rng = ctx.sub_rng('cpython')
	dl = _Deadline(ctx, 90, 1200)
	res = SearchResult('Tokenizer().parse(s) == CPython tokenize(s) under the canonical map, on the exact supported lexical subset')
	hist: Counter[str] = Counter()
	seen: set[str] = set()
	found_keys: set[str] = set()

	def report(key: str, src: str, detail: dict[str, Any], origin: str) -> None:
		if key in found_keys:
			return
		found_keys.add(key)
		res.findings.append(Finding(key=key, what=f'tranp token sequence differs from CPython ({key})', replay={'source': src, 'origin': origin, **detail}))

	for fn, rec in corpus_sources():
		if dl.over():
			ctx.notes.append(f"deadline hit in search_cpython: generation stopped early (what was generated is still checked)")
			break
		if rec.get('definition', 'py') != 'py' or not rec.get('cpython_subset', False):
			continue
		res.cases += 1
		seen.add(rec['source'])
		verdict, key, detail = py_oracle_check(real, rec['source'])
		hist[f'corpus:{verdict}'] += 1
		if verdict == 'bad':
			report(key or '?', rec['source'], detail, f'corpus/{fn}')
	# end-of-input boundary, exhaustively over the token table: every operator of the subset (and one token of every other
	# kind) as the LAST token of the source, after several contexts, followed by nothing / blanks / a newline / a comment
	for ctx_text, last, tail in eof_boundary_cases():
		if dl.over():
			break
		src = ctx_text + last + tail
		res.cases += 1
		seen.add(src)
		verdict, key, detail = py_oracle_check(real, src)
		hist[f'eof-boundary:{verdict}'] += 1
		if verdict == 'bad':
			report(f"{key or '?'}:at-end-of-input" if tail == '' else (key or '?'), src, detail, 'eof-boundary table')
	n = ctx.scale(700, 8000)
	for i in range(n):
		if dl.over():
			ctx.notes.append(f"deadline hit in search_cpython: generation stopped early (what was generated is still checked)")
			break
		# escape hazards (even backslash runs / an escaped quote before the closing quote) are part of the subset since efe3cdf
		opts = G.GenOpts(escape_hazards=0.06 if i % 2 == 0 else 0.0)
		prog = G.gen_program(rng, opts, 1 + (i * 5) % ctx.scale(14, 30))
		lay = G.gen_layout(rng, prog)
		if i % 4 == 3:
			# the source ends in an arbitrary token (mostly an operator), mostly with nothing at all after it
			prog, lay = G.cut_at_end(rng, prog, lay, bare=i % 8 == 3 or rng.random() < 0.5)
			hist['cut-at-end'] += 1
		src = G.render(prog, lay)
		res.cases += 1
		seen.add(src)
		verdict, key, detail = py_oracle_check(real, src)
		hist[verdict] += 1
		hist[f"depth{max(line.depth for line in prog)}"] += 1
		if verdict == 'bad' and key not in found_keys:
			def fails(p: list[G.Line], l2: G.Layout, key: str = key or '') -> bool:
				v, k2, _ = py_oracle_check(real, G.render(p, l2))
				return v == 'bad' and k2 == key
			p2, l2 = shrink_program(prog, lay, fails)
			src2 = G.render(p2, l2)
			_, _, detail2 = py_oracle_check(real, src2)
			report(key or '?', src2, detail2, f'generated#{i}')
		if len(res.samples) < 2 and verdict == 'ok':
			res.samples.append({'source': src[:300], 'tokens': len(G.py_tokens(src) or [])})
	res.distinct = len(seen)
	res.histogram = dict(hist)
	res.note = 'oracle domain: see harness/lexgen.py docstring; `skip` = CPython itself rejects the source (not counted as agreement)'
	return res


LAYOUT_DIMS = ['unit', 'gaps', 'fill', 'trail', 'tail']


def relayout(rng: random.Random, prog: list[G.Line], lay: G.Layout, dims: list[str]) -> G.Layout:
	fresh = G.gen_layout(rng, prog, frozen=lay)
	return G.Layout(
		fresh.unit if 'unit' in dims else lay.unit,
		fresh.gaps if 'gaps' in dims else lay.gaps,
		fresh.fill if 'fill' in dims else lay.fill,
		fresh.trail if 'trail' in dims else lay.trail,
		fresh.tail if 'tail' in dims else lay.tail,
		fresh.final_newline if 'tail' in dims else lay.final_newline,
	)


def search_layout(ctx: Ctx, real: Real) -> SearchResult:
	rng = ctx.sub_rng('layout')
	dl = _Deadline(ctx, 90, 1200)
	res = SearchResult('tokens(w(s)) == tokens(s) for layout rewrites w (comments, blank lines, trailing spaces, spaces around operators except after a minus, tab vs any consistent space width); INDENT/DEDENT balance')
	hist: Counter[str] = Counter()
	seen: set[str] = set()
	keys: set[str] = set()
	n = ctx.scale(350, 3000)
	for i in range(n):
		if dl.over():
			ctx.notes.append(f"deadline hit in search_layout: generation stopped early (what was generated is still checked)")
			break
		opts = G.GenOpts(escape_hazards=0.05 if i % 3 == 0 else 0.0)
		prog = G.gen_program(rng, opts, 1 + (i * 3) % ctx.scale(14, 30))
		lay = G.gen_layout(rng, prog)
		if i % 4 == 1:
			# the source ends in an arbitrary token (not a minus: the property's exception), mostly with nothing after it;
			# the `trail` / `tail` rewrites below then put blanks, comments, newlines and filler lines after it
			prog, lay = G.cut_at_end(rng, prog, lay, bare=i % 8 == 1 or rng.random() < 0.5, avoid_minus=True)
			hist['cut-at-end'] += 1
		src = G.render(prog, lay)
		try:
			base = real.significant(src)
		except Exception as e:  # noqa: BLE001
			key = f'tokenizer-raises:{exc_enum(e)}'
			if key not in keys:
				keys.add(key)
				res.findings.append(Finding(key=key, what='Tokenizer().parse raises on a source of the supported subset', replay={'source': src}))
			continue
		res.cases += 1
		seen.add(src)
		# history: the shared Tokenizer instance (used for thousands of sources by now), asked again, and a brand-new
		# instance must all agree
		try:
			again, fresh = real.significant(src), real.significant_fresh(src)
		except Exception as e:  # noqa: BLE001
			again = fresh = exc_enum(e)
		if (again != base or fresh != base) and 'history' not in keys:
			keys.add('history')
			res.findings.append(Finding(key='history', what='Tokenizer().parse depends on earlier calls on the same instance', replay={'source': src}))
		# (c) balance
		ind = sum(1 for t, _ in base if t == 'Indent')
		ded = sum(1 for t, _ in base if t == 'Dedent')
		hist[f'indents{min(ind, 6)}'] += 1
		if ind != ded and 'balance' not in keys:
			keys.add('balance')
			res.findings.append(Finding(key='balance', what=f'{ind} INDENT vs {ded} DEDENT on a consistently indented source', replay={'source': src}))
		# (b) metamorphic layout rewrites: all dimensions at once, then each dimension alone
		for dims in ([LAYOUT_DIMS] + [[d] for d in LAYOUT_DIMS] if i % 3 == 0 else [LAYOUT_DIMS, [rng.choice(LAYOUT_DIMS)]]):
			lay2 = relayout(rng, prog, lay, dims)
			src2 = G.render(prog, lay2)
			res.cases += 1
			seen.add(src2)
			hist['rewrite:' + '+'.join(dims) if len(dims) == 1 else 'rewrite:all'] += 1
			try:
				other: Any = real.significant(src2)
			except Exception as e:  # noqa: BLE001
				other = exc_enum(e)
			if other != base:
				# attribute to a single dimension when one suffices
				dim = 'combined'
				for d in dims:
					try:
						if real.significant(G.render(prog, relayout(rng, prog, lay, [d]))) != base:
							dim = d
							break
					except Exception:  # noqa: BLE001
						dim = d
						break
				key = f'layout:{dim}'
				if key not in keys:
					keys.add(key)
					s1, s2, base_s, other_s = src, src2, base, other
					if isinstance(other, list):
						try:
							t1, t2 = shrink_layout_pair(real, prog, lay, lay2)
							b1, b2 = real.significant(t1), real.significant(t2)
							if b1 != b2:
								s1, s2, base_s, other_s = t1, t2, b1, b2
						except Exception:  # noqa: BLE001 - keep the unshrunk pair
							pass
					k = first_diff(base_s, other_s) if isinstance(other_s, list) else -1
					res.findings.append(Finding(key=key, what=f'layout rewrite ({dim}) changes the significant token sequence',
						replay={'source': s1, 'rewritten': s2, 'at': k, 'tokens': base_s[max(0, k - 2):k + 3], 'tokens_rewritten': other_s[max(0, k - 2):k + 3] if isinstance(other_s, list) else other_s}))
		if len(res.samples) < 2:
			res.samples.append({'source': src[:200], 'indents': ind, 'dedents': ded})
	# boundary observation B1 (DESIGN.md §7): the witness of C13.balance_counterexample replayed on the real code
	witness = 'if a:\n    if b:\n            x\n    y'
	try:
		toks = real.significant(witness)
	except Exception as e:  # noqa: BLE001
		toks = []
		res.findings.append(Finding(key=f'tokenizer-raises:{exc_enum(e)}', what='Tokenizer().parse raises on the over-indented witness', replay={'source': witness}))
	ind = sum(1 for t, _ in toks if t == 'Indent')
	ded = sum(1 for t, _ in toks if t == 'Dedent')
	hist[f'boundary:over-indent indents={ind} dedents={ded}'] += 1
	ctx.notes.append(f'boundary B1 (not a finding): over-indented block {witness!r} gives {ind} INDENT / {ded} DEDENT on the real tokenizer — outside the consistent-unit subset; Lean: C13.balance_counterexample')
	if (ind, ded) != (2, 3):
		ctx.notes.append('boundary B1 no longer reproduces with 2/3: C13.balance_counterexample and the real code disagree (the correspondence stream decides)')
	res.distinct = len(seen)
	res.histogram = dict(hist)
	return res


def search_token_layout(ctx: Ctx, real: Real) -> SearchResult:
	"""`C13.layout_tokens_statement` on the real code: insert / remove one WhiteSpace or Comment raw token in a raw token list
	of the lexer's shape (both lists `lexShaped`), compare _rebuild(post_filter(.) + [EOF])."""
	rng = ctx.sub_rng('token-layout')
	dl = _Deadline(ctx, 60, 900)
	res = SearchResult('token-level layout law (Lean: layout_tokens_statement): inserting/removing one WhiteSpace or Comment raw token in a lexer-shaped raw token list leaves _rebuild . post_filter unchanged')
	hist: Counter[str] = Counter()
	seen: set[str] = set()
	keys: set[str] = set()
	T = real.TokenTypes
	mk = lambda ty, s: real.Token(ty, s, real.Token.SourceMap(0, 0, 0, 0))
	for i in range(ctx.scale(250, 2500)):
		if dl.over():
			ctx.notes.append(f"deadline hit in search_token_layout: generation stopped early (what was generated is still checked)")
			break
		src, _ = gen_source(rng, 'subset', 1 + (i * 3) % 12)
		try:
			toks = real.lexers['py'].parse_impl(src)
			if not real.lex_shaped(toks):
				raise AssertionError('raw tokens of the real lexer are not lexShaped')
			base = real.pipeline(toks)
		except Exception as e:  # noqa: BLE001
			key = f'token-layout-raises:{exc_enum(e)}'
			if key not in keys:
				keys.add(key)
				res.findings.append(Finding(key=key, what=f'lexer / post_filter / _rebuild raises on a source of the supported subset: {e}', replay={'source': src}))
			continue
		seen.add(src)
		for _ in range(6):
			kind = rng.choice(['ins-ws', 'ins-comment', 'ins-comment', 'del'])
			if kind == 'del':
				cand = [k for k, t in enumerate(toks) if t.type in (T.WhiteSpace, T.Comment)]
				if not cand:
					continue
				k = rng.choice(cand)
				other = toks[:k] + toks[k + 1:]
			else:
				k = rng.randint(0, len(toks))
				if kind == 'ins-comment':
					lbs = [j for j, t in enumerate(toks) if t.type == T.LineBreak] + [len(toks)]
					k = rng.choice(lbs)
				w = mk(T.WhiteSpace, rng.choice([' ', '\t', '   '])) if kind == 'ins-ws' else mk(T.Comment, rng.choice(['# c', '#', '# (']))
				other = toks[:k] + [w] + toks[k:]
			if not real.lex_shaped(other):
				hist[f'{kind}:not-shaped'] += 1
				continue
			res.cases += 1
			hist[kind] += 1
			try:
				got: Any = real.pipeline(other)
			except Exception as e:  # noqa: BLE001
				got = exc_enum(e)
			if got != base and f'token-layout:{kind}' not in keys:
				keys.add(f'token-layout:{kind}')
				res.findings.append(Finding(key=f'token-layout:{kind}', what='inserting/removing an insignificant raw token changes the rebuilt token sequence',
					replay={'source': src, 'position': k, 'kind': kind, 'tokens': base[:60], 'tokens_other': got[:60] if isinstance(got, list) else got}))
		if len(res.samples) < 2:
			res.samples.append({'source': src[:160], 'raw_tokens': len(toks)})
	res.distinct = len(seen)
	res.histogram = dict(hist)
	return res


def law_check(real: Real, dn: str, src: str) -> tuple[str, str | None, dict[str, Any]]:
	"""concat and span laws on the raw tokens of the real Lexer.parse_impl."""
	try:
		toks = real.lexers[dn].parse_impl(src)
	except Exception as e:  # noqa: BLE001
		return f'raises:{exc_enum(e)}', None, {}
	T = real.TokenTypes
	text = lambda t: '-' if (t.type == T.Minus and t.string == real.marker) else t.string
	if ''.join(text(t) for t in toks) != src:
		return 'bad', 'concat', {'tokens': [(t.type.name, t.string) for t in toks][:40]}
	starts = [0]
	for ln in src.split('\n'):
		starts.append(starts[-1] + len(ln) + 1)
	pos = 0
	for t in toks:
		m = t.source_map
		if not (0 <= m.begin_line < len(starts) and 0 <= m.end_line < len(starts)):
			return 'bad', 'span', {'token': repr(t)}
		b = starts[m.begin_line] + m.begin_column
		e = starts[m.end_line] + m.end_column
		if src[b:e] != text(t) or b != pos or m.begin_column < 0 or m.end_column < 0:
			return 'bad', 'span', {'token': repr(t), 'addressed': src[b:e], 'expected_offset': pos, 'offset': b}
		pos = e
	return 'ok', None, {}


def _history_probe(real: Real, parts: list[str], mode: str) -> tuple[str, dict[str, Any]]:
	"""Build a source on the fly, lex it on the shared instances, check every raw token's span against an independent
	computation from the text — and let the source string die on return (no reference survives: the verdict carries only
	short excerpts). Returns ('ok' | 'raises:<exc>' | 'bad', detail)."""
	source = ''.join(parts)
	lines = source.split('\n')
	T = real.TokenTypes
	try:
		if mode == 'tokenizer':
			# Tokenizer.parse goes through the same lexer; NEWLINE/INDENT/DEDENT reuse their line break's map: check the others
			toks = [t for t in real.tokenizers['py'].parse(source) if t.type not in (T.NewLine, T.Indent, T.Dedent)]
			raw = False
		else:
			toks = real.lexers['py'].parse_impl(source)
			raw = True
	except Exception as e:  # noqa: BLE001
		return f'raises:{exc_enum(e)}', {'error': repr(e)[:200]}
	pos = 0
	for t in toks:
		text = '-' if (t.type == T.Minus and t.string == real.marker) else t.string
		m = t.source_map
		try:
			if m.begin_line == m.end_line:
				got = lines[m.begin_line][m.begin_column:m.end_column]
			else:
				got = '\n'.join([lines[m.begin_line][m.begin_column:], *lines[m.begin_line + 1:m.end_line], lines[m.end_line][:m.end_column]])
			ok = got == text and min(m) >= 0
		except IndexError:
			got, ok = '<span outside of the source>', False
		if raw and ok:
			# raw tokens tile the source: the span must also start where the previous one ended
			begin = sum(len(ln) + 1 for ln in lines[:m.begin_line]) + m.begin_column
			ok = begin == pos
			pos = begin + len(text)
		if not ok:
			return 'bad', {'token': repr(t)[:160], 'addressed': got[:80], 'lines': len(lines), 'chars': len(source)}
	return 'ok', {}


def _history_parts(recipe: dict[str, Any]) -> list[str]:
	"""A fresh list of freshly built strings (f-strings / joins), total length exactly recipe['total']."""
	r = random.Random(recipe['seed'])
	total = recipe['total']
	parts: list[str] = []
	size = 0
	k = 0
	while True:
		kind = recipe['kind']
		if kind == 'short':
			line = f'v{k % 10} = {r.randint(0, 9)}\n'
		elif kind == 'long':
			line = f'w{k % 10} = f({r.randint(0, 9)}, -1) + g[{k % 7}] # {"c" * r.randint(0, 30)}\n'
		elif kind == 'blocks':
			line = f'{"	" * (k % 3)}if a{k % 5}: x = """{"q" * r.randint(0, 5)}\n{"r" * r.randint(0, 9)}"""\n'
		else:
			line = ''.join(r.choice(['a = 1\n', '\n', '# c\n', 'b = (1,\n  2)\n', f'n{k} -= -{k}\n', '    y\n']) for _ in range(3))
		if size + len(line) + 2 > total:
			break
		parts.append(line)
		size += len(line)
		k += 1
	# pad to the exact total with a final comment (no trailing newline)
	parts.append('#' + 'p' * (total - size - 1))
	return parts


def _history_alone(recipe: dict[str, Any]) -> str:
	"""The same recipe as the only source of a fresh process (module-level state of the real code cannot be reset in-process)."""
	import subprocess
	import sys
	code = ('import json,sys\n'
		'from harness import c13\n'
		'recipe = json.loads(sys.argv[1])\n'
		'v, _ = c13._history_probe(c13.Real(), c13._history_parts(recipe), recipe["mode"])\n'
		'print("VERDICT", v)\n')
	env = dict(os.environ, PYTHONPATH=os.pathsep.join([os.path.join(common.VERIF, 'compat'), common.REPO, common.VERIF]), PYTHONDONTWRITEBYTECODE='1')
	try:
		p = subprocess.run([sys.executable, '-c', code, json.dumps(recipe)], cwd=common.REPO, env=env, capture_output=True, text=True, timeout=120)
	except Exception as e:  # noqa: BLE001
		return f'unknown:{type(e).__name__}'
	for line in p.stdout.splitlines():
		if line.startswith('VERDICT '):
			return line[8:]
	return 'unknown'


def search_history(ctx: Ctx, real: Real) -> SearchResult:
	"""History in one process: sources are generated, lexed, checked and DROPPED one by one (so that a later source can land
	at the address of an earlier one), with equal total length but different line structure."""
	import gc
	rng = ctx.sub_rng('history')
	dl = _Deadline(ctx, 60, 900)
	res = SearchResult('span law under a history: sources built on the fly, lexed on shared instances and dropped one by one (equal length, different line structure; address reuse), every token span against an independent computation from the text')
	hist: Counter[str] = Counter()
	keys: set[str] = set()
	recipes: list[dict[str, Any]] = []

	totals = [64, 200, 520, 1100, 2300] if not ctx.thorough else [64, 200, 520, 1100, 2300, 4700, 9500]
	kinds = ['short', 'long', 'blocks', 'mixed']
	n = ctx.scale(360, 3000)
	gc.collect()
	for i in range(n):
		if dl.over():
			ctx.notes.append(f"deadline hit in search_history: generation stopped early (what was generated is still checked)")
			break
		total = totals[(i // 8) % len(totals)]
		recipe = {'seed': rng.randrange(1 << 30), 'kind': kinds[i % 4] if i % 3 else rng.choice(kinds), 'total': total,
			'mode': 'tokenizer' if i % 5 == 4 else 'lexer'}
		recipes.append(recipe)
		res.cases += 1
		verdict, detail = _history_probe(real, _history_parts(recipe), recipe['mode'])
		hist[f"{recipe['mode']}:{verdict}"] += 1
		hist[f'total{total}'] += 1
		if verdict != 'ok':
			# is it the history? the same recipe, alone, through fresh instances
			alone = _history_alone(recipe)
			key = 'span-history' if alone == 'ok' else ('span' if verdict == 'bad' else f'lexer-{verdict}')
			if key not in keys:
				keys.add(key)
				res.findings.append(Finding(key=key, what=('a token span is wrong (or the lexer raises) only after earlier sources were lexed in the same process'
					if key == 'span-history' else 'a token span does not address its text'),
					replay={'history': recipes[-6:], 'failing': recipe, 'verdict': verdict, 'alone': alone, **detail,
						'source_head': ''.join(_history_parts(recipe))[:300],
						'how': 'harness.c13: for each recipe of `history` in order: _history_probe(real, _history_parts(recipe), recipe["mode"]) on one shared Real(); `alone` = the failing recipe as the only source of a fresh process'}))
		if len(res.samples) < 2:
			res.samples.append({'recipe': recipe, 'verdict': verdict})
	res.distinct = len({(r['seed'], r['kind'], r['total']) for r in recipes})
	res.histogram = dict(hist)
	res.note = 'each source is garbage before the next one is built; recipes (seed, kind, total length) reproduce the history'
	return res


def search_certified(ctx: Ctx, real: Real) -> SearchResult:
	"""The positional layout theorems as an oracle on the real code: the Lean checker (driver ops lay.*) decides for
	(source, position, inserted text) whether C13.layout_*_by_position applies; wherever it says yes, the REAL
	Tokenizer().parse must give the same (type, string) sequence for both sources."""
	rng = ctx.sub_rng('certified')
	dl = _Deadline(ctx, 60, 600)
	res = SearchResult('theorem-certified layout rewrites on the real code: where the Lean checker of C13.layout_*_by_position accepts (source, position, inserted text), real Tokenizer().parse(src) == parse(src with the insertion) as (type, string) sequences')
	hist: Counter[str] = Counter()
	keys: set[str] = set()
	probes: list[tuple[str, str, str, int, str]] = []  # (kind, src, src2, pos, op line)
	n = ctx.scale(40, 400)
	for i in range(n):
		if dl.over():
			ctx.notes.append('deadline hit in search_certified: generation stopped early')
			break
		src, _ = gen_source(rng, 'cut-token' if i % 4 == 3 else 'subset', 1 + (i * 3) % 6)
		if len(src) > 500:
			continue
		# the tail of the source (C13.layout_tail_by_position): the white space after the last token replaced by another
		# (none, blanks, a final newline, blank lines); sources cut after an arbitrary token included
		ws = real.defs['py'].white_space
		body = src.rstrip(ws) if isinstance(ws, str) else src
		for _ in range(3):
			tail2 = rng.choice(['', '', '\n', ' ', '\n\n', '  \n\t', '\t', '\n    \n'])
			if body + tail2 != src:
				probes.append(('tail', src, body + tail2, len(body), f'lay.tail\t{hx(body)}\t{hx(src[len(body):])}\t{hx(tail2)}'))
		# the beginning of the source (C13.layout_lead_by_position): white space / one comment-only line in front of it
		for _ in range(2):
			pre = rng.choice(['\n', '  ', '\t', '\n\n', ' \n', '# c\n', '#\n', '# x = (1\n    ', "# it's\n\n", '\n# c\n', '# c'])
			probes.append(('lead', src, pre + src, 0, f'lay.lead\t{hx(pre)}\t{hx(src)}'))
		try:
			toks = real.lexers['py'].parse_impl(src)
		except Exception:  # noqa: BLE001 - the other searches report a lexer that raises on the subset
			continue
		ends = []
		pos = 0
		for t in toks:
			pos += 1 if (t.type == real.TokenTypes.Minus and t.string == real.marker) else len(t.string)
			ends.append(pos)
		line_ends = [k for k, c in enumerate(src) if c == '\n'] + [len(src)]
		for _ in range(8):
			kind = rng.choice(['blank', 'blank', 'blank', 'blankline', 'comment', 'cline', 'anywhere'])
			if kind == 'blank':
				p_ = rng.choice(ends) if ends else 0
				w = rng.choice([' ', '  ', '\t', ' \t'])
				probes.append((kind, src, src[:p_] + w + src[p_:], p_, f'lay.blank\t{hx(src)}\t{p_}\t{hx(w)}'))
			elif kind == 'blankline':
				p_ = rng.choice(ends) if ends and rng.random() < 0.5 else rng.choice(line_ends)
				w = rng.choice(['\n', '\n  ', '  \n\t', '\n\n'])
				probes.append((kind, src, src[:p_] + w + src[p_:], p_, f'lay.blank\t{hx(src)}\t{p_}\t{hx(w)}'))
			elif kind == 'anywhere':
				p_ = rng.randint(0, len(src))
				w = rng.choice([' ', '\n', '\t'])
				probes.append((kind, src, src[:p_] + w + src[p_:], p_, f'lay.blank\t{hx(src)}\t{p_}\t{hx(w)}'))
			elif kind == 'comment':
				p_ = rng.choice(line_ends) if rng.random() < 0.8 else (rng.choice(ends) if ends else 0)
				w, body = rng.choice([' ', '  ', '\t', '', '']), rng.choice([' c', '', ' x = (1', " it's"])
				if w:
					probes.append((kind, src, src[:p_] + w + '#' + body + src[p_:], p_, f'lay.comment\t{hx(src)}\t{p_}\t{hx(w)}\t{hx(body)}'))
				else:
					# directly after the token (C13.layout_comment_tight_by_position)
					probes.append(('tcomment', src, src[:p_] + '#' + body + src[p_:], p_, f'lay.tcomment\t{hx(src)}\t{p_}\t{hx(body)}'))
			else:
				p_ = rng.choice(line_ends)
				ind, body = rng.choice(['', ' ', '    ', '\t\t', '         ']), rng.choice([' c', '', '!', ' "q'])
				probes.append((kind, src, src[:p_] + '\n' + ind + '#' + body + src[p_:], p_, f'lay.cline\t{hx(src)}\t{p_}\t{hx(ind)}\t{hx(body)}'))
	verdicts = common.lean_driver('lex', ['def\tpy', *[p[4] for p in probes]], timeout=ctx.scale(240, 900))[1:] if probes else []
	seen: set[str] = set()
	dl2 = _Deadline(ctx, 60, 600)
	for (kind, src, src2, p_, _), v in zip(probes, verdicts):
		if dl2.over():
			hist['skipped:deadline'] += 1
			continue
		res.cases += 1
		seen.add(src2)
		if v not in ('true', 'false'):
			hist[f'{kind}:model-{v[:20]}'] += 1
			continue
		try:
			same: Any = real.significant(src) == real.significant(src2)
		except Exception as e:  # noqa: BLE001
			same = exc_enum(e)
		if v == 'true':
			hist[f'{kind}:certified'] += 1
			if same is not True and f'certified-rewrite:{kind}' not in keys:
				keys.add(f'certified-rewrite:{kind}')
				res.findings.append(Finding(key=f'certified-rewrite:{kind}', what='a layout rewrite the Lean theorem certifies changes the real token sequence',
					replay={'source': src, 'rewritten': src2, 'position': p_, 'real': same if same is not False else 'token sequences differ'}))
		else:
			hist[f"{kind}:refused/{'real-equal' if same is True else 'real-differs'}"] += 1
	if dl2.hit:
		ctx.notes.append(f"deadline hit in search_certified: {hist['skipped:deadline']} certified probes were not evaluated on the real code")
	if probes and not any(k.endswith(':certified') for k in hist):
		ctx.notes.append('search_certified is vacuous: the Lean checker certified none of the probes (a driver without the lay.* ops answers bad-op)')
	res.distinct = len(seen)
	res.histogram = dict(hist)
	res.note = ('`certified` = the checker accepted and the theorem applies (real equality is then demanded); `refused/real-equal` measures what the theorems do not cover '
		'(e.g. newlines inserted inside brackets, a blank after a white space token); `refused/real-differs` are genuine non-layout changes (inside a token, after a unary minus, a newline between tokens)')
	return res


def search_laws(ctx: Ctx, real: Real) -> SearchResult:
	rng = ctx.sub_rng('laws')
	dl = _Deadline(ctx, 60, 900)
	res = SearchResult('concat law (raw token strings, unary marker read as "-", reproduce the source) and span law (each raw token\'s (line, col) span addresses its text) on the real Lexer.parse_impl')
	hist: Counter[str] = Counter()
	seen: set[str] = set()
	keys: set[str] = set()
	n = ctx.scale(500, 5000)
	for i in range(n):
		if dl.over():
			ctx.notes.append(f"deadline hit in search_laws: generation stopped early (what was generated is still checked)")
			break
		r = i % 5
		dn = 'py'
		must_lex = r == 0
		if r < 3:
			src, _ = gen_source(rng, ['subset', 'wide', 'hazard'][r], 1 + (i * 3) % 14)
		elif r == 3:
			src = gen_soup(rng, rng.choice([1, 3, 8, 20, 60]))
		else:
			src = gen_gram_source(rng)
			dn = 'gram'
		res.cases += 1
		seen.add(src)
		verdict, key, detail = law_check(real, dn, src)
		hist[f'{dn}:{verdict}'] += 1
		if must_lex and verdict.startswith('raises:'):
			# a source of the supported subset must be accepted (C13.total on the model side)
			verdict, key, detail = 'bad', f'lexer-{verdict}', {}
		if verdict == 'bad' and key not in keys:
			keys.add(key or '?')
			res.findings.append(Finding(key=key or '?', what=f'{key} law fails on the real lexer', replay={'source': src, 'definition': dn, **detail}))
		if len(res.samples) < 2 and verdict == 'ok':
			res.samples.append({'source': src[:200]})
	res.distinct = len(seen)
	res.histogram = dict(hist)
	res.note = '`raises:*` = the lexer itself refuses the source (backslash outside a string, trailing minus, …): no tokens, no law to check'
	return res


# ---------------------------------------------------------------------------------------------


STATEMENTS = {
	'enums_tie': 'the enum values the model names (TokenTypes / TokenDomains / SpecialSymbols members) equal the dumped __members__',
	'pyDef_wf / gramDef_wf / pyDef_wfTotal / gramDef_wfTotal / pyDef_filters / gramDef_filters': 'finite side conditions of both generated definitions, decided over the whole dumped tables: openers and quote closers non-empty, backslash not white space, symbol[15] = "-", analyse order = the six known domains, every type value parse_symbol computes exists, the shipped post filter list',
	'step': 'each dispatched sub-parser call consumes >= 1 character, stays inside the source, returns the consumed slice as text and its source map',
	'progress': 'for every definition with the side conditions and every source, parse_impl (and the quote loop inside it) never exhausts its len(source) fuel: the real while loops terminate',
	'concat': 'for every source parse_impl accepts, concatenating the raw token texts (unary marker read as "-") gives back the source',
	'total': 'parse_impl accepts every source over the definition\'s alphabet (also one ending in "-": binary Minus since 6dc3d89, example)',
	'span': 'for every raw token the slice of the source addressed by its (line, col) span is its text; the four numbers are >= 0',
	'balance': 'for every token list _rebuild accepts: #INDENT = number of indentation increases, #DEDENT + depth left open = sum of their sizes',
	'balance_iff': 'with nothing left open: #INDENT = #DEDENT iff every increase is exactly one unit',
	'balance_counterexample': 'NOT balance_statement: `if a:\\n    if b:\\n            x\\n    y` gives 2 INDENT / 3 DEDENT (boundary B1, replayed on the real code)',
	'width': 'rescaling all line-break widths from multiples of u to the same multiples of u\' leaves _rebuild\'s result unchanged up to source maps (any u, u\' > 0, any token list, errors included)',
	'pyDef_layoutReady / gramDef_layoutReady': 'every side condition of the layout theorems decided for both generated definitions (comment ends at newline, blank-free openers/combined symbols, white space in no other alphabet, analyse order white space/comment first, shipped post filters, regex filter needs a non-white-space character)',
	'post_filter_norm': 'closed form of post_filter on raw lists without adjacent line breaks whose line breaks are non-empty white space: significant tokens, runs of line breaks (separated only by comments/white space) joined, no line break first or last; exact side conditions of the regex and first/last passes',
	'raw_filterable': 'everything parse_impl returns satisfies these side conditions; its line break tokens contain a newline',
	'layout_tokens_norm / layout_tokens_sig / layout_linebreak / layout_tokens': 'full token-level layout law across line breaks: _rebuild . post_filter depends only on norm up to last-line widths — inserting/removing Comment/WhiteSpace tokens anywhere, comment between two line breaks (merged), comment-only lines, trailing blanks, replacing a line break by one of the same last-line width; layout_tokens proves the former layout_tokens_statement',
	'layout_tokens_partial': 'within one logical line post_filter keeps exactly the significant tokens (no shape condition)',
	'lex_local': 'parse_impl up to source maps = first token, then parse_impl of the rest (suffix locality)',
	'first_token_stable': 'the first token is unchanged when what follows changes, provided no blank-free look-ahead pattern newly matches, the next character keeps its role for the token kind, and a string literal is terminated',
	'lex_prefix': 'whole tokens in front are lexed identically when the rest is replaced compatibly (prefix congruence)',
	'layout_chars_blank': 'END TO END: inserting blanks between two raw tokens / before a line end, or blank lines at a line end, leaves Tokenizer.parse unchanged up to source maps (last token before the insertion not white space/comment, a minus only if already followed by white space)',
	'layout_chars_comment': 'END TO END: inserting blanks + a comment at a line end leaves Tokenizer.parse unchanged up to source maps',
	'layout_chars_comment_line': 'END TO END: inserting a comment-only line (any indentation) before a line end leaves Tokenizer.parse unchanged up to source maps',
	'width_end_to_end': 'END TO END: re-indenting every line from m*u to m*u\' characters (tabs vs any consistent space width) leaves Tokenizer.parse unchanged up to source maps',
	'comment_boundary': 'a comment token starts with the first matching opener and extends exactly to the first newline at or after the opener\'s end (or the end of the source), never containing it; `#` directly before a newline is the one-character token',
	'quote_closing_rule / escape_run_is_bsRun': 'declarative closing rule: the literal ends right after the FIRST occurrence of the closing sequence at or after the body start that is preceded, inside the body, by an even run of backslashes (IsCloser / bsRun); none => unterminated; the model\'s escape count equals the declarative run',
	'first_token_spec / lex_meets_spec': 'maximal munch, declaratively: dispatch = first accepting domain of the analyse order; run tokens are the longest prefix inside their alphabet; symbols the longest combined symbol (3, then 2 characters) else one character; comments / literals by the two rules above; the whole raw token sequence of parse_impl is described token by token (lex ⊆ spec)',
	'layout_closure': 'LayoutEq = equivalence generated by the layout steps (blanks / blank lines, trailing comment, comment-only line, inserted or removed, and re-indentation); layout-equivalent sources have the same Tokenizer.parse up to source maps',
	'source_map_pure': 'the modelled SourceMap.make is a function of (source, begin, end) with no state argument; tied by the translator\'s purity scan of token.py (module/class-level mutable state, global, caching decorators are refused) and by the history search',
	'first_token_spec2 / first_token_unique / lex_unique': 'lex = spec: the strengthened declarative specification (dispatch, maximal munch, type and string from the kindOf table, end of an unterminated literal = right after the last escaped occurrence of the closer) holds of parse_impl\'s raw token sequence, and that sequence is the ONLY one satisfying it',
	'shape_parse_symbol': 'the modelled parse_symbol equals the table-driven reading of its `for i in range(n)` window loop on the table translate/gen_lexer_shape.py extracts from tokenizer.py on every run (per round: window width, exit of the "window does not fit" guard and of the "not a combined symbol" guard — continue / break); every other statement of the function is compared with the text the model was written from',
	'shape_handle_white_space': 'the modelled handle_white_space equals the interpretation of the generated branch table (end of input / deeper / shallower / same: index advance, assignment to context.nest, returned list — one INDENT per deeper line, nest - next_nest DEDENTs per shallower line, nest DEDENTs at the end of input)',
	'shape_handle_symbol': 'the modelled handle_symbol equals the reading of the two generated bracket type lists (which TokenTypes raise / lower context.enclosure)',
	'layout_chars_trailing': 'END TO END: white space appended after the last token (blanks, a final newline, blank lines) leaves Tokenizer.parse unchanged up to source maps; the last token may be any token but white space (a comment only before a newline) — in particular a combined symbol or a minus sign ending exactly at the end of the input',
	'layout_tail_by_position': 'any two white space tails (possibly empty) after the tokens of a source give the same Tokenizer.parse whenever the decidable check tailOK passes for both (driver op lay.tail; examples decided in the kernel)',
	'layout_closure_tail': 'LayoutEqT = equivalence generated by the steps of layout_closure and the replacement of the tail; equivalent sources have the same Tokenizer.parse up to source maps',
	'layout_chars_leading_blank / layout_chars_leading_comment / layout_lead_by_position': 'END TO END: white space (blanks, blank lines, an indentation of the first line) or a comment-only line in front of the first token leaves Tokenizer.parse unchanged up to source maps; positional form with the decidable checker leadOK (driver op lay.lead; examples decided in the kernel)',
	'layout_closure_all': 'LayoutEqAll = equivalence generated by the steps between tokens / at line ends (layout_closure), the tail (layout_closure_tail) and the rewrites in front of the first token; equivalent sources have the same Tokenizer.parse up to source maps (example: two comment lines and a blank line in front, a final newline behind)',
	'pyDef_tailFree': 'the side condition of the tight-comment theorems decided for the generated definitions: `#` occurs in no look-ahead pattern of TokenDefinition() after the first character (for the grammar definition `//` does continue a `/`: there the rewrite is no layout change)',
	'layout_chars_comment_tight / layout_comment_tight_by_position': 'END TO END: a comment inserted at a line end directly after a token, without a blank, leaves Tokenizer.parse unchanged up to source maps (last token not a minus sign / comment); positional form with the decidable checker commentTightOK (driver op lay.tcomment; examples decided in the kernel)',
	'layout_blank_by_position / layout_comment_by_position / layout_comment_line_by_position': 'the layout rewrites described syntactically (insert w at offset pos): whenever the decidable checker passes (it computes the TokPrefix evidence by lexing the prefix token by token: whole, terminated tokens, the last one tolerating white space), Tokenizer.parse is unchanged up to source maps; examples decided in the kernel',
}


def run(ctx: Ctx) -> int:
	translate_ok, translate_msg = True, ''
	try:
		from translate import gen_lexer_shape, gen_token_def
		with ctx.timed('translate'):
			ctx.generated_tables.extend(gen_token_def.generate())
			ctx.generated_tables.extend(gen_lexer_shape.generate())
	except Exception as e:  # noqa: BLE001
		translate_ok, translate_msg = False, f'gen_token_def / gen_lexer_shape: {type(e).__name__}: {e}'
	proof = common.prove(ctx, PROP, leanchecker=ctx.thorough)
	real = Real()
	with ctx.timed('correspondence'):
		streams = [stream_lex(ctx, real), stream_real(ctx, real), stream_malformed(ctx, real)]
	with ctx.timed('search'):
		searches = [search_cpython(ctx, real), search_layout(ctx, real), search_token_layout(ctx, real), search_laws(ctx, real), search_history(ctx, real), search_certified(ctx, real)]
	if _Budget.timeouts:
		ctx.notes.append(f'{_Budget.timeouts} real-code calls exceeded their wall budget ({CASE_BUDGET_S}s, {_Budget.SHRUNK_S}s after the first {_Budget.SHRINK_AFTER}); each is reported as CaseTimeout where it happened')
	return common.finish(ctx, proof, streams, searches,
		translate_ok=translate_ok, translate_msg=translate_msg,
		statements=STATEMENTS,
		partial={
			'proved': 'concat / progress / totality / span for parse_impl; INDENT/DEDENT accounting of _rebuild (and its falsity for over-indented blocks); closed form of post_filter; the layout sentence at token level in full and at character level end to end for blanks, blank lines, trailing comments (with or without a blank in front), comment-only lines and the indentation unit, for white space / comment lines in front of the first token, and for the white space after the last token incl. the final newline (each rewrite step at a token boundary; composition by transitivity); the control flow of parse_symbol / handle_white_space / handle_symbol as generated tables equal to the hand model',
			'not_proved': 'newlines inserted INSIDE brackets are not a LayoutStep (they change norm and are only dropped by _rebuild); removal of blanks that are the only separation of two tokens is covered only in the direction "insert" (the equalities are symmetric, but the premise is stated on the source without the blanks); layout changes inside brackets are covered (line breaks there are ordinary raw tokens) but not singled out; unterminated string literals are excluded by hypothesis; equality with CPython stays search-only',
			'correspondence_only': 'the model is the code (three streams); post filter regex semantics (re.split) for the one pattern TokenDefinition ships',
			'search_only': 'equality with CPython tokenize on the supported subset; layout rewrites the theorems refuse (see not_proved) are covered by the metamorphic search only',
		},
		assumptions=[
			'indentation widths are below 2^53 (int(spaces / unit) is then floor division)',
			'CPython oracle domain = harness/lexgen.py docstring (ASCII, \\n line ends, decimal numbers with a leading digit, \' " triple-double strings with prefixes r f, operators shared by Python and TokenDefinition, one consistent indentation unit, balanced brackets, at least one statement)',
			'the span law is about raw lexer tokens; line breaks merged by post_filter carry the second token\'s source map (Token.joined builds the map from `others` only) and synthetic NEWLINE/INDENT/DEDENT tokens reuse their line break\'s map',
		],
		trusted=['CPython 3.12 tokenize (f-strings re-joined from FSTRING_START..FSTRING_END by source offsets)', 'Python re for the one shipped post filter pattern, mirrored by a 3-quantifier item matcher whose agreement is checked by the lex-malformed stream'])


def replay(ctx: Ctx, path: str) -> int:
	with open(path, encoding='utf-8') as f:
		rec = json.load(f)
	print(json.dumps(rec, indent=1, ensure_ascii=False)[:4000])
	real = Real()
	inp = rec.get('input') or {}
	if rec.get('kind') == 'failing-input' and 'source' in inp:
		src = inp['source']
		key = rec.get('key', '')
		if key.startswith('py-'):
			verdict, k2, detail = py_oracle_check(real, src)
			print(f'replay: cpython oracle -> {verdict} {k2} {json.dumps(detail, ensure_ascii=False)[:1500]}')
			return 1 if verdict == 'bad' else 0
		if key.startswith('layout:'):
			a, b = real.significant(src), real.significant(inp['rewritten'])
			print(f'replay: layout -> {"differs" if a != b else "equal"}')
			return 1 if a != b else 0
		if key in ('concat', 'span'):
			verdict, k2, detail = law_check(real, inp.get('definition', 'py'), src)
			print(f'replay: {key} law -> {verdict} {detail}')
			return 1 if verdict == 'bad' else 0
		if key == 'balance':
			toks = real.significant(src)
			ind = sum(1 for t, _ in toks if t == 'Indent')
			ded = sum(1 for t, _ in toks if t == 'Dedent')
			print(f'replay: balance -> {ind} INDENT / {ded} DEDENT')
			return 1 if ind != ded else 0
	print('replay: re-running the full check with the recorded seed')
	ctx2 = Ctx(PROP, rec.get('tier', 'quick'), int(rec.get('seed', 0)))
	return run(ctx2)
