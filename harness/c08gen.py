"""C08 — programs, names and renamings for the metamorphic law `transpile(r(P)) == r(transpile(P))`.

Contents
  * the precise meaning of "user identifier" and of "fresh name that is not a keyword, builtin or tranp-reserved word"
    (`user_identifiers`, `Reserved`), see the docstrings — these conditions make the oracle exact;
  * `rename_source` (ast/tokenize-guided token rewriting of a program) and `rename_text` (identifier-token rewriting of
    emitted C++, symbol keys and type strings);
  * a generator of nested programs (module-level names, classes with class variables / fields / methods / class methods /
    properties / nested classes / inheritance / enums, functions, closures, locals in flow scopes, comprehensions) whose
    identifiers come from an adversarial pool, and a generator of adversarial fresh names.
"""
from __future__ import annotations

import ast
import builtins
import io
import keyword
import os
import random
import re
import tokenize
from typing import Any

from harness.common import REPO

# an identifier token: not the tail of a number literal (`1e5`, `0x1F`) or of an escape sequence (`\\n`)
IDENT_RE = re.compile(r'(?<![0-9A-Za-z_\\])[A-Za-z_][A-Za-z_0-9]*')

CPP_KEYWORDS = set('''alignas alignof and and_eq asm auto bitand bitor bool break case catch char char8_t char16_t char32_t class compl concept
const consteval constexpr constinit const_cast continue co_await co_return co_yield decltype default delete do double dynamic_cast else
enum explicit export extern false float for friend goto if inline int long mutable namespace new noexcept not not_eq nullptr operator or
or_eq private protected public register reinterpret_cast requires return short signed sizeof static static_assert static_cast struct
switch template this thread_local throw true try typedef typeid typename union unsigned using virtual void volatile wchar_t while xor
xor_eq override final import module std main NULL size_t int8_t int16_t int32_t int64_t uint8_t uint16_t uint32_t uint64_t printf fmod'''.split())


# ---------------------------------------------------------------------------------------------
# vocabulary the transpiler can emit on its own


_VOCAB: set[str] | None = None


def emitter_vocabulary() -> set[str]:
	"""Identifier tokens tranp can put into its output WITHOUT taking them from a user identifier: every identifier-like
	word of the C++ templates, of the translation table, and of the string literals of the C++ emitter's Python sources.
	A name of the program that is in this set is never renamed (the output-side rewriting could not tell the two apart)."""
	global _VOCAB
	if _VOCAB is not None:
		return _VOCAB
	words: set[str] = set()
	tdir = os.path.join(REPO, 'data', 'cpp', 'template')
	for root, _, files in os.walk(tdir):
		for fn in files:
			with open(os.path.join(root, fn), encoding='utf-8') as f:
				words.update(IDENT_RE.findall(f.read()))
	with open(os.path.join(REPO, 'data', 'i18n.yml'), encoding='utf-8') as f:
		words.update(IDENT_RE.findall(f.read()))
	for sub in ('rogw/tranp/implements/cpp', 'rogw/tranp/view', 'rogw/tranp/transpiler', 'rogw/tranp/data/meta', 'rogw/tranp/compatible/cpp'):
		for root, _, files in os.walk(os.path.join(REPO, sub)):
			for fn in files:
				if not fn.endswith('.py'):
					continue
				with open(os.path.join(root, fn), encoding='utf-8') as f:
					src = f.read()
				try:
					tree = ast.parse(src)
				except SyntaxError:
					words.update(IDENT_RE.findall(src))
					continue
				for node in ast.walk(tree):
					if isinstance(node, ast.Constant) and isinstance(node.value, str):
						words.update(IDENT_RE.findall(node.value))
	_VOCAB = words
	return words


# ---------------------------------------------------------------------------------------------
# reserved names


class Reserved:
	"""The set a fresh name must avoid, made precise:

	1. Python keywords and soft keywords (`keyword.kwlist`, `keyword.softkwlist`);
	2. builtins (`dir(builtins)`);
	3. tranp-reserved words:
	   a. `self`, `cls` (DeclableMatcher / ThisRef / ClassRef match these spellings), `super`, `_`;
	   b. every dunder name `__x__` (constructor / operator tables);
	   c. every local element of a symbol-table key of a module other than the program itself after the program is loaded
	      (tranp's typed stubs `compatible/libralies/classes.py`, `typing`, `collections.abc`, `enum`, ... — `int`, `list`,
	      `append`, `items`, `Enum`, `ClassVar`, ...): passed in as `library_names`;
	   d. the leading-underscore class of a name is part of tranp's accessibility convention (`accessible.py:15-19`:
	      `__x` private, `_x` protected, else public), so a renaming must map a name to a name of the same class;
	4. (not tranp-reserved, excluded so that the emitted C++ stays a C++ program) C++ keywords and a few words of the C++
	   runtime (`std`, `printf`, ...).
	"""

	def __init__(self, library_names: set[str]) -> None:
		self.words: set[str] = set(keyword.kwlist) | set(keyword.softkwlist) | set(dir(builtins)) | {'self', 'cls', 'super', '_'} | set(library_names) | CPP_KEYWORDS
		# 3c is too wide for MEMBER names: a method / field of a user class may be called `items`, `pop`, `on`, … — tranp decides by
		# the TYPE of the receiver there (Generated/C08Names.lean, `name_sites_guarded`), so these spellings are ordinary fresh names
		# for members. Set by the harness from the generated table (translate/gen_c08_names.member_words).
		self.member_words: set[str] = set()

	def allow_member_words(self, words: Any) -> None:
		hard = set(keyword.kwlist) | set(keyword.softkwlist) | set(dir(builtins)) | {'self', 'cls', 'super', '_'} | CPP_KEYWORDS
		self.member_words = {w for w in words if IDENT_RE.fullmatch(w) and w not in hard and self.underscore_class(w) == 0}

	@staticmethod
	def underscore_class(name: str) -> int:
		if name.startswith('__') and name.endswith('__') and len(name) > 4:
			return 3
		if name.startswith('__'):
			return 2
		if name.startswith('_'):
			return 1
		return 0

	def is_reserved(self, name: str, kind: str | None = None) -> bool:
		if kind in ('method', 'field', 'classvar') and name in self.member_words:
			return False
		return name in self.words or self.underscore_class(name) == 3

	def fresh_ok(self, name: str, original: str, kind: str | None = None) -> bool:
		return bool(IDENT_RE.fullmatch(name)) and not self.is_reserved(name, kind) and self.underscore_class(name) == self.underscore_class(original)


# ---------------------------------------------------------------------------------------------
# user identifiers of a program, source / text renaming


def _annotation_strings(tree: ast.AST) -> list[ast.Constant]:
	"""String constants in annotation position (forward references): their content is a type expression."""
	out: list[ast.Constant] = []

	def from_ann(a: ast.AST | None) -> None:
		if a is None:
			return
		for n in ast.walk(a):
			if isinstance(n, ast.Constant) and isinstance(n.value, str):
				out.append(n)

	for node in ast.walk(tree):
		# `T = TypeVar('T')`: the string is the NAME of the type variable again
		if isinstance(node, ast.Call) and isinstance(node.func, ast.Name) and node.func.id in ('TypeVar', 'TypeVarTuple', 'ParamSpec') and node.args:
			if isinstance(node.args[0], ast.Constant) and isinstance(node.args[0].value, str):
				out.append(node.args[0])
		if isinstance(node, (ast.FunctionDef, ast.AsyncFunctionDef)):
			from_ann(node.returns)
			for a in [*node.args.posonlyargs, *node.args.args, *node.args.kwonlyargs, node.args.vararg, node.args.kwarg]:
				if a is not None:
					from_ann(a.annotation)
		elif isinstance(node, ast.AnnAssign):
			from_ann(node.annotation)
	return out


def user_identifiers(source: str) -> dict[str, str]:
	"""name -> kind for every identifier the program itself binds: function / method / class / param / local / field /
	classvar / module / enum member / closure / comprehension variable. Imported names are not user identifiers."""
	tree = ast.parse(source)
	kinds: dict[str, str] = {}

	def put(name: str, kind: str) -> None:
		kinds.setdefault(name, kind)

	def targets(t: ast.AST, kind: str) -> None:
		if isinstance(t, ast.Name):
			put(t.id, kind)
		elif isinstance(t, (ast.Tuple, ast.List)):
			for e in t.elts:
				targets(e, kind)
		elif isinstance(t, ast.Attribute) and isinstance(t.value, ast.Name) and t.value.id == 'self':
			put(t.attr, 'field')
		elif isinstance(t, ast.Starred):
			targets(t.value, kind)

	def visit(node: ast.AST, ctx: str) -> None:
		for child in ast.iter_child_nodes(node):
			if isinstance(child, (ast.FunctionDef, ast.AsyncFunctionDef)):
				put(child.name, 'method' if ctx in ('class', 'enum') else ('closure' if ctx == 'function' else 'function'))
				for a in [*child.args.posonlyargs, *child.args.args, *child.args.kwonlyargs, child.args.vararg, child.args.kwarg]:
					if a is not None and a.arg not in ('self', 'cls'):
						put(a.arg, 'param')
				visit(child, 'function')
			elif isinstance(child, ast.ClassDef):
				put(child.name, 'nested-class' if ctx == 'class' else 'class')
				is_enum = any(isinstance(b, ast.Name) and b.id == 'Enum' for b in child.bases)
				visit(child, 'enum' if is_enum else 'class')
			elif isinstance(child, ast.Lambda):
				for a in child.args.args:
					put(a.arg, 'param')
				visit(child, ctx)
			else:
				kind = {'module': 'module', 'class': 'classvar', 'enum': 'enum-member', 'function': 'local'}[ctx]
				if isinstance(child, ast.Assign):
					for t in child.targets:
						targets(t, kind)
				elif isinstance(child, (ast.AnnAssign, ast.AugAssign)):
					targets(child.target, kind)
				elif isinstance(child, (ast.For, ast.AsyncFor)):
					targets(child.target, 'local' if ctx != 'module' else 'module')
				elif isinstance(child, ast.comprehension):
					targets(child.target, 'local')
				elif isinstance(child, ast.ExceptHandler) and child.name:
					put(child.name, 'local')
				elif isinstance(child, (ast.With, ast.AsyncWith)):
					for item in child.items:
						if item.optional_vars is not None:
							targets(item.optional_vars, 'local')
				visit(child, ctx)

	visit(tree, 'module')
	return kinds


def structural_peers(source: str) -> dict[str, list[str]]:
	"""name -> the identifiers it is structurally tied to: a nested class / a method -> the enclosing class; an enum member ->
	the members declared before it (else the other members). Used to build new names as prefix + peer / peer + suffix."""
	tree = ast.parse(source)
	out: dict[str, list[str]] = {}

	def visit(node: ast.AST, outer: str | None) -> None:
		for child in ast.iter_child_nodes(node):
			if isinstance(child, ast.ClassDef):
				if outer is not None:
					out.setdefault(child.name, []).append(outer)
				if any(isinstance(b, ast.Name) and b.id == 'Enum' for b in child.bases):
					members = [t.id for st in child.body if isinstance(st, ast.Assign) for t in st.targets if isinstance(t, ast.Name)]
					for i, m in enumerate(members):
						out.setdefault(m, []).extend(members[:i] or [x for x in members if x != m])
				visit(child, child.name)
			elif isinstance(child, (ast.FunctionDef, ast.AsyncFunctionDef)):
				if outer is not None and isinstance(node, ast.ClassDef):
					out.setdefault(child.name, []).append(outer)
				# a function / method is tied to the (last element of the) name of its return type: `build() -> Widget` ~ `Widget_build`
				ret = child.returns
				if isinstance(ret, ast.Constant) and isinstance(ret.value, str):
					rname = ret.value.split('.')[-1]
				elif isinstance(ret, ast.Name):
					rname = ret.id
				elif isinstance(ret, ast.Attribute):
					rname = ret.attr
				else:
					rname = ''
				if IDENT_RE.fullmatch(rname or '-') and rname != 'None':
					out.setdefault(child.name, []).append(rname)
				visit(child, None)
			else:
				visit(child, outer)

	visit(tree, None)
	return out


def data_string_words(source: str) -> set[str]:
	"""Identifier-like words inside comments and inside string literals that are not forward-reference annotations. The
	source-side renaming leaves them alone, the output-side rewriting could not — so they are excluded from a renaming's domain."""
	tree = ast.parse(source)
	ann = {(c.lineno, c.col_offset) for c in _annotation_strings(tree)}
	words: set[str] = set()
	for tok in tokenize.generate_tokens(io.StringIO(source).readline):
		if tok.type == tokenize.COMMENT:
			words.update(IDENT_RE.findall(tok.string))
		elif tok.type == tokenize.STRING and tok.start not in ann:
			words.update(IDENT_RE.findall(tok.string))
		elif tok.type in (getattr(tokenize, 'FSTRING_MIDDLE', -1),):
			words.update(IDENT_RE.findall(tok.string))
	return words


def rename_text(text: str, mapping: dict[str, str]) -> str:
	"""Identifier-token rewriting (emitted C++, symbol keys, type strings): every maximal identifier token that is in the
	mapping's domain is replaced — also inside comments and string literals of the text."""
	return IDENT_RE.sub(lambda m: mapping.get(m.group(0), m.group(0)), text)


def rename_source(source: str, mapping: dict[str, str]) -> str:
	"""ast/tokenize-guided rewriting of a program: every NAME token in the domain is replaced; the content of string literals
	in annotation position (forward references) is rewritten token-wise; other strings and comments are left alone."""
	tree = ast.parse(source)
	ann = {(c.lineno, c.col_offset) for c in _annotation_strings(tree)}
	lines = source.splitlines(keepends=True)
	edits: list[tuple[int, int, int, str]] = []
	for tok in tokenize.generate_tokens(io.StringIO(source).readline):
		if tok.type == tokenize.NAME and tok.string in mapping:
			edits.append((tok.start[0], tok.start[1], tok.end[1], mapping[tok.string]))
		elif tok.type == tokenize.STRING and tok.start in ann and tok.start[0] == tok.end[0]:
			edits.append((tok.start[0], tok.start[1], tok.end[1], rename_text(tok.string, mapping)))
	for line_no, c0, c1, new in sorted(edits, reverse=True):
		line = lines[line_no - 1]
		lines[line_no - 1] = line[:c0] + new + line[c1:]
	out = ''.join(lines)
	ast.parse(out)
	return out


def prefix_aliased(source: str) -> set[str]:
	"""Classes / functions decorated `@Embed.alias('Pre', prefix=True)`: tranp emits the DERIVED identifier `Pre` + name, which a
	token-wise rewriting of the output cannot follow — such names are outside a renaming's domain."""
	out: set[str] = set()
	for node in ast.walk(ast.parse(source)):
		if isinstance(node, (ast.ClassDef, ast.FunctionDef)):
			for d in node.decorator_list:
				if isinstance(d, ast.Call) and isinstance(d.func, ast.Attribute) and d.func.attr == 'alias' and (len(d.args) + len(d.keywords)) >= 2:
					out.add(node.name)
	return out


def renaming_domain(source: str, reserved: Reserved) -> dict[str, str]:
	"""The identifiers of a program a renaming may touch: user identifiers that are not reserved, that the emitter cannot
	produce on its own, and that do not occur inside data strings or comments."""
	vocab = emitter_vocabulary()
	strings = data_string_words(source)
	derived = prefix_aliased(source)
	return {n: k for n, k in user_identifiers(source).items() if not reserved.is_reserved(n) and n not in vocab and n not in strings and n not in derived}


# ---------------------------------------------------------------------------------------------
# adversarial names


SEEDS = ['ab', 'abc', 'abcd', 'a_b', 'a__b', 'ab_', 'ab__', 'q', 'w', 'zz', 'val', 'vals', 'value', 'value2', 'valueOf', 'item', 'itemz',
	'node', 'nodes_', 'kind', 'kinds', 'left', 'leftmost', 'lhs', 'rhs', 'acc', 'accum', 'tmp', 'tmp2', 'tmp__2', 'o', 'oo', 'ooo',
	'total', 'total_', 'count_', 'counter', 'idx', 'idx2', 'pos', 'pos_x', 'pos__x', 'elem', 'elems', 'cur', 'curr', 'prev', 'prevv',
	'width', 'widths', 'w2', 'h2', 'depth', 'depth_', 'flag', 'flags', 'res', 'result', 'resultat', 'box', 'boxed', 'unit', 'units',
	'quite_a_long_identifier_that_goes_on_and_on_for_a_while_x', 'quite_a_long_identifier_that_goes_on_and_on_for_a_while_xy']
CLASS_SEEDS = ['Ab', 'Abc', 'Abcd', 'A_b', 'A__b', 'Q', 'Qq', 'Node', 'Nodes', 'NodeX', 'Box', 'Boxed', 'Unit', 'Units', 'Shape', 'Shapes',
	'Item', 'ItemZ', 'Acc', 'Accum', 'Kind', 'Kinds', 'Tree', 'Trees', 'Left', 'LeftMost', 'Cell', 'Cells', 'Cell_', 'Cell__2']
RESERVED_STEMS = ['self', 'cls', 'super', 'Iterator', 'ItemsView', 'init', '__init__', 'len', 'print', 'int', 'float', 'bool', 'const', 'const', 'str', 'list', 'dict', 'range', 'enumerate', 'type', 'object',
	'None', 'Enum', 'lambda', 'class', 'def', 'new', 'delete', 'this', 'std', 'auto', 'template', 'operator', 'Empty', 'Unknown', 'if', 'for',
	'func_call', 'function', 'closure', 'method', 'block', 'var', 'name', 'items', 'keys', 'values', 'append', 'pop', 'get', 'copy', 'raw', 'on', 'ref', 'addr']


def relation_of(fresh: str, others: set[str]) -> str:
	"""Classify how a fresh name relates to reserved words and to other identifiers (used for finding keys)."""
	if fresh.startswith('self'):
		return 'self-prefix'
	if fresh.endswith('__init__'):
		return 'init-suffix'
	if fresh.startswith('cls'):
		return 'cls-prefix'
	for stem in RESERVED_STEMS:
		if len(stem) > 1 and fresh != stem and (fresh.startswith(stem) or fresh.endswith(stem)):
			return f'reserved-affix'
	for o in others:
		if o != fresh and (fresh.startswith(o) or o.startswith(fresh)):
			return 'prefix-of-identifier'
	for o in others:
		if o != fresh and (fresh.endswith(o) or o.endswith(fresh)):
			return 'suffix-of-identifier'
	if '__' in fresh:
		return 'double-underscore'
	if len(fresh) == 1:
		return 'single-letter'
	if len(fresh) > 40:
		return 'long'
	return 'plain'


def fresh_candidates(rng: random.Random, original: str, identifiers: list[str], same_kind: list[str] | None = None, related_only: bool = False) -> list[str]:
	"""Adversarial candidates for the new spelling of `original` (before the reserved / collision filter)."""
	us = Reserved.underscore_class(original)
	lead = '_' * us if us < 3 else ''
	other = rng.choice(identifiers) if identifiers else 'x'
	other_core = other.lstrip('_') or 'x'
	stem = rng.choice(RESERVED_STEMS)
	core = original.lstrip('_') or 'x'
	letters = 'abcdefghijklmnopqrstuvwxyzABCDEFGHIJKLMNOPQRSTUVWXYZ'
	pool = [
		other_core + rng.choice(['c', '_', '__', '2', 'x', 'X', '_x', '__x']),            # another identifier plus a suffix
		other_core[:max(1, len(other_core) - 1)],                                       # a proper prefix of another identifier
		rng.choice(['x', 'pre', 'my', 'a', '_'.join(['p', 'q'])]) + other_core,        # another identifier as suffix
		other_core + '__' + core,                                                     # two identifiers around a double underscore
		stem.strip('_') + rng.choice(['o', 'x', '_', '__', '2', 'ish', '_x']) if stem.strip('_') else 'x',  # reserved word as prefix
		rng.choice(['x', 'do', 'my', 'a_', 'pre__']) + stem,                             # reserved word as suffix
		rng.choice(['self', 'cls', 'super']) + rng.choice(['o', 'x', '_', '__', '2', 'ish', '_x', 'X']),   # this/class reference word as prefix
		rng.choice(['x', 'do', 'my', 'a_', 'pre', 'post__']) + rng.choice(['__init__', '__init__', '__new__', '__eq__', '__name__']),  # dunder as suffix
		rng.choice(['next_', 'to', 'make_', 'x']) + rng.choice([i for i in identifiers if i[:1].isupper()] or ['Item']),   # a (class) name as suffix
		rng.choice(['it', 'my', 'is_', 'him', 'x_']) + rng.choice(['self', 'self', 'cls']),      # this/class reference word as SUFFIX
		rng.choice(letters),                                                          # single letter
		''.join(rng.choice(letters + '_') for _ in range(rng.randint(50, 90))) + 'z',  # long
		core + core,                                                                  # the name doubled
		core[::-1] if IDENT_RE.fullmatch(core[::-1]) else core + 'r',                  # reversed
		core.upper() if core.upper() != core else core.lower(),                        # case change
		rng.choice(SEEDS + CLASS_SEEDS),                                              # from the generator's own pool
		core + '_',
		'x' + core,
	]
	# names built from OTHER identifiers of the same kind (another class / enum member / method / ...): `Box` + `Item`, `DARK_` + `RED`
	peers = [i.lstrip('_') for i in (same_kind or []) if i != original and i.lstrip('_')]
	related: list[str] = []
	if peers:
		peer = rng.choice(peers)
		related = [
			peer + core,                                                               # a peer as prefix of the old name (Box + Item)
			peer + '_' + core,
			core + peer,                                                               # a peer as suffix
			rng.choice(['DARK_', 'dark_', 'x', 'my_', 'Sub', 'pre']) + peer,              # prefix + a peer
			peer + rng.choice(['Item', 'Node', '_x', 'X', '2', 's', '_']),               # a peer + suffix
		]
	if related_only and related:
		pool = related
	else:
		pool = pool + related
	return [lead + c.lstrip('_') if us > 0 else c.lstrip('_') or 'x' for c in pool]


PEER_KINDS = {'class': ('class', 'nested-class'), 'nested-class': ('class', 'nested-class'), 'method': ('method', 'class', 'nested-class'),
	'classvar': ('classvar', 'field'), 'field': ('classvar', 'field'), 'local': ('local', 'param'), 'param': ('local', 'param')}


def make_renaming(rng: random.Random, domain: dict[str, str], all_identifiers: set[str], reserved: Reserved, how_many: int | None = None,
		related: bool = False, ties: dict[str, list[str]] | None = None) -> dict[str, str]:
	"""An injective renaming of (a subset of) the domain into fresh names: not reserved, same underscore class, different
	from every identifier that occurs in the program (renamed or not) and from each other. `related`: every new name is built
	from another identifier of the same kind (prefix + existing, existing + suffix), preferring classes / enum members."""
	names = sorted(domain)
	if not names:
		return {}
	k = how_many if how_many is not None else rng.choice([1, 1, 2, 3, len(names), len(names), max(1, len(names) // 2)])
	if related and rng.random() < 0.35:
		# ORDER-REVERSING: two identifiers of the same kind a < b; a is renamed to b + 'z' + a, which sorts after b
		kinds = sorted({kd for kd in domain.values()})
		rng.shuffle(kinds)
		prefer = [kd for kd in ('module', 'class', 'nested-class', 'param', 'local', 'method', 'function', 'classvar', 'enum-member') if kd in kinds]
		for kd in (prefer[:1] if prefer and rng.random() < 0.5 else []) + kinds:
			group = sorted(n for n in names if domain[n] == kd)
			if len(group) < 2:
				continue
			a, b = sorted(rng.sample(group, 2))
			us = Reserved.underscore_class(a)
			cand = ('_' * us if us < 3 else '') + b.lstrip('_') + 'z' + a.lstrip('_')
			if cand not in all_identifiers and reserved.fresh_ok(cand, a):
				return {a: cand}
	if related:
		tied = [n for n in names if domain[n] in ('nested-class', 'enum-member', 'function', 'method') and (ties or {}).get(n)]
		structural = [n for n in names if domain[n] in ('nested-class', 'enum-member', 'class', 'method')]
		groups = [g for g in ([n for n in tied if domain[n] == 'nested-class'], [n for n in tied if domain[n] == 'enum-member'], [n for n in tied if domain[n] in ('function', 'method')]) if g]
		pick_from = rng.choice(groups) if groups and rng.random() < 0.7 else (structural if structural and rng.random() < 0.8 else names)
		chosen = rng.sample(pick_from, min(k, len(pick_from)))
	else:
		chosen = rng.sample(names, min(k, len(names)))
	by_kind: dict[str, list[str]] = {}
	for n, kd in domain.items():
		by_kind.setdefault(kd, []).append(n)
	taken = set(all_identifiers)
	mapping: dict[str, str] = {}
	idents = sorted(all_identifiers)
	for n in chosen:
		for _ in range(40):
			peers = sorted({p for kd in PEER_KINDS.get(domain[n], (domain[n],)) for p in by_kind.get(kd, [])})
			if related and (ties or {}).get(n) and rng.random() < 0.75:
				peers = list(ties[n])   # the enclosing class / the enum members declared earlier
			cand = rng.choice(fresh_candidates(rng, n, idents, peers, related_only=related))
			if cand not in taken and reserved.fresh_ok(cand, n):
				mapping[n] = cand
				taken.add(cand)
				break
	return mapping


# ---------------------------------------------------------------------------------------------
# program generator (nests)


TYPES = ['int', 'str', 'bool', 'float']


class NameSupply:
	"""Module-level names (functions, classes, enums, module variables) are globally unique. Parameters, locals, closure
	names and class members may repeat a name used in ANOTHER scope (same spelling, different binding) — `avoid` holds the
	names of the scope being built."""

	def __init__(self, rng: random.Random) -> None:
		self.rng = rng
		self.used: set[str] = set()
		self.globals: set[str] = set()
		self.reusable: list[str] = []
		self.vocab = emitter_vocabulary()

	def take(self, pool: list[str], lead: str = '', avoid: set[str] | None = None, is_global: bool = False) -> str:
		avoid = avoid if avoid is not None else set()
		if not is_global and self.reusable and self.rng.random() < 0.3:
			for _ in range(10):
				n = self.rng.choice(self.reusable)
				if n not in avoid and n not in self.globals and Reserved.underscore_class(n) == len(lead):
					avoid.add(n)
					return n
		for _ in range(200):
			n = lead + self.rng.choice(pool)
			if self.rng.random() < 0.25:
				n += self.rng.choice(['x', '_', '2', '__y', 'Z'])
			if n not in self.used and n not in self.vocab and n not in CPP_KEYWORDS and not keyword.iskeyword(n) and n not in dir(builtins):
				break
		else:
			n = f'{lead}u{len(self.used)}q'
		self.used.add(n)
		avoid.add(n)
		if is_global:
			self.globals.add(n)
		else:
			self.reusable.append(n)
		return n

	def var(self, avoid: set[str] | None = None) -> str:
		return self.take(SEEDS, avoid=avoid)

	def gvar(self) -> str:
		return self.take(SEEDS, is_global=True)

	def cls(self) -> str:
		return self.take(CLASS_SEEDS, is_global=True)

	def member(self, avoid: set[str] | None = None) -> str:
		lead = self.rng.choice(['', '', '', '_', '__'])
		return self.take(SEEDS, lead, avoid=avoid)


class FuncSig:
	def __init__(self, name: str, params: list[tuple[str, str]], ret: str, owner: 'ClassSig | None' = None, kind: str = 'function') -> None:
		self.name, self.params, self.ret, self.owner, self.kind = name, params, ret, owner, kind


class ClassSig:
	def __init__(self, name: str, base: 'ClassSig | None') -> None:
		self.name = name
		self.base = base
		self.classvars: list[tuple[str, str]] = []
		self.fields: list[tuple[str, str]] = []
		self.ctor_params: list[tuple[str, str]] = []
		self.methods: list[FuncSig] = []
		self.inner: 'ClassSig | None' = None
		self.qual = name
		self.member_names: set[str] = set(base.member_names) if base else set()

	def all_fields(self) -> list[tuple[str, str]]:
		return [*(self.base.all_fields() if self.base else []), *self.fields]

	def all_methods(self) -> list[FuncSig]:
		return [*(self.base.all_methods() if self.base else []), *self.methods]


class NestGen:
	"""Generates one module. Blocks are treated as C++ scopes: a variable is used only inside the block that declares it,
	sibling blocks may declare the same name again (declaration merging), closures capture locals and parameters."""

	def __init__(self, rng: random.Random, size: int = 2) -> None:
		self.rng = rng
		self.size = size
		self.names = NameSupply(rng)
		self.classes: list[ClassSig] = []
		self.enums: list[tuple[str, list[str]]] = []
		self.funcs: list[FuncSig] = []
		self.module_vars: list[tuple[str, str]] = []
		self.applier: str | None = None
		self.alias_seq = 0
		self.hist: dict[str, int] = {}

	def count(self, k: str) -> None:
		self.hist[k] = self.hist.get(k, 0) + 1

	# -- expressions ---------------------------------------------------------------------

	def lit(self, ty: str) -> str:
		r = self.rng
		if ty == 'int':
			return str(r.randint(0, 9))
		if ty == 'str':
			return "'" + ''.join(r.choice('0123456789 +-:') for _ in range(r.randint(0, 3))) + "'"
		if ty == 'bool':
			return r.choice(['True', 'False'])
		if ty == 'float':
			return r.choice(['0.5', '1.5', '2.25'])
		if ty == 'list[int]':
			return '[' + ', '.join(str(r.randint(0, 9)) for _ in range(r.randint(1, 3))) + ']'
		if ty == 'dict[str, int]':
			return "{'1': " + str(r.randint(0, 9)) + '}'
		cls = self.class_by_name(ty)
		if cls is not None:
			return self.new(cls, [], 3)
		for en, members in self.enums:
			if en == ty:
				return f'{en}.{r.choice(members)}'
		raise AssertionError(ty)

	def class_by_name(self, name: str) -> ClassSig | None:
		for c in self.classes:
			if c.qual == name:
				return c
			if c.inner is not None and c.inner.qual == name:
				return c.inner
		return None

	def new(self, cls: ClassSig, env: list[tuple[str, str]], depth: int) -> str:
		return f"{cls.qual}({', '.join(self.expr(t, env, depth + 1) for _, t in cls.ctor_params)})"

	def expr(self, ty: str, env: list[tuple[str, str]], depth: int = 0, me: ClassSig | None = None) -> str:
		r = self.rng
		cands: list[Any] = []
		same = [n for n, t in env if t == ty]
		if same:
			cands += [lambda: r.choice(same)] * 3
		cands.append(lambda: self.lit(ty))
		if depth < 2:
			objs = [(n, self.class_by_name(t)) for n, t in env if self.class_by_name(t) is not None]
			for n, c in objs:
				assert c is not None
				for fn, ft in c.all_fields():
					if ft == ty:
						cands.append(lambda n=n, fn=fn: f'{n}.{fn}')
				for m in c.all_methods():
					if m.ret == ty and m.kind == 'method':
						cands.append(lambda n=n, m=m: f"{n}.{m.name}({', '.join(self.expr(t, env, depth + 1, me) for _, t in m.params)})")
					elif m.ret == ty and m.kind == 'property':
						cands.append(lambda n=n, m=m: f'{n}.{m.name}')
			for c in self.classes:
				for cn, ct in c.classvars:
					if ct == ty:
						cands.append(lambda c=c, cn=cn: f'{c.qual}.{cn}')
				for m in c.methods:
					if m.kind == 'classmethod' and m.ret == ty:
						cands.append(lambda c=c, m=m: f"{c.qual}.{m.name}({', '.join(self.expr(t, env, depth + 1, me) for _, t in m.params)})")
			for f in self.funcs:
				if f.ret == ty:
					cands.append(lambda f=f: f"{f.name}({', '.join(self.expr(t, env, depth + 1, me) for _, t in f.params)})")
			for n, t in self.module_vars:
				if t == ty:
					cands.append(lambda n=n: n)
			if ty in ('int', 'float'):
				cands.append(lambda: f"{self.expr(ty, env, depth + 1, me)} {r.choice(['+', '-', '*'])} {self.expr(ty, env, depth + 1, me)}")
				cands.append(lambda: f"({self.expr(ty, env, depth + 1, me)} {r.choice(['+', '-'])} {self.expr(ty, env, depth + 1, me)})")
			if ty == 'str':
				cands.append(lambda: f"{self.expr('str', env, depth + 1, me)} + {self.expr('str', env, depth + 1, me)}")
			if ty == 'bool':
				cands.append(lambda: f"{self.expr('int', env, depth + 1, me)} {r.choice(['<', '>', '==', '!=', '<=', '>='])} {self.expr('int', env, depth + 1, me)}")
				cands.append(lambda: f"not {self.expr('bool', env, depth + 2, me)}")
			if ty == 'int':
				for en, members in self.enums:
					cands += [lambda en=en, members=members: f'{en}.{r.choice(members)}.value'] * 2   # folded into the member's literal
				lists = [n for n, t in env if t == 'list[int]']
				if lists:
					cands.append(lambda: f'len({r.choice(lists)})')
					cands.append(lambda: f'{r.choice(lists)}[0]')
			cls = self.class_by_name(ty)
			if cls is not None:
				cands.append(lambda: self.new(cls, env, depth))
			if ty == 'list[int]':
				lists = [n for n, t in env if t == 'list[int]']
				if lists:
					v = self.names.var(set(n for n, _ in env))
					cands.append(lambda: f"[{v} + {self.expr('int', env, 2, me)} for {v} in {r.choice(lists)}]")
		return r.choice(cands)()

	# -- statements ----------------------------------------------------------------------

	def block(self, env: list[tuple[str, str]], ind: int, depth: int, ret: str | None, me: ClassSig | None, local_pool: list[str], allow_closure: bool, scope_names: set[str]) -> list[str]:
		r = self.rng
		pad = '\t' * ind
		out: list[str] = []
		env = list(env)
		declared_here: set[str] = set()
		def ensure(ty: str) -> None:
			# at least two variables of this type in scope, so that a lambda / closure can capture several
			while len([n for n, t in env if t == ty and n != 'self']) < 2:
				name = self.names.var(scope_names)
				local_pool.append(name)
				out.append(f'{pad}{name}: {ty} = {self.lit(ty)}')
				env.append((name, ty))
				declared_here.add(name)

		def gen_lambda() -> None:
			ensure('int')
			ints = [n for n, t in env if t == 'int' and n != 'self']
			if len(ints) >= 2:
				caps = r.sample(ints, r.randint(2, min(3, len(ints))))
				q = self.names.var(scope_names)
				user = self.names.var(scope_names)
				local_pool.append(user)
				out.append(f"{pad}{user} = {self.applier}(lambda {q}: {' + '.join([q, *caps])}, {self.expr('int', env, 1, me)})")
				env.append((user, 'int'))
				declared_here.add(user)
				self.count('stmt:lambda-multi-capture')

		def gen_closure() -> None:
			cname = self.names.var(scope_names)
			cty = r.choice(['int', 'str'])
			if r.random() < 0.7:
				ensure(cty)
			shadowable = [n for n, t in env if t == cty and n != 'self']
			if shadowable and r.random() < 0.35:
				p = r.choice(shadowable)   # the closure's parameter shadows a variable of the enclosing function
				self.count('closure:param-shadows-outer')
			else:
				p = self.names.var(scope_names)
			out.append(f'{pad}def {cname}({p}: {cty}) -> {cty}:')
			inner_env = [*[(n, t) for n, t in env if n != p], (p, cty)]
			if r.random() < 0.5:
				lv = self.names.var(scope_names)
				out.append(f'{pad}\t{lv} = {self.expr(cty, inner_env, 0, me)}')
				inner_env.append((lv, cty))
			outer = [n for n, t in env if t == cty and n != p and n != 'self']
			if len(outer) >= 2:
				caps = r.sample(outer, r.randint(2, min(3, len(outer))))   # capture list: several outer variables, first-reference order
				out.append(f"{pad}\treturn {' + '.join([p, *caps])}")
				self.count('closure:multi-capture')
			else:
				out.append(f'{pad}\treturn {self.expr(cty, inner_env, 0, me)}')
			user = self.names.var(scope_names)
			local_pool.append(user)
			out.append(f'{pad}{user} = {cname}({self.expr(cty, env, 1, me)})')
			env.append((user, cty))
			declared_here.add(user)
			self.count('stmt:closure')

		for _ in range(r.randint(1, 2 + self.size)):
			k = r.random()
			if k < 0.3:
				callable_funcs = [f for f in self.funcs if f.ret in ('int', 'float', 'bool') or self.class_by_name(f.ret) is not None]
				if callable_funcs and r.random() < 0.3:
					# a declaration whose whole right-hand side is ONE call of a module-level function (inferred or annotated type)
					f = r.choice(callable_funcs)
					name = self.names.var(scope_names)
					local_pool.append(name)
					call = f"{f.name}({', '.join(self.expr(t, env, 2, me) for _, t in f.params)})"
					out.append(f'{pad}{name} = {call}' if r.random() < 0.6 else f'{pad}{name}: {f.ret} = {call}')
					env.append((name, f.ret))
					declared_here.add(name)
					self.count('stmt:declare-from-function-call')
					continue
				inners = [c.inner.qual for c in self.classes if c.inner is not None]
				ty = r.choice(TYPES + ['list[int]'] + [c.qual for c in self.classes][:2] + inners * 2)
				# reuse a name of the function's pool when it is not visible here (sibling scopes), else a new one
				free = [n for n in local_pool if all(n != e for e, _ in env)]
				if free and r.random() < 0.5:
					name = r.choice(free)
					self.count('local:sibling-reuse')
				else:
					name = self.names.var(scope_names)
					local_pool.append(name)
				val = self.expr(ty, env, 0, me)
				if ty in inners:
					# a nested class used through INFERRED types: the emitter has to spell `Outer::Inner` itself
					if r.random() < 0.8:
						out.append(f'{pad}{name} = {val}')
						self.count('stmt:declare-inferred-nested-class')
					else:
						out.append(f'{pad}{name}: {ty} = {val}')
					if r.random() < 0.5:
						lst = self.names.var(scope_names)
						local_pool.append(lst)
						out.append(f'{pad}{lst} = [{name}]')
						env.append((lst, f'list-of:{ty}'))
						declared_here.add(lst)
						self.count('stmt:list-of-nested-class')
				else:
					out.append(f'{pad}{name}: {ty} = {val}' if r.random() < 0.5 or ty in ('list[int]', 'float') else f'{pad}{name} = {val}')
				env.append((name, ty))
				declared_here.add(name)
				self.count('stmt:declare')
			elif k < 0.4:
				mine = [(n, t) for n, t in env if n in declared_here and t in TYPES]
				if mine:
					n, t = r.choice(mine)
					out.append(f'{pad}{n} = {self.expr(t, env, 0, me)}')
					self.count('stmt:assign')
			elif k < 0.52:
				objs = [(n, self.class_by_name(t)) for n, t in env if self.class_by_name(t) is not None and n != 'self']
				objs = [(n, c) for n, c in objs if c is not None and c.all_fields()]
				if objs:
					n, c = r.choice(objs)
					fn, ft = r.choice(c.all_fields())
					if not fn.startswith('__') or (me is not None and c is me):
						out.append(f'{pad}{n}.{fn} = {self.expr(ft, env, 0, me)}')
						self.count('stmt:field-assign')
			elif k < 0.62 and depth < 2:
				out.append(f"{pad}if {self.expr('bool', env, 0, me)}:")
				out += self.block(env, ind + 1, depth + 1, None, me, local_pool, False, scope_names)
				if r.random() < 0.5:
					out.append(f'{pad}else:')
					out += self.block(env, ind + 1, depth + 1, None, me, local_pool, False, scope_names)
				self.count('stmt:if')
			elif k < 0.72 and depth < 2:
				free = [n for n in local_pool if all(n != e for e, _ in env)]
				v = r.choice(free) if free and r.random() < 0.5 else self.names.var(scope_names)
				if v not in local_pool:
					local_pool.append(v)
				lists = [n for n, t in env if t == 'list[int]']
				if lists and r.random() < 0.5:
					out.append(f'{pad}for {v} in {r.choice(lists)}:')
				else:
					out.append(f"{pad}for {v} in range({self.expr('int', env, 1, me)}):")
				out += self.block([*env, (v, 'int')], ind + 1, depth + 1, None, me, local_pool, False, scope_names)
				self.count('stmt:for')
			elif k < 0.78 and depth < 2:
				ints = [n for n, t in env if t == 'int' and n in declared_here]
				if ints:
					n = r.choice(ints)
					out.append(f'{pad}while {n} > {r.randint(0, 5)}:')
					out.append(f'{pad}\t{n} = {n} - 1')
					self.count('stmt:while')
			elif k < 0.9:
				calls = [f for f in self.funcs if f.ret == 'None']
				objs = [(n, c, m) for n, t in env for c in [self.class_by_name(t)] if c is not None for m in c.all_methods() if m.ret == 'None' and m.kind == 'method']
				if calls and (not objs or r.random() < 0.5):
					f = r.choice(calls)
					out.append(f"{pad}{f.name}({', '.join(self.expr(t, env, 1, me) for _, t in f.params)})")
					self.count('stmt:call')
				elif objs:
					n, c, m = r.choice(objs)
					out.append(f"{pad}{n}.{m.name}({', '.join(self.expr(t, env, 1, me) for _, t in m.params)})")
					self.count('stmt:method-call')
			elif k < 0.93 and self.applier is not None:
				gen_lambda()
			elif k < 0.96 and depth >= 1 and self.module_vars:
				# a local initialised from a bare module-level name inside a flow block (its type is whatever the name resolves to)
				mv, mt = r.choice(self.module_vars)
				if all(mv != e for e, _ in env):
					name = self.names.var(scope_names)
					local_pool.append(name)
					out.append(f'{pad}{name} = {mv}')
					env.append((name, mt))
					declared_here.add(name)
					self.count('stmt:local-from-module-var-in-flow')
			elif allow_closure and depth == 0:
				gen_closure()
		if depth == 0 and allow_closure and r.random() < 0.6:
			(gen_lambda if self.applier is not None and r.random() < 0.5 else gen_closure)()
		if ret is not None and ret != 'None':
			out.append(f'{pad}return {self.expr(ret, env, 0, me)}')
		if not out:
			out.append(f'{pad}pass')
		return out

	# -- declarations --------------------------------------------------------------------

	def gen_function(self, owner: ClassSig | None = None, kind: str = 'function') -> tuple[FuncSig, list[str]]:
		r = self.rng
		name = self.names.member(owner.member_names) if owner else self.names.gvar()
		if owner is not None and kind == 'method' and r.random() < 0.2:
			cand = f"{name.lstrip('_')}{r.choice(['_', ''])}{owner.name}"   # a method whose name ends with the name of its class
			if cand not in self.names.used and cand not in owner.member_names:
				self.names.used.add(cand)
				owner.member_names.add(cand)
				name = cand
				self.count('method-name-ends-with-class-name')
		scope_names: set[str] = {name}
		ptypes = TYPES + ['list[int]', 'dict[str, int]'] + [c.qual for c in self.classes] + [e for e, _ in self.enums]
		params = [(self.names.var(scope_names), r.choice(ptypes)) for _ in range(r.randint(0, 3))] if kind != 'property' else []
		if kind != 'property' and self.module_vars and r.random() < 0.25:
			mv = r.choice(self.module_vars)   # a parameter shadows a module-level variable (same type)
			if mv[0] not in scope_names:
				scope_names.add(mv[0])
				params.append(mv)
				self.count('param-shadows-module-var')
		ret = r.choice(TYPES + ['None'] + [c.qual for c in self.classes][:2] * 2) if kind != 'property' else r.choice(TYPES)
		sig = FuncSig(name, params, ret, owner, kind)
		ind = 1 if owner else 0
		pad = '\t' * ind
		lines: list[str] = []
		first = {'method': ['self'], 'property': ['self'], 'classmethod': ['cls'], 'function': []}[kind]
		if kind == 'classmethod':
			lines.append(f'{pad}@classmethod')
		if kind == 'property':
			lines.append(f'{pad}@property')
		def ann(t: str) -> str:
			# forward references as string annotations now and then
			c = self.class_by_name(t)
			return f"'{t}'" if c is not None and (owner is not None and (c is owner or r.random() < 0.3)) else t
		def pann(t: str) -> str:
			# now and then an immutable parameter: `const T&` in C++ (decided by the view helper on the rendered type text)
			if self.class_by_name(t) is not None and r.random() < 0.35:
				self.count('param:annotated-immutable')
				return f'Annotated[{ann(t)}, Embed.immutable]'
			return ann(t)
		sigtxt = ', '.join([*first, *[f'{n}: {pann(t)}' for n, t in params]])
		lines.append(f'{pad}def {name}({sigtxt}) -> {ann(ret)}:')
		env = list(params)
		if kind in ('method', 'property') and owner is not None:
			env.append(('self', owner.qual))
		lines += self.block(env, ind + 1, 0, ret, owner, [], kind != 'property', scope_names)
		self.count(f'decl:{kind}')
		return sig, lines

	def gen_class(self, base: ClassSig | None, nested_in: ClassSig | None = None) -> tuple[ClassSig, list[str]]:
		r = self.rng
		cls = ClassSig(self.names.cls(), base)
		if nested_in is not None:
			cls.qual = f'{nested_in.qual}.{cls.name}'
		ind = 1 if nested_in else 0
		pad = '\t' * ind
		lines = []
		if r.random() < 0.15:
			# the emitted class name comes from the decorator (text) or is derived from it (prefix)
			self.alias_seq += 1
			if r.random() < 0.6:
				lines.append(f"{pad}@Embed.alias('Alias{self.alias_seq}9')")
				self.count('decl:class:alias')
			else:
				lines.append(f"{pad}@Embed.alias('Pre{self.alias_seq}9', prefix=True)")
				self.count('decl:class:alias-prefix')
		lines.append(f"{pad}class {cls.name}{f'({base.qual})' if base else ''}:")
		twin: str | None = None
		more = [n for n, t in self.module_vars if t != 'int']
		if nested_in is None and more and r.random() < 0.45:
			twin = r.choice(more)   # a class variable (int) named like a module-level variable of another type
			cls.member_names.add(twin)
			cls.classvars.append((twin, 'int'))
			lines.append(f'{pad}\t{twin}: ClassVar[int] = {r.randint(0, 9)}')
			self.count('classvar-named-like-module-var')
		for _ in range(r.randint(0, 2)):
			cv = self.names.member(cls.member_names)
			twins = [n for n, t in self.module_vars if t != 'int' and n not in cls.member_names]
			if twins and r.random() < 0.5:
				cv = r.choice(twins)   # same bare name as a module-level variable of a different type
				cls.member_names.add(cv)
				twin = cv
				self.count('classvar-named-like-module-var')
			cls.classvars.append((cv, 'int'))
			lines.append(f'{pad}\t{cv}: ClassVar[int] = {r.randint(0, 9)}')
		ftypes = TYPES + [c.qual for c in self.classes if c is not nested_in][:1]
		for _ in range(r.randint(1, 3)):
			fn = self.names.member(cls.member_names)
			ft = r.choice(ftypes)
			cls.fields.append((fn, ft))
			lines.append(f'{pad}\t{fn}: {ft}')
		lines.append('')
		# constructor: one parameter per own field (+ the base's parameters first)
		ctor_names: set[str] = set()
		own = [(self.names.var(ctor_names), t) for _, t in cls.fields]
		base_params = [(self.names.var(ctor_names), t) for _, t in (base.ctor_params if base else [])]
		cls.ctor_params = [*base_params, *own]
		earlier = [c for c in self.classes if c is not nested_in and [f for f in c.all_fields() if not f[0].startswith('__')]]
		if earlier and r.random() < 0.6:
			cls.ctor_params.append((self.names.var(ctor_names), r.choice(earlier).qual))
		lines.append(f"{pad}\tdef __init__(self, {', '.join(f'{n}: {t}' for n, t in cls.ctor_params)}) -> None:")
		if base:
			lines.append(f"{pad}\t\tsuper().__init__({', '.join(n for n, _ in base_params)})")
		for (fn, _), (pn, _) in zip(cls.fields, own):
			lines.append(f'{pad}\t\tself.{fn} = {pn}')
		# further constructor statements: assignments through parameters, calls (the places where spelling-dependent special cases live)
		env = list(cls.ctor_params)
		for _ in range(r.randint(0, 3)):
			objs = [(n, self.class_by_name(t)) for n, t in env if self.class_by_name(t) is not None]
			objs = [(n, c) for n, c in objs if c is not None and [f for f in c.all_fields() if not f[0].startswith('__')]]
			calls = [f for f in self.funcs if f.ret == 'None']
			if objs and r.random() < 0.6:
				n, c = r.choice(objs)
				fn, ft = r.choice([f for f in c.all_fields() if not f[0].startswith('__')])
				lines.append(f'{pad}\t\t{n}.{fn} = {self.expr(ft, env, 1, cls)}')
				self.count('ctor:param-field-assign')
			elif calls:
				f = r.choice(calls)
				lines.append(f"{pad}\t\t{f.name}({', '.join(self.expr(t, env, 1, cls) for _, t in f.params)})")
				self.count('ctor:call')
		lines.append('')
		self.count('decl:class' + (':inherit' if base else '') + (':nested' if nested_in else ''))
		# register before generating methods so that they can refer to the class itself
		if nested_in is None:
			self.classes.append(cls)
		else:
			nested_in.inner = cls
		if nested_in is None and r.random() < 0.45:
			inner, ilines = self.gen_class(None, cls)
			lines += ilines
		if twin is not None and nested_in is None and r.random() < 0.8:
			# a method that reads the bare name inside an if block and inside a for block: Python (and tranp's class-scope rule)
			# resolve it to the MODULE variable; half of the time the method's name ends with the name of the class
			base_name = self.names.member(cls.member_names).lstrip('_')
			mname = f"{base_name}{r.choice(['_', ''])}{cls.name}" if r.random() < 0.5 else base_name
			if (mname not in self.names.used or mname == base_name) and (mname == base_name and base_name not in (cls.member_names - {base_name, '_' + base_name, '__' + base_name}) or mname not in cls.member_names) and mname not in [f for f, _ in cls.all_fields()] and mname not in [m.name for m in cls.all_methods()] and mname not in [c for c, _ in cls.classvars]:
				self.names.used.add(mname)
				cls.member_names.add(mname)
				sn: set[str] = {mname}
				pn, l1, lv, l2 = (self.names.var(sn) for _ in range(4))
				lines += [f'{pad}\tdef {mname}(self, {pn}: int) -> int:', f'{pad}\t\tif {pn} > {r.randint(0, 3)}:', f'{pad}\t\t\t{l1} = {twin}',
					f'{pad}\t\tfor {lv} in range({pn}):', f'{pad}\t\t\t{l2} = {twin}', f'{pad}\t\treturn {pn}', '']
				cls.methods.append(FuncSig(mname, [(pn, 'int')], 'int', cls, 'method'))
				self.count('method:twin-probe' + (':named-like-class' if mname != base_name else ''))
		for _ in range(r.randint(1, 2 + self.size // 2)):
			kind = r.choice(['method', 'method', 'method', 'classmethod', 'property'])
			sig, flines = self.gen_function(cls, kind)
			if nested_in is not None:
				flines = ['\t' + ln for ln in flines]
			cls.methods.append(sig)
			lines += flines
			lines.append('')
		return cls, lines

	def gen_generic(self) -> list[str]:
		"""A generic class with 2-3 type parameters (declaration order independent of their spelling), instantiated with
		different actual types, and locals whose types are inferred THROUGH the class (methods / fields typed by a type variable)."""
		r = self.rng
		n = r.randint(2, 3)
		tvs = [self.names.take(['T', 'T_Val', 'T_Err', 'T_Key', 'TA', 'TB', 'K', 'V', 'T_b', 'T_a', 'U', 'T2', 'T1'], is_global=True) for _ in range(n)]
		cls = self.names.cls()
		fields = [self.names.member(set()).lstrip('_') or f'f{i}' for i in range(n)]
		fields = [f if fields.count(f) == 1 else f'{f}{i}' for i, f in enumerate(fields)]
		getters = [self.names.take(SEEDS, is_global=False, avoid=set(fields)) for _ in range(n)]
		params = [self.names.var(set()) for _ in range(n)]
		lines = [f"{tv} = TypeVar('{tv}')" for tv in tvs] + ['']
		lines.append(f"class {cls}(Generic[{', '.join(tvs)}]):")
		lines += [f'\t{f}: {tv}' for f, tv in zip(fields, tvs)] + ['']
		lines.append(f"\tdef __init__(self, {', '.join(f'{p}: {tv}' for p, tv in zip(params, tvs))}) -> None:")
		lines += [f'\t\tself.{f}: {tv} = {p}' for f, tv, p in zip(fields, tvs, params)] + ['']
		for g, f, tv in zip(getters, fields, tvs):
			lines += [f'\tdef {g}(self) -> {tv}:', f'\t\treturn self.{f}', '']
		actual = r.sample(['int', 'str', 'float', 'bool'], n)
		fn = self.names.gvar()
		sn: set[str] = set()
		inst = self.names.var(sn)
		lines.append(f'def {fn}() -> None:')
		lines.append(f"\t{inst} = {cls}[{', '.join(actual)}]({', '.join(self.lit(t) for t in actual)})")
		for g, f in zip(getters, fields):
			lines.append(f'\t{self.names.var(sn)} = {inst}.{g}()')
			if r.random() < 0.5:
				lines.append(f'\t{self.names.var(sn)} = {inst}.{f}')
		lines.append('')
		self.count('decl:generic-class')
		return lines

	def program(self) -> str:
		r = self.rng
		lines = ['from typing import Annotated, ClassVar, Generic, TypeVar', 'from enum import Enum', 'from collections.abc import Callable', 'from rogw.tranp.compatible.python.embed import Embed', '']
		if r.random() < 0.65:
			en = self.names.cls()
			members = [self.names.cls() for _ in range(r.randint(2, 4))]
			self.enums.append((en, members))
			lines.append(f'class {en}(Enum):')
			lines += [f'\t{m} = {i + 1}' for i, m in enumerate(members)]
			lines.append('')
			self.count('decl:enum')
		# a procedure first, so that constructors and bodies have something to call
		if r.random() < 0.8:
			name = self.names.gvar()
			params = [(self.names.var(set()), 'int')] if r.random() < 0.7 else []
			self.funcs.append(FuncSig(name, params, 'None'))
			lines.append(f"def {name}({', '.join(f'{n}: {t}' for n, t in params)}) -> None: ...")
			lines.append('')
			self.count('decl:procedure')
		if r.random() < 0.6:
			self.applier = self.names.gvar()
			fn, v = self.names.var(set()), self.names.var(set())
			lines.append(f'def {self.applier}({fn}: Callable[[int], int], {v}: int) -> int:')
			lines.append(f'\treturn {fn}({v})')
			lines.append('')
			self.count('decl:applier')
		for _ in range(r.randint(0, 3)):
			ty = r.choice(TYPES)
			n = self.names.gvar()
			lines.append(f'{n}: {ty} = {self.lit(ty)}')
			self.module_vars.append((n, ty))
			self.count('decl:module-var')
		lines.append('')
		if r.random() < 0.45:
			lines += self.gen_generic()
		if r.random() < 0.7:
			# a module-level function returning int, available to every body below
			fname, pn = self.names.gvar(), self.names.var(set())
			self.funcs.append(FuncSig(fname, [(pn, 'int')], 'int'))
			lines += [f'def {fname}({pn}: int) -> int:', f'\treturn {pn} + {r.randint(1, 9)}', '']
			self.count('decl:int-function')
		for i in range(r.randint(1, 1 + self.size)):
			base = r.choice(self.classes) if self.classes and r.random() < 0.5 else None
			cls, clines = self.gen_class(base)
			lines += clines
			if r.random() < 0.7:
				# a factory: module-level function whose return type is the class
				fname = self.names.gvar()
				fn_names: set[str] = set()
				params = [(self.names.var(fn_names), t) for _, t in cls.ctor_params]
				self.funcs.append(FuncSig(fname, params, cls.qual))
				lines += [f"def {fname}({', '.join(f'{n}: {t}' for n, t in params)}) -> {cls.qual}:", f"\treturn {cls.qual}({', '.join(n for n, _ in params)})", '']
				self.count('decl:factory-function')
		for _ in range(r.randint(1, 1 + self.size)):
			sig, flines = self.gen_function()
			self.funcs.append(sig)
			lines += flines
			lines.append('')
		for _ in range(r.randint(0, 2)):
			ty = r.choice(TYPES)
			n = self.names.gvar()
			lines.append(f'{n}: {ty} = {self.expr(ty, [], 0)}')
			self.module_vars.append((n, ty))
			self.count('decl:module-var')
		return '\n'.join(lines) + '\n'


# ---------------------------------------------------------------------------------------------
# pairs of user identifiers that can MEET in one comparison of the transpiler, and renamings that relate the two spellings


def meeting_pairs(source: str) -> list[tuple[str, str, str]]:
	"""(a, b, kind): two different identifiers the program binds whose names tranp may hold against each other —
	`outer-var/block-var` (a variable or parameter of the function body x a variable first assigned inside a nested flow block),
	`loop-var/outer-var`, `lambda-param/captured`, `closure-param/captured`, `param/local`, `function/local`, `class/member`,
	`member/member`. Read off the CPython ast (independent of tranp)."""
	tree = ast.parse(source)
	out: list[tuple[str, str, str]] = []
	seen: set[tuple[str, str, str]] = set()

	def put(a: str, b: str, kind: str) -> None:
		if a != b and (a, b, kind) not in seen:
			seen.add((a, b, kind))
			out.append((a, b, kind))

	def names_of(t: ast.AST) -> list[str]:
		return [n.id for n in ast.walk(t) if isinstance(n, ast.Name)]

	def assigned(stmts: list[ast.stmt], nested: bool, top: list[str], inner: list[str], loops: list[str]) -> None:
		for st in stmts:
			tgt: list[str] = []
			if isinstance(st, ast.Assign):
				tgt = [n for t in st.targets if isinstance(t, (ast.Name, ast.Tuple, ast.List)) for n in names_of(t)]
			elif isinstance(st, (ast.AnnAssign, ast.AugAssign)) and isinstance(st.target, ast.Name):
				tgt = [st.target.id]
			elif isinstance(st, (ast.For, ast.AsyncFor)):
				loops.extend(names_of(st.target))
				tgt = names_of(st.target)
			elif isinstance(st, ast.With):
				tgt = [n for item in st.items if item.optional_vars is not None for n in names_of(item.optional_vars)]
			for n in tgt:
				(inner if nested else top).append(n)
			for field in ('body', 'orelse', 'finalbody'):
				sub = getattr(st, field, None)
				if isinstance(sub, list) and sub and isinstance(sub[0], ast.stmt) and not isinstance(st, (ast.FunctionDef, ast.AsyncFunctionDef, ast.ClassDef)):
					assigned(sub, True, top, inner, loops)
			for h in getattr(st, 'handlers', []) or []:
				if h.name:
					inner.append(h.name)
				assigned(h.body, True, top, inner, loops)

	def free_names(body: ast.AST, params: set[str]) -> list[str]:
		return [n.id for n in ast.walk(body) if isinstance(n, ast.Name) and isinstance(n.ctx, ast.Load) and n.id not in params]

	def visit_fn(fn: ast.FunctionDef | ast.AsyncFunctionDef, outer_vars: list[str]) -> None:
		params = [a.arg for a in [*fn.args.posonlyargs, *fn.args.args, *fn.args.kwonlyargs] if a.arg not in ('self', 'cls')]
		top: list[str] = []
		inner: list[str] = []
		loops: list[str] = []
		assigned(fn.body, False, top, inner, loops)
		mine = [*params, *top]
		for b in inner:
			for a in mine:
				put(a, b, 'outer-var/block-var')
		for lv in loops:
			for a in mine:
				put(lv, a, 'loop-var/outer-var')
		for pn in params:
			for lv in [*top, *inner]:
				put(pn, lv, 'param/local')
		for lv in [*top, *inner][:6]:
			put(fn.name, lv, 'function/local')
		scope_vars = set([*mine, *inner, *outer_vars])
		for node in ast.walk(fn):
			if isinstance(node, ast.Lambda):
				lp = [a.arg for a in node.args.args]
				for cap in free_names(node.body, set(lp)):
					if cap in scope_vars:
						for q in lp:
							put(q, cap, 'lambda-param/captured')
		for st in ast.walk(fn):
			if isinstance(st, (ast.FunctionDef, ast.AsyncFunctionDef)) and st is not fn:
				cp = [a.arg for a in st.args.args]
				local_in: list[str] = []
				assigned(st.body, False, local_in, local_in, local_in)
				for cap in free_names(st, set([*cp, *local_in])):
					if cap in scope_vars:
						for q in cp:
							put(q, cap, 'closure-param/captured')

	def visit(node: ast.AST) -> None:
		for child in ast.iter_child_nodes(node):
			if isinstance(child, (ast.FunctionDef, ast.AsyncFunctionDef)):
				visit_fn(child, [])
			elif isinstance(child, ast.ClassDef):
				members = [st.name for st in child.body if isinstance(st, (ast.FunctionDef, ast.ClassDef)) and not st.name.startswith('__')]
				members += [st.target.id for st in child.body if isinstance(st, ast.AnnAssign) and isinstance(st.target, ast.Name)]
				for m in members:
					put(child.name, m, 'class/member')
				for i, m in enumerate(members):
					for m2 in members[i + 1:i + 3]:
						put(m, m2, 'member/member')
				visit(child)

	visit(tree)
	return out


PAIR_SHAPES = ('suffix', 'prefix', 'suffix_', 'prefix_', 'infix', 'case', 'joined', 'head', 'tail')
PAIR_COMBOS = 2 * len(PAIR_SHAPES)   # every shape in both directions


def relate(a: str, b: str, shape: str, filler: str) -> str:
	"""A new spelling for `a` that stands in the given relation to `b`: `b` becomes a proper suffix / prefix of it (with and without
	an underscore between), an infix, the same word in another case, the two old names joined by an underscore — or the new name is
	a proper prefix (`head`) / proper suffix (`tail`) of `b`."""
	us = '_' * min(Reserved.underscore_class(a), 2)
	core = b.lstrip('_')
	half = max(1, len(core) // 2)
	new = {
		'suffix': filler + core, 'prefix': core + filler, 'suffix_': f'{filler}_{core}', 'prefix_': f'{core}_{filler}',
		'infix': f'{filler}{core}{filler[::-1]}', 'case': core.swapcase() if core.swapcase() != core else core + core,
		'joined': f"{a.lstrip('_')}_{core}", 'head': core[:half], 'tail': core[half:].lstrip('_0123456789') or core[:half],
	}[shape]
	return us + new


def pair_renaming(rng: random.Random, pairs: list[tuple[str, str, str]], domain: dict[str, str], idents: set[str], reserved: Reserved,
		combo: int) -> tuple[dict[str, str], list[str]]:
	"""ONE legal renaming that relates, for every kind of meeting pair present, one identifier to its partner in the way `combo`
	says (shape = combo mod 9, direction = combo div 9: first or second element of the pair is the one renamed). The partners
	(reference names) keep their spelling in this renaming, so every planted relation holds in r(P)."""
	shape = PAIR_SHAPES[combo % len(PAIR_SHAPES)]
	second = (combo // len(PAIR_SHAPES)) % 2 == 1
	by_kind: dict[str, list[tuple[str, str]]] = {}
	for a, b, kind in pairs:
		by_kind.setdefault(kind, []).append((a, b))
	mapping: dict[str, str] = {}
	refs: set[str] = set()
	taken = set(idents)
	tags: list[str] = []
	for kind in sorted(by_kind):
		cands = list(by_kind[kind])
		rng.shuffle(cands)
		for a, b in cands:
			x, y = (b, a) if second else (a, b)
			if x not in domain or x in mapping or x in refs or y in mapping:
				continue
			new = relate(x, y, shape, rng.choice(['sub', 'x', 'n', 'pre', 'q2', 'zz']))
			if new in taken or new == x or not IDENT_RE.fullmatch(new) or not reserved.fresh_ok(new, x, domain[x]):
				continue
			mapping[x] = new
			refs.add(y)
			taken.add(new)
			tags.append(f"{kind}:{shape}:{'second' if second else 'first'}")
			break
	return mapping, tags


def reverse_order_renaming(domain: dict[str, str], idents: set[str], reserved: Reserved, kinds: Any = None) -> dict[str, str]:
	"""ONE legal renaming after which the identifiers of every kind (or of the given kinds) sort in the OPPOSITE alphabetical order:
	the i-th smallest name gets the prefix `z<9-i>`-like marker that decreases as i grows. Any list of user names that is emitted
	in spelling order instead of declaration / first-use order (type parameters of classes, methods and functions, captures,
	enum members, base classes, parameters) changes under it."""
	mapping: dict[str, str] = {}
	taken = set(idents)
	for kind in sorted(set(domain.values())):
		if kinds is not None and kind not in kinds:
			continue
		ids = sorted(n for n, k in domain.items() if k == kind)
		if len(ids) < 2:
			continue
		for i, x in enumerate(ids):
			us = '_' * min(Reserved.underscore_class(x), 2)
			core = x.lstrip('_')
			rank = len(ids) - 1 - i
			marker = ('Z' if core[:1].isupper() else 'z') * (1 + rank // 26) + chr(ord('a') + rank % 26)
			new = f'{us}{marker}_{core}' if not core[:1].isupper() else f'{us}{marker.capitalize()}{core}'
			if new in taken or not IDENT_RE.fullmatch(new) or not reserved.fresh_ok(new, x, kind):
				continue
			mapping[x] = new
			taken.add(new)
	return mapping


AFFIX_GROUP = {'class': 'class', 'nested-class': 'class', 'function': 'callable', 'method': 'callable', 'closure': 'callable'}


def affix_stems(extra: Any = ()) -> dict[str, list[str]]:
	"""Words tranp itself gives a meaning to, by the kind of identifier that could be confused with them: class-like words for
	classes, callable words for functions / methods, the rest for variables. From RESERVED_STEMS and the words of the generated
	name table that are compared with callees / types (`extra`)."""
	words = sorted({w for w in [*RESERVED_STEMS, *extra] if IDENT_RE.fullmatch(w) and len(w) > 1})
	dunder = [w for w in words if w.startswith('__')]   # `__init__`, `__name__`, `__module__`, `__qualname__`, `__py_copy__`: first in every group
	cls_like = [w for w in words if w[0].isupper() or w in ('int', 'float', 'bool', 'str', 'list', 'dict', 'type', 'object', 'const', 'tuple', 'set')]
	call_like = [w for w in words if w not in cls_like and w in ('init', '__init__', 'len', 'print', 'range', 'enumerate', 'new', 'delete', 'operator', 'function', 'closure', 'method',
		'items', 'keys', 'values', 'append', 'pop', 'get', 'copy', 'raw', 'on', 'ref', 'addr', 'isinstance', 'issubclass', 'char', 'super', 'lambda', 'def')]
	var_like = [w for w in words if w not in cls_like]
	first = lambda ws: [*dunder, *[w for w in ws if w not in dunder]]  # noqa: E731
	return {'class': cls_like, 'callable': first(call_like or var_like), 'var': first(var_like)}


def affix_renaming(rng: random.Random, domain: dict[str, str], idents: set[str], reserved: Reserved, stems: dict[str, list[str]], c: int, side: int) -> dict[str, str]:
	"""ONE legal renaming in which up to three identifiers of every kind get a word of `stems` as a proper suffix (side 0:
	`StateEnum`, `xself`) or proper prefix (side 1: `Enumx`, `selfq2`) — `c` rotates through the words, so that `c` in
	range(len(words)) gives every identifier every word of its group."""
	mapping: dict[str, str] = {}
	taken = set(idents)
	for ki, kind in enumerate(sorted(set(domain.values()))):
		ids = sorted(n for n, k in domain.items() if k == kind)
		words = stems[AFFIX_GROUP.get(kind, 'var')]
		if not words:
			continue
		grouped = AFFIX_GROUP.get(kind) in ('class', 'callable')
		for t, x in enumerate(ids[:8] if grouped else ids[:3]):
			# classes, functions and methods: EVERY identifier gets word number c (told apart by the filler); variables rotate
			word = words[c % len(words)] if grouped else words[(c + 5 * t + 3 * ki) % len(words)]
			fillers = ['State', 'Sub', 'Zz', 'Old', 'Raw', 'My', 'Top', 'Low'] if AFFIX_GROUP.get(kind) == 'class' else ['late', 'q2', 'sub', 'post', 're', 'do', 'pre', 'aft']
			filler = fillers[t % 8] + ('' if kind in ('class', 'function') else 'm') if grouped else rng.choice(['x', 'q2', 'sub', 'zz', 'n'])
			us = '_' * min(Reserved.underscore_class(x), 2)
			# suffix side keeps the word as it is (`late__init__`); on the prefix side leading underscores would change the accessibility class
			new = us + (filler + (word if not us else word.strip('_')) if side == 0 else (word.lstrip('_') or 'init') + filler)
			if new in taken or not IDENT_RE.fullmatch(new) or not reserved.fresh_ok(new, x, kind):
				continue
			mapping[x] = new
			taken.add(new)
	return mapping


def generate_pairs_program(rng: random.Random, avoid: Any = ()) -> str:
	"""A program in which user identifiers MEET: an outer variable declared before variables that are first assigned inside nested
	if / for / while / try blocks, loop variables next to outer variables, lambdas and a closure whose parameters stand beside
	captured outer variables, a class with several members. All names are ordinary and unrelated; the search relates them."""
	r = rng
	words = [w for w in ['total', 'bias', 'gain', 'limit', 'mark', 'level', 'score', 'width', 'ratio', 'bonus', 'carry', 'delta', 'pivot', 'quota', 'amount', 'credit',
		'margin', 'weight', 'factor', 'stride', 'budget', 'tally', 'surplus', 'yield_of', 'lapse', 'grade', 'thrust', 'ballast'] if w not in avoid]
	words += [f'name_{i}w' for i in range(16 - len(words))]
	pool = r.sample(words, 16)
	fn, ap, cb, cv = r.sample(['calc', 'fold', 'scan', 'tune', 'apply_it', 'run_it', 'mix'], 4)
	o1, o2, i1, i2, i3, i4, lv, lp, lp2, cl, cp, p1, p2, res, c1, c2 = pool
	cls = r.choice(['Meter', 'Gauge', 'Ledger'])
	f1, f2, m1, m2, m3 = r.sample(['reading', 'scale', 'tick', 'reset_to', 'peak', 'floor_of', 'span', 'settle'], 5)
	sub = {'Meter': 'Dial', 'Gauge': 'Probe', 'Ledger': 'Journal'}[cls]
	lines = [
		'from collections.abc import Callable',
		'',
		f'def {ap}({cb}: Callable[[int], int], {cv}: int) -> int:',
		f'\treturn {cb}({cv})',
		'',
		f'class {cls}:',
		f'\t{f1}: int',
		f'\t{f2}: int',
		'',
		'\tdef __init__(self, n: int) -> None:',
		f'\t\tself.{f1} = n',
		f'\t\tself.{f2} = n + 1',
		f'\t\tself.{m1}(n)',
		'',
		f'\tdef {m1}(self, {c1}: int) -> int:',
		f'\t\t{c2} = self.{f1} + {c1}',
		f'\t\tif {c2} > 3:',
		f'\t\t\t{i4} = {c2} * self.{f2}',
		f'\t\t\tprint({i4})',
		f'\t\treturn {c2}',
		'',
		f'\tdef {m2}(self) -> int:',
		f'\t\treturn self.{m1}(self.{f2})',
		'',
		f'class {sub}({cls}):',
		'\tdef __init__(self, n: int) -> None:',
		'\t\tsuper().__init__(n)',
		f'\t\tself.{m3}()',
		'',
		f'\tdef {m3}(self) -> int:',
		f'\t\treturn self.{m2}() + self.{f1}',
		'',
		f'def {fn}({p1}: bool, {p2}: int) -> int:',
		f'\t{o1} = {p2} + 1',
		f'\t{o2} = {o1} * 2',
	]
	blocks = [
		[f'\tif {p1}:', f'\t\t{i1} = {o1} * 2', f'\t\tprint({i1})'],
		[f'\tfor {lv} in range({o2}):', f'\t\t{i2} = {lv} + {o1}', f'\t\tprint({i2})'],
		[f'\twhile {o2} > 90:', f'\t\t{i3} = {o2} - 1', f'\t\t{o2} = {i3}'],
		[f'\t{res} = {ap}(lambda {lp}: {lp} + {o1} + {o2}, {p2})', f'\tprint({res})'],
		[f'\tprint({ap}(lambda {lp2}: {lp2} * {o2}, 2))'],
		[f'\tdef {cl}({cp}: int) -> int:', f'\t\treturn {cp} + {o1} + {p2}', f'\tprint({cl}({o2}))'],
	]
	must = blocks[:1] + blocks[3:4]
	rest = [b for b in blocks if b not in must]
	r.shuffle(rest)
	chosen = must + rest[:r.randint(2, len(rest))]
	r.shuffle(chosen)
	for b in chosen:
		lines += b
	lines += [f'\tprint({sub}({o1}).{m3}())', f'\treturn {o1} + {o2}']
	# lists of user names that are EMITTED IN AN ORDER: type parameters of a class, of a method, of a class method and of a free
	# function (declared and first used in an order that is not alphabetical as often as not), enum members, parameters
	tvs = [w for w in ['T_Rhs', 'T_Lhs', 'T_Elem', 'T_Acc', 'T_Node', 'T_Got', 'T_Src', 'T_Dst', 'T_Mid'] if w not in avoid]
	tvs += [f'T_V{i}w' for i in range(3 - len(tvs))]
	ta, tb, tc = r.sample(tvs, 3)
	duo, rack = r.choice([('Duo', 'Stack'), ('Couple', 'Bin'), ('Twin', 'Tray')])
	en = r.choice(['Tone', 'Phase', 'Mood'])
	em = r.sample(['Warm', 'Cold', 'Dim', 'Lit', 'Raw_1', 'Bold'], 3)
	ga, gb, gm, gk, gf, gx, gy = r.sample([w for w in ['near', 'far', 'lhs_v', 'rhs_v', 'couple_up', 'assemble', 'pair_of', 'one_side', 'other_side', 'kept', 'holds'] if w not in avoid], 7)
	generic = [
		'',
		f"{ta} = TypeVar('{ta}')",
		f"{tb} = TypeVar('{tb}')",
		f"{tc} = TypeVar('{tc}')",
		'',
		f'class {en}(Enum):',
		*[f'\t{m} = {i + 1}' for i, m in enumerate(em)],
		'',
		f'class {duo}(Generic[{ta}, {tb}]):',
		f'\t{ga}: {ta}',
		f'\t{gb}: {tb}',
		'',
		f'\tdef __init__(self, {gx}: {ta}, {gy}: {tb}) -> None:',
		f'\t\tself.{ga} = {gx}',
		f'\t\tself.{gb} = {gy}',
		'',
		f'class {rack}(Generic[{tc}]):',
		f'\t{gk}: {tc}',
		'',
		f'\tdef __init__(self, {gk}: {tc}) -> None:',
		f'\t\tself.{gk} = {gk}',
		'',
		f'\tdef {gm}(self, {gx}: {ta}, {gy}: {tb}) -> {duo}[{ta}, {tb}]:',
		f'\t\treturn {duo}({gx}, {gy})',
		'',
		'\t@classmethod',
		f'\tdef {gf}(cls, {gx}: {tb}, {gy}: {ta}) -> {duo}[{tb}, {ta}]:',
		f'\t\treturn {duo}({gx}, {gy})',
		'',
		f'def {gm}_free({gx}: {ta}, {gy}: {tb}) -> {duo}[{ta}, {tb}]:',
		f'\treturn {duo}({gx}, {gy})',
		'',
		f'def {en.lower()}_of(n: int) -> {en}:',
		'\tif n > 1:',
		f'\t\treturn {en}.{em[1]}',
		f'\treturn {en}.{em[0]}',
	]
	lines[0:1] = ['from collections.abc import Callable', 'from typing import Generic, TypeVar', 'from enum import Enum']
	lines += generic
	src = '\n'.join(lines) + '\n'
	ast.parse(src)
	return src


PLAIN_MEMBERS = ['pairs', 'numbers', 'labels', 'bump', 'title', 'amount', 'entries', 'cells', 'tally', 'caption', 'grow', 'weight', 'marks', 'stamp', 'rows', 'shift_by']


def generate_spelling(rng: random.Random, slots: dict[str, str] | None = None, avoid: Any = ()) -> tuple[str, dict[str, str]]:
	"""A program around ONE user class whose members are used where tranp looks at member SPELLINGS: as the iterated call of a `for`
	statement (with and without tuple unpacking), of list / dict comprehensions, as a call in expression and statement position,
	as a field that is read and written. Slots `pairs` (-> list[tuple[str, int]]), `nums` (-> list[int]), `calc` (int -> int),
	`text` (-> str), `field` (an int field) carry ordinary names here; the search renames them INTO the spellings of the generated
	table. Receivers: a parameter, a local built by the constructor, a field of another object, `self`, a constructor call.
	No library container method is used, so every member token of the program and of its output is the user's."""
	r = rng
	plain = [p for p in PLAIN_MEMBERS if p not in avoid]
	plain += [f'member_{i}q' for i in range(5 - len(plain))]   # never short of names, whatever the emitter's vocabulary grows to
	names = dict(slots) if slots else dict(zip(('pairs', 'nums', 'calc', 'text', 'field'), r.sample(plain, 5)))
	cls, holder = r.choice([('Bag', 'Shelf'), ('Sack', 'Rack'), ('Pouch', 'Crate')])
	obj, other = r.choice([('bag', 'shelf'), ('sack', 'rack'), ('it', 'outer')])
	P, N, C, T, F = names['pairs'], names['nums'], names['calc'], names['text'], names['field']
	lines = [
		f'class {cls}:',
		'\tn: int',
		f'\t{F}: int',
		'',
		'\tdef __init__(self, n: int) -> None:',
		'\t\tself.n = n',
		f'\t\tself.{F} = n + 1',
		'',
		f'\tdef {P}(self) -> list[tuple[str, int]]:',
		f"\t\treturn [('a', self.n), ('b', self.{F})]",
		'',
		f'\tdef {N}(self) -> list[int]:',
		f'\t\treturn [self.n, self.{F}, 2]',
		'',
		f'\tdef {C}(self, d: int) -> int:',
		f'\t\tself.{F} = self.{F} + d',
		f'\t\treturn self.{F} + self.n',
		'',
		f'\tdef {T}(self) -> str:',
		"\t\treturn 'x'",
		'',
	]
	if r.random() < 0.6:
		lines += [
			'\tdef total(self) -> int:',
			'\t\tacc = 0',
			f'\t\tfor q in self.{N}():',
			'\t\t\tacc += q',
			f'\t\tfor k0, v0 in self.{P}():',
			'\t\t\tacc += v0',
			f'\t\treturn acc + self.{C}(1)',
			'',
		]
	with_holder = r.random() < 0.5
	if with_holder:
		lines += [
			f'class {holder}:',
			f'\tinner: {cls}',
			'',
			f'\tdef __init__(self, inner: {cls}) -> None:',
			'\t\tself.inner = inner',
			'',
			'\tdef walk(self) -> int:',
			'\t\tacc = 0',
			f'\t\tfor k1, v1 in self.inner.{P}():',
			'\t\t\tacc += v1',
			f'\t\tfor m1 in self.inner.{N}():',
			'\t\t\tacc += m1',
			f'\t\tself.inner.{C}(2)',
			f'\t\treturn acc + self.inner.{F}',
			'',
		]
	recv = obj
	head = f'def use({obj}: {cls}) -> int:'
	pre: list[str] = []
	if r.random() < 0.35:
		head = 'def use(seed: int) -> int:'
		pre = [f'\t{obj} = {cls}(seed)']
	body = [head, *pre, '\ttotal = 0']
	stmts = [
		[f'\tfor k, v in {recv}.{P}():', '\t\ttotal += v', '\t\tprint(k)'],
		[f'\tfor n in {recv}.{N}():', '\t\ttotal += n'],
		[f'\txs = [n2 + 1 for n2 in {recv}.{N}()]', '\ttotal += len(xs)'],
		[f'\tys = [v2 for k2, v2 in {recv}.{P}()]', '\ttotal += len(ys)'],
		[f'\tzs = {{k3: v3 for k3, v3 in {recv}.{P}()}}', '\ttotal += len(zs)'],
		[f'\ttotal += {recv}.{C}(3)'],
		[f'\t{recv}.{C}(1)'],
		[f'\ts = {recv}.{T}()', '\tprint(s)'],
		[f'\t{recv}.{F} = {recv}.{F} + total', f'\ttotal += {recv}.{F}'],
		[f'\tws = {recv}.{N}()', '\ttotal += len(ws)'],
		[f'\tfor j in {cls}(2).{N}():', '\t\ttotal += j'],
	]
	r.shuffle(stmts)
	keep = stmts[:r.randint(5, len(stmts))]
	# the two `for` statements over a member call are the point of the exercise: always there
	for must in (f'\tfor k, v in {recv}.{P}():', f'\tfor n in {recv}.{N}():'):
		if not any(st[0] == must for st in keep):
			keep.append(next(st for st in stmts if st[0] == must))
	for st in keep:
		body += st
	body.append('\treturn total')
	lines += body
	src = '\n'.join(lines) + '\n'
	ast.parse(src)
	return src, names


def generate_nest(rng: random.Random, size: int = 2) -> tuple[str, dict[str, int]]:
	g = NestGen(rng, size)
	src = g.program()
	ast.parse(src)
	return src, g.hist
