"""Expression generators and converters for property C03 (shared by the streams and the search of harness/c03.py).

* types are tuples: ('int',) ('float',) ('bool',) ('str',) ('none',) ('list', T) ('dict', K, V) ('tuple', T…) ('opt', T) = `T | None`, ('opt', T, 'nf') = `None | T` (None first)
  ('iter', T) ('items', K, V)   (the last two only as the source of a comprehension / argument of list())
* `Gen` produces well-typed source text for a requested type (type-directed, precedence-aware printing) and, on request,
  ill-typed variants with exactly one fault;
* `node_sexp` turns a tranp expression node into the s-expression of the Lean driver (family `infer`);
  `ast_sexp` does the same from a CPython `ast` node (stream `pytype`, which never touches tranp);
* `describe` is the short notation of a run-time value's type, `val_sexp` a run-time value for the driver.
"""
from __future__ import annotations

import ast
import random
from typing import Any

from harness.common import hx

Ty = tuple

INT: Ty = ('int',)
FLOAT: Ty = ('float',)
BOOL: Ty = ('bool',)
STR: Ty = ('str',)
NONE: Ty = ('none',)


class Unsupported(Exception):
	"""The node is outside the modelled expression core (the case is skipped and counted)."""


# ---------------------------------------------------------------------------------------------
# types


def has_opt(t: Ty) -> bool:
	return t[0] == 'opt' or any(isinstance(c, tuple) and has_opt(c) for c in t[1:])


def ty_annot(t: Ty) -> str:
	k = t[0]
	if k in ('int', 'float', 'bool', 'str'):
		return k
	if k == 'none':
		return 'None'
	if k == 'list':
		return f'list[{ty_annot(t[1])}]'
	if k == 'dict':
		return f'dict[{ty_annot(t[1])}, {ty_annot(t[2])}]'
	if k == 'tuple':
		return f"tuple[{', '.join(ty_annot(x) for x in t[1:])}]"
	if k == 'opt':
		return f'None | {ty_annot(t[1])}' if len(t) > 2 else f'{ty_annot(t[1])} | None'
	raise AssertionError(t)


def ty_sexp(t: Ty) -> str:
	k = t[0]
	if k in ('int', 'float', 'bool', 'str'):
		return k
	if k == 'none':
		return 'None'
	if k == 'list':
		return f'( list {ty_sexp(t[1])} )'
	if k == 'dict':
		return f'( dict {ty_sexp(t[1])} {ty_sexp(t[2])} )'
	if k == 'tuple':
		return '( tuple ' + ' '.join(ty_sexp(x) for x in t[1:]) + ' )'
	if k == 'opt':
		return f'( union None {ty_sexp(t[1])} )' if len(t) > 2 else f'( union {ty_sexp(t[1])} None )'
	raise AssertionError(t)


def ty_short(t: Ty) -> str:
	"""tranp's short notation of a declared type"""
	k = t[0]
	if k in ('int', 'float', 'bool', 'str'):
		return k
	if k == 'none':
		return 'None'
	if k == 'list':
		return f'list<{ty_short(t[1])}>'
	if k == 'dict':
		return f'dict<{ty_short(t[1])}, {ty_short(t[2])}>'
	if k == 'tuple':
		return f"tuple<{', '.join(ty_short(x) for x in t[1:])}>"
	if k == 'opt':
		return f'Union<None, {ty_short(t[1])}>' if len(t) > 2 else f'Union<{ty_short(t[1])}, None>'
	raise AssertionError(t)


BASE_ENV: list[tuple[str, Ty]] = [
	('a', INT), ('b', FLOAT), ('p', BOOL), ('s', STR), ('xs', ('list', INT)), ('d', ('dict', STR, INT)),
	('t', ('tuple', INT, STR)), ('ys', ('list', FLOAT)), ('ss', ('list', STR)), ('xss', ('list', ('list', INT))),
	('dd', ('dict', STR, ('list', INT))), ('o', ('opt', INT)), ('ol', ('opt', ('list', INT))), ('c', INT), ('q', BOOL), ('e', FLOAT),
	# optionals spelled with None first (unwrapping an optional does not depend on the side None is written on)
	('on', ('opt', INT, 'nf')), ('oln', ('opt', ('list', INT), 'nf')), ('odn', ('opt', ('dict', STR, FLOAT), 'nf')), ('od', ('opt', ('dict', STR, FLOAT))),
	('otn', ('opt', ('tuple', INT, STR), 'nf')), ('osn', ('opt', STR, 'nf')),
]


def header(env: list[tuple[str, Ty]]) -> str:
	return 'def f(' + ', '.join(f'{n}: {ty_annot(t)}' for n, t in env) + ') -> None:\n'


def env_sexp(env: list[tuple[str, Ty]]) -> str:
	return '( ' + ' '.join(f'( {n} {ty_sexp(t)} )' for n, t in env) + ' )'


# ---------------------------------------------------------------------------------------------
# printing with precedence

P_TERN, P_OR, P_AND, P_NOT, P_CMP, P_BOR, P_BXOR, P_BAND, P_SHIFT, P_SUM, P_TERM, P_FACTOR, P_ATOM = range(1, 14)

BIN_LEVEL = {'|': P_BOR, '^': P_BXOR, '&': P_BAND, '<<': P_SHIFT, '>>': P_SHIFT, '+': P_SUM, '-': P_SUM, '*': P_TERM, '/': P_TERM, '%': P_TERM}


class Src:
	"""source text with the precedence level of its outermost construct"""
	__slots__ = ('text', 'level', 'ref')

	def __init__(self, text: str, level: int, ref: bool = False) -> None:
		self.text = text
		self.level = level
		self.ref = ref  # usable as the receiver of an indexer / relay in tranp's grammar (Reference | FuncCall | Generator)

	def at(self, level: int) -> str:
		return self.text if self.level >= level else f'({self.text})'


def str_lit(s: str) -> str:
	assert all(32 <= ord(ch) < 127 and ch not in '"\\\'' for ch in s), s
	return f'"{s}"'


# ---------------------------------------------------------------------------------------------
# generator


class Gen:
	"""Type-directed generator of expressions over an environment.

	mode 'infer'  : everything the infer model covers (incl. mutating stub methods, iterator-typed calls)
	mode 'pytype' : only constructs with a pure CPython counterpart in Tranp/Model/PyEval.lean, with small operands
	"""

	def __init__(self, rng: random.Random, env: list[tuple[str, Ty]], mode: str, hetero_ok: bool = False, session: dict[str, int] | None = None) -> None:
		self.rng = rng
		self.env = env
		self.mode = mode
		self.small = mode in ('pytype', 'search')   # operands of <<, >>, sequence *, range() stay small enough to evaluate
		self.pure = mode == 'pytype'
		self.hetero_ok = hetero_ok
		# `session['hetero']` (optional) bounds how many list literals mixing classes (`[a, None]`) are emitted per inference
		# session; it was needed while the second one raised Errors.Never (repaired in 401dc97) and is unused by default
		self.session = session
		self.in_comp = 0
		self.fresh = 0
		self.bound: list[tuple[str, Ty]] = []
		self.inject: str | None = None   # one ill-typed / heterogeneous atom to be placed at some leaf position

	# -- helpers

	def vars_of(self, t: Ty) -> list[str]:
		return [n for n, u in (*self.bound, *self.env) if u == t]

	def pick_ty(self, depth: int, scalar_only: bool = False) -> Ty:
		r = self.rng.random()
		if scalar_only or depth <= 0 or r < 0.55:
			return self.rng.choice([INT, INT, FLOAT, BOOL, STR])
		if r < 0.75:
			return ('list', self.pick_ty(depth - 1))
		if r < 0.87:
			return ('dict', self.rng.choice([STR, INT]), self.pick_ty(depth - 1))
		return ('tuple', *[self.pick_ty(depth - 1) for _ in range(self.rng.randint(1, 3))])

	def small_int(self) -> Src:
		return Src(str(self.rng.randint(0, 3)), P_ATOM)

	# -- entry

	def expr(self, t: Ty, depth: int) -> Src:
		k = t[0]
		if self.inject is not None and self.in_comp == 0 and self.rng.random() < (0.2 if depth > 0 else 0.5):
			text, self.inject = self.inject, None
			return Src(text, P_ATOM)
		if k == 'opt':
			return self.expr(t[1] if self.rng.random() < 0.7 else NONE, depth)
		alts = getattr(self, f'alts_{k}')(t, depth)
		weights = [w for w, _ in alts]
		fn = self.rng.choices([f for _, f in alts], weights)[0]
		return fn()

	def leaf_or(self, t: Ty, depth: int, alts: list[tuple[float, Any]], leaf: list[tuple[float, Any]]) -> list[tuple[float, Any]]:
		vs = self.vars_of(t)
		if vs:
			leaf = [*leaf, (3.0, lambda: Src(self.rng.choice(vs), P_ATOM, True))]
		if depth <= 0:
			return leaf
		leaf = [(w * 0.4, f) for w, f in leaf]
		# two expressions of a container-of-optional type may be inferred differently (list<int>, list<None>, list<Union<int, None>>);
		# their ternary is a Union of containers, on which tranp resolves no operator or method (known finding
		# ternary-union-of-containers): generated at a low rate
		tern_w = (0.06 if self.mode != 'pytype' else 0.7) if has_opt(t) else 0.7
		generic = [
			(0.5, lambda: self.group(t, depth)),
			(tern_w, lambda: self.ternary(t, depth)),
			(0.8, lambda: self.index_into(t, depth)),
			(0.4, lambda: self.call_returning(t, depth)),
		]
		return [*leaf, *alts, *generic]

	# -- generic producers (any type)

	def group(self, t: Ty, depth: int) -> Src:
		return Src(f'({self.expr(t, depth - 1).text})', P_ATOM)

	def ternary(self, t: Ty, depth: int) -> Src:
		a = self.expr(t, depth - 1)
		c = self.cond(depth - 1)
		b = self.expr(t, depth - 1)
		return Src(f'{a.at(P_OR)} if {c.at(P_OR)} else {b.at(P_TERN)}', P_TERN)

	def cond(self, depth: int) -> Src:
		return self.expr(BOOL, depth)

	def receiver(self, t: Ty, depth: int, opt: bool = False) -> Src | None:
		"""an expression of type t that tranp's grammar accepts as a receiver; with `opt` also a variable declared as an optional of t
		(only where the value is USED as a receiver: subscript, slice, method call, iteration — never as a function argument)"""
		vs = self.vars_of(t)
		opts: list[Any] = []
		if vs:
			opts += [lambda: Src(self.rng.choice(vs), P_ATOM, True)] * 3
		# an optional of t, either spelling, used as a t (tranp unwraps `T | None` / `None | T` on subscript, attribute, call, iteration;
		# CPython raises for None, which the pytype stream keeps out)
		ovs = [n for n, u in (*self.bound, *self.env) if u[0] == 'opt' and u[1] == t] if opt and self.mode != 'pytype' and self.in_comp == 0 else []
		if ovs:
			opts += [lambda: Src(self.rng.choice(ovs), P_ATOM, True)] * (2 if vs else 3)
		if depth > 0:
			opts.append(lambda: self.index_into(t, depth, must=True))
			opts.append(lambda: self.call_returning(t, depth, must=True))
		self.rng.shuffle(opts)
		for o in opts:
			r = o()
			if r is not None and r.ref:
				return r
		return None

	def index_into(self, t: Ty, depth: int, must: bool = False) -> Src:
		"""xs[i] / d[k] / tup[0] / s[i] producing t"""
		cands: list[Any] = []
		lst = self.receiver(('list', t), depth - 1, opt=True)
		if lst is not None:
			cands.append(lambda: Src(f'{lst.text}[{self.index_key(depth - 1).text}]', P_ATOM, True))
		for kt in (STR, INT):
			dct = self.receiver(('dict', kt, t), 0, opt=True)
			if dct is not None:
				cands.append(lambda dct=dct, kt=kt: Src(f'{dct.text}[{self.expr(kt, min(depth - 1, 1)).text}]', P_ATOM, True))
		for n, u in (*self.bound, *self.env):
			if u[0] == 'tuple':
				for i, c in enumerate(u[1:]):
					if c == t:
						cands.append(lambda n=n, i=i: Src(f'{n}[{i}]', P_ATOM, True))
		if t == STR:
			sr = self.receiver(STR, depth - 1, opt=True)
			if sr is not None:
				cands.append(lambda: Src(f'{sr.text}[{self.index_key(depth - 1).text}]', P_ATOM, True))
		if not cands:
			return None if must else self.expr(t, 0)  # type: ignore[return-value]
		return self.rng.choice(cands)()

	def index_key(self, depth: int) -> Src:
		if self.small or self.rng.random() < 0.6:
			return Src(str(self.rng.randint(0, 2)), P_ATOM)
		return self.expr(INT, min(depth, 1))

	def call_returning(self, t: Ty, depth: int, must: bool = False) -> Src:
		cands: list[Any] = []
		d1 = depth - 1
		pure = self.pure

		def recv(u: Ty) -> Src | None:
			return self.receiver(u, d1, opt=True)

		def add(u: Ty, fmt: Any) -> None:
			r = recv(u)
			if r is not None:
				cands.append(lambda: Src(fmt(r.text), P_ATOM, True))

		def arg(u: Ty) -> str:
			return self.expr(u, min(d1, 1)).text

		k = t[0]
		rare = (not pure) and self.rng.random() < 0.04   # forms typed differently from CPython (listed as known findings): low rate
		if rare and k == 'int':
			return Src(f'abs({self.expr(BOOL, d1).text})', P_ATOM, True)                                   # abs-of-bool
		if rare and k == 'float':
			a, b = self.expr(INT, d1).text, self.expr(FLOAT, d1).text
			return Src(f'{self.rng.choice(["min", "max"])}({a}, {b})', P_ATOM, True)                          # min-max-mixed-numeric
		if rare and k == 'list' and t[1][0] == 'tuple' and len(t[1]) == 3:
			dct = self.receiver(('dict', t[1][1], t[1][2]), 0)
			if dct is not None:
				return Src(f'list({dct.text}.items())', P_ATOM, True)                                         # list-of-dict-items
		if rare and k in ('int', 'str') and self.in_comp == 0:
			x, y = self.expr(t, d1), self.expr(t, d1)
			op, lv = self.rng.choice([('and', P_AND), ('or', P_OR)])
			return Src(f'({x.at(lv + 1)} {op} {y.at(lv + 1)})', P_ATOM)                                       # boolop-nonbool-operands
		if k == 'int':
			add(STR, lambda r: f'{r}.find({arg(STR)})')
			add(STR, lambda r: f'{r}.count({self.nonempty_str().text})')
			cands.append(lambda: Src(f'len({self.expr(self.rng.choice([STR, ("list", INT), ("dict", STR, INT), ("list", STR)]), d1).text})', P_ATOM, True))
			cands.append(lambda: Src(f'abs({self.expr(INT, d1).text})', P_ATOM, True))
			cands.append(lambda: Src(f'int({self.expr(self.rng.choice([INT, FLOAT, BOOL]), d1).text})', P_ATOM, True))
			cands.append(lambda: Src(f'{self.rng.choice(["min", "max"])}({self.expr(INT, d1).text}, {self.expr(INT, d1).text})', P_ATOM, True))
			if not pure:
				add(('list', INT), lambda r: f'{r}.pop()')
				add(('dict', STR, INT), lambda r: f'{r}.pop({arg(STR)})')
				add(STR, lambda r: f'{r}.rfind({arg(STR)})')
				cands.append(lambda: Src(f'id({self.expr(self.pick_ty(1), d1).text})', P_ATOM, True))
			add(('list', INT), lambda r: f'{r}.index({arg(INT)})')
		elif k == 'float':
			cands.append(lambda: Src(f'abs({self.expr(FLOAT, d1).text})', P_ATOM, True))
			cands.append(lambda: Src(f'float({self.expr(self.rng.choice([INT, FLOAT, BOOL]), d1).text})', P_ATOM, True))
			cands.append(lambda: Src(f'{self.rng.choice(["min", "max"])}({self.expr(FLOAT, d1).text}, {self.expr(FLOAT, d1).text})', P_ATOM, True))
			if not pure:
				add(('list', FLOAT), lambda r: f'{r}.pop()')
		elif k == 'bool':
			add(STR, lambda r: f'{r}.startswith({arg(STR)})')
			add(STR, lambda r: f'{r}.endswith({arg(STR)})')
			cands.append(lambda: Src(f'bool({self.expr(self.pick_ty(1), d1).text})', P_ATOM, True))
		elif k == 'str':
			add(STR, lambda r: f'{r}.upper()')
			add(STR, lambda r: f'{r}.lower()')
			add(STR, lambda r: f'{r}.strip({arg(STR)})')
			add(STR, lambda r: f'{r}.lstrip({arg(STR)})')
			add(STR, lambda r: f'{r}.rstrip({arg(STR)})')
			add(STR, lambda r: f'{r}.replace({self.nonempty_str().text}, {arg(STR)})')
			add(STR, lambda r: f'{r}.join({self.expr(("list", STR), d1).text})')
			cands.append(lambda: Src(f'str({self.expr(self.rng.choice([INT, BOOL, STR]), d1).text})', P_ATOM, True))
			if not pure:
				cands.append(lambda: Src(f'hex({self.expr(INT, d1).text})', P_ATOM, True))
				add(STR, lambda r: f'{r}.format({arg(STR)})')
		elif k == 'none' and not pure:
			add(('list', INT), lambda r: f'{r}.append({arg(INT)})')
			add(('list', INT), lambda r: f'{r}.reverse()')
			add(('list', INT), lambda r: f'{r}.clear()')
			add(('dict', STR, INT), lambda r: f'{r}.clear()')
			cands.append(lambda: Src(f'print({self.expr(self.pick_ty(1), d1).text})', P_ATOM, True))
		elif k == 'list':
			el = t[1]
			add(t, lambda r: f'{r}.copy()')
			if el == STR:
				add(STR, lambda r: f'{r}.split({self.nonempty_str().text})')
			src = self.iter_source(el, d1)
			if src is not None:
				cands.append(lambda: Src(f'list({src.text})', P_ATOM, True))
			if not pure:
				add(('list', t), lambda r: f'{r}.pop()')
		elif k == 'dict':
			add(t, lambda r: f'{r}.copy()')
		# generic templates of the stub library
		if not pure and k in ('int', 'float', 'str', 'list', 'dict', 'tuple'):
			add(('list', t), lambda r: f'{r}.pop()')
			add(('dict', STR, t), lambda r: f'{r}.get({arg(STR)})')
		if pure and k in ('int', 'float', 'str', 'list'):
			# dict.get with a default of the value type keeps the run-time type determined
			add(('dict', STR, t), lambda r: f'{r}.get({arg(STR)}, {self.expr(t, min(d1, 1)).text})')
		if not cands:
			return None if must else self.expr(t, 0)  # type: ignore[return-value]
		return self.rng.choice(cands)()

	def nonempty_str(self) -> Src:
		return Src(str_lit(self.rng.choice([',', ' ', 'a', 'ab', '-', 'x'])), P_ATOM)

	def iter_source(self, el: Ty, depth: int, opt: bool = False) -> Src | None:
		"""an iterable whose items have type el (what `for x in …` / `list(…)` consume); `opt`: the source of a `for` clause may be an optional"""
		cands: list[Any] = []
		pure = self.pure
		lst = self.receiver(('list', el), depth, opt=opt)
		if lst is not None:
			cands += [lambda: lst] * 2
		plain = self.receiver(('list', el), depth) if opt else lst
		if plain is not None:
			cands.append(lambda: Src(f'reversed({plain.text})', P_ATOM, True))
		if el in (STR, INT):
			dct = self.receiver(('dict', el, INT), 0, opt=opt)
			if dct is not None:
				cands.append(lambda: dct)
				cands.append(lambda: Src(f'{dct.text}.keys()', P_ATOM, True))
		for kt in (STR, INT):
			dv = self.receiver(('dict', kt, el), 0, opt=opt)
			if dv is not None:
				cands.append(lambda dv=dv: Src(f'{dv.text}.values()', P_ATOM, True))
		if el == INT:
			cands.append(lambda: Src(f'range({self.range_arg(depth).text})', P_ATOM, True))
		if depth > 0 and self.rng.random() < 0.3:
			cands.append(lambda: self.expr(('list', el), depth))
		if not cands:
			return None
		return self.rng.choice(cands)()

	def range_arg(self, depth: int) -> Src:
		if self.small:
			return Src(str(self.rng.randint(0, 4)), P_ATOM)
		return self.expr(INT, min(depth, 1))

	# -- per type alternatives

	def alts_int(self, t: Ty, depth: int) -> list[tuple[float, Any]]:
		leaf = [(2.0, lambda: Src(str(self.rng.choice([0, 1, 2, 3, 5, 7, 10, 12, 100])), P_ATOM))]
		d1 = depth - 1
		return self.leaf_or(t, depth, [
			(3.0, lambda: self.arith(INT, d1)),
			(1.5, lambda: self.bitwise(d1)),
			(1.0, lambda: self.factor(INT, d1)),
		], leaf)

	def alts_float(self, t: Ty, depth: int) -> list[tuple[float, Any]]:
		leaf = [(2.0, lambda: Src(self.rng.choice(['0.5', '1.5', '2.0', '0.25', '3.75', '10.0', '0.125', '1.0']), P_ATOM))]
		d1 = depth - 1
		return self.leaf_or(t, depth, [
			(3.0, lambda: self.arith(FLOAT, d1)),
			(1.0, lambda: self.factor(FLOAT, d1)),
		], leaf)

	def alts_bool(self, t: Ty, depth: int) -> list[tuple[float, Any]]:
		leaf = [(1.0, lambda: Src('True', P_ATOM)), (1.0, lambda: Src('False', P_ATOM))]
		d1 = depth - 1
		return self.leaf_or(t, depth, [
			(2.5, lambda: self.comparison(d1)),
			(1.5, lambda: self.boolop(d1)),
			(1.0, lambda: self.not_(d1)),
			(0.7, lambda: self.bool_bitwise(d1)),
		], leaf)

	def alts_str(self, t: Ty, depth: int) -> list[tuple[float, Any]]:
		leaf = [(2.0, lambda: Src(str_lit(self.rng.choice(['', 'a', 'ab', 'a,b', 'x y', 'abc', 'Ab', '1']) ), P_ATOM))]
		d1 = depth - 1
		return self.leaf_or(t, depth, [
			(1.5, lambda: self.str_concat(d1)),
			(1.0, lambda: self.seq_repeat(STR, d1)),
			(0.8, lambda: self.slice_of(STR, d1)),
		], leaf)

	def alts_none(self, t: Ty, depth: int) -> list[tuple[float, Any]]:
		return [(1.0, lambda: Src('None', P_ATOM))]

	def alts_list(self, t: Ty, depth: int) -> list[tuple[float, Any]]:
		el = t[1]
		d1 = depth - 1
		leaf = [(2.0, lambda: self.list_literal(el, max(d1, 0)))]
		alts = [
			(1.0, lambda: self.seq_repeat(t, d1)),
			(0.8, lambda: self.slice_of(t, d1)),
			(1.2, lambda: self.list_comp(el, d1)),
		]
		return self.leaf_or(t, depth, alts, leaf)

	def alts_dict(self, t: Ty, depth: int) -> list[tuple[float, Any]]:
		d1 = depth - 1
		leaf = [(2.0, lambda: self.dict_literal(t[1], t[2], max(d1, 0)))]
		return self.leaf_or(t, depth, [(1.0, lambda: self.dict_comp(t[1], t[2], d1))], leaf)

	def alts_tuple(self, t: Ty, depth: int) -> list[tuple[float, Any]]:
		d1 = max(depth - 1, 0)
		leaf = [(2.0, lambda: Src('(' + ', '.join(self.expr(c, d1).text for c in t[1:]) + (',)' if len(t) == 2 else ')'), P_ATOM))]
		return self.leaf_or(t, depth, [], leaf)

	# -- operators

	def num_operand(self, want: Ty, depth: int) -> tuple[Src, Ty]:
		"""an operand whose Python type is in the numeric tower below `want`"""
		if want == INT:
			u = self.rng.choice([INT, INT, INT, BOOL])
		else:
			u = self.rng.choice([FLOAT, FLOAT, INT, BOOL])
		return self.expr(u, depth), u

	def arith(self, want: Ty, depth: int) -> Src:
		"""a Sum or Term chain whose CPython result type is `want` and that the stub table accepts"""
		rng = self.rng
		for _ in range(20):
			n = rng.choice([2, 2, 3, 3, 4])
			level = rng.choice([P_SUM, P_TERM])
			pool = ['+', '-'] if level == P_SUM else ['*', '/', '%', '*']
			ops = [rng.choice(pool) for _ in range(n - 1)]
			if n > 2 and len(set(ops)) == 1 and rng.random() < 0.8:
				# mixed operators of one precedence level in one flat chain (each step has its own operator)
				ops[rng.randrange(len(ops))] = rng.choice([o for o in pool if o != ops[0]])
			operands = [self.num_operand(FLOAT if want == FLOAT else INT, depth) for _ in range(n)]
			tys = [u for _, u in operands]
			res = py_chain_type(tys, ops)
			if res != want or not stub_accepts(tys, ops):
				continue
			text = operands[0][0].at(level + 1)
			for op, (o, _) in zip(ops, operands[1:]):
				text += f' {op} {o.at(level + 1)}'
			return Src(text, level)
		return self.expr(want, 0)

	def bitwise(self, depth: int) -> Src:
		rng = self.rng
		op = rng.choice(['|', '^', '&', '<<', '>>'])
		level = BIN_LEVEL[op]
		l = self.expr(INT, depth)
		if op in ('<<', '>>'):
			r = self.small_int() if self.small or rng.random() < 0.5 else self.expr(INT, min(depth, 1))
			if rng.random() < 0.3:
				op2 = '>>' if op == '<<' else '<<'
				return Src(f'{l.at(level + 1)} {op} {r.at(level + 1)} {op2} {self.small_int().text}', level)
		else:
			r = self.expr(rng.choice([INT, INT, BOOL]), depth)
		return Src(f'{l.at(level + 1)} {op} {r.at(level + 1)}', level)

	def bool_bitwise(self, depth: int) -> Src:
		op = self.rng.choice(['|', '&'])
		level = BIN_LEVEL[op]
		return Src(f'{self.expr(BOOL, depth).at(level + 1)} {op} {self.expr(BOOL, depth).at(level + 1)}', level)

	def factor(self, t: Ty, depth: int) -> Src:
		op = self.rng.choice(['-', '+', '~'] if t == INT else ['-', '+'])
		return Src(f'{op}{self.expr(t, depth).at(P_FACTOR)}', P_FACTOR)

	def comparison(self, depth: int) -> Src:
		rng = self.rng
		r = rng.random()
		if r < 0.5:
			u = rng.choice([INT, FLOAT, INT, STR])
			v = rng.choice([INT, FLOAT, BOOL]) if u in (INT, FLOAT) else STR
			op = rng.choice(['==', '!=', '<', '>', '<=', '>='])
			text = f'{self.expr(u, depth).at(P_BOR)} {op} {self.expr(v, depth).at(P_BOR)}'
			if rng.random() < 0.2:
				w = v if v != BOOL else INT
				text += f" {rng.choice(['<', '<=', '==', '>'])} {self.expr(w, depth).at(P_BOR)}"
			return Src(text, P_CMP)
		if r < 0.75:
			op = rng.choice(['in', 'not in'])
			if rng.random() < 0.2:
				item, cont = self.expr(STR, depth), self.expr(STR, depth)
			else:
				el = rng.choice([INT, STR])
				cont = self.expr(rng.choice([('list', el), ('dict', el, INT)]), depth)
				item = self.expr(el, depth)
			return Src(f'{item.at(P_BOR)} {op} {cont.at(P_BOR)}', P_CMP)
		if r < 0.9:
			vs = [n for n, u in self.env if u[0] == 'opt']
			x = Src(rng.choice(vs), P_ATOM) if vs else Src('None', P_ATOM)
			return Src(f"{x.text} {rng.choice(['is', 'is not'])} None", P_CMP)
		u = rng.choice([INT, STR])
		return Src(f"{self.expr(u, depth).at(P_BOR)} {rng.choice(['==', '!='])} {self.expr(u, depth).at(P_BOR)}", P_CMP)

	def boolop(self, depth: int) -> Src:
		op, level = self.rng.choice([('and', P_AND), ('or', P_OR)])
		n = self.rng.randint(2, 3)
		return Src(f' {op} '.join(self.expr(BOOL, depth).at(level + 1) for _ in range(n)), level)

	def not_(self, depth: int) -> Src:
		u = BOOL if self.rng.random() < 0.6 else self.pick_ty(1)
		return Src(f'not {self.expr(u, depth).at(P_NOT)}', P_NOT)

	def str_concat(self, depth: int) -> Src:
		n = self.rng.randint(2, 3)
		return Src(' + '.join(self.expr(STR, depth).at(P_TERM) for _ in range(n)), P_SUM)

	def seq_repeat(self, t: Ty, depth: int) -> Src:
		n = self.small_int() if self.small or self.rng.random() < 0.6 else self.expr(INT, min(depth, 1))
		sq = self.expr(t, depth)
		if self.rng.random() < 0.5:
			return Src(f'{sq.at(P_FACTOR)} * {n.at(P_FACTOR)}', P_TERM)
		return Src(f'{n.at(P_FACTOR)} * {sq.at(P_FACTOR)}', P_TERM)

	def slice_of(self, t: Ty, depth: int) -> Src:
		r = self.receiver(t, depth, opt=True)
		if r is None:
			return self.expr(t, 0)
		lo = self.rng.choice(['', '0', '1', '-1', '-2', '+1'])
		hi = self.rng.choice(['', '1', '2', '-1', '-3'])
		return Src(f'{r.text}[{lo}:{hi}]', P_ATOM, True)

	# -- literals

	def list_literal(self, el: Ty, depth: int) -> Src:
		n = self.rng.randint(1, 3)
		if el[0] == 'opt' and self.session is not None:
			# all-None or all-non-None unless the session still has budget for a literal mixing classes
			if self.session.get('hetero', 0) > 0 and self.in_comp == 0 and self.rng.random() < 0.5:
				self.session['hetero'] -= 1
				items = [self.expr(el[1], depth).text, 'None'] + [self.expr(el, depth).text for _ in range(n - 1)]
				self.rng.shuffle(items)
				return Src('[' + ', '.join(items) + ']', P_ATOM)
			el = el[1] if self.rng.random() < 0.8 else NONE
		items = [self.expr(el, depth).text for _ in range(n)]
		if self.mode == 'search' and el[0] != 'opt' and self.rng.random() < 0.3:
			# spread elements (`[*xs, a]`, `[*d]` = the keys, `[*d.values()]`, `[*range(n)]`): on_spread (reflections.py:722) types the
			# spread items by the FIRST type argument of the spread expression's type
			for i in self.rng.sample(range(n), self.rng.randint(1, n)):
				it = self.iter_source(el, min(depth, 1))
				if it is not None:
					items[i] = '*' + it.at(P_ATOM)
		return Src('[' + ', '.join(items) + ']', P_ATOM)

	def dict_literal(self, kt: Ty, vt: Ty, depth: int) -> Src:
		n = self.rng.randint(1, 3)
		items = [f'{self.expr(kt, min(depth, 1)).text}: {self.expr(vt, depth).text}' for _ in range(n)]
		if self.mode == 'search' and not has_opt(vt) and self.rng.random() < 0.25:
			dct = self.receiver(('dict', kt, vt), 0)
			if dct is not None:
				items[self.rng.randrange(n)] = '**' + dct.at(P_ATOM)
		return Src('{' + ', '.join(items) + '}', P_ATOM)

	def fresh_var(self) -> str:
		self.fresh += 1
		return f'z{self.fresh}'

	def list_comp(self, el: Ty, depth: int) -> Src:
		src_el = self.pick_ty(0) if self.rng.random() < 0.6 else el
		r = self.rng.random()
		if r < 0.25:
			return self.comp_two('list', el, None, depth)
		src = self.iter_source(src_el, max(depth, 0), opt=True)
		if src is None:
			return self.list_literal(el, max(depth, 0))
		x = self.fresh_var()
		self.bound.insert(0, (x, src_el))
		self.in_comp += 1
		try:
			proj = self.expr(el, max(depth, 0))
			cond = f' if {self.cond(min(depth, 1)).at(P_OR)}' if self.rng.random() < 0.4 else ''
		finally:
			self.in_comp -= 1
			self.bound.pop(0)
		return Src(f'[{proj.text} for {x} in {src.at(P_OR)}{cond}]', P_ATOM, True)

	def comp_two(self, kind: str, el: Ty, vt: Ty | None, depth: int) -> Src:
		"""for k, v in d.items() / for i, x in enumerate(xs)"""
		rng = self.rng
		k, v = self.fresh_var(), self.fresh_var()
		if rng.random() < 0.5:
			kt = rng.choice([STR, INT])
			et = self.pick_ty(0)
			dct = self.receiver(('dict', kt, et), 0, opt=True)
			if dct is None:
				return self.list_literal(el, 0) if kind == 'list' else self.dict_literal(el, vt, 0)  # type: ignore[arg-type]
			src, bs = f'{dct.text}.items()', [(k, kt), (v, et)]
		else:
			et = self.pick_ty(0)
			lst = self.receiver(('list', et), 0)
			if lst is None:
				return self.list_literal(el, 0) if kind == 'list' else self.dict_literal(el, vt, 0)  # type: ignore[arg-type]
			src, bs = f'enumerate({lst.text})', [(k, INT), (v, et)]
		for b in reversed(bs):
			self.bound.insert(0, b)
		self.in_comp += 1
		try:
			if kind == 'list':
				body = self.expr(el, max(depth, 0)).text
			else:
				body = f'{self.expr(el, min(max(depth, 0), 1)).text}: {self.expr(vt, max(depth, 0)).text}'  # type: ignore[arg-type]
			cond = f' if {self.cond(min(depth, 1)).at(P_OR)}' if rng.random() < 0.3 else ''
		finally:
			self.in_comp -= 1
			del self.bound[:2]
		o, c = ('[', ']') if kind == 'list' else ('{', '}')
		return Src(f'{o}{body} for {k}, {v} in {src}{cond}{c}', P_ATOM, True)

	def dict_comp(self, kt: Ty, vt: Ty, depth: int) -> Src:
		if self.rng.random() < 0.4:
			return self.comp_two('dict', kt, vt, depth)
		src_el = kt if self.rng.random() < 0.6 else self.pick_ty(0)
		src = self.iter_source(src_el, max(depth, 0), opt=True)
		if src is None:
			return self.dict_literal(kt, vt, max(depth, 0))
		x = self.fresh_var()
		self.bound.insert(0, (x, src_el))
		self.in_comp += 1
		try:
			key = self.expr(kt, min(max(depth, 0), 1))
			val = self.expr(vt, max(depth, 0))
		finally:
			self.in_comp -= 1
			self.bound.pop(0)
		return Src(f'{{{key.text}: {val.text} for {x} in {src.at(P_OR)}}}', P_ATOM, True)


# the stub table as far as the generator needs it to stay inside "accepted by tranp" (checked by the correspondence itself:
# a wrong entry here only moves a case from the well-typed to the ill-typed histogram bucket)
_STUB_ARITH = {
	('int', 'int'), ('int', 'bool'), ('bool', 'bool'), ('float', 'int'), ('float', 'float'), ('float', 'bool'),
}


def stub_step(l: str, op: str, r: str) -> str | None:
	"""result class of `left.try_operation(op, right) or right.try_operation(op, left)` for scalar classes (arithmetic ops)"""
	def one(a: str, b: str) -> str | None:
		if a == 'int' and b in ('int', 'bool'):
			return 'float' if op == '/' else 'int'
		if a == 'float' and (b in ('int', 'float') or (b == 'bool' and op != '%')):
			return 'float'
		if a == 'bool' and b == 'bool':
			return 'float' if op == '/' else 'int'
		return None
	return one(l, r) or one(r, l)


def stub_accepts(tys: list[Ty], ops: list[str]) -> bool:
	cur: str | None = tys[0][0]
	for op, t in zip(ops, tys[1:]):
		cur = stub_step(cur, op, t[0])  # type: ignore[arg-type]
		if cur is None:
			return False
	return True


def py_chain_type(tys: list[Ty], ops: list[str]) -> Ty:
	cur = tys[0][0]
	for op, t in zip(ops, tys[1:]):
		if op == '/' or 'float' in (cur, t[0]):
			cur = 'float'
		else:
			cur = 'int'
	return (cur,)


# ---------------------------------------------------------------------------------------------
# tranp node -> s-expression


CLASS_NAMES: set[str] = set()   # user class names of the program being serialised (set by harness/c03_prog_stream.py)
USER_FUNCS: set[str] = set()    # its module-level functions: a call is typed by the declared return type (not part of the model)


def node_sexp(n: Any) -> str:
	import rogw.tranp.syntax.node.definition as defs
	if isinstance(n, defs.Integer):
		if not n.tokens.isdigit():
			raise Unsupported(f'integer spelling {n.tokens}')
		return f'( int {int(n.tokens)} )'
	if isinstance(n, defs.Float):
		tok = n.tokens
		if not all(ch.isdigit() or ch == '.' for ch in tok) or tok.count('.') != 1 or tok.startswith('.') or tok.endswith('.'):
			raise Unsupported(f'float spelling {tok}')
		return f'( float {tok} )'
	if isinstance(n, defs.DocString):
		raise Unsupported('docstring')
	if isinstance(n, defs.String):
		return f'( str {hx(n.tokens[1:-1])} )'
	if isinstance(n, defs.Truthy):
		return 'true'
	if isinstance(n, defs.Falsy):
		return 'false'
	if isinstance(n, defs.Null):
		return 'none'
	if isinstance(n, defs.ClassRef):
		raise Unsupported('cls')
	if isinstance(n, defs.ThisRef):
		return '( var self )'
	if isinstance(n, defs.Var):
		if n.tokens in CLASS_NAMES:
			raise Unsupported('class reference')   # `C.x`, `E.M`: class objects are not values of the model
		return f'( var {n.tokens} )'
	if isinstance(n, defs.Relay):
		return f'( attr {node_sexp(n.receiver)} {n.prop.tokens} )'
	if isinstance(n, defs.Factor):
		return f'( factor {n.operator.tokens} {node_sexp(n.value)} )'
	if isinstance(n, defs.NotCompare):
		return f'( not {node_sexp(n.value)} )'
	if isinstance(n, (defs.Sum, defs.Term, defs.ShiftBitwise, defs.AndBitwise, defs.XorBitwise, defs.OrBitwise, defs.Comparison)):
		els = n.elements
		parts = [node_sexp(els[0])]
		for i in range(1, len(els), 2):
			parts.append(els[i].tokens)
			parts.append(node_sexp(els[i + 1]))
		return f"( {'cmp' if isinstance(n, defs.Comparison) else 'bin'} {' '.join(parts)} )"
	if isinstance(n, (defs.AndCompare, defs.OrCompare)):
		els = n.elements
		return f"( {'and' if isinstance(n, defs.AndCompare) else 'or'} {' '.join(node_sexp(e) for e in els[0::2])} )"
	if isinstance(n, defs.TernaryOperator):
		return f'( tern {node_sexp(n.primary)} {node_sexp(n.condition)} {node_sexp(n.secondary)} )'
	if isinstance(n, defs.List):
		return '( list ' + ' '.join(node_sexp(v) for v in n.values) + ' )'
	if isinstance(n, defs.Dict):
		parts = []
		for it in n.items:
			if not isinstance(it, defs.Pair):
				raise Unsupported('dict spread')
			parts += [node_sexp(it.first), node_sexp(it.second)]
		return '( dict ' + ' '.join(parts) + ' )'
	if isinstance(n, defs.Tuple):
		return '( tuple ' + ' '.join(node_sexp(v) for v in n.values) + ' )'
	if isinstance(n, defs.Group):
		return f'( group {node_sexp(n.expression)} )'
	if isinstance(n, defs.Indexer):
		keys = n.keys
		if n.sliced:
			if len(keys) != 3 or not isinstance(keys[2], defs.Empty):
				raise Unsupported('slice step')
			lo, hi = ('empty' if isinstance(k, defs.Empty) else node_sexp(k) for k in keys[:2])
			return f'( slice {node_sexp(n.receiver)} {lo} {hi} )'
		if len(keys) != 1:
			raise Unsupported('multi-key indexer')
		return f'( index {node_sexp(n.receiver)} {node_sexp(keys[0])} )'
	if isinstance(n, defs.Super):
		raise Unsupported('super')
	if isinstance(n, defs.FuncCall):
		args = []
		for a in n.arguments:
			if not isinstance(a.label, defs.Empty) and a.label.tokens:
				raise Unsupported('keyword argument')
			args.append(node_sexp(a.value))
		calls = n.calls
		if isinstance(calls, defs.Relay):
			return f"( call {node_sexp(calls.receiver)} {calls.prop.tokens} {' '.join(args)} )".replace('  ', ' ')
		if type(calls) is defs.Var and calls.tokens in USER_FUNCS:
			raise Unsupported('call of a user function')
		if type(calls) is defs.Var:
			return f"( fcall {calls.tokens} {' '.join(args)} )".replace('  ', ' ')
		raise Unsupported(f'call of {type(calls).__name__}')
	if isinstance(n, (defs.ListComp, defs.DictComp)):
		if len(n.fors) != 1:
			raise Unsupported('nested for clauses')
		f = n.fors[0]
		names = ' '.join(s.tokens for s in f.symbols)
		cond = 'true' if isinstance(n.condition, defs.Empty) else node_sexp(n.condition)
		src = node_sexp(f.iterates)
		if isinstance(n, defs.ListComp):
			return f'( listcomp {node_sexp(n.projection)} ( {names} ) {src} {cond} )'
		p = n.projection
		if not isinstance(p, defs.Pair):
			raise Unsupported('dict comprehension projection')
		return f'( dictcomp {node_sexp(p.first)} {node_sexp(p.second)} ( {names} ) {src} {cond} )'
	raise Unsupported(type(n).__name__)


# ---------------------------------------------------------------------------------------------
# CPython ast -> s-expression

_BINOPS = {ast.Add: '+', ast.Sub: '-', ast.Mult: '*', ast.Div: '/', ast.Mod: '%', ast.BitOr: '|', ast.BitXor: '^', ast.BitAnd: '&', ast.LShift: '<<', ast.RShift: '>>'}
_CMPOPS = {ast.Eq: '==', ast.NotEq: '!=', ast.Lt: '<', ast.Gt: '>', ast.LtE: '<=', ast.GtE: '>=', ast.In: 'in', ast.NotIn: 'not.in', ast.Is: 'is', ast.IsNot: 'is.not'}
_UNOPS = {ast.UAdd: '+', ast.USub: '-', ast.Invert: '~'}


def float_text(x: float) -> str:
	"""`[-]digits.digits` spelling of a float that is exact in decimal with few digits (the generators' domain)"""
	r = repr(float(x))
	if 'e' in r or 'n' in r:
		raise Unsupported(f'float spelling {r}')
	return r


def ast_sexp(n: ast.AST) -> str:
	if isinstance(n, ast.Constant):
		v = n.value
		if v is True:
			return 'true'
		if v is False:
			return 'false'
		if v is None:
			return 'none'
		if isinstance(v, int):
			return f'( int {v} )'
		if isinstance(v, float):
			return f'( float {float_text(v)} )'
		if isinstance(v, str):
			return f'( str {hx(v)} )'
		raise Unsupported(f'constant {v!r}')
	if isinstance(n, ast.Name):
		return f'( var {n.id} )'
	if isinstance(n, ast.UnaryOp):
		if isinstance(n.op, ast.Not):
			return f'( not {ast_sexp(n.operand)} )'
		return f'( factor {_UNOPS[type(n.op)]} {ast_sexp(n.operand)} )'
	if isinstance(n, ast.BinOp):
		if type(n.op) not in _BINOPS:
			raise Unsupported(type(n.op).__name__)
		return f'( bin {ast_sexp(n.left)} {_BINOPS[type(n.op)]} {ast_sexp(n.right)} )'
	if isinstance(n, ast.BoolOp):
		return f"( {'and' if isinstance(n.op, ast.And) else 'or'} {' '.join(ast_sexp(v) for v in n.values)} )"
	if isinstance(n, ast.Compare):
		parts = [ast_sexp(n.left)]
		for op, c in zip(n.ops, n.comparators):
			parts += [_CMPOPS[type(op)], ast_sexp(c)]
		return f"( cmp {' '.join(parts)} )"
	if isinstance(n, ast.IfExp):
		return f'( tern {ast_sexp(n.body)} {ast_sexp(n.test)} {ast_sexp(n.orelse)} )'
	if isinstance(n, ast.List):
		return '( list ' + ' '.join(ast_sexp(v) for v in n.elts) + ' )'
	if isinstance(n, ast.Tuple):
		return '( tuple ' + ' '.join(ast_sexp(v) for v in n.elts) + ' )'
	if isinstance(n, ast.Dict):
		parts = []
		for k, v in zip(n.keys, n.values):
			if k is None:
				raise Unsupported('dict spread')
			parts += [ast_sexp(k), ast_sexp(v)]
		return '( dict ' + ' '.join(parts) + ' )'
	if isinstance(n, ast.Subscript):
		sl = n.slice
		if isinstance(sl, ast.Slice):
			if sl.step is not None:
				raise Unsupported('slice step')
			lo = 'empty' if sl.lower is None else ast_sexp(sl.lower)
			hi = 'empty' if sl.upper is None else ast_sexp(sl.upper)
			return f'( slice {ast_sexp(n.value)} {lo} {hi} )'
		return f'( index {ast_sexp(n.value)} {ast_sexp(sl)} )'
	if isinstance(n, ast.Call):
		if n.keywords:
			raise Unsupported('keyword argument')
		args = ' '.join(ast_sexp(a) for a in n.args)
		if isinstance(n.func, ast.Attribute):
			return f'( call {ast_sexp(n.func.value)} {n.func.attr} {args} )'.replace('  ', ' ')
		if isinstance(n.func, ast.Name):
			if n.func.id in USER_FUNCS:
				raise Unsupported('call of a user function')
			return f'( fcall {n.func.id} {args} )'.replace('  ', ' ')
		raise Unsupported('call')
	if isinstance(n, (ast.ListComp, ast.DictComp)):
		if len(n.generators) != 1 or len(n.generators[0].ifs) > 1 or n.generators[0].is_async:
			raise Unsupported('comprehension shape')
		g = n.generators[0]
		if isinstance(g.target, ast.Name):
			names = g.target.id
		elif isinstance(g.target, ast.Tuple) and all(isinstance(e, ast.Name) for e in g.target.elts):
			names = ' '.join(e.id for e in g.target.elts)  # type: ignore[attr-defined]
		else:
			raise Unsupported('comprehension target')
		cond = ast_sexp(g.ifs[0]) if g.ifs else 'true'
		if isinstance(n, ast.ListComp):
			return f'( listcomp {ast_sexp(n.elt)} ( {names} ) {ast_sexp(g.iter)} {cond} )'
		return f'( dictcomp {ast_sexp(n.key)} {ast_sexp(n.value)} ( {names} ) {ast_sexp(g.iter)} {cond} )'
	raise Unsupported(type(n).__name__)


# ---------------------------------------------------------------------------------------------
# run-time values


def describe(v: Any, cls_name: Any = None) -> str:
	"""short notation of the run-time type of v (the oracle of the property): containers recursively"""
	if v is None:
		return 'None'
	t = type(v)
	if t in (bool, int, float, str):
		return t.__name__
	if t is list:
		return f'list<{_elem([describe(x, cls_name) for x in v])}>'
	if t is dict:
		return f'dict<{_elem([describe(x, cls_name) for x in v.keys()])}, {_elem([describe(x, cls_name) for x in v.values()])}>'
	if t is tuple:
		return 'tuple' + (f"<{', '.join(describe(x, cls_name) for x in v)}>" if v else '')
	if cls_name is not None:
		return cls_name(v)
	raise Unsupported(f'value of {t.__name__}')


def _elem(ds: list[str]) -> str:
	u = list(dict.fromkeys(ds))
	if not u:
		return 'Unknown'
	if len(u) == 1:
		return u[0]
	return f"Union<{', '.join(u)}>"


def determined(desc: str) -> bool:
	return 'Unknown' not in desc and 'Union<' not in desc


def val_sexp(v: Any) -> str:
	if v is None:
		return 'none'
	t = type(v)
	if t is bool:
		return f"( bool {'true' if v else 'false'} )"
	if t is int:
		return f'( int {v} )'
	if t is float:
		return f'( float {float_text(v)} )'
	if t is str:
		return f'( str {hx(v)} )'
	if t is list:
		return '( list ' + ' '.join(val_sexp(x) for x in v) + ' )'
	if t is tuple:
		return '( tuple ' + ' '.join(val_sexp(x) for x in v) + ' )'
	if t is dict:
		return '( dict ' + ' '.join(f'{val_sexp(k)} {val_sexp(x)}' for k, x in v.items()) + ' )'
	raise Unsupported(f'value of {t.__name__}')


def val_show(v: Any) -> str:
	"""canonical spelling of a run-time value (= Val.render of Tranp/Model/PyEval.lean)"""
	if v is None:
		return 'none'
	t = type(v)
	if t is bool:
		return 'true' if v else 'false'
	if t is int:
		return str(v)
	if t is float:
		return 'f'
	if t is str:
		return hx(v)
	if t is list:
		return '[' + ''.join(val_show(x) + ' ' for x in v) + ']'
	if t is tuple:
		return '(' + ''.join(val_show(x) + ' ' for x in v) + ')'
	if t is dict:
		return '{' + ''.join(val_show(x) + ' ' for x in v.keys()) + '|' + ''.join(val_show(x) + ' ' for x in v.values()) + '}'
	raise Unsupported(f'value of {t.__name__}')


def gen_value(rng: random.Random, t: Ty) -> Any:
	k = t[0]
	if k == 'int':
		return rng.choice([0, 1, 2, 3, -1, -2, 5, 7, 12, -7, 20])
	if k == 'float':
		return rng.choice([0.0, 0.5, 1.5, -0.5, 2.0, -2.25, 3.75, 0.125, 10.0, 1.0])
	if k == 'bool':
		return rng.random() < 0.5
	if k == 'str':
		return rng.choice(['', 'a', 'ab', 'a,b', 'x y', 'abc', 'Ab,c', '12', 'b a'])
	if k == 'none':
		return None
	if k == 'list':
		return [gen_value(rng, t[1]) for _ in range(rng.choice([0, 1, 2, 3, 3]))]
	if k == 'dict':
		out = {}
		for _ in range(rng.choice([0, 1, 2, 3])):
			out[gen_value(rng, t[1])] = gen_value(rng, t[2])
		return out
	if k == 'tuple':
		return tuple(gen_value(rng, c) for c in t[1:])
	if k == 'opt':
		return None if rng.random() < 0.3 else gen_value(rng, t[1])
	raise AssertionError(t)
