"""Tree generators and encoders shared by the tree-shaped properties (C09, C10, C15, C16)."""
from __future__ import annotations

import random
from typing import Any

from harness.common import MemApp, hx, repo_py_files

TAG_POOL = ['a', 'b', 'ab', 'a_b', 'list', 'list_comp', 'x', 'tok', 'TOK', 'n1']


def gen_dict_tree(rng: random.Random, max_depth: int = 5, max_width: int = 6, root_tag: str | None = None) -> dict[str, Any]:
	"""Random DictTree for EntryOfDict: repeated / unique / empty child tags, tags that are prefixes of each other."""
	counter = [0]
	if root_tag is None:
		# the root tag recurs below the root (recursive rules) in about half of the trees
		root_tag = rng.choice(TAG_POOL) if rng.random() < 0.5 else 'root'

	def value() -> str:
		counter[0] += 1
		r = rng.random()
		if r < 0.08:
			return ''
		if r < 0.16:
			return f'v.{counter[0]}'
		return f'v{counter[0]}'

	def node(depth: int, tag: str) -> dict[str, Any] | None:
		width = rng.randint(0, max_width) if depth < max_depth else 0
		pool = rng.sample(TAG_POOL, rng.randint(1, min(4, len(TAG_POOL))))
		children: list[Any] = []
		for _ in range(width):
			r = rng.random()
			if r < 0.15:
				children.append(None)
			elif r < 0.55:
				children.append({'name': rng.choice(pool), 'value': value()})
			else:
				children.append(node(depth + 1, rng.choice(pool)))
		return {'name': tag, 'children': children}

	t = node(0, root_tag)
	assert t is not None
	return t


def dict_sexp(t: dict[str, Any] | None) -> str:
	out: list[str] = []

	def go(e: dict[str, Any] | None) -> None:
		if e is None:
			out.append('_')
		elif 'children' in e:
			out.append('(')
			out.append(e['name'])
			for c in e['children']:
				go(c)
			out.append(')')
		else:
			out.append(f"t:{e['name']}:{hx(e['value'])}")

	go(t)
	return ' '.join(out)


def entry_sexp(entry: Any) -> str:
	"""S-expression of any `Entry` (through the Entry interface only)."""
	out: list[str] = []

	def go(e: Any) -> None:
		if e.is_empty:
			out.append('_')
		elif e.has_child:
			out.append('(')
			out.append(e.name)
			for c in e.children:
				go(c)
			out.append(')')
		else:
			out.append(f't:{e.name}:{hx(e.value)}')

	go(entry)
	return ' '.join(out)


def entry_size(entry: Any) -> int:
	return 1 + sum(entry_size(c) for c in entry.children) if entry.has_child else 1


def walk_entries(entry: Any, path: str = '') -> list[tuple[str, Any]]:
	"""Independent re-implementation of the addressing rule, used only by search oracles."""
	path = path or entry.name
	out = [(path, entry)]
	if entry.has_child:
		cs = entry.children
		names = [c.name for c in cs]
		for i, c in enumerate(cs):
			el = c.name if names.count(c.name) == 1 else f'{c.name}[{i}]'
			out.extend(walk_entries(c, f'{path}.{el}'))
	return out


REAL_SOURCES_QUICK = [
	'example/example.py',
	'rogw/tranp/compatible/libralies/classes.py',
	'rogw/tranp/lang/sequence.py',
	'rogw/tranp/dsn/dsn.py',
	'rogw/tranp/view/helper/block.py',
	'tests/unit/rogw/tranp/semantics/reflection/fixtures/test_db_xyz.py',
]


def real_source_files(thorough: bool, rng: random.Random, limit: int) -> list[str]:
	import os
	from harness.common import REPO
	files = [os.path.join(REPO, f) for f in REAL_SOURCES_QUICK if os.path.exists(os.path.join(REPO, f))]
	if thorough:
		extra = repo_py_files('rogw/tranp', 'example', 'tests/unit/rogw/tranp/semantics', 'tests/unit/rogw/tranp/implements/cpp')
		rng.shuffle(extra)
		files.extend(f for f in extra if f not in files)
	return files[:limit]


def parse_real(app: MemApp, path: str) -> Any:
	"""Root Entry (EntryOfLark) of a real source file, parsed in memory."""
	with open(path, encoding='utf-8') as f:
		src = f.read()
	from rogw.tranp.syntax.ast.parser import SyntaxParser
	app.source = src if src.endswith('\n') else src + '\n'
	parser = app.resolve(SyntaxParser)
	return parser(app.main)
