"""Generator of programs inside tranp's lark grammar (data/grammar.lark), used by the span/cache properties (C15, C16).

The programs are syntactically valid for the grammar (they need not type-check): every compound statement, optional slot
([parameters], [decorators], bare return, [else_clause], trailing commas), wide lists (11–25 parameters, arguments, elements,
items, decorators, bases, imported names), multi-line brackets, long strings, comment
statements, blank lines, tab- or space-indentation and non-ASCII text occur with fixed probabilities.
"""
from __future__ import annotations

import os
import random

NAMES = ['a', 'b', 'c', 'x', 'y', 'value', 'items', 'self', 'n', 'data_1', 'Ab', 'T', 'k', 'v', 'fn', 'Base', 'Sub', 'e']
TYPES = ['int', 'str', 'float', 'bool', 'None', 'A', 'list[int]', 'dict[str, int]', 'tuple[int, str]', 'int | None', "'A'", "list['A']", 'Callable[[int], str]', 'a.B']
STRINGS = ["'cafe\u0301'", "'\u212b\u304b\u3099'", "'s'", '"d"', "''", "'a b'", "'あい'", "'v\x0bt'", "'u\u2028s'", "'\x1c\x85'", "f'{a}x'", "r'\\d+'", '"""doc"""', "'it\\'s'"]
NUMBERS = ['0', '1', '42', '1.5', '0x1F', '10', '3.0']


_METADATA_NAMES: list[str] | None = None


def metadata_names() -> list[str]:
	"""Identifiers that coincide with a piece of the tree's own metadata: the names of the terminals and rules of the grammar as
	the lark parser holds them (NAME, STRING, DEC_NUMBER, COMMENT, name, number, string, var, file_input …), each as written, in
	lower and in upper case, plus the keys of the stored form. Read once from the real parser; a name the grammar does not take
	as an identifier is left out."""
	global _METADATA_NAMES
	if _METADATA_NAMES is None:
		import keyword
		import shutil
		import tempfile
		from harness import common
		names: list[str] = []
		d = tempfile.mkdtemp(prefix='tranp-verif-pygen-')
		try:
			from rogw.tranp.syntax.ast.parser import SyntaxParser
			app = common.MemApp(d)
			parser = app.resolve(SyntaxParser)
			lk = parser.dirty_get_origin()
			raw = [str(t.name) for t in lk.terminals] + sorted({str(r.origin.name) for r in lk.rules}) + ['name', 'value', 'children', 'source_map', 'size']
			for n in raw:
				if n.startswith('__'):  # generated helper rules and anonymous terminals
					continue
				for v in (n, n.lower(), n.upper()):
					if v.isidentifier() and not keyword.iskeyword(v) and v not in names:
						names.append(v)
			app.source = '\n'.join(f'{v}: int = {v}.{v}' for v in names) + '\n'
			try:
				parser(app.main)
			except Exception:  # noqa: BLE001 - keep only the names that parse one by one
				kept = []
				for v in names:
					app.source = f'{v}: int = {v}.{v}\n'
					try:
						parser(app.main)
						kept.append(v)
					except Exception:  # noqa: BLE001
						pass
				names = kept
		except Exception:  # noqa: BLE001 - no parser: the terminal names every lark python grammar has
			names = ['NAME', 'name', 'STRING', 'string', 'DEC_NUMBER', 'dec_number', 'COMMENT', 'comment', 'number', 'var']
		finally:
			shutil.rmtree(d, ignore_errors=True)
		_METADATA_NAMES = names
	return _METADATA_NAMES


class Gen:
	def __init__(self, rng: random.Random, unit: str = '\t', max_depth: int = 3) -> None:
		self.rng = rng
		self.unit = unit
		self.max_depth = max_depth

	# -- expressions --------------------------------------------------------------------------------------------

	def name(self) -> str:
		if self.rng.random() < 0.07:
			# an identifier spelled like a piece of the tree's metadata (its own terminal type NAME / name, another terminal, a rule)
			names = metadata_names()
			return self.rng.choice(names[:12] if self.rng.random() < 0.5 else names)
		return self.rng.choice(NAMES)

	def atom(self, d: int) -> str:
		r = self.rng.random()
		if r < 0.30:
			return self.name()
		if r < 0.42:
			return self.rng.choice(NUMBERS)
		if r < 0.52:
			return self.rng.choice(STRINGS)
		if r < 0.58:
			return self.rng.choice(['True', 'False', 'None'])
		if d <= 0:
			return self.name()
		if r < 0.64:
			return f'({self.expr(d - 1)})'
		if r < 0.70:
			return self.seq('[', ']', d)
		if r < 0.75:
			return self.tuple_(d)
		if r < 0.80:
			return self.dict_(d)
		if r < 0.84:
			return f'[{self.expr(d - 1)} for {self.name()} in {self.or_test(d - 1)}{self.rng.choice(["", f" if {self.or_test(d - 1)}"])}]'
		if r < 0.87:
			return f'{{{self.expr(d - 1)}: {self.expr(d - 1)} for {self.name()}, {self.name()} in {self.or_test(d - 1)}}}'
		if r < 0.89:
			return '...'
		if r < 0.91:
			# multi-line tokens: closing quote right of, at, and left of the opening column
			return self.rng.choice(["'''l1\n l2'''", "'''l1\n'''", '"""a\n\n  b\n"""', "'''x\n\t\t\t\t\t\t\t\tfar'''"])
		return self.name()

	def sep(self, d: int) -> str:
		"""separator after a comma inside brackets: sometimes a line break with arbitrary continuation indentation"""
		r = self.rng.random()
		if r < 0.75:
			return ' '
		if r < 0.9:
			return '\n' + self.unit * self.rng.randint(0, 4)
		return '\n' + ' ' * self.rng.randint(1, 7)

	def wide(self, p: float = 0.05) -> int:
		"""now and then a list is WIDE (11–25 items: positions ≥ 10 exist; with the optional slots of the surrounding node —
		[starparam], [kwparams], [starargs], [kwargs], trailing commas — empty or filled); 0 = not this time"""
		return self.rng.randint(11, 25) if self.rng.random() < p else 0

	def small(self) -> str:
		"""an item of a wide list: short, so that wide lists stay cheap"""
		return self.rng.choice([self.name(), self.rng.choice(NUMBERS), self.rng.choice(STRINGS[:8]), f'{self.name()}.{self.name()}', f'-{self.name()}'])

	def seq(self, o: str, c: str, d: int) -> str:
		n = self.wide(0.04) or self.rng.randint(0, 3)
		if n == 0:
			return o + c
		items = [(self.expr(d - 1) if n <= 3 else self.small()) if self.rng.random() < 0.9 else f'*{self.name()}' for _ in range(n)]
		body = items[0]
		for it in items[1:]:
			body += ',' + self.sep(d) + it
		if self.rng.random() < 0.3:
			body += ','
		if self.rng.random() < 0.15:
			return f'{o}\n{self.unit * 2}{body}\n{self.unit}{c}'
		return o + body + c

	def tuple_(self, d: int) -> str:
		n = self.rng.randint(0, 3)
		if n == 0:
			return '()'
		if n == 1:
			return f'({self.expr(d - 1)},)'
		return '(' + (',' + self.sep(d)).join(self.expr(d - 1) for _ in range(n)) + self.rng.choice(['', ',']) + ')'

	def dict_(self, d: int) -> str:
		n = self.wide(0.04) or self.rng.randint(0, 3)
		items = [(f'{self.expr(d - 1)}: {self.expr(d - 1)}' if n <= 3 else f'{self.small()}: {self.small()}') if self.rng.random() < 0.85 else f'**{self.name()}' for _ in range(n)]
		return '{' + (',' + self.sep(d)).join(items) + (',' if n and self.rng.random() < 0.3 else '') + '}'

	def args(self, d: int) -> str:
		n = self.wide(0.06) or self.rng.randint(0, 3)
		if n > 3:
			k = self.rng.randint(0, n)  # positional arguments first, then keyword arguments
			items = [self.small() if i < k else f'{self.name()}={self.small()}' for i in range(n)]
		else:
			items = [self.expr(d - 1) if self.rng.random() < 0.75 else f'{self.name()}={self.expr(d - 1)}' for _ in range(n)]
		if self.rng.random() < 0.12:
			items.append(f'*{self.name()}')
		if self.rng.random() < 0.12:
			items.append(f'**{self.name()}')
		return (',' + self.sep(d)).join(items)

	def primary(self, d: int) -> str:
		s = self.atom(d)
		if s[0].isdigit():
			return s
		for _ in range(self.rng.choice([0, 0, 1, 1, 2]) if d > 0 else 0):
			r = self.rng.random()
			if r < 0.4:
				s = f'{s}.{self.name()}'
			elif r < 0.75:
				s = f'{s}({self.args(d)})'
			elif r < 0.9:
				s = f'{s}[{self.expr(d - 1)}]'
			else:
				s = f'{s}[{self.rng.choice(["", self.expr(d - 1)])}:{self.rng.choice(["", self.expr(d - 1)])}]'
		return s

	def arith(self, d: int) -> str:
		s = self.rng.choice(['', '', '', '-', '~', '+']) + self.primary(d)
		for _ in range(self.rng.choice([0, 0, 1, 1, 2]) if d > 0 else 0):
			s += f" {self.rng.choice(['+', '-', '*', '/', '%', '<<', '>>', '&', '|', '^'])} {self.primary(d - 1)}"
		return s

	def comparison(self, d: int) -> str:
		s = self.arith(d)
		if d > 0 and self.rng.random() < 0.25:
			s += f" {self.rng.choice(['<', '>', '==', '>=', '<=', '!=', 'in', 'not in', 'is', 'is not'])} {self.arith(d - 1)}"
		return s

	def or_test(self, d: int) -> str:
		s = self.rng.choice(['', '', '', '', 'not ']) + self.comparison(d)
		for _ in range(self.rng.choice([0, 0, 0, 1, 2]) if d > 0 else 0):
			s += f" {self.rng.choice(['and', 'or'])} {self.comparison(d - 1)}"
		return s

	def expr(self, d: int) -> str:
		r = self.rng.random()
		if d > 0 and r < 0.06:
			return f'{self.or_test(d - 1)} if {self.or_test(d - 1)} else {self.expr(d - 1)}'
		if d > 0 and r < 0.10:
			ps = ', '.join(self.name() for _ in range(self.rng.randint(0, 2)))
			return f'lambda {ps}: {self.expr(d - 1)}' if ps else f'lambda: {self.expr(d - 1)}'
		return self.or_test(d)

	def type_(self) -> str:
		return self.rng.choice(TYPES)

	# -- statements ---------------------------------------------------------------------------------------------

	def simple(self, d: int) -> str:
		r = self.rng.random()
		e = lambda: self.expr(d)  # noqa: E731
		if r < 0.22:
			return f'{self.name()} = {e()}'
		if r < 0.30:
			return f'{self.name()}: {self.type_()} = {e()}'
		if r < 0.34:
			return f'{self.name()}: {self.type_()}'
		if r < 0.36:
			return self.rng.choice([f'{self.name()}: TypeAlias = {self.type_()}', f"{self.name()}: '{self.rng.choice(['A', 'list[int]'])}' = {e()}", f'{self.name()}: ClassVar[int] = {e()}'])
		if r < 0.40:
			return f"{self.name()} {self.rng.choice(['+=', '-=', '*=', '/=', '%=', '&=', '|=', '^=', '<<=', '>>='])} {e()}"
		if r < 0.45:
			return f'{self.name()}, {self.name()} = {e()}, {e()}'
		if r < 0.50:
			return f'{self.name()}.{self.name()} = {e()}'
		if r < 0.62:
			return f'{self.primary(d)}({self.args(d)})'
		if r < 0.70:
			return self.rng.choice(['return', f'return {e()}', f'return {e()}, {e()}'])
		if r < 0.74:
			return 'pass'
		if r < 0.77:
			return self.rng.choice(['break', 'continue'])
		if r < 0.81:
			return self.rng.choice([f'raise {self.name()}({self.args(d)})', f'raise {self.name()}() from {self.name()}'])
		if r < 0.84:
			return self.rng.choice([f'assert {e()}', f"assert {e()}, 'msg'"])
		if r < 0.86:
			return f'del {self.name()}, {self.name()}'
		if r < 0.88:
			return f'yield {e()}'
		if r < 0.93:
			return self.rng.choice(['# comment', '# コメント あ', '#', '# a\tb', '# trailing blanks  ', '#\t', '# x \t ', '# page\x0cbreak', '# \x1d\u2029', '# cafe\u0301 menu', '# \u1112\u1161\u11ab \u212b \u30cf\u309a'])
		if r < 0.96:
			return e()
		return self.rng.choice(["'''doc\n\tstring'''", '"""one"""'])

	def block(self, ind: str, depth: int) -> list[str]:
		inner = ind + self.unit
		out: list[str] = []
		for _ in range(self.rng.randint(1, 3)):
			out.extend(self.statement(inner, depth + 1))
			if self.rng.random() < 0.15:
				out.append(self.rng.choice(['', inner, self.unit]))
		return out

	def params(self, method: bool) -> str:
		ps = ['self'] if method and self.rng.random() < 0.9 else []
		for i in range(self.wide(0.08) or self.rng.randint(0, 3)):
			p = f'{self.name()}{i if i > 3 else ""}: {self.type_()}'
			if self.rng.random() < 0.25:
				p += f' = {self.expr(1)}'
			ps.append(p)
		if self.rng.random() < 0.1:
			ps.append(f'*{self.name()}: int')
		if self.rng.random() < 0.1:
			ps.append(f'**{self.name()}: str')
		return ', '.join(ps)

	def decorators(self, ind: str) -> list[str]:
		out = []
		for _ in range(self.wide(0.03) or self.rng.choice([0, 0, 0, 1, 2])):
			out.append(ind + self.rng.choice(['@deco', '@a.b', f'@deco({self.args(1)})', '@classmethod', '@deco()']))
		if self.rng.random() < 0.15:
			# embed decorators: a definition published under another name (its `symbol` node is an alias proxy), an alias embed
			out.insert(self.rng.randint(0, len(out)), ind + self.rng.choice([f"@__actual__('{self.name()}')", "@__actual__('Renamed')", f"@Embed.alias('{self.name()}')", "@__actual__('a_much_longer_published_name')"]))
		return out

	def function(self, ind: str, depth: int, method: bool = False) -> list[str]:
		tp = self.rng.choice(['', '', '', '[T]', '[T, U: int]'])
		head = f'def {self.name()}{tp}({self.params(method)}) -> {self.type_()}:'
		if self.rng.random() < 0.12:
			return [*self.decorators(ind), f'{ind}{head} {self.rng.choice(["pass", "return 1", "..."])}']
		return [*self.decorators(ind), ind + head, *self.block(ind, depth)]

	def class_(self, ind: str, depth: int) -> list[str]:
		r = self.rng.random()
		base = '' if r < 0.4 else '()' if r < 0.5 else f'({self.name()})' if r < 0.75 else f'({self.name()}, {self.name()})' if r < 0.9 else f'({self.name()}, metaclass={self.name()})'
		w = self.wide(0.04)
		if w:
			base = '(' + ', '.join(self.name() for _ in range(w)) + self.rng.choice(['', ',', f', metaclass={self.name()}']) + ')'
		tp = self.rng.choice(['', '', '', '[T]'])
		out = [*self.decorators(ind), f'{ind}class {self.name()}{tp}{base}:']
		inner = ind + self.unit
		if self.rng.random() < 0.4:
			out.append(f'{inner}"""doc"""')
		n = self.rng.randint(1, 3)
		for _ in range(n):
			if depth + 1 < self.max_depth and self.rng.random() < 0.6:
				out.extend(self.function(inner, depth + 1, True))
			else:
				out.extend(self.indent_lines(inner, self.simple(1)))
			if self.rng.random() < 0.3:
				out.append('')
		return out

	def indent_lines(self, ind: str, text: str) -> list[str]:
		"""first line gets the block indentation; continuation lines of multi-line brackets/strings are kept verbatim"""
		lines = text.split('\n')
		return [ind + lines[0], *lines[1:]]

	def statement(self, ind: str, depth: int) -> list[str]:
		r = self.rng.random()
		d = self.rng.choice([1, 1, 1, 2])
		if depth >= self.max_depth or r < 0.55:
			return self.indent_lines(ind, self.simple(d))
		if r < 0.65:
			out = [f'{ind}if {self.expr(d)}:', *self.block(ind, depth)]
			for _ in range(self.rng.choice([0, 0, 1, 2])):
				out += [f'{ind}elif {self.expr(d)}:', *self.block(ind, depth)]
			if self.rng.random() < 0.4:
				out += [f'{ind}else:', *self.block(ind, depth)]
			return out
		if r < 0.72:
			tgt = self.name() if self.rng.random() < 0.7 else f'{self.name()}, {self.name()}'
			return [f'{ind}for {tgt} in {self.expr(d)}:', *self.block(ind, depth)]
		if r < 0.77:
			return [f'{ind}while {self.expr(d)}:', *self.block(ind, depth)]
		if r < 0.83:
			out = [f'{ind}try:', *self.block(ind, depth)]
			for _ in range(self.rng.randint(1, 2)):
				out += [f"{ind}except {self.rng.choice(['E', 'a.E', 'E1 | E2'])}{self.rng.choice(['', ' as e'])}:", *self.block(ind, depth)]
			return out
		if r < 0.87:
			items = ', '.join(f'{self.primary(1)}' + self.rng.choice(['', f' as {self.name()}']) for _ in range(self.rng.randint(1, 2)))
			return [f'{ind}with {items}:', *self.block(ind, depth)]
		if r < 0.94:
			return self.function(ind, depth)
		return self.class_(ind, depth)

	def imports(self) -> list[str]:
		out = []
		for _ in range(self.rng.randint(0, 3)):
			r = self.rng.random()
			if r < 0.5:
				out.append(f'from {self.name()}.{self.name()} import {self.name()}')
			elif r < 0.75:
				out.append(f'from {self.name()} import {self.name()}, {self.name()} as {self.name()}')
			else:
				out.append(f'from {self.name()}.b.c import (\n{self.unit}{self.name()},\n{self.unit}{self.name()} as {self.name()},\n)')
			w = self.wide(0.04)
			if w:
				out.append(f'from {self.name()} import ' + ', '.join(self.name() + self.rng.choice(['', f' as {self.name()}']) for _ in range(w)))
		return out

	def module(self, n_statements: int) -> str:
		lines: list[str] = []
		if self.rng.random() < 0.2:
			lines.append(self.rng.choice(['', '# head', '', '"""module doc"""']))
		lines.extend(self.imports())
		if self.rng.random() < 0.3:
			# characters that str.splitlines() treats as line boundaries but the parser does not (only '\n' ends a line):
			# a form-feed page break line (ignored white space), or such a character inside a comment / string literal
			lines.append(self.rng.choice(['\x0c', '# \x0c', "'\x0b'", '"\u2028"', '# \x85\x1e']))
		for _ in range(n_statements):
			if self.rng.random() < 0.3:
				lines.extend([''] * self.rng.randint(1, 2))
			r = self.rng.random()
			if r < 0.3:
				lines.extend(self.function('', 0))
			elif r < 0.5:
				lines.extend(self.class_('', 0))
			else:
				lines.extend(self.statement('', 0))
		return '\n'.join(lines) + '\n'


def gen_module(rng: random.Random, n_statements: int | None = None, unit: str | None = None) -> tuple[str, dict[str, str]]:
	"""Returns (source, description). The source always ends with a newline at column 0 (see `eof_variants`)."""
	unit = unit if unit is not None else rng.choice(['\t', '\t', '    ', '  '])
	g = Gen(rng, unit, max_depth=rng.randint(2, 4))
	src = g.module(n_statements if n_statements is not None else rng.randint(1, 6))
	return src, {'unit': {'\t': 'tab', '    ': 'sp4', '  ': 'sp2'}[unit], 'indent': unit}


QUICK_REAL = [
	'rogw/tranp/compatible/libralies/classes.py',
	'rogw/tranp/view/helper/block.py',
	'rogw/tranp/lang/sequence.py',
	'rogw/tranp/syntax/ast/entry.py',
	'rogw/tranp/providers/module.py',
	'example/FW/string.py',
	'tests/unit/rogw/tranp/implements/syntax/tranp/test_token.py',
	'rogw/tranp/syntax/node/embed.py',
]


def real_files(thorough: bool, rng: random.Random, limit: int) -> list[str]:
	"""Real source files of the repository (relative paths) that are free of CR characters: a fixed varied set that is
	inside the grammar for the quick tier, every .py file under rogw/example/tests (shuffled) for the thorough tier —
	files outside the grammar are skipped by the callers when the parse fails."""
	from harness.common import REPO, repo_py_files
	files = [f for f in QUICK_REAL if os.path.exists(os.path.join(REPO, f))]
	if thorough:
		extra = [os.path.relpath(f, REPO) for f in repo_py_files('rogw', 'example', 'tests')]
		rng.shuffle(extra)
		files.extend(f for f in extra if f not in files)
	out = []
	for f in files:
		with open(os.path.join(REPO, f), 'rb') as fh:
			if b'\r' in fh.read():
				continue
		out.append(f)
		if len(out) >= limit:
			break
	return out
