"""C11 — The self-hosted parser builds the trees CPython builds.

Theorems: lean/Tranp/Props/C11.lean over lean/Tranp/Model/Engine.lean (+ generated rule tables).
Tie: translator translate/gen_rules.py (rule sets, regexp classification), correspondence streams
  `engine-py`      real SyntaxParser(py_rules()) vs the model on the REAL token list: sentences sampled from the grammar + token-level mutations
  `engine-random`  random terminating rule sets (all repeat kinds, unwrap markers, undefined symbols) on random token lists
  `engine-summary` ErrorCollector.summary on real token lists for every kind of cause token
Search (real code only):
  `cpython-ast`    canon(parse(s)) == canon(ast.parse(s)) for grammar-derived sentences, exact on what both accept;
                   every derived sentence must be accepted by the engine
  `history`        one SyntaxParser instance over a sequence of texts (indent units, rejects in between) == a fresh instance per text
  `layout`         the same derivation with line breaks + arbitrary indentation inside brackets (before / between blocks) gives the same tree
  `cost`           the engine's work (counted _match_symbol calls) against the nesting depth of parentheses / blocks: geometric growth is a finding
  `mutated`        mutated sentences are accepted or rejected with Errors.Syntax naming an input token and an existing line
"""
from __future__ import annotations

import ast
import json
import os
import random
import re
from collections import Counter
from typing import Any

from harness import common, gramlib, pycanon
from harness.common import Ctx, Finding, SearchResult, Stream, exc_enum, hx
from translate import gen_rules

PROP = 'C11'

OPT_PROB = {'arg': 0.45, 'args': 0.5, 'expr_move': 0.05, 'lambda': 0.12, 'ternary': 0.15, 'comp_not': 0.15, 'unary': 0.2, 'move': 0.5, 'function': 0.8, 'param': 0.3, 'if': 0.5}
JUNK = ['$', '?', '@', '!', '~', '^', '&', '|', ';', '`', '=', ':', ',', '.', '(', ')', '[', ']', '{', '}', '->', '...', '**', '+=', '<<', '>>', '<=>', '!==', '0.5.1', '00', '1.', 'Falsey', 'if', 'else', 'lambda', 'not', 'in', 'def', '\n', '\\INDENT', '\\DEDENT', '\\OP_UNARY_MINUS', 'x', '1', "'s'"]


# ---------------------------------------------------------------------------------------------
# translator


def translate(ctx: Ctx) -> tuple[bool, str]:
	try:
		with ctx.timed('translate'), gramlib.budget(120):  # the translator runs the real rule loaders and the real gram tokenizer
			ctx.generated_tables.extend(gen_rules.generate())
		return True, ''
	except Exception as e:  # noqa: BLE001
		return False, f'gen_rules failed: {type(e).__name__}: {e}'


# ---------------------------------------------------------------------------------------------
# sentences


class PyWorld:
	"""Real py rules/tokenizer and the sampler over them (built once per run)."""

	def __init__(self, rng: random.Random) -> None:
		from data.syntax.py_rules import py_rules
		from rogw.tranp.implements.syntax.tranp.tokenizer import Tokenizer
		self.rules = py_rules()
		# sentences are derived from an INDEPENDENT reading of the grammar text, never from the loaded rule objects: a regression in
		# the rule loader (from_ast / py_rules.py) must show up as a derivable sentence that the engine rejects
		with open(os.path.join(common.REPO, 'data/syntax/py_gram.lark'), 'rb') as f:
			self.grammar = gramlib.read_lark(f.read().decode('utf-8'))
		self.tokenizer = Tokenizer()
		self.regexps = gen_rules.regexps_of(self.rules)
		self.rng = rng
		self.vocabulary = sorted({k for k in self.rules.keywords if k not in self.regexps} | set(JUNK) | set(gramlib.NAME_POOL[:6]) | {'1', '0.5', "'s'", 'True', 'None', '<', '==', '+', '-', '*', '%'})

	def sampler(self, max_depth: int) -> gramlib.Sampler:
		return gramlib.Sampler(self.grammar, self.rng, max_depth, OPT_PROB)

	def sentence(self, level: str, size: int) -> list[str]:
		"""A derivation of `entry` (statement level) or of a single expression statement."""
		rng = self.rng
		if level == 'expr':
			s = self.sampler(34 + 14 * size)
			s.or_bias = rng.choice([0.6, 1.0, 1.5])
			return [*s.derive('expr', budget=rng.choice([6, 12, 20, 30])), '\n']
		s = self.sampler(44 + 14 * size)
		s.or_bias = rng.choice([0.6, 1.0, 1.5])
		n = rng.choice([1, 1, 2, 3])
		out: list[str] = []
		for _ in range(n):
			out.extend(s.derive('statement', budget=rng.choice([8, 15, 25, 40])))
		return out

	def text_of(self, tokens: list[str]) -> tuple[str, bool]:
		"""Rendered source whose real token strings equal the derivation; falls back to fully spaced rendering."""
		for tight in (self.rng.choice([0.0, 0.5, 0.9]), 0.0):
			text = gramlib.render_tokens(tokens, self.rng, tight)
			try:
				got = [t.string for t in gramlib.real_tokens(self.tokenizer, text)]
			except Exception:  # noqa: BLE001
				continue
			if got == tokens:
				return text, True
		return gramlib.render_tokens(tokens), False


def paren_depth(tokens: list[str]) -> int:
	d = m = 0
	for t in tokens:
		if t in ('(', '[', '{'):
			d += 1
			m = max(m, d)
		elif t in (')', ']', '}'):
			d -= 1
	return m


def block_depth(tokens: list[str]) -> int:
	d = m = 0
	for t in tokens:
		if t == '\\INDENT':
			d += 1
			m = max(m, d)
		elif t == '\\DEDENT':
			d -= 1
	return m


def too_deep(tokens: list[str], max_paren: int) -> bool:
	"""The engine's cost grows about fourfold per level of block nesting and per level of bracket nesting (measured: 5 nested defs ≈ 6 s
	of CPU, 3 ≈ 0.7 s): sentences stay at ≤ 3 block levels, and at the third level at ≤ 2 bracket levels, so that an ordinary call stays an
	order of magnitude below the call budget."""
	b = block_depth(tokens)
	return paren_depth(tokens) > max_paren or b > 3 or (b == 3 and paren_depth(tokens) > 2)


def walrus_then_if(tokens: list[str]) -> bool:
	"""`t := v if c else d` with the conditional at the walrus's own bracket level: the known grouping difference
	(group:walrus-over-ternary) is generated on purpose by `walrus_ternary_sentences`, not by the generic sampler."""
	for i, t in enumerate(tokens):
		if t != ':=':
			continue
		depth = 0
		for u in tokens[i + 1:]:
			if u in ('(', '[', '{'):
				depth += 1
			elif u in (')', ']', '}'):
				depth -= 1
				if depth < 0:
					break
			elif depth == 0 and u in (',', '\n'):
				break
			elif depth == 0 and u == 'if':
				return True
	return False


def walrus_ternary_sentences(world: PyWorld, n: int) -> list[tuple[str, list[str], str]]:
	"""`( name := A if B else C )` in parentheses, as call argument and as list element, A/B/C sampled from `comp_or`."""
	rng = world.rng
	out = []
	s = world.sampler(30)
	for _ in range(n):
		name = rng.choice(gramlib.NAME_POOL[2:8])
		a, b, c = (s.derive('comp_or', budget=rng.choice([1, 3, 6])) for _ in range(3))
		core = [name, ':=', *a, 'if', *b, 'else', *c]
		toks = rng.choice([['(', *core, ')'], ['f', '(', *core, ')'], ['[', *core, ',', 'z', ']'], ['x', '=', '(', *core, ')']]) + ['\n']
		text, exact = world.text_of(toks)
		if exact:
			out.append(('walrus-ternary', toks, text))
	return out


def gen_sentences(world: PyWorld, n: int, max_tokens: int, max_paren: int, keep_inexact: bool = False) -> list[tuple[str, list[str], str]]:
	"""(level, derived tokens, text); bounded size (the engine is exponential in bracket nesting). By default only texts whose real
	token strings equal the derivation; with `keep_inexact` also the plainly spaced rendering of a derivation the tokenizer does not
	give back (none on the pinned tree — a tokenizer regression shows up there, and the search judges the text itself)."""
	out = []
	attempts = 0
	dl = gramlib.Deadline(60 + n * 0.05)
	while len(out) < n and attempts < n * 6 and not dl.expired():
		attempts += 1
		level = 'expr' if world.rng.random() < 0.45 else 'stmt'
		toks = world.sentence(level, world.rng.choice([0, 0, 1, 1, 2]))
		if len(toks) > max_tokens or too_deep(toks, max_paren) or walrus_then_if(toks):
			continue
		text, exact = world.text_of(toks)
		if not exact and not keep_inexact:
			continue
		out.append((level if exact else f'{level}-inexact', toks, text))
	return out


# ---------------------------------------------------------------------------------------------
# correspondence streams


def engine_case(world: PyWorld, desc: dict[str, Any], text: str) -> tuple[dict[str, Any], list[str], list[str]] | None:
	try:
		tokens = gramlib.real_tokens(world.tokenizer, text)
	except Exception:  # noqa: BLE001 - the tokenizer's own failures belong to C13
		return None
	kind, payload = gramlib.real_parse(world.rules, gramlib.FixedTokenizer(tokens), text)
	desc = {**desc, 'outcome': kind, 'tokens': len(tokens)}
	ops = ['rules\tpy', f"parse\t{hx('entry')}\t{hx(text)}\t{gramlib.toks_field(tokens, world.regexps)}"]
	return desc, ops, [f'ok {len(world.rules._rules)}', gramlib.real_parse_line(kind, payload)]


def corpus_cases(world: PyWorld) -> list[tuple[dict[str, Any], list[str], list[str]]]:
	out = []
	d = os.path.join(common.CORPUS_DIR, PROP)
	if os.path.isdir(d):
		for fn in sorted(os.listdir(d)):
			if fn.endswith('.json'):
				with open(os.path.join(d, fn), encoding='utf-8') as f:
					rec = json.load(f)
				for text in rec.get('texts', []):
					c = engine_case(world, {'kind': 'corpus', 'file': fn}, text)
					if c:
						out.append(c)
	return out


def stream_engine_py(ctx: Ctx) -> Stream:
	rng = ctx.sub_rng('engine-py')
	world = PyWorld(rng)
	cases = corpus_cases(world)
	sentences = gen_sentences(world, ctx.scale(130, 2000), ctx.scale(70, 110), 3)
	dl = gramlib.Deadline(ctx.scale(90, 600))
	slow = [0]

	def over() -> bool:
		return dl.expired() or slow[0] >= 3

	for level, toks, text in sentences:
		if over():
			break
		c = engine_case(world, {'kind': f'sentence-{level}'}, text)
		if c:
			cases.append(c)
			slow[0] += c[0]['outcome'] == 'budget-exceeded'
	for level, toks, text in sentences[:ctx.scale(100, 1600)]:
		if over():
			break
		for _ in range(2):
			mtoks, mk = gramlib.mutate_tokens(toks, rng, world.vocabulary)
			if rng.random() < 0.25:
				mtoks, mk2 = gramlib.mutate_tokens(mtoks, rng, world.vocabulary)
				mk = f'{mk}+{mk2}'
			if paren_depth(mtoks) > 4 or block_depth(mtoks) > 4:
				continue
			c = engine_case(world, {'kind': 'mutated', 'mutation': mk}, gramlib.render_tokens(mtoks, rng, rng.choice([0.0, 0.5])))
			if c:
				cases.append(c)
	for text in ['', '\n', '#c', 'a', 'a\n\n', '(', ')', 'x = [1, 2', 'if a:\n\tb\n\t\tc', '\tx', 'a +', '- a', 'a-1']:
		c = engine_case(world, {'kind': 'edge'}, text)
		if c:
			cases.append(c)
	st = common.correspond('engine-py', cases, 'engine', classify=lambda d: f"{d['kind']}:{d['outcome']}")
	cut = f'[cut short: wall budget {dl.seconds} s over or {slow[0]} calls exceeded their CPU budget; {len(cases)} cases compared] ' if over() else ''
	st.note = cut + ('real SyntaxParser(py_rules()).parse(text, "entry").simplify() / str(Errors.Syntax) vs model `parse` on the real token list '
		'(strings, source maps, regexp classes); sentences sampled from py_gram rules (expression and statement level), 1-2 token-level mutations, edge texts')
	return st


def safe_grammar(rng: random.Random) -> tuple[Any, list[str], list[str]]:
	"""A random rule set (tuple tree) that terminates by construction: every sequence either ends in a terminal literal
	(then the other items are arbitrary) or uses only terminals, forward symbols and groups of such sequences; bodies of
	`*`/`+` always end in a terminal literal. Returns (tree, string terminals, regexps)."""
	syms = ['entry', *rng.sample(['a', 'b', 'c', 'd', 'e_1', 'T'], rng.randint(1, 4))]
	strings = rng.sample(['x', 'y', '+', '(', ')', ',', 'if', '\n'], rng.randint(2, 5))
	regexps = rng.sample(['[a-c]', '\\d+', 'x|z', '[+*]', '\\w+'], rng.randint(0, 3))
	undefined = ['zz'] if rng.random() < 0.12 else []

	def lit() -> Any:
		if regexps and rng.random() < 0.35:
			return ('regexp', f'/{rng.choice(regexps)}/')
		s = rng.choice(strings)
		return ('string', '"\\n"' if s == '\n' else f'"{s}"')

	def item(i: int, depth: int, free: bool) -> Any:
		r = rng.random()
		if depth <= 0 or r < 0.4:
			if rng.random() < 0.5:
				return lit()
			pool = (syms + undefined) if free else (syms[i + 1:] + undefined)
			return ('symbol', rng.choice(pool)) if pool else lit()
		if r < 0.6:
			return ('expr_opt', [expr(i, depth - 1, free, False)])
		rep = rng.choice(['*', '+', '?', None])
		tail = ('repeat', rep) if rep else ('__empty__', '')
		return ('expr_rep', [expr(i, depth - 1, free, rep in ('*', '+')), tail])

	def seq(i: int, depth: int, free: bool, end_lit: bool) -> Any:
		n = rng.choice([1, 2, 2, 3])
		if end_lit or rng.random() < 0.6:
			items = [item(i, depth, True) for _ in range(n - 1)] + [lit()]
		else:
			items = [item(i, depth, False) for _ in range(n)]
		return items[0] if len(items) == 1 else ('terms', items)

	def expr(i: int, depth: int, free: bool, end_lit: bool) -> Any:
		n = rng.choice([1, 1, 2, 3])
		alts = [seq(i, depth, free, end_lit) for _ in range(n)]
		return alts[0] if n == 1 else ('terms_or', alts)

	rules = []
	for i, s in enumerate(syms):
		u = rng.random()
		unwrap = ('unwrap', '1') if u < 0.3 else ('unwrap', '*') if u < 0.45 else ('__empty__', '')
		body = lit() if (i > 0 and rng.random() < 0.3) else expr(i, 2, False, False)
		rules.append(('rule', [('symbol', s), unwrap, body]))
	return ('entry', rules), strings, regexps


def stream_engine_random(ctx: Ctx) -> Stream:
	from rogw.tranp.implements.syntax.tranp.rule import Rules
	from rogw.tranp.implements.syntax.tranp.token import Token, TokenTypes
	rng = ctx.sub_rng('engine-random')
	cases = []
	# witness of C11.T6_complete_counterexample first: under `x := "a" ("a")*` the derivable text `a a` is rejected (greedy repeat, no backtracking)
	greedy = ('entry', [('rule', [('symbol', 'x'), ('__empty__', ''), ('terms', [('string', '"a"'), ('expr_rep', [('string', '"a"'), ('repeat', '*')])])])])
	trees = [(greedy, ['a'], [], [['a', 'a'], ['a'], ['a', 'a', 'a']])]
	for _ in range(ctx.scale(150, 2000)):
		tree, strings, regexps_used = safe_grammar(rng)
		trees.append((tree, strings, regexps_used, None))
	for tree, strings, regexps_used, fixed in trees:
		try:
			with gramlib.budget(gramlib.CALL_BUDGET_S):
				rules = Rules.from_ast(tree)
				regexps = gen_rules.regexps_of(rules)
				n_rules, keywords = len(rules._rules), list(rules.keywords)
		except Exception as e:  # noqa: BLE001 - the loader refuses a well-shaped tree: the model must refuse it too
			cases.append(({'outcomes': [f'from_ast:{exc_enum(e)}']}, [f'rules\tast\t{gramlib.tentry_sexp(tree)}\t'], [exc_enum(e)]))
			continue
		alphabet = [*strings, 'a', 'b', 'z', '7', '42', '*', 'q', *[r for r in regexps if rng.random() < 0.2]]
		ops = []
		real = []
		masks = sorted({gen_rules.classify(regexps, s) for s in alphabet})
		ops.append(f'rules\tast\t{gramlib.tentry_sexp(tree)}\t{gramlib.rx_spec(regexps, masks)}')
		real.append(f'ok {n_rules}')
		ops.append('keywords')
		real.append(','.join(hx(k) for k in keywords))
		outcomes = []
		for k in range(len(fixed) if fixed else 6):
			n = rng.choice([0, 1, 2, 3, 4, 5, 6, 8])
			strs = [rng.choice(alphabet) for _ in range(n)]
			# bias towards acceptable inputs: sometimes derive from the grammar itself
			if fixed:
				strs = fixed[k]
			elif rng.random() < 0.5:
				try:
					strs = derive_random(rules, rng, alphabet)
				except RecursionError:
					pass
			source = ' '.join(s.replace('\n', ' ') for s in strs)
			col = 0
			tokens = []
			for s in strs:
				tokens.append(Token(TokenTypes.Unknown, s, Token.SourceMap(0, col, 0, col + len(s))))
				col += len(s) + 1
			entry = 'x' if fixed else 'entry' if rng.random() < 0.9 else rng.choice(['a', 'zz', 'T'])
			kind, payload = gramlib.real_parse(rules, gramlib.FixedTokenizer(tokens), source, entry)
			outcomes.append(kind)
			ops.append(f'parse\t{hx(entry)}\t{hx(source)}\t{gramlib.toks_field(tokens, regexps)}')
			real.append(gramlib.real_parse_line(kind, payload))
		if fixed and outcomes[:2] != ['Errors.Syntax', 'Errors.Syntax']:
			# the Lean counterexample says the real engine rejects `a a` (and `a`); if it does not, the theorem no longer describes the code
			real.append(f'greedy-repeat witness: real outcomes {outcomes}')
			ops.append('bad-op\texpected Errors.Syntax for a a under x := "a" ("a")*')
		cases.append(({'outcomes': outcomes}, ops, real))
	st = common.correspond('engine-random', cases, 'engine', classify=lambda d: Counter(d['outcomes']).most_common(1)[0][0])
	hist: Counter[str] = Counter()
	for d, _, _ in cases:
		hist.update(d['outcomes'])
	st.histogram = dict(hist)
	st.note = ('random terminating rule sets (all five repeat kinds, [1]/[*] unwrap, string+regexp terminals, named terminal rules, undefined symbols) '
		'built by the real from_ast and by the model, 6 token lists each (random and grammar-derived) through a fixed ITokenizer')
	return st


def derive_random(rules: Any, rng: random.Random, alphabet: list[str]) -> list[str]:
	"""A (mostly) derivable token list for a small random rule set; depth-limited, undefined symbols yield junk."""
	from rogw.tranp.implements.syntax.tranp.rule import Comps, Operators, Pattern, Repeators, Roles

	def pat(p: Any, depth: int) -> list[str]:
		if isinstance(p, Pattern):
			if p.role == Roles.Symbol:
				if depth > 6:
					return []
				try:
					return pat(rules[p.expression], depth + 1)
				except KeyError:
					return ['q']
			if p.comp == Comps.Equals:
				return [p.expression]
			ok = [s for s in alphabet if re.fullmatch(p.expression, s)]
			return [rng.choice(ok)] if ok else ['q']
		if p.rep != Repeators.NoRepeat:
			n = {Repeators.OverZero: rng.choice([0, 1, 2]), Repeators.OverOne: rng.choice([1, 2]), Repeators.OneOrZero: rng.choice([0, 1]), Repeators.OneOrEmpty: rng.choice([0, 1])}[p.rep]
			out: list[str] = []
			for _ in range(n):
				out.extend(pat(type(p)(p.entries, p.op), depth + 1))
			return out
		if p.op == Operators.Or:
			return pat(rng.choice(p.entries), depth + 1)
		out = []
		for e in p.entries:
			out.extend(pat(e, depth + 1))
		return out

	try:
		return pat(rules['entry'], 0)[:12]
	except KeyError:
		return ['q']


def stream_summary(ctx: Ctx) -> Stream:
	from rogw.tranp.implements.syntax.tranp.syntax import ErrorCollector
	rng = ctx.sub_rng('engine-summary')
	world = PyWorld(rng)
	cases = []
	texts = [t for _, _, t in gen_sentences(world, ctx.scale(40, 400), 60, 3)]
	texts += ['a.b.c\n', 'a.b.c', '', 'x = 1 +\n2', 'if a:\n\tb\n\n\nc = "q\'s"\n', "s = 'it\\'s'\nt = \"d\\\"q\"\n", 'a\n\n\n\nb', 'f(a,\n  b)\n', "x = 'a\\\\'\n", 'def f() -> None:\n\treturn\n']
	for text in texts:
		try:
			tokens = gramlib.real_tokens(world.tokenizer, text)
		except Exception:  # noqa: BLE001
			continue
		if not tokens:
			continue
		ops, real = [], []
		idx = list(range(len(tokens))) if len(tokens) <= 12 else sorted({0, len(tokens) - 1, len(tokens) - 2, *rng.sample(range(len(tokens)), 9)})
		idx.append(len(tokens) + rng.randint(0, 2))
		for steps in idx:
			ops.append(f'summary\t{hx(text)}\t{gramlib.toks_field(tokens, world.regexps)}\t{steps}')
			try:
				with gramlib.budget(gramlib.CALL_BUDGET_S):
					real.append('ok ' + hx(ErrorCollector(text, tokens, steps).summary()))
			except Exception as e:  # noqa: BLE001
				real.append(exc_enum(e))
		cases.append(({'tokens': len(tokens), 'eof': sum(1 for t in tokens if t.source_map.begin_line < 0)}, ops, real))
	st = common.correspond('engine-summary', cases, 'engine', classify=lambda d: f"eof-derived={min(d['eof'], 3)}")
	st.note = 'ErrorCollector(source, tokens, steps).summary() for cause tokens of every kind (ordinary, multi-line line breaks, EOF-derived NEWLINE/DEDENT with source map -1, out-of-range steps)'
	return st


# ---------------------------------------------------------------------------------------------
# search


def check_summary(text: str, tokens: list[Any], message: str) -> str | None:
	"""None if the summary names an input token and an existing line, else what is wrong."""
	lines = message.split('\n')
	m = re.fullmatch(r'pass: (\d+)/(\d+), token: (.*)', lines[0], flags=re.S) if lines else None
	if not m:
		# the repr of a token may contain no newline, so the head line always matches when the format is intact
		m = re.match(r'pass: (\d+)/(\d+), token: ', message)
		if not m:
			return 'summary head line has an unexpected format'
	steps, total = int(m.group(1)), int(m.group(2))
	if total != len(tokens) or not (0 <= steps < total):
		return f'pass counter {steps}/{total} does not index the {len(tokens)} input tokens'
	cause = tokens[steps]
	if not message.startswith(f'pass: {steps}/{total}, token: {cause.string!r}\n'):
		return 'the named token is not the input token at the reported position'
	rest = message[len(f'pass: {steps}/{total}, token: {cause.string!r}\n'):]
	m2 = re.match(r'\((-?\d+)\) >>> ', rest)
	if not m2:
		return 'quotation line has an unexpected format'
	line_no = int(m2.group(1))
	src_lines = text.split('\n')
	if not (1 <= line_no <= len(src_lines)):
		return f'line ({line_no}) does not exist (the source has {len(src_lines)} line(s))'
	if not rest.startswith(f'({line_no}) >>> {src_lines[line_no - 1]}\n'):
		return f'quoted text is not line {line_no} of the source'
	return None


def reject_key(tokens: list[str], rules: Any) -> str:
	"""Stable class of a rejected/mis-parsed derivable sentence: its grammar keywords and operators in order (identifiers and literals dropped), capped."""
	kws = set(rules.keywords)
	sig = [t for t in tokens if t in kws and t not in ('\n',)]
	sig = [{'\\INDENT': '>', '\\DEDENT': '<', '\\OP_UNARY_MINUS': 'neg'}.get(t, t) for t in sig]
	return ' '.join(sig[:10]) or 'no-keyword'


def shrink_sentence(world: PyWorld, level: str, bad) -> None:
	return None


def search_cpython(ctx: Ctx) -> SearchResult:
	rng = ctx.sub_rng('cpython-ast')
	world = PyWorld(rng)
	res = SearchResult('canon(SyntaxParser(py_rules()).parse(s)) == canon(ast.parse(s)) on grammar-derived sentences (both accept); every derived sentence is accepted')
	hist: Counter[str] = Counter()
	seen: set[str] = set()
	# defect-candidate witnesses and past findings first
	purpose = walrus_ternary_sentences(world, ctx.scale(6, 40))
	dl = gramlib.Deadline(ctx.scale(120, 900))
	slow = 0
	for level, toks, text in purpose + gen_sentences(world, ctx.scale(500, 5000), ctx.scale(70, 120), 3, keep_inexact=True):
		if dl.expired() or slow >= 3:
			res.note = f'stopped early: wall budget {dl.seconds} s over or {slow} calls exceeded their budget'
			break
		res.cases += 1
		if text not in seen:
			seen.add(text)
		kind, payload = gramlib.real_parse(world.rules, world.tokenizer, text)
		slow += kind == 'budget-exceeded'
		if kind != 'ok':
			hist[f'{level}:engine-{kind}'] += 1
			res.findings.append(Finding(key='does-not-terminate:budget-exceeded' if kind == 'budget-exceeded' else f'derivable-rejected:{reject_key(toks, world.rules)}',
				what=f'a sentence derived from py_gram.lark is not accepted by the engine ({kind}): {text!r}', replay={'text': text, 'derivation': toks, 'outcome': kind, 'message': payload}))
			continue
		leaf = gramlib.bad_leaf(payload, world.grammar)
		if leaf:
			hist[f'{level}:LEAF'] += 1
			res.findings.append(Finding(key=f'leaf-outside-terminal:{leaf[0]}', what=f'the engine tree has the leaf ({leaf[0]!r}, {leaf[1]!r}) that the terminal rule of py_gram.lark cannot match; text {text!r}',
				replay={'text': text, 'leaf': list(leaf), 'tree': repr(payload)}))
			continue
		try:
			want = pycanon.canon_cpython(text)
		except SyntaxError:
			hist[f'{level}:cpython-rejects'] += 1
			continue
		except pycanon.Outside as e:
			hist[f'{level}:cpython-outside'] += 1
			continue
		try:
			got = pycanon.canon_tranp(payload)
		except pycanon.NotCommon:
			hist[f'{level}:not-comparable'] += 1
			continue
		except pycanon.Outside as e:
			hist[f'{level}:tranp-shape'] += 1
			res.findings.append(Finding(key=f'tree-shape:{e}', what=f'the engine tree has a shape the grammar cannot assign ({e}): {text!r}', replay={'text': text, 'tree': repr(payload)}))
			continue
		if got != want:
			hist[f'{level}:MISMATCH'] += 1
			res.findings.append(Finding(key=pycanon.mismatch_key(got, want), what=f'engine tree differs from CPython ast for {text!r}',
				replay={'text': text, 'engine': repr(got), 'cpython': repr(want), 'tree': repr(payload)}))
		else:
			hist[f'{level}:equal'] += 1
			if len(res.samples) < 3 and len(text) > 25:
				res.samples.append({'text': text, 'canon': repr(got)[:300]})
	res.distinct = len(seen)
	res.histogram = dict(hist)
	res.note = 'oracle exact on texts both parsers accept; texts CPython rejects (walrus outside parentheses, argument order, open def return type, …) are counted, not compared'
	return res


def search_mutated(ctx: Ctx) -> SearchResult:
	rng = ctx.sub_rng('mutated')
	world = PyWorld(rng)
	res = SearchResult('mutated sentences: accepted with the tree CPython builds, or Errors.Syntax whose summary names an input token and an existing line')
	hist: Counter[str] = Counter()
	seen: set[str] = set()
	texts: list[tuple[str, str]] = [('edge', t) for t in ['', '\n', '#c', ' ', 'a -', 'a +', '(', 'x = [1, 2', 'if a:\n\tb\n\t\tc', '\tx', 'a ?', 'a b', 'def f() -> None:\n\treturn 1 +']]
	d = os.path.join(common.CORPUS_DIR, PROP)
	if os.path.isdir(d):
		for fn in sorted(os.listdir(d)):
			if fn.endswith('.json'):
				with open(os.path.join(d, fn), encoding='utf-8') as f:
					texts.extend(('corpus', t) for t in json.load(f).get('texts', []))
	for level, toks, text in gen_sentences(world, ctx.scale(250, 2000), ctx.scale(60, 100), 3):
		for _ in range(2):
			mtoks, mk = gramlib.mutate_tokens(toks, rng, world.vocabulary)
			if paren_depth(mtoks) <= 4 and block_depth(mtoks) <= 4:
				texts.append((mk, gramlib.render_tokens(mtoks, rng, rng.choice([0.0, 0.5]))))
	dl = gramlib.Deadline(ctx.scale(120, 900))
	slow = 0
	for mk, text in texts:
		if dl.expired() or slow >= 3:
			res.note = f'stopped early: wall budget {dl.seconds} s over or {slow} calls exceeded their budget'
			break
		res.cases += 1
		seen.add(text)
		try:
			tokens = gramlib.real_tokens(world.tokenizer, text)
		except Exception as e:  # noqa: BLE001 - SyntaxParser.parse runs the tokenizer: its exception escapes the parse call
			kind = exc_enum(e)
			key = f'escaped:tokenizer-{kind}' + (':trailing-minus' if text.rstrip(' \t').endswith('-') else '')
			hist[key] += 1
			res.findings.append(Finding(key=key, what=f'{kind} raised by the tokenizer instead of Errors.Syntax for {text!r}', replay={'text': text, 'mutation': mk}))
			continue
		kind, payload = gramlib.real_parse(world.rules, gramlib.FixedTokenizer(tokens), text)
		if kind == 'ok':
			leaf = gramlib.bad_leaf(payload, world.grammar)
			if leaf:
				hist['accepted:LEAF'] += 1
				res.findings.append(Finding(key=f'leaf-outside-terminal:{leaf[0]}', what=f'text outside the grammar is accepted: leaf ({leaf[0]!r}, {leaf[1]!r}) cannot be matched by its terminal rule; text {text!r}',
					replay={'text': text, 'leaf': list(leaf), 'mutation': mk}))
				continue
			try:
				got = pycanon.canon_tranp(payload)
			except pycanon.NotCommon:
				hist['accepted:not-comparable'] += 1
				continue
			except pycanon.Outside as e:
				hist['accepted:tranp-shape'] += 1
				res.findings.append(Finding(key=f'tree-shape:{e}', what=f'the engine tree has a shape the grammar cannot assign ({e}): {text!r}', replay={'text': text, 'tree': repr(payload), 'mutation': mk}))
				continue
			try:
				want = pycanon.canon_cpython(text)
			except (SyntaxError, pycanon.Outside):
				hist['accepted:not-comparable'] += 1
				continue
			if got != want:
				hist['accepted:MISMATCH'] += 1
				res.findings.append(Finding(key=pycanon.mismatch_key(got, want), what=f'engine tree differs from CPython ast for {text!r}',
					replay={'text': text, 'engine': repr(got), 'cpython': repr(want)}))
			else:
				hist['accepted:equal'] += 1
		elif kind == 'Errors.Syntax':
			bad = check_summary(text, tokens, payload)
			if bad is None:
				hist['rejected:summary-ok'] += 1
			else:
				steps = int(re.match(r'pass: (\d+)/', payload).group(1)) if re.match(r'pass: (\d+)/', payload) else -1
				eof = 0 <= steps < len(tokens) and tokens[steps].source_map.begin_line < 0
				key = 'error-line:eof-derived-cause-token' if eof else 'error-summary:other'
				hist[f'rejected:{key}'] += 1
				res.findings.append(Finding(key=key, what=f'Errors.Syntax summary is wrong: {bad}; text {text!r}', replay={'text': text, 'summary': payload, 'mutation': mk}))
		else:
			slow += kind == 'budget-exceeded'
			hist[f'escaped:{kind}'] += 1
			res.findings.append(Finding(key='does-not-terminate:budget-exceeded' if kind == 'budget-exceeded' else f'escaped:{kind}', what=f'{kind} instead of Errors.Syntax for {text!r}', replay={'text': text, 'mutation': mk}))
	res.distinct = len(seen)
	res.histogram = dict(hist)
	return res


# ---------------------------------------------------------------------------------------------


def search_history(ctx: Ctx) -> SearchResult:
	"""ONE SyntaxParser (and its Tokenizer) across a sequence of texts — programs indented with tabs, 4 and 2 blanks, rejected texts
	with unbalanced brackets, long and short rejects in between — against a fresh instance on each text (bin/ast_check.py keeps one
	instance; the models treat parser and tokenizer as functions of the text)."""
	from data.syntax.py_rules import py_rules
	from rogw.tranp.errors import Errors
	from rogw.tranp.implements.syntax.tranp.syntax import SyntaxParser
	rng = ctx.sub_rng('history')
	world = PyWorld(rng)
	res = SearchResult('a shared SyntaxParser instance gives on every text of a sequence what a fresh instance gives')
	hist: Counter[str] = Counter()

	def run(p: Any, text: str) -> tuple[str, Any]:
		try:
			with gramlib.budget(gramlib.CALL_BUDGET_S):
				return 'ok', p.parse(text, 'entry').simplify()
		except gramlib.BudgetExceeded:
			return 'budget-exceeded', None
		except Errors.Syntax as e:
			return 'Errors.Syntax', str(e)
		except Exception as e:  # noqa: BLE001
			return exc_enum(e), None

	rejects = ['x = (a', 'f ( a , b', '[ 1 , 2', 'x = { "k" : ( 1', 'a +', 'x = f ( a , b , c ) + d +', 'if a :\n\tb = ( 1\n']
	blocks = [s for s in gen_sentences(world, ctx.scale(60, 400), 50, 3) if '\\INDENT' in s[1]]
	flat = [s for s in gen_sentences(world, ctx.scale(40, 250), 30, 3) if '\\INDENT' not in s[1]]
	# the first sequence is the witness of the repaired stale error position (monitor.peek is reset per parse since the fix): it must agree
	sequences: list[list[str]] = [['x = f ( a , b , c ) + d +', 'x = (a', 'a'], ['if a :\n    b\n', 'if a :\n\tb\n', 'x = (a', 'a'], ['x = (a', 'a', 'if a :\n  b\n', 'if a :\n        b\n']]
	for _ in range(ctx.scale(25, 200)):
		seq: list[str] = []
		for _ in range(rng.randint(3, 7)):
			r = rng.random()
			if r < 0.45 and blocks:
				_, toks, _ = rng.choice(blocks)
				seq.append(gramlib.render_tokens(toks, rng, 0.0, indent=rng.choice(['\t', '    ', '  ', '        '])))
			elif r < 0.7 and flat:
				seq.append(rng.choice(flat)[2])
			elif r < 0.9:
				seq.append(rng.choice(rejects))
			elif flat:
				mt, _ = gramlib.mutate_tokens(rng.choice(flat)[1], rng, world.vocabulary)
				seq.append(gramlib.render_tokens(mt))
		sequences.append(seq)
	dl = gramlib.Deadline(ctx.scale(90, 600))
	seen: set[str] = set()
	for seq in sequences:
		if dl.expired():
			res.note = f'stopped early: wall budget {dl.seconds} s over'
			break
		res.cases += 1
		seen.add('\x00'.join(seq))
		shared = SyntaxParser(py_rules())
		for i, text in enumerate(seq):
			a = run(shared, text)
			b = run(SyntaxParser(py_rules()), text)
			if a == b:
				hist[f'same:{b[0]}'] += 1
				continue
			key = 'history:result-differs' + (':error-summary' if a[0] == b[0] == 'Errors.Syntax' else '')
			hist[key] += 1
			res.findings.append(Finding(key=key, what=f'text #{i + 1} of a sequence parsed by ONE instance gives {a[0]} / {str(a[1])[:120]!r}, a fresh instance {b[0]} / {str(b[1])[:120]!r}; text {text!r}',
				replay={'sequence': seq[:i + 1], 'shared': [a[0], str(a[1])[:600]], 'fresh': [b[0], str(b[1])[:600]]}))
			break
	res.distinct = len(seen)
	res.histogram = dict(hist)
	return res


def search_layout(ctx: Ctx) -> SearchResult:
	"""Continuation lines: the same derivation rendered on one line per statement and with line breaks + arbitrary indentation inside
	brackets (after an opening bracket / a comma, before a closing bracket), in front of and between indented blocks, block indent
	tab / 2 / 4 / 8 blanks. CPython reads both layouts as one program (checked per case); the engine must return the same tree."""
	rng = ctx.sub_rng('layout')
	world = PyWorld(rng)
	res = SearchResult('line breaks and indentation inside brackets do not change the engine\'s tree (same derivation, one-line vs wrapped layout; CPython agrees per case)')
	hist: Counter[str] = Counter()
	seen: set[str] = set()
	pool = gen_sentences(world, ctx.scale(180, 1800), 60, 3)
	flat = [s for s in pool if '\\INDENT' not in s[1] and any(t in ('(', '[', '{') for t in s[1])]
	blocks = [s for s in pool if '\\INDENT' in s[1]]
	fixed = [['x', '=', 'f', '(', 'a', ',', 'b', ')', '\n', 'if', 'c', ':', '\n', '\\INDENT', 'y', '=', '1', '\n', '\\DEDENT'],
		['x', '=', '[', '1', ',', '2', ']', '\n', 'while', 'c', ':', '\n', '\\INDENT', 'if', 'a', ':', '\n', '\\INDENT', 'y', '=', 'g', '(', 'a', ',', 'b', ')', '\n', '\\DEDENT', '\\DEDENT']]
	cases: list[list[str]] = list(fixed)
	for _ in range(ctx.scale(110, 1200)):
		toks: list[str] = []
		for _ in range(rng.choice([1, 1, 2])):
			if flat:
				toks.extend(rng.choice(flat)[1])
		if blocks and rng.random() < 0.75:
			toks.extend(rng.choice(blocks)[1])
			if flat and rng.random() < 0.3:
				toks.extend(rng.choice(flat)[1])
		if toks and len(toks) <= 110 and not too_deep(toks, 3):
			cases.append(toks)
	dl = gramlib.Deadline(ctx.scale(60, 500))
	slow = 0
	for i, toks in enumerate(cases):
		if dl.expired() or slow >= 3:
			res.note = f'stopped early: wall budget {dl.seconds} s over or {slow} calls exceeded their budget'
			break
		ind = rng.choice(['\t', '    ', '  ', '        '])
		base = gramlib.render_tokens(toks, rng, 0.0, indent=ind)
		wrapped = gramlib.render_tokens(toks, rng, 0.0, indent=ind, wrap=0.9 if i < len(fixed) else rng.choice([0.3, 0.6, 0.9]))
		if wrapped == base:
			hist['nothing-to-wrap'] += 1
			continue
		try:
			same_program = ast.dump(ast.parse(base)) == ast.dump(ast.parse(wrapped))
		except (SyntaxError, ValueError, RecursionError, MemoryError):
			hist['cpython-rejects'] += 1
			continue
		if not same_program:
			hist['cpython-differs'] += 1
			continue
		res.cases += 1
		seen.add(wrapped)
		a = gramlib.real_parse(world.rules, world.tokenizer, base)
		b = gramlib.real_parse(world.rules, world.tokenizer, wrapped)
		slow += (a[0] == 'budget-exceeded') + (b[0] == 'budget-exceeded')
		if a[0] != 'ok':
			hist[f'one-line-layout:{a[0]}'] += 1  # the cpython-ast search judges the plain layout
			continue
		if b == a:
			hist['same-tree'] += 1
			continue
		hist[f'DIFFERS:{b[0]}'] += 1
		res.findings.append(Finding(key='does-not-terminate:budget-exceeded' if b[0] == 'budget-exceeded' else 'layout:line-break-inside-brackets',
			what=f'the same program with continuation lines inside brackets is read differently ({b[0]}): {wrapped!r} vs {base!r}',
			replay={'text': wrapped, 'unwrapped': base, 'derivation': toks, 'outcome': b[0], 'message': b[1] if isinstance(b[1], str) else repr(b[1])[:1500]}))
	res.distinct = len(seen)
	res.histogram = dict(hist)
	return res


def search_cost(ctx: Ctx) -> SearchResult:
	"""How the engine's WORK grows with nesting depth — counted, not timed: the number of `_match_symbol` calls for `((…a…))` and for
	nested `if` blocks at depth 1, 2, 3, …. A parser that builds CPython's trees for the sentences of the grammar has to return them:
	CPython's parser is linear; geometric growth per level (every alternative of `primary` / `atom` / `statement` re-parses the same
	inner text before ordered choice moves on) means a 25-character expression never returns in practice."""
	from data.syntax.py_rules import py_rules
	from rogw.tranp.implements.syntax.tranp.syntax import SyntaxParser
	from rogw.tranp.implements.syntax.tranp.tokenizer import Tokenizer
	res = SearchResult('the number of _match_symbol calls grows at most polynomially with the nesting depth of parentheses / blocks (counted on the real engine; growth factor per level < 2)')
	hist: Counter[str] = Counter()

	class Counting(SyntaxParser):
		calls = 0

		def _match_symbol(self, tokens: Any, context: Any, route: str) -> Any:
			self.calls += 1
			return super()._match_symbol(tokens, context, route)

	def paren(d: int) -> str:
		return 'x = ' + '(' * d + 'a' + ')' * d + '\n'

	def blocks(d: int) -> str:
		return ''.join('\t' * i + 'if a:\n' for i in range(d)) + '\t' * d + 'b = 1\n'

	for kind, make, depths in (('parentheses', paren, range(1, ctx.scale(6, 7))), ('blocks', blocks, range(1, ctx.scale(5, 6)))):
		res.cases += 1
		calls: list[int] = []
		outcome = 'ok'
		for d in depths:
			text = make(d)
			try:
				p = Counting(py_rules(), Tokenizer())
				with gramlib.budget(gramlib.CALL_BUDGET_S):
					p.parse(text, 'entry')
				calls.append(p.calls)
			except gramlib.BudgetExceeded:
				outcome = f'budget-exceeded at depth {d}'
				break
			except Exception as e:  # noqa: BLE001
				outcome = f'{exc_enum(e)} at depth {d}'
				break
		ratios = [round(b / a, 2) for a, b in zip(calls, calls[1:]) if a]
		geometric = outcome.startswith('budget-exceeded') or (len(ratios) >= 3 and all(r >= 2.0 for r in ratios[-2:]))
		if outcome != 'ok' and not outcome.startswith('budget-exceeded'):
			hist[f'{kind}:{outcome}'] += 1
			res.findings.append(Finding(key=f'derivable-rejected:nested-{kind}', what=f'a nested sentence is not accepted: {outcome}; text {make(len(calls) + 1)!r}', replay={'text': make(len(calls) + 1), 'outcome': outcome}))
		elif geometric:
			hist[f'{kind}:geometric'] += 1
			last = ratios[-1] if ratios else 3.0
			est = int(calls[-1] * last ** (12 - len(calls))) if calls else 0
			res.findings.append(Finding(key=f'cost:exponential-in-nesting:{kind}',
				what=f'the engine\'s work grows geometrically with the nesting depth of {kind}: _match_symbol calls at depth 1.. = {calls} (factor per level {ratios}){"; " + outcome if outcome != "ok" else ""}; '
					f'depth 12 extrapolates to ≈ {est:.2e} calls — CPython parses {make(12)[:30]!r}… at once, this engine does not return',
				replay={'text': make(len(calls)), 'calls': calls, 'ratios': ratios, 'kind': kind, 'cost_probe': True}))
		else:
			hist[f'{kind}:polynomial'] += 1
		if len(res.samples) < 2:
			res.samples.append({'kind': kind, 'calls': calls, 'ratios': ratios})
	res.distinct = res.cases
	res.histogram = dict(hist)
	return res


def guarded(kind: str, name: str, fn, ctx: Ctx):
	"""Run one stream / search; an exception that escapes it (raised by the code under test at a place the harness did not expect,
	e.g. while loading the rule modules) becomes a reported result instead of a harness crash (CONVENTIONS addendum 14)."""
	import traceback
	try:
		return fn(ctx)
	except common.InfraError:
		raise
	except Exception as e:  # noqa: BLE001
		tail = ''.join(traceback.format_exception(type(e), e, e.__traceback__)[-6:])
		if kind == 'stream':
			st = Stream(name)
			st.cases = 1
			st.disagreements.append({'case': 'stream aborted', 'op': name, 'real': f'{type(e).__name__}: {e}', 'model': '(not reached)', 'traceback': tail})
			return st
		res = SearchResult(name)
		res.cases = 1
		res.findings.append(Finding(key=f'search-aborted:{type(e).__name__}', what=f'{name}: the real code raised {type(e).__name__}: {e}', replay={'search': name, 'traceback': tail}))
		return res


STATEMENTS = {
	'T1_termination': 'for every rule set passing the decidable check WFRules and every token list, the matcher never runs out of the fuel fuelBound R |tokens| (so the Python recursion/loops terminate)',
	'T1_wf_py / T1_wf_gram': 'WFRules holds for the translated py_rules() and gram_rules() (kernel-decided over the whole tables)',
	'T2_all_or_error': 'parse returns a tree only if the match consumed every token (steps = #tokens, ghost trace = the input, leaves = the named ones)',
	'T2_else_syntax': 'when the matcher finishes without consuming everything and the cause token\'s line indexes the source, the outcome is Errors.Syntax',
	'T2_else_syntax_guarded': 'the same with a guard on the input only: at least one token and every begin_line a line of the source or -1 (what the tokenizer produces) — the summary cannot fail',
	'group_ladders_py': 'comp > calc_sum > calc_mul (over unary) and comp_or > comp_and (over comp_not) are ladders of the generated table (kernel-decided)',
	'group_partial_arith': 'whatever the engine matches for comp decomposes into unary-operand and operator matches covering exactly the consumed tokens, and Prec.parse with the level order comparison < additive < multiplicative reads that same abstract token list into the very expression the flat chains stand for (left-nested per level)',
	'group_partial_bool': 'the same for comp_or: or < and over comp_not operands',
	'group_levels_cpython': 'that level order is CPython\'s: or < and < comparisons < + - < * / % in Ladder.pyTable (the table C02 proves equal to CPython\'s grammar)',
	'error_index_in_range': 'max(0, length-1-peek) indexes the token list for every peek as soon as there is a token: the cause token always exists (never index -1)',
	'error_index_value': 'it is the token peek positions left of the last one while peek < length, and token 0 beyond that',
	'keywords_exact': 'Rules.keywords holds exactly the expressions of all terminals of all rules, single-terminal rules included',
	'keywords_excluded': 'a token whose string is a keyword never matches a regexp terminal, whatever the regexp says',
	'reserved_words_py': 'the string terminals in py_rules().keywords are exactly the string terminals of py_gram.lark as read independently from the text; the identifier-shaped ones are the 17 listed reserved words',
	'reserved_words_gram': 'gram_rules().keywords is the seven punctuation terminals followed by the five regexps of gram.lark (independent reading)',
	'parse_history_free': 'remark-level: the model has no state between calls — the result for a text after any history of other texts is the result for that text alone (tied by the translator scan of instance attributes in syntax.py / tokenizer.py and by the history search)',
	'T3_yield': 'the named-terminal leaves of a successful match, in order, are exactly the consumed tokens that were matched by named terminal rules; the consumed tokens are exactly the span, in source order',
	'T4_chain': 'a match of a ladder-shaped pattern (N op)* N yields the flat chain n_k o_k … o_1 n_0 in source order, each item a successful match of N resp. op laid end to end over the consumed span',
	'T4_ladders_py': 'comp_or, comp_and, comp, calc_sum, calc_mul of the generated py table are exactly ladder rules (kernel-decided), chained level by level',
	'walrus_ternary_engine': 'kernel-evaluated: on the generated py rules the engine model reads ( x := a if c else d ) as ternary[expr_move[x, a], c, d]',
	'walrus_ternary_counterexample': 'hence not CPython\'s grouping expr_move[x, ternary[a, c, d]] — the known finding group:walrus-over-ternary (cause: rule structure of py_gram.lark)',
	'T6_sound_match': 'for every rule set, oracle, cursor and symbol: a successful _match_symbol returns exactly one entry, and it is a derivation (declarative reading DSym/DPat/DSeq/DIter: no cursor, no order of evaluation) of exactly the tokens consumed',
	'T6_sound': 'every tree parse returns is a derivation of the WHOLE token list from the entrypoint under the declarative reading of the rules: ordered choice and greedy repetition only select among the grammar\'s derivations, they never build a structure outside it',
	'T6_prefix_rules_py': 'ternary, expr_move, comp_not, unary of the generated table are optional-prefix rules ( G )? N; op_not / op_unary are the bare terminals "not" / "\\OP_UNARY_MINUS" (kernel-decided)',
	'T6_ternary_shape': 'every derivation of ternary under the shipped rules is a bare expr_move or A if B else D over consecutive spans with children [A, B, D] = CPython IfExp(body, test, orelse)',
	'T6_walrus_shape': 'every derivation of expr_move is a bare comp_or or T := V with children [T, V] = CPython NamedExpr(target, value)',
	'T6_prefix_shape': 'every derivation of unary is a bare primary or ONE unary-minus token + primary; of comp_not a bare comp or ONE not + comp (operand levels as in CPython\'s precedence table)',
	'T6_complete_counterexample': 'the converse (every derivable sentence is accepted) is false for this engine: under x := "a" ("a")* the text `a a` is rejected (greedy repeat from the right, no backtracking); replayed on the real engine by engine-random',
	'T7_ordered_choice': 'a successful match of an alternative group is the match of ONE entry, and every entry written before it was tried at the same cursor and failed: first matching alternative, never reconsidered',
	'T7_greedy': 'a successful ( … )* / ( … )+ stops only where no token is left or where one more repetition of the body fails at the very position the loop stopped: longest repetition, nothing given back',
	'T5_error_line': 'the summary line number is begin_line+1 of an input token, inside [1, #lines] when that token has a non-negative source map',
	'T5_error_line_counterexample': 'an EOF-derived cause token (source map -1) prints line (0): the unguarded statement is false',
}


def run(ctx: Ctx) -> int:
	ok, msg = translate(ctx)
	proof = common.prove(ctx, PROP, leanchecker=ctx.thorough)
	streams, searches = [], []
	with ctx.timed('correspondence'):
		for name, fn in [('engine-py', stream_engine_py), ('engine-random', stream_engine_random), ('engine-summary', stream_summary)]:
			with ctx.timed(f'stream:{name}'):
				streams.append(guarded('stream', name, fn, ctx))
	with ctx.timed('search'):
		for name, fn in [('cpython-ast', search_cpython), ('mutated', search_mutated), ('history', search_history), ('layout', search_layout), ('cost', search_cost)]:
			with ctx.timed(f'search:{name}'):
				searches.append(guarded('search', name, fn, ctx))
	return common.finish(ctx, proof, streams, searches, translate_ok=ok, translate_msg=msg,
		statements=STATEMENTS,
		partial={
			'proved': 'termination for well-formed rule sets incl. both shipped sets, all-or-error, yield/order of leaves, soundness against the declarative reading of any rule set (every returned tree is a derivation of the whole input: T6) and the selection rule among derivations (first alternative, longest repetition: T7), flat chains of ladder rules and their grouping, error-line range under the source-map guard',
			'correspondence_only': 'the Lean matcher equals SyntaxParser on py_rules()/random rule sets; regexp terminals enter as a classification table evaluated by the real re',
			'search_only': 'agreement with CPython ast (ordered choice never prefers a wrong alternative on py_gram.lark; group_partial covers the binary ladders, T6_*_shape the node shapes of conditional / walrus / not / unary minus; WHICH derivation ordered choice selects where the grammar is ambiguous, lambda, attribute/call/index chains, statements, and that the engine ACCEPTS every such sentence are search-only), acceptance of every derivable sentence (the general converse of T6 is false: T6_complete_counterexample)',
		},
		assumptions=[
			'sentences are bounded (≤ ~110 tokens, bracket nesting ≤ 3, block nesting ≤ 3): the engine is exponential in bracket and block nesting and recursive (RecursionError beyond the bound is outside the quantifier)',
			'binary minus is written with blanks, unary minus without (the lexer decides unary/binary by the following blank: tokenizer.py:402-410)',
			'identifiers are ASCII and not Python keywords; string literals are simple quoted strings',
			'symbol expressions are DSN-atomic (non-empty, no dot) as produced by Pattern.make',
		],
		trusted=['regular expressions of rule files: evaluated by the real `re`, entering the model as token classes (gen_rules.classify)',
			'the tokenizer (C13) supplies the token list; the engine model starts from the real tokens'])


def replay(ctx: Ctx, path: str) -> int:
	with open(path, encoding='utf-8') as f:
		rec = json.load(f)
	print(json.dumps(rec, indent=1, ensure_ascii=False)[:3000])
	text = (rec.get('input') or {}).get('text')
	if rec.get('kind') == 'failing-input' and (rec.get('input') or {}).get('cost_probe'):
		r = search_cost(Ctx(PROP, rec.get('tier', 'quick'), int(rec.get('seed', 0))))
		for f in r.findings:
			print(f'replay: {f.what}')
		print(f'VIOLATION property={PROP} replay={path}' if r.findings else 'replay: the work no longer grows geometrically')
		return 1 if r.findings else 0
	if rec.get('kind') == 'failing-input' and text is not None:
		world = PyWorld(random.Random(0))
		tokens = gramlib.real_tokens(world.tokenizer, text)
		kind, payload = gramlib.real_parse(world.rules, gramlib.FixedTokenizer(tokens), text)
		print(f'replay: real outcome = {kind}')
		print(payload if isinstance(payload, str) else repr(payload)[:2000])
		try:
			print('cpython:', repr(pycanon.canon_cpython(text))[:1500])
		except Exception as e:  # noqa: BLE001
			print('cpython:', type(e).__name__, e)
		if kind == 'ok':
			try:
				same = pycanon.canon_tranp(payload) == pycanon.canon_cpython(text)
			except Exception:  # noqa: BLE001
				same = False
			print(f'VIOLATION property={PROP} replay={path}' if not same else 'replay: trees agree now')
			return 0 if same else 1
		bad = check_summary(text, tokens, payload) if kind == 'Errors.Syntax' else f'escaped {kind}'
		if rec.get('key', '').startswith('derivable-rejected') or bad:
			print(f'VIOLATION property={PROP} replay={path}')
			return 1
		print('replay: no violation on this input now')
		return 0
	ctx2 = Ctx(PROP, rec.get('tier', 'quick'), int(rec.get('seed', 0)))
	return run(ctx2)
