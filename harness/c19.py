"""C19 — The dependency container follows its simple reference model.

Theorems: lean/Tranp/Props/C19.lean over lean/Tranp/Model/DI.lean (concrete dictionaries + heap of containers, abstract
`Spec`, forward simulation, corollaries, the combine-right law and the invoke law for every history).
Tie: correspondence stream `di` (random op sequences on real DI / LazyDI objects vs the Lean model) plus a malformed stream.
Search: observations(real container) == observations(reference model), where the reference model is a plain Python
implementation of the Spec of the property statement (no annotation cache, validation on every call, right-biased
combine). The five defects repaired in /repo (c3fd82c invoke, 6d5a231 combine) stay in the reference as switches that are
OFF: when the real code diverges, the smallest set of switches that explains the divergence names the returned defect
(regression detector); anything else is an unexplained divergence. Either way it is a VIOLATION with the op sequence.
"""
from __future__ import annotations

import importlib
import inspect
import itertools
import json
import os
import random
import signal
import sys
import time
from contextlib import contextmanager
from collections import Counter
from types import FunctionType, MethodType
from typing import Any

from harness import common
from harness.common import Ctx, Finding, SearchResult, Stream, exc_enum

PROP = 'C19'

SCRATCH_NAME = 'c19_scratch'

SCRATCH_SRC = '''\
import typing

T = typing.TypeVar('T')
W = {'serial': 0}


class Made:
	def __init__(self, ftag, args):
		self.serial = W['serial']
		W['serial'] += 1
		self.ftag = ftag
		self.args = tuple(args)


class S0: pass
class S1: pass
class S2: pass
class S3: pass
class G4(typing.Generic[T]): pass
class G5(typing.Generic[T]): pass


SYMS = [S0, S1, S2, S3, G4, G5]


class K0(Made):
	def __init__(self):
		Made.__init__(self, 0, ())


class K1(Made):
	def __init__(self, a: S0):
		Made.__init__(self, 1, (a,))


def fn2(a: S0, b: S1):
	return Made(2, (a, b))


def fn3(q: G4[S0], s: str):
	return Made(3, (q, s))


class Holder:
	def __init__(self, tag):
		self.tag = tag

	def make(self, a: S1, n: int):
		return Made(self.tag, (a, n))


bm4 = Holder(4).make
bm5 = Holder(5).make


class Call6:
	def __call__(self, a: S2):
		return Made(6, (a,))


co6 = Call6()
co6.__qualname__ = 'co6'


class Call7:
	def __call__(self, a: S2):
		return Made(7, (a,))


co7 = Call7()


def mk(tag, T_):
	def clo(x: T_):
		return Made(tag, (x,))
	return clo


clo8 = mk(8, S0)
clo9 = mk(9, S1)


def dup(a: S0):
	return Made(10, (a,))


dup10 = dup


def dup(a: S1, b: str):
	return Made(11, (a, b))


dup11 = dup

lam12 = lambda: Made(12, ())
lam13 = lambda x: Made(13, (x,))


def fn14(a: S0, x, b: S1):
	return Made(14, (a, x, b))


class K15:
	def __new__(cls):
		o = object.__new__(cls)
		Made.__init__(o, 15, ())
		return o


def fn16(a: S3, b: G5[S1]):
	return Made(16, (a, b))


def fn17(a: S2):
	return Made(17, (a,))


def fn18(s: str):
	return Made(18, (s,))


# same simple name, different enclosing scope: nested in two classes, local to two functions. Used as symbols *and* factories.
class Reader:
	class Setting(Made):
		def __init__(self):
			Made.__init__(self, 19, ())


class Writer:
	class Setting(Made):
		def __init__(self, a: Reader.Setting):
			Made.__init__(self, 20, (a,))


def mk_reader():
	class Setting(Made):
		def __init__(self):
			Made.__init__(self, 21, ())
	return Setting


def mk_writer():
	class Setting(Made):
		def __init__(self, a: S0):
			Made.__init__(self, 22, (a,))
	return Setting


LocalR = mk_reader()
LocalW = mk_writer()
NESTED = [Reader.Setting, Writer.Setting, LocalR, LocalW]

# factories whose body raises (after CPython's arity check): a function with a dependency, a class, a parameterless function
def boom23(a: S0):
	raise NotImplementedError('boom23')


class Boom24:
	def __init__(self, a: S1):
		raise NotImplementedError('Boom24')


def boom25():
	raise NotImplementedError('boom25')


RAISING = [boom23, Boom24, boom25]


# factories whose product is not a fresh truthy object: None (an optional service that is switched off), with and without a
# dependency, and an object that is falsy, empty and equal to everything (__bool__ / __len__ / __eq__). The container stores what the call returned.
def none26():
	W['serial'] += 1
	return None


def none27(a: S0):
	W['serial'] += 1
	return None


class Falsy28(Made):
	def __init__(self):
		Made.__init__(self, 28, ())

	def __bool__(self):
		return False

	def __len__(self):
		return 0

	def __eq__(self, other):
		return True  # equal to everything, None included: only identity / membership tests treat it right

	def __ne__(self, other):
		return False

	def __hash__(self):
		return 0


RETURNS_NONE = [none26, none27]


# a return annotation is not a parameter; a default value does not make an annotated parameter optional for invoke
def fn29(a: S0, b: S1) -> Made:
	return Made(29, (a, b))


def fn30(a: S2, n: int = 7) -> 'Made':
	return Made(30, (a, n))


# subclasses of the expected classes are accepted as remaining arguments (isinstance)
class SubInt(int): pass
class SubStr(str): pass
SUBS = {}


def sub_of(cls):
	if cls not in SUBS:
		SUBS[cls] = type('Sub' + cls.__name__, (cls,), {})
	return SUBS[cls]


FACTORIES = [K0, K1, fn2, fn3, bm4, bm5, co6, co7, clo8, clo9, dup10, dup11, lam12, lam13, fn14, K15, fn16, fn17, fn18,
	Reader.Setting, Writer.Setting, LocalR, LocalW, boom23, Boom24, boom25, none26, none27, Falsy28, fn29, fn30]
BY_NAME = ['K0', 'K1', 'fn2', 'fn3', 'bm4', 'co6', 'clo8', 'clo9', 'dup10', 'dup11', 'lam12', 'fn14', 'K15', 'fn16', 'fn17', 'boom23', 'boom25',
	'none26', 'none27', 'Falsy28', 'fn29', 'fn30']
'''

TY_STR = 100
TY_INT = 101
NSYM = 6
NESTED_FROM = 500  # model: symbol ids >= 500 are classes nested in a class / function (path is not an import path)
NESTED_SYMS = [500, 501, 502, 503]
ALLSYMS = [*range(NSYM), *NESTED_SYMS]
MAX_CONTS = 5
LEAF = [0, 15, 12, 26, 28]   # parameterless factories of the structured prefixes: class, __new__-only class, lambda, returns None, falsy object
LEAF2 = [0, 15, 26]
# defects of the snapshot tree that were repaired in /repo; kept as regression detectors; key = finding key
DEVIATIONS = [
	'invoke-qualname-alias',
	'invoke-second-call-unchecked',
	'invoke-surplus-args-indexerror',
	'combine-left-instance-shadows-right-binding',
	'combine-left-binding-shadows-right-lazy-definition',
]
ALL_DEV = frozenset(DEVIATIONS)
IDEAL = frozenset()

DEVIATION_WHAT = {
	'invoke-qualname-alias': 'DI.invoke caches annotations under to_fullyname(factory): a second factory with the same qualified name is curried with the first one\'s annotations',
	'invoke-second-call-unchecked': 'DI.invoke validates the remaining arguments only on the first call per qualified name: a later mismatched call is passed through to the factory instead of raising ValueError',
	'invoke-surplus-args-indexerror': 'DI.invoke with more remaining arguments than unresolved annotated parameters raises IndexError instead of ValueError',
	'combine-left-instance-shadows-right-binding': 'a.combine(b): a binding of b that has no instance yet is combined with the instance a had created for the same symbol, so resolve returns an instance made by the losing binding',
	'combine-left-binding-shadows-right-lazy-definition': 'LazyDI a.combine(b): a definition of b that was never resolved loses against the binding a has already materialised for the same symbol',
}


# ---------------------------------------------------------------------------------------------
# budgets: no real-code call may hang the check


class BudgetExceeded(BaseException):
	"""raised by the interval timer inside a real-code call (BaseException: the per-op `except Exception` must not swallow it)"""


WALL_FACTOR = 10.0  # the wall-clock guard is this many times the CPU budget (the check may run on a heavily loaded machine)


@contextmanager
def budget(seconds: float):
	"""Budget for one real-code call, in CPU time of this process (ITIMER_PROF): a loop in the code under test burns CPU and is cut
	off after `seconds`, while a process that is merely descheduled on a loaded machine is not — so a slow machine cannot turn
	into a finding. A wall-clock guard (ITIMER_REAL, WALL_FACTOR x seconds) catches a call that blocks without using CPU."""
	def on_alarm(signum: int, frame: Any) -> None:
		raise BudgetExceeded()
	old_prof = signal.signal(signal.SIGPROF, on_alarm)
	old_alrm = signal.signal(signal.SIGALRM, on_alarm)
	signal.setitimer(signal.ITIMER_PROF, seconds)
	signal.setitimer(signal.ITIMER_REAL, seconds * WALL_FACTOR)
	try:
		yield
	finally:
		signal.setitimer(signal.ITIMER_PROF, 0)
		signal.setitimer(signal.ITIMER_REAL, 0)
		signal.signal(signal.SIGPROF, old_prof)
		signal.signal(signal.SIGALRM, old_alrm)


CASE_BUDGET_S = 3.0       # CPU seconds for one op sequence on the real containers (normally a few milliseconds)
PRODUCTION_BUDGET_S = 45.0  # CPU seconds for one real production run (normally 1-3 s)


PRODUCTION_STATE = {'timed_out': False}


def private_dicts(di: Any) -> list[tuple[str, Any]]:
	return [(k, v) for k, v in vars(di).items() if isinstance(v, dict)]


def aliased_with(new: Any, others: list[Any]) -> list[str]:
	"""names of private dictionaries of `new` that are the same object as a dictionary of another container"""
	out = []
	for name, d in private_dicts(new):
		for j, other in enumerate(others):
			if other is not new and any(d is d2 for _, d2 in private_dicts(other)):
				out.append(f'{name.split("__")[-1]}@c{j}')
	return out


# ---------------------------------------------------------------------------------------------
# scratch world (real factories and symbol classes, importable by name)


class World:
	def __init__(self, ctx: Ctx) -> None:
		d = ctx.tmpdir('tranp-verif-c19-')
		with open(os.path.join(d, f'{SCRATCH_NAME}.py'), 'w', encoding='utf-8') as f:
			f.write(SCRATCH_SRC)
		if d not in sys.path:
			sys.path.insert(0, d)
		sys.modules.pop(SCRATCH_NAME, None)
		importlib.invalidate_caches()
		self.mod = importlib.import_module(SCRATCH_NAME)
		self.syms: dict[int, type] = {**dict(enumerate(self.mod.SYMS)), **{NESTED_FROM + i: c for i, c in enumerate(self.mod.NESTED)}}
		self.factories: list[Any] = list(self.mod.FACTORIES)
		self.by_name: list[str] = list(self.mod.BY_NAME)
		self.raising: set[int] = {i for i, f in enumerate(self.factories) if any(f is r for r in self.mod.RAISING)}
		self.nonef: set[int] = {i for i, f in enumerate(self.factories) if any(f is r for r in self.mod.RETURNS_NONE)}
		self.sym_index = {s: i for i, s in self.syms.items()}
		self.sym_index[str] = TY_STR
		self.sym_index[int] = TY_INT
		# factory descriptors by introspection (inspect.signature, independent of di.py's __annotations__ plucking)
		quals: dict[str, int] = {}
		aids: dict[Any, int] = {}
		self.aid: list[int] = []
		self.desc: list[tuple[int | None, list[tuple[int, bool] | None]]] = []
		for fobj in self.factories:
			qn = getattr(fobj, '__qualname__', None)
			if qn is None:
				q = None
			else:
				full = f'{fobj.__module__}.{qn}'
				q = quals.setdefault(full, len(quals))
			params: list[tuple[int, bool] | None] = []
			for p in inspect.signature(fobj).parameters.values():
				# a default is allowed on an annotated parameter only: invoke demands one remaining argument per unresolved annotation
				assert p.kind == p.POSITIONAL_OR_KEYWORD and (p.default is p.empty or p.annotation is not p.empty)
				params.append(None if p.annotation is p.empty else self.sym_of_anno(p.annotation))
			self.desc.append((q, params))
			# identity (hash / equality class) of the callable whose annotations DI reads, di.py `__to_annotated`
			if isinstance(fobj, (FunctionType, MethodType)):
				annotated = fobj
			elif not isinstance(fobj, type) and hasattr(fobj, '__call__'):
				annotated = fobj.__call__
			else:
				annotated = fobj.__init__
			self.aid.append(aids.setdefault(annotated, len(aids)))
		self.name_fid = {n: self.factories.index(getattr(self.mod, n)) for n in self.by_name}

	def sym_of_anno(self, anno: Any) -> tuple[int, bool]:
		origin = getattr(anno, '__origin__', None)
		if origin is not None:
			return self.sym_index[origin], True
		return self.sym_index[anno], False

	def symbol(self, k: int, generic: bool) -> Any:
		s = self.syms[k]
		return s[self.syms[0]] if generic else s

	def sym_path(self, k: int) -> str:
		return f'{SCRATCH_NAME}.{self.syms[k].__qualname__}'

	def reset(self) -> None:
		self.mod.W['serial'] = 0

	def arg_value(self, xid: int, ty: int) -> Any:
		sub = xid % 4 == 3  # every fourth value is an instance of a subclass of the class named by `ty`
		if ty == TY_STR:
			return self.mod.SubStr(f'x{xid}') if sub else f'x{xid}'
		if ty == TY_INT:
			return self.mod.SubInt(1000 + xid) if sub else 1000 + xid
		cls = self.mod.sub_of(self.syms[ty]) if sub else self.syms[ty]
		o = object.__new__(cls)  # no __init__: the nested classes are factories too and would draw a serial
		o.xid = xid
		return o

	def show_val(self, v: Any) -> str:
		if v is None:
			return 'none'
		if isinstance(v, str):
			return v
		if isinstance(v, int):
			return f'x{v - 1000}'
		if hasattr(v, 'serial'):
			return f'i{v.serial}'
		return f'x{v.xid}'

	def show_obj(self, o: Any) -> str:
		if o is None:
			# None has no identity: shown with the number of factory calls that returned so far (a re-run factory shows at once)
			return f"none/n{self.mod.W['serial']}"
		return f"i{o.serial}:f{o.ftag}({','.join(self.show_val(a) for a in o.args)})"


# ---------------------------------------------------------------------------------------------
# ops: tuples; text form for the Lean driver


def sym_txt(s: tuple[int, bool]) -> str:
	return f"{'g' if s[1] else 's'}{s[0]}"


def fac_txt(w: World, fid: int) -> str:
	_, params = w.desc[fid]
	ps = ','.join('_' if p is None else sym_txt(p) for p in params) or '-'
	return f"{'r' if fid in w.raising else 'z' if fid in w.nonef else 'f'}{fid}/{w.aid[fid]}/{ps}"


def inj_txt(w: World, inj: tuple) -> str:
	if inj[0] == 'f':
		return fac_txt(w, inj[1])
	_, name, target = inj
	if isinstance(target, int):
		return f'n{name}@{fac_txt(w, target)}'
	return f'n{name}!{target}'


def op_line(w: World, op: tuple) -> str:
	k = op[0]
	if k == 'reset':
		return 'reset'
	if k == 'new':
		if op[1] == 'di':
			return 'new\tdi'
		return 'new\tlazy\t' + (';'.join(f's{s}={inj_txt(w, inj)}' for s, inj in op[2]) or '-')
	if k in ('bind', 'rebind'):
		return f'{k}\t{op[1]}\t{sym_txt(op[2])}\t{fac_txt(w, op[3])}'
	if k in ('unbind', 'resolve', 'can'):
		return f'{k}\t{op[1]}\t{sym_txt(op[2])}'
	if k == 'invoke':
		args = ','.join(f'x{i}:{t}' for i, t in op[3]) or '-'
		return f'invoke\t{op[1]}\t{fac_txt(w, op[2])}\t{args}'
	if k == 'clone':
		return f'clone\t{op[1]}'
	if k == 'combine':
		return f'combine\t{op[1]}\t{op[2]}'
	if k == 'raw':
		return op[1]
	raise AssertionError(op)


def op_to_json(op: tuple) -> list:
	return json.loads(json.dumps(op))


def op_from_json(j: list) -> tuple:
	def tup(x: Any) -> Any:
		return tuple(tup(y) for y in x) if isinstance(x, list) else x
	k = j[0]
	if k == 'new' and j[1] == 'lazy':
		return ('new', 'lazy', [(s, tup(inj)) for s, inj in j[2]], *j[3:])
	if k in ('bind', 'rebind'):
		return (k, j[1], tuple(j[2]), j[3])
	if k in ('unbind', 'resolve', 'can'):
		return (k, j[1], tuple(j[2]))
	if k == 'invoke':
		return (k, j[1], j[2], [tuple(a) for a in j[3]])
	return tuple(j)


# ---------------------------------------------------------------------------------------------
# the real code


def run_real(w: World, ops: list[tuple]) -> list[str]:
	from rogw.tranp.lang.di import DI, LazyDI

	w.reset()
	conts: list[Any] = []
	out: list[str] = []

	def injector(inj: tuple) -> Any:
		if inj[0] == 'f':
			return w.factories[inj[1]]
		_, name, target = inj
		if isinstance(target, int):
			return f'{SCRATCH_NAME}.{w.by_name[name]}'
		return f'{SCRATCH_NAME}.nope{name}' if target == 'attr' else f'c19_nomod{name}.f'

	passed: list[list[Any]] = []  # [mapping object handed to LazyDI.instantiate, snapshot of its items at that time]

	def created(di: Any) -> str:
		# the law "a container made by _clone / combine / instantiate owns its dictionaries" is observed right here: no private
		# dictionary of the new container is a dictionary of another container, nor a mapping the caller passed in
		conts.append(di)
		shared = aliased_with(di, conts)
		for name, d in private_dicts(di):
			for j, (arg, _) in enumerate(passed):
				if d is arg:
					shared.append(f'{name.split("__")[-1]}@arg{j}')
		return f'c{len(conts) - 1}' + (f'!shares-dict:{",".join(shared)}' if shared else '')

	try:
		with budget(CASE_BUDGET_S):
			_run_real_ops(w, ops, conts, out, injector, created, passed)
	except BudgetExceeded:
		out.extend(['Timeout'] * (len(ops) - len(out)))
	return out


def same_items(d: dict, snap: list[tuple[Any, Any]]) -> bool:
	try:
		items = list(d.items())
		return len(items) == len(snap) and all(k1 == k2 and (v1 is v2 or isinstance(v1, str) and isinstance(v2, str) and v1 == v2)
			for (k1, v1), (k2, v2) in zip(items, snap))
	except Exception:  # noqa: BLE001
		return False


def _run_real_ops(w: World, ops: list[tuple], conts: list[Any], out: list[str], injector: Any, created: Any, passed: list[list[Any]]) -> None:
	from rogw.tranp.lang.di import DI, LazyDI

	for op in ops:
		_run_real_op(w, op, conts, out, injector, created, passed, DI, LazyDI)
		# the caller's mappings belong to the caller: whatever happens on any container, they keep the items they were passed with
		for j, rec in enumerate(passed):
			if not same_items(rec[0], rec[1]):
				out[-1] += f'!caller-mapping-changed:arg{j}'
				rec[1] = list(rec[0].items())


def _run_real_op(w: World, op: tuple, conts: list[Any], out: list[str], injector: Any, created: Any, passed: list[list[Any]], DI: Any, LazyDI: Any) -> None:
	if True:
		k = op[0]
		try:
			if k == 'reset':
				w.reset()
				conts.clear()
				passed.clear()
				out.append('ok')
			elif k == 'raw':
				out.append('bad-op')
			elif k == 'new':
				if op[1] == 'di':
					out.append(created(DI()))
				else:
					defs = {w.sym_path(s): injector(inj) for s, inj in op[2]}
					# ('new', 'lazy', defs, 'same', j): the very mapping object of the j-th instantiate of this case is passed again
					if len(op) >= 5 and op[3] == 'same' and op[4] < len(passed) and same_items(defs, passed[op[4]][1]):
						defs = passed[op[4]][0]
					else:
						passed.append([defs, list(defs.items())])
					out.append(created(LazyDI.instantiate(defs)))
			elif k in ('clone', 'combine') and any(i >= len(conts) for i in op[1:]):
				out.append('bad-op')
			elif k == 'clone':
				out.append(created(conts[op[1]]._clone()))
			elif k == 'combine':
				out.append(created(conts[op[1]].combine(conts[op[2]])))
			elif op[1] >= len(conts):
				out.append('bad-op')
			else:
				di = conts[op[1]]
				if k == 'bind':
					di.bind(w.symbol(*op[2]), w.factories[op[3]])
					out.append('ok')
				elif k == 'rebind':
					di.rebind(w.symbol(*op[2]), w.factories[op[3]])
					out.append('ok')
				elif k == 'unbind':
					di.unbind(w.symbol(*op[2]))
					out.append('ok')
				elif k == 'resolve':
					out.append(w.show_obj(di.resolve(w.symbol(*op[2]))))
				elif k == 'can':
					out.append('true' if di.can_resolve(w.symbol(*op[2])) else 'false')
				elif k == 'invoke':
					args = [w.arg_value(i, t) for i, t in op[3]]
					out.append(w.show_obj(di.invoke(w.factories[op[2]], *args)))
				else:
					raise AssertionError(op)
		except Exception as e:  # noqa: BLE001
			out.append(exc_enum(e))


# ---------------------------------------------------------------------------------------------
# the reference model: a straightforward implementation of the Spec (ideal when `dev` is empty)


class RefError(Exception):
	def __init__(self, kind: str) -> None:
		super().__init__(kind)
		self.kind = kind


class RefEntry:
	__slots__ = ('inj', 'lazy', 'inst')

	def __init__(self, inj: tuple, lazy: bool, inst: Any) -> None:
		self.inj = inj
		self.lazy = lazy
		self.inst = inst

	def copy(self) -> 'RefEntry':
		return RefEntry(self.inj, self.lazy, self.inst)


class RefCont:
	def __init__(self, kind: str) -> None:
		self.kind = kind
		self.ents: dict[int, RefEntry] = {}
		self.memo: dict[int, list[tuple[int, bool]]] = {}


class Reference:
	"""symbol ↦ (binding, lazy?, instance?) per container; `dev` = repaired defects to re-enact (regression detection only)"""

	def __init__(self, w: World, dev: frozenset[str] = IDEAL) -> None:
		self.w = w
		self.dev = dev
		self.conts: list[RefCont] = []
		self.serial = 0
		self.depth = 0

	def can(self, c: RefCont, s: tuple[int, bool]) -> bool:
		return s[0] in c.ents

	def resolve(self, c: RefCont, s: tuple[int, bool]) -> tuple:
		self.depth += 1
		try:
			if self.depth > 150:
				raise RefError('RecursionError')
			e = c.ents.get(s[0])
			if e is None:
				raise RefError('ValueError')
			if e.lazy:
				if s[0] >= NESTED_FROM:
					# the path of a nested class is not an import path: LazyDI cannot materialise its definition
					raise RefError('Other:builtins.ModuleNotFoundError')
				inj = e.inj
				if inj[0] == 'n' and not isinstance(inj[2], int):
					raise RefError('AttributeError' if inj[2] == 'attr' else 'Other:builtins.ModuleNotFoundError')
				e.inj = ('f', inj[1] if inj[0] == 'f' else inj[2])
				e.lazy = False
				e.inst = None
			if e.inst is None:
				e.inst = self.invoke(c, e.inj[1], [])
			return e.inst
		finally:
			self.depth -= 1

	def invoke(self, c: RefCont, fid: int, args: list[tuple[int, int]]) -> tuple:
		q, params = self.w.desc[fid]
		own = [p for p in params if p is not None]
		found = False
		annos = own
		if self.dev:
			# the snapshot tree keyed a cache by to_fullyname(factory)
			if q is None:
				raise RefError('AttributeError')
			found = q in c.memo
			if not found:
				c.memo[q] = own
			if 'invoke-qualname-alias' in self.dev:
				annos = c.memo[q]
		curried: list[tuple] = []
		for a in annos:
			if not self.can(c, a):
				break
			curried.append(self.resolve(c, a))
		if not (found and 'invoke-second-call-unchecked' in self.dev):
			expect = annos[len(curried):]
			if len(args) > len(expect):
				raise RefError('IndexError' if 'invoke-surplus-args-indexerror' in self.dev else 'ValueError')
			if len(args) != len(expect) or any(t != e[0] for (_, t), e in zip(args, expect)):
				raise RefError('ValueError')
		if len(curried) + len(args) != len(params):
			raise RefError('TypeError')
		if fid in self.w.raising:
			# the body of the factory raises: no object, nothing stored by the caller
			raise RefError('NotImplementedError')
		obj = (self.serial, fid, tuple(['none' if o[1] in self.w.nonef else f'i{o[0]}' for o in curried] + [f'x{i}' for i, _ in args]))
		self.serial += 1
		return obj

	def combine(self, a: RefCont, b: RefCont) -> RefCont:
		if a.kind == 'di' and b.kind == 'lazy':
			raise RefError('TypeError')
		if a.kind == 'lazy' and b.kind == 'di':
			raise RefError('AttributeError')
		n = RefCont(a.kind)
		for s in sorted(set(a.ents) | set(b.ents)):
			ea, eb = a.ents.get(s), b.ents.get(s)
			if eb is None:
				assert ea is not None
				n.ents[s] = ea.copy()
			elif ea is None:
				n.ents[s] = eb.copy()
			elif eb.lazy and not ea.lazy and 'combine-left-binding-shadows-right-lazy-definition' in self.dev:
				n.ents[s] = ea.copy()
			else:
				e = eb.copy()
				if not eb.lazy and eb.inst is None and ea.inst is not None and 'combine-left-instance-shadows-right-binding' in self.dev:
					e.inst = ea.inst
				n.ents[s] = e
		return n

	def show_obj(self, o: tuple) -> str:
		if o[1] in self.w.nonef:
			return f'none/n{self.serial}'
		return f"i{o[0]}:f{o[1]}({','.join(o[2])})"

	def step(self, op: tuple) -> str:
		k = op[0]
		try:
			if k == 'reset':
				self.conts = []
				self.serial = 0
				return 'ok'
			if k == 'raw':
				return 'bad-op'
			if k == 'new':
				c = RefCont(op[1])
				if op[1] == 'lazy':
					for s, inj in op[2]:
						c.ents[s] = RefEntry(inj, True, None)
				self.conts.append(c)
				return f'c{len(self.conts) - 1}'
			if k in ('clone', 'combine') and any(i >= len(self.conts) for i in op[1:]):
				return 'bad-op'
			if k == 'clone':
				src = self.conts[op[1]]
				c = RefCont(src.kind)
				c.ents = {s: e.copy() for s, e in src.ents.items()}
				self.conts.append(c)
				return f'c{len(self.conts) - 1}'
			if k == 'combine':
				self.conts.append(self.combine(self.conts[op[1]], self.conts[op[2]]))
				return f'c{len(self.conts) - 1}'
			if op[1] >= len(self.conts):
				return 'bad-op'
			c = self.conts[op[1]]
			if k == 'bind':
				e = c.ents.get(op[2][0])
				# a definition that was never resolved is not a binding of the base registry: bind replaces it
				if e is not None and not e.lazy:
					raise RefError('ValueError')
				c.ents[op[2][0]] = RefEntry(('f', op[3]), False, None)
				return 'ok'
			if k == 'rebind':
				c.ents[op[2][0]] = RefEntry(('f', op[3]), False, None)
				return 'ok'
			if k == 'unbind':
				c.ents.pop(op[2][0], None)
				return 'ok'
			if k == 'resolve':
				return self.show_obj(self.resolve(c, op[2]))
			if k == 'can':
				return 'true' if self.can(c, op[2]) else 'false'
			if k == 'invoke':
				return self.show_obj(self.invoke(c, op[2], list(op[3])))
			raise AssertionError(op)
		except RefError as e:
			return e.kind

	def run(self, ops: list[tuple]) -> list[str]:
		self.conts = []
		self.serial = 0
		return [self.step(op) for op in ops]


def run_ref(w: World, ops: list[tuple], dev: frozenset[str]) -> list[str]:
	return Reference(w, dev).run(ops)


# ---------------------------------------------------------------------------------------------
# generator


def gen_case(w: World, rng: random.Random, max_ops: int, search: bool) -> list[tuple]:
	"""One op sequence. The ideal reference is stepped alongside so that most invoke calls get matching arguments."""
	ref = Reference(w, IDEAL)
	ops: list[tuple] = []
	fids = list(range(len(w.factories)))
	alias_groups = [[8, 9], [10, 11], [12, 13], [4, 5], [19, 20], [21, 22]]
	xid = [0]
	profile = rng.choice(['mixed', 'mixed', 'invoke', 'combine', 'lazy'])

	mappings: list[list] = []  # the definitions of every `new lazy` that passed a fresh mapping object, in order

	def emit(op: tuple) -> None:
		if op[0] == 'new' and op[1] == 'lazy' and len(op) == 3:
			mappings.append(op[2])
		ops.append(op)
		ref.step(op)

	def again() -> None:
		# several containers from ONE mapping object (e.g. a module-level DEFINITIONS dict)
		j = rng.randrange(len(mappings))
		emit(('new', 'lazy', mappings[j], 'same', j))

	def rsym(c: int | None = None, want_bound: bool | None = None) -> tuple[int, bool]:
		k = rng.choice(NESTED_SYMS) if rng.random() < 0.3 else rng.randrange(NSYM)
		if c is not None and want_bound is not None and rng.random() < 0.75:
			ents = ref.conts[c].ents
			pool = [s for s in ALLSYMS if (s in ents) == want_bound]
			if pool:
				k = rng.choice(pool)
		return (k, k in (4, 5) and rng.random() < 0.6)

	def rfid_for(c: int, s: int) -> int:
		"""mostly a factory whose annotated parameters do not lead back to `s` directly (fewer immediate cycles)"""
		for _ in range(6):
			fid = rfid()
			if rng.random() < 0.2 or all(p is not None and p[0] != s and p[0] in ALLSYMS for p in w.desc[fid][1]):
				return fid
		return fid

	def rfid() -> int:
		if rng.random() < 0.35:
			return rng.choice(rng.choice(alias_groups))
		return rng.choice(fids)

	def rinj() -> tuple:
		r = rng.random()
		if r < 0.45:
			return ('f', rfid())
		if r < 0.92:
			n = rng.randrange(len(w.by_name))
			return ('n', n, w.name_fid[w.by_name[n]])
		return ('n', rng.randrange(3), rng.choice(['attr', 'mod']))

	def new_cont() -> None:
		if mappings and rng.random() < 0.35:
			again()
		elif rng.random() < (0.7 if profile == 'lazy' else 0.45):
			syms = rng.sample(ALLSYMS if rng.random() < 0.3 else range(NSYM), rng.randint(0, 4))
			emit(('new', 'lazy', [(s, rinj()) for s in syms]))
		else:
			emit(('new', 'di'))

	def rargs(c: int, fid: int) -> list[tuple[int, int]]:
		_, params = w.desc[fid]
		annos = [p for p in params if p is not None]
		n = 0
		cont = ref.conts[c]
		for a in annos:
			if a[0] not in cont.ents:
				break
			n += 1
		args = []
		for a in annos[n:]:
			xid[0] += 1
			args.append((xid[0], a[0]))
		r = rng.random()
		if r < 0.10 and args:
			args.pop(rng.randrange(len(args)))
		elif r < 0.22:
			xid[0] += 1
			args.append((xid[0], rng.choice([TY_STR, TY_INT, 0, 2])))
		elif r < 0.30 and args:
			i = rng.randrange(len(args))
			args[i] = (args[i][0], rng.choice([TY_STR, TY_INT, 1, 4]))
		elif r < 0.34:
			args = []
		return args

	def valid_args(c: int, fid: int) -> list[tuple[int, int]]:
		annos = [p for p in w.desc[fid][1] if p is not None]
		n = 0
		for a in annos:
			if a[0] not in ref.conts[c].ents:
				break
			n += 1
		out = []
		for a in annos[n:]:
			xid[0] += 1
			out.append((xid[0], a[0]))
		return out

	def bad_args(c: int, fid: int) -> list[tuple[int, int]]:
		args = valid_args(c, fid)
		r = rng.random()
		xid[0] += 1
		if r < 0.35 or not args:
			return [*args, (xid[0], rng.choice([TY_STR, TY_INT, 0]))]
		if r < 0.7:
			i = rng.randrange(len(args))
			return [*args[:i], (args[i][0], TY_INT if args[i][1] != TY_INT else TY_STR), *args[i + 1:]]
		return args[:-1]

	def scenario() -> None:
		"""structured prefixes: history shapes the property names explicitly (DESIGN §5 C19, CONVENTIONS 15/16)"""
		kind = rng.choice(['invoke-combine-invoke', 'generic-alias', 'combine-after-resolve', 'clone-lazy', 'production-shape', 'shared-mapping', 'none', 'none'])
		lazy = rng.random() < 0.5
		if kind == 'none':
			new_cont()
			if rng.random() < 0.5:
				new_cont()
			return
		if kind == 'shared-mapping':
			# siblings instantiated from one mapping object; what one of them binds / unbinds / materialises is its own business
			defs = [(s, rinj()) for s in rng.sample(range(NSYM), rng.randint(0, 3))]
			emit(('new', 'lazy', defs))
			j = len(mappings) - 1
			for _ in range(rng.randint(1, 2)):
				if len(ref.conts) < MAX_CONTS - 1:
					emit(('new', 'lazy', defs, 'same', j))
			n = len(ref.conts)
			for _ in range(rng.randint(2, 5)):
				a = rng.randrange(n)
				b = rng.choice([x for x in range(n) if x != a])
				s = rsym(a, rng.random() < 0.5)
				r = rng.random()
				if r < 0.4:
					emit(('bind', a, s, rng.choice(LEAF)))
				elif r < 0.7:
					emit(('unbind', a, s))
				elif r < 0.85:
					emit(('rebind', a, s, rng.choice(LEAF)))
				else:
					emit(('resolve', a, s))
				emit(('can', b, (s[0], False)))
				if rng.random() < 0.6:
					emit(('resolve', b, (s[0], False)))
			if len(ref.conts) < MAX_CONTS:
				emit(('new', 'lazy', defs, 'same', j))
				c = len(ref.conts) - 1
				for s, _ in defs[:2]:
					emit(('can', c, (s, False)))
			return
		emit(('new', 'lazy', [(s, rinj()) for s in rng.sample(ALLSYMS if rng.random() < 0.25 else range(NSYM), rng.randint(0, 3))]) if lazy else ('new', 'di'))
		if kind == 'invoke-combine-invoke':
			fid = rng.choice([1, 2, 3, 4, 8, 9, 10, 11, 16, 17, 18])
			for p in w.desc[fid][1]:
				if p is not None and p[0] in ALLSYMS and rng.random() < 0.6:
					emit(('bind', 0, p, rng.choice(LEAF)))
			emit(('invoke', 0, fid, valid_args(0, fid)))
			emit(('new', 'lazy', [(rng.randrange(NSYM), rinj())]) if lazy else ('new', 'di'))
			if rng.random() < 0.5:
				emit(('bind', 1, rsym(1, False), rng.choice(LEAF)))
			emit(('combine', 0, 1) if rng.random() < 0.7 else ('clone', 0))
			emit(('invoke', 2, fid, bad_args(2, fid)))
			emit(('invoke', 2, fid, valid_args(2, fid)))
			emit(('invoke', 0, fid, bad_args(0, fid)))
		elif kind == 'generic-alias':
			k = rng.choice([4, 5])
			emit(('bind', 0, (k, rng.random() < 0.5), rng.choice(LEAF)))
			emit(('resolve', 0, (k, rng.random() < 0.5)))
			emit(rng.choice([('unbind', 0, (k, True)), ('rebind', 0, (k, True), rng.choice(LEAF2)), ('rebind', 0, (k, False), 12)]))
			emit(('can', 0, (k, rng.random() < 0.5)))
			emit(('resolve', 0, (k, rng.random() < 0.5)))
			emit(('bind', 0, (k, rng.random() < 0.5), 0))
			emit(('resolve', 0, (k, False)))
		elif kind == 'combine-after-resolve':
			s = rsym()
			emit(('bind', 0, s, rng.choice(LEAF)))
			if rng.random() < 0.7:
				emit(('resolve', 0, s))
			emit(('new', 'lazy', [(s[0], rinj())] if rng.random() < 0.6 else []) if lazy else ('new', 'di'))
			if not lazy or rng.random() < 0.4:
				emit(('bind', 1, s, rng.choice(LEAF)))
			if rng.random() < 0.5:
				emit(('resolve', 1, s))
			emit(('combine', 0, 1))
			emit(('resolve', 2, s))
			emit(('rebind', 2, s, rng.choice(LEAF2)))
			for c in rng.sample([0, 1, 2], 3):
				emit(('resolve', c, s))
		elif kind == 'production-shape':
			# providers/app.py + providers/syntax/entrypoints.py in miniature: a shared container, then per "module": pre-resolve in the
			# shared one, a fresh container of definitions, combine, rebind two symbols, bind one, resolve; shared resolves interleaved
			universe = ALLSYMS if rng.random() < 0.5 else list(range(NSYM))
			pre = rng.sample(universe, 2)
			for p in pre:
				if p not in ref.conts[0].ents:
					emit(('bind', 0, (p, False), rng.choice(LEAF)))
			for _ in range(rng.randint(1, 2)):
				if len(ref.conts) + 2 > MAX_CONTS:
					break
				for p in pre:
					if rng.random() < 0.85:
						emit(('resolve', 0, (p, p in (4, 5) and rng.random() < 0.5)))
				local = [x for x in universe if x not in pre]
				emit(('new', 'lazy', [(x, rinj()) for x in rng.sample(local, rng.randint(1, 3))]))
				d = len(ref.conts) - 1
				emit(('combine', 0, d))
				m = len(ref.conts) - 1
				emit(('rebind', m, (pre[0], False), rng.choice(LEAF)))
				emit(('bind', m, rsym(m, False), rng.choice(LEAF)))
				emit(('resolve', m, rsym(m, True)))
				emit(('resolve', 0, rsym(0, True)))
				for p in pre:
					emit(('resolve', m, (p, False)))
		elif kind == 'clone-lazy':
			s = rsym(0, True)
			emit(('clone', 0))
			emit(('resolve', 1, s))
			emit(('resolve', 0, s))
			emit(('resolve', 1, s))

	scenario()
	n_ops = rng.randint(max(4, max_ops // 3), max_ops)
	last_inv: tuple | None = None
	while len(ops) < n_ops:
		nc = len(ref.conts)
		c = rng.randrange(nc)
		r = rng.random()
		w_inv = 0.30 if profile == 'invoke' else 0.14
		w_comb = 0.20 if profile in ('combine', 'lazy') else 0.08
		if r < 0.17:
			s = rsym(c, False)
			emit(('bind', c, s, rfid_for(c, s[0])))
		elif r < 0.25:
			s = rsym(c, True)
			emit(('rebind', c, s, rfid_for(c, s[0])))
		elif r < 0.31:
			emit(('unbind', c, rsym(c, True)))
		elif r < 0.31 + 0.27:
			emit(('resolve', c, rsym(c, True)))
		elif r < 0.58 + 0.08:
			emit(('can', c, rsym()))
		elif r < 0.66 + w_inv:
			if last_inv is not None and rng.random() < 0.3:
				# repeat an earlier call (same container, same or aliased factory) with fresh arguments
				c, fid = last_inv
				if rng.random() < 0.4:
					for g in alias_groups:
						if fid in g:
							fid = rng.choice(g)
			else:
				fid = rfid()
			emit(('invoke', c, fid, rargs(c, fid)))
			last_inv = (c, fid)
		elif r < 0.66 + w_inv + w_comb:
			if nc < MAX_CONTS:
				if rng.random() < 0.3:
					emit(('clone', c))
				else:
					emit(('combine', c, rng.randrange(nc)))
			else:
				emit(('resolve', c, rsym(c, True)))
		elif r < 0.66 + w_inv + w_comb + 0.04:
			if nc < MAX_CONTS:
				new_cont()
		else:
			emit(('can', c, rsym()))
	return ops


def classify_case(ops: list[tuple]) -> str:
	kinds = Counter(op[0] for op in ops)
	lazy = any(op[0] == 'new' and op[1] == 'lazy' for op in ops)
	return f"{'lazy' if lazy else 'di'}:ops<{(len(ops) // 10 + 1) * 10}:{'comb' if kinds['combine'] + kinds['clone'] else 'nocomb'}"


# ---------------------------------------------------------------------------------------------
# corpus (defect witnesses and minimised past disagreements; replayed first)


def corpus_dir() -> str:
	return os.path.join(common.CORPUS_DIR, PROP)


def load_corpus() -> list[tuple[str, list[tuple]]]:
	out = []
	d = corpus_dir()
	if os.path.isdir(d):
		for fn in sorted(os.listdir(d)):
			if fn.endswith('.json'):
				with open(os.path.join(d, fn), encoding='utf-8') as f:
					rec = json.load(f)
				out.append((fn, [op_from_json(j) for j in rec['ops']]))
	return out


# ---------------------------------------------------------------------------------------------
# streams


def stream_di(ctx: Ctx, w: World) -> Stream:
	rng = ctx.sub_rng('di')
	cases = []
	hist_out: Counter[str] = Counter()
	for name, ops in load_corpus():
		full = [('reset',), *ops]
		cases.append(({'kind': 'corpus', 'name': name, 'ops': full}, [op_line(w, o) for o in full], run_real(w, full)))
	n = ctx.scale(2500, 9000)
	max_ops = ctx.scale(30, 200)
	deadline = time.time() + ctx.scale(40, 300)
	for i in range(n):
		if time.time() > deadline:
			hist_out['skipped-by-deadline'] += n - i
			break
		ops = [('reset',), *gen_case(w, rng, max_ops if i % 4 else max(8, max_ops // 3), search=False)]
		real = run_real(w, ops)
		for o in real:
			hist_out['none' if o.startswith('none') else o if not o.startswith(('i', 'c')) else o[0]] += 1
		cases.append(({'kind': 'random', 'ops': ops}, [op_line(w, o) for o in ops], real))
	st = common.correspond('di', cases, 'di', classify=lambda d: classify_case(d['ops']))
	for d in st.disagreements:
		if isinstance(d.get('case'), dict):
			d['case'] = {'kind': d['case'].get('kind'), 'ops_json': [op_to_json(o) for o in d['case']['ops']]}
	st.histogram = {**st.histogram, **{f'out:{k}': v for k, v in sorted(hist_out.items())}}
	st.note = (f'op sequences (<= {max_ops} ops) over 6 module-level symbol classes (2 generic) + 4 same-named nested / function-local classes (Reader.Setting, Writer.Setting, two local Setting; also used as factories), {len(w.factories)} factories (classes, functions, bound methods, '
		'callable objects with/without __qualname__, closures and redefinitions sharing a qualified name, two bound methods of one function, lambdas, unannotated parameters, return annotations, a default value, '
		'factories that raise, return None or return a falsy empty object), remaining arguments incl. subclass instances, '
		'by-name definitions through a scratch module (incl. missing attribute / missing module), several LazyDI containers instantiated from one mapping object, <= 5 containers; '
		'observations: creation serial + factory + argument identities of resolved/invoked instances, can_resolve, exception enum, and ownership: a new container shares no dictionary object with another container or with a mapping the caller passed, and the caller\'s mappings keep their items')
	return st


def stream_malformed(ctx: Ctx, w: World) -> Stream:
	rng = ctx.sub_rng('malformed')
	cases = []
	for _ in range(ctx.scale(40, 300)):
		ops: list[tuple] = [('reset',), ('new', 'di')]
		for _ in range(6):
			r = rng.random()
			if r < 0.3:
				ops.append(('resolve', rng.randint(1, 9), (rng.randrange(NSYM), False)))
			elif r < 0.45:
				ops.append(('combine', rng.randint(0, 3), rng.randint(1, 5)))
			elif r < 0.55:
				ops.append(('clone', rng.randint(1, 5)))
			elif r < 0.8:
				ops.append(('raw', rng.choice(['bind\t0\ts1', 'bind\t0\tq1\tf0/0/-', 'invoke\t0\tf1/0/s0;s1\t-', 'resolve\tx\ts0', 'new\tlazy\ts0', 'frob', 'bind\t0\ts0\tf0/0/s', 'invoke\t0\tf1/1/s0\tx1'])))
			else:
				ops.append(('bind', 0, (rng.randrange(NSYM), False), rng.randrange(3)))
		cases.append(({'kind': 'malformed', 'ops': ops}, [op_line(w, o) for o in ops], run_real(w, ops)))
	st = common.correspond('di-malformed', cases, 'di', classify=lambda d: 'malformed')
	st.note = 'ops naming containers that do not exist and unparsable op lines: bad-op on both sides, state unchanged'
	return st


# ---------------------------------------------------------------------------------------------
# production stream: the op sequences tranp itself performs (providers/app.py di_container, providers/syntax/entrypoints.py)


PROD_SOURCES = [
	'class A:\n\tdef f(self, n: int) -> int:\n\t\treturn n + 1\n\nx = A().f(1)\n',
	'def g(a: int, b: str) -> str:\n\treturn b\n\ny = g(1, "s")\n',
	'from typing import Generic, TypeVar\n\nT = TypeVar("T")\n\nclass B(Generic[T]):\n\tdef __init__(self, v: T) -> None:\n\t\tself.v: T = v\n\nz = B[int](1).v\n',
	'values = [1, 2, 3]\nfor v in values:\n\tprint(v)\n',
]
PROD_MODULES = ['rogw.tranp.lang.locator', 'rogw.tranp.module.types', 'rogw.tranp.lang.convertion', 'rogw.tranp.lang.sequence',
	'rogw.tranp.lang.dict', 'rogw.tranp.lang.annotation', 'rogw.tranp.errors']
NO_TYPE = 999999


class ProdLog:
	"""Runs real tranp work on logging subclasses of LazyDI and translates the log into model op lines.

	Nothing in /repo is instrumented: `LazyDI.instantiate` / `_clone` create instances of the receiver's class, so a subclass
	defined here sees every call the production code makes on the shared and on the per-module containers.
	"""

	def __init__(self) -> None:
		from rogw.tranp.lang.di import LazyDI

		self.entries: list[tuple] = []
		self.conts: list[Any] = []
		self.keep: list[Any] = []
		self.depth = 0
		self.reentrant = 0
		log = self

		def external() -> bool:
			return not sys._getframe(2).f_code.co_filename.replace(os.sep, '/').endswith('lang/di.py')

		class LogDI(LazyDI):
			def __init__(self) -> None:
				super().__init__()
				log.conts.append(self)
				self.cid = len(log.conts) - 1
				self.defs_logged = False

			@classmethod
			def instantiate(cls, definitions: dict) -> Any:
				di = super().instantiate(definitions)
				log.entries.append(('new', di.cid, dict(definitions)))
				return di

			def _run(self, ext: bool, kind: str, payload: tuple, fn: Any) -> Any:
				if not ext:
					return fn()
				# a factory may itself call a container (e.g. a handler run through `invoker` that uses `invoker` again): such a
				# nested call starts after every container effect of the enclosing invoke, so the log keeps *start* order
				if log.depth > 0:
					log.reentrant += 1
				log.depth += 1
				entry = [kind, self.cid, *payload, None]
				log.entries.append(entry)
				try:
					r = fn()
					entry[-1] = ('ok', r)
					return r
				except Exception as e:  # noqa: BLE001
					entry[-1] = ('err', e)
					raise
				finally:
					log.depth -= 1

			def resolve(self, symbol: Any) -> Any:
				return self._run(external(), 'resolve', (symbol,), lambda: LazyDI.resolve(self, symbol))

			def can_resolve(self, symbol: Any) -> bool:
				return self._run(external(), 'can', (symbol,), lambda: LazyDI.can_resolve(self, symbol))

			def bind(self, symbol: Any, injector: Any) -> None:
				return self._run(external(), 'bind', (symbol, injector), lambda: LazyDI.bind(self, symbol, injector))

			def rebind(self, symbol: Any, injector: Any) -> None:
				return self._run(external(), 'rebind', (symbol, injector), lambda: LazyDI.rebind(self, symbol, injector))

			def unbind(self, symbol: Any) -> None:
				return self._run(external(), 'unbind', (symbol,), lambda: LazyDI.unbind(self, symbol))

			def invoke(self, factory: Any, *args: Any) -> Any:
				if not external():
					return LazyDI.invoke(self, factory, *args)
				# how many leading annotations the container can resolve right now decides which remaining argument is
				# checked against which annotation (observed before the call; can_resolve is pure)
				annos = [p.annotation for p in inspect.signature(factory).parameters.values() if p.annotation is not p.empty]
				n = 0
				for a in annos:
					if not LazyDI.can_resolve(self, a):
						break
					n += 1
				tys = []
				for i, arg in enumerate(args):
					exp = annos[n + i] if n + i < len(annos) else None
					ok = exp is not None and isinstance(arg, getattr(exp, '__origin__', exp))
					tys.append(exp if ok else None)
				return self._run(True, 'invoke', (factory, tuple(tys)), lambda: LazyDI.invoke(self, factory, *args))

			def combine(self, other: Any) -> Any:
				r = LazyDI.combine(self, other)
				log.entries.append(('combine', self.cid, dict(other._LazyDI__definitions), r.cid))
				return r

		self.cls = LogDI


def production_run(ctx: Ctx, rng: random.Random, n_sources: int, n_modules: int) -> tuple[ProdLog, Any]:
	"""di_container(...) re-enacted on the logging class, then real work: Modules.load of in-memory sources (which loads the
	standard library modules through per-module containers) and Entrypoints.load of real modules."""
	from rogw.tranp.app.config import default_definitions
	from rogw.tranp.lang.annotation import duck_typed
	from rogw.tranp.lang.locator import Invoker, Locator
	from rogw.tranp.lang.module import to_fullyname
	from rogw.tranp.module.modules import Modules
	from rogw.tranp.module.types import ModulePath, ModulePaths
	from rogw.tranp.providers.module import module_path_dummy
	from rogw.tranp.providers.syntax.ast import source_provider
	from rogw.tranp.syntax.ast.entrypoints import Entrypoints
	from rogw.tranp.syntax.ast.parser import SourceProvider

	if PRODUCTION_STATE['timed_out']:
		raise RuntimeError('an earlier production run of this check did not finish within its budget; not started again')
	log = ProdLog()
	main = module_path_dummy().path
	src = {'v': ''}
	real_sp: dict[str, Any] = {}

	@duck_typed(SourceProvider)
	def provider(module_path: str) -> str:
		return src['v'] if module_path == main else real_sp['f'](module_path)

	defs = {**default_definitions(), **common.tranp_definitions(ctx.tmpdir(), {
		to_fullyname(ModulePaths): lambda: [ModulePath(main, language='py')],
		to_fullyname(SourceProvider): lambda: provider,
	})}
	# providers/app.py:17-20
	di = log.cls.instantiate(defs)
	di.bind(Locator, lambda: di)
	di.bind(Invoker, lambda: di.invoke)
	real_sp['f'] = di.invoke(source_provider)
	mods = di.resolve(Modules)
	eps = di.resolve(Entrypoints)
	work: list[tuple[str, str]] = [('src', s) for s in rng.sample(PROD_SOURCES, min(n_sources, len(PROD_SOURCES)))]
	work += [('mod', m) for m in rng.sample(PROD_MODULES, min(n_modules, len(PROD_MODULES)))]
	rng.shuffle(work)
	for kind, what in work:
		try:
			if kind == 'src':
				src['v'] = what
				mods.unload(main)
				eps.unload(main)
				mods.load(main)
			else:
				eps.load(what)
		except Exception:  # noqa: BLE001 - a module outside the grammar still leaves its container ops in the log
			pass
	return log, di


def production_case(ctx: Ctx, w: World, rng: random.Random, n_sources: int, n_modules: int, n_probes: int) -> tuple[dict, list[str], list[str]]:
	from rogw.tranp.lang.di import LazyDI
	from rogw.tranp.lang.module import load_module_path

	log, _ = production_run(ctx, rng, n_sources, n_modules)
	# probes: queries the production code does not make, on every container it made (sharing, isolation, closures)
	seen_syms: list[Any] = []
	for e in log.entries:
		if e[0] in ('resolve', 'can', 'bind', 'rebind', 'unbind') and e[2] not in seen_syms:
			seen_syms.append(e[2])
		if e[0] in ('new', 'combine'):
			for path in e[2]:
				cls = load_module_path(path)
				if cls not in seen_syms:
					seen_syms.append(cls)
	resolved_somewhere = [e[2] for e in log.entries if e[0] == 'resolve' and e[-1][0] == 'ok']
	for _ in range(n_probes):
		c = rng.choice(log.conts)
		sym = rng.choice(seen_syms)
		try:
			if rng.random() < 0.5 or sym not in resolved_somewhere:
				c.can_resolve(sym)
			else:
				c.resolve(sym)
		except Exception:  # noqa: BLE001
			pass

	sym_ids: dict[Any, int] = {}
	fac_ids: dict[int, int] = {}
	aid_ids: dict[Any, int] = {}
	obj_ids: dict[int, int] = {}
	keep: list[Any] = []

	full_names: dict[str, Any] = {}

	def sym(s: Any) -> str:
		origin = getattr(s, '__origin__', s)
		# assumption of the model (LazyDI keys by to_fullyname, DI by class object): different symbol classes have different full names
		full = f"{getattr(origin, '__module__', '?')}.{getattr(origin, '__qualname__', repr(origin))}"
		if full_names.setdefault(full, origin) is not origin:
			raise AssertionError(f'two symbol classes of the production run share the full name {full}: the path keys of LazyDI and the class keys of DI are not in bijection')
		k = sym_ids.setdefault(origin, len(sym_ids))
		return f"{'g' if origin is not s else 's'}{k}"

	def fac(f: Any) -> str:
		keep.append(f)
		fid = fac_ids.setdefault(id(f), len(fac_ids))
		if isinstance(f, (FunctionType, MethodType)):
			annotated = f
		elif not isinstance(f, type) and hasattr(f, '__call__'):
			annotated = f.__call__
		else:
			annotated = f.__init__
		aid = aid_ids.setdefault(annotated, len(aid_ids))
		ps = []
		for p in inspect.signature(f).parameters.values():
			assert p.kind == p.POSITIONAL_OR_KEYWORD and p.default is p.empty, (f, p)
			ps.append('_' if p.annotation is p.empty else sym(p.annotation))
		return f"f{fid}/{aid}/{','.join(ps) or '-'}"

	def defs_txt(d: dict) -> str:
		items = []
		names: dict[str, int] = {}
		for path, inj in d.items():
			key = sym(load_module_path(path))
			if isinstance(inj, str):
				n = names.setdefault(inj, len(names))
				try:
					items.append(f'{key}=n{n}@{fac(load_module_path(inj))}')
				except ModuleNotFoundError:
					items.append(f'{key}=n{n}!mod')
				except AttributeError:
					items.append(f'{key}=n{n}!attr')
			else:
				items.append(f'{key}={fac(inj)}')
		return ';'.join(items) or '-'

	def obj(o: Any) -> str:
		keep.append(o)
		return f'obj#{obj_ids.setdefault(id(o), len(obj_ids))}'

	lines: list[str] = ['reset']
	real: list[str] = ['ok']
	cmap: dict[int, int] = {}
	n_model = 0
	xid = 0
	kinds: Counter[str] = Counter()
	for e in log.entries:
		kind = e[0]
		if kind in ('resolve', 'invoke') and e[-1] is not None and e[-1][0] == 'err' and exc_enum(e[-1][1]).startswith(('Errors.', 'Other:')):
			# the body of a real factory raised (e.g. a module outside the grammar): model factories do not fail, stop here
			kinds['truncated-at-factory-error'] += 1
			break
		kinds[kind] += 1
		if kind == 'new':
			lines.append(f'new\tlazy\t{defs_txt(e[2])}')
			cmap[e[1]] = n_model
			real.append(f'c{n_model}')
			n_model += 1
		elif kind == 'combine':
			lines.append(f'new\tlazy\t{defs_txt(e[2])}')
			real.append(f'c{n_model}')
			lines.append(f'combine\t{cmap[e[1]]}\t{n_model}')
			cmap[e[3]] = n_model + 1
			real.append(f'c{n_model + 1}')
			n_model += 2
		else:
			c = cmap[e[1]]
			res = e[-1]
			if kind in ('bind', 'rebind'):
				lines.append(f'{kind}\t{c}\t{sym(e[2])}\t{fac(e[3])}')
				real.append('ok' if res[0] == 'ok' else exc_enum(res[1]))
			elif kind == 'unbind':
				lines.append(f'unbind\t{c}\t{sym(e[2])}')
				real.append('ok' if res[0] == 'ok' else exc_enum(res[1]))
			elif kind == 'can':
				lines.append(f'can\t{c}\t{sym(e[2])}')
				real.append(('true' if res[1] else 'false') if res[0] == 'ok' else exc_enum(res[1]))
			elif kind == 'resolve':
				lines.append(f'resolve\t{c}\t{sym(e[2])}')
				real.append(obj(res[1]) if res[0] == 'ok' else exc_enum(res[1]))
			elif kind == 'invoke':
				args = []
				for t in e[3]:
					xid += 1
					args.append(f"x{xid}:{NO_TYPE if t is None else sym_ids.setdefault(getattr(t, '__origin__', t), len(sym_ids))}")
				lines.append(f"invoke\t{c}\t{fac(e[2])}\t{','.join(args) or '-'}")
				real.append('obj' if res[0] == 'ok' else exc_enum(res[1]))
	desc = {'kind': 'production', 'ops': len(lines), 'containers': n_model, 'reentrant': log.reentrant, 'kinds': dict(kinds)}
	return desc, lines, real


def canon_model_production(lines: list[str], outs: list[str]) -> list[str]:
	"""resolve -> first-seen numbering of instance ids; invoke -> `obj` (a factory may hand back an existing object)"""
	ids: dict[str, int] = {}
	res = []
	for line, o in zip(lines, outs):
		if line.startswith('resolve\t') and o.startswith('i'):
			res.append(f"obj#{ids.setdefault(o.split(':')[0], len(ids))}")
		elif line.startswith('invoke\t') and o.startswith('i'):
			res.append('obj')
		else:
			res.append(o)
	return res


def stream_wiring(ctx: Ctx) -> Stream:
	"""The generated statement lists (translator: ast of providers/app.py and entrypoints.py) against what really executes."""
	from rogw.tranp.lang.module import to_fullyname
	from translate import gen_di_wiring

	st = Stream('di-wiring')
	try:
		t = gen_di_wiring.load()
	except Exception as e:  # noqa: BLE001 - reported by run() as a broken translator; nothing to compare here
		st.cases = 1
		st.disagreements.append({'case': {'kind': 'wiring'}, 'op_index': 0, 'op': 'translate', 'real': f'{type(e).__name__}: {e}', 'model': 'no generated table', 'ops': []})
		return st
	name = {k: path for path, k in t['syms'].items()}
	r = t['roles']
	expect_head = [('bind', name[r['locator']]), ('bind', name[r['invoker']])]
	expect_pre = [('resolve', name[k]) for k in r['pre']]
	expect_tail = [('rebind', name[r['locator']]), ('rebind', name[r['invoker']]), ('bind', name[r['modulePath']]), ('resolve', name[r['entrypoint']])]
	dep_paths = {name[k]: text for k, _, (_, text, _) in t['deps']}
	try:
		with budget(PRODUCTION_BUDGET_S):
			log, shared = production_run(ctx, ctx.sub_rng('wiring'), 1, ctx.scale(2, 4))
	except (BudgetExceeded, Exception) as e:  # noqa: BLE001
		if isinstance(e, BudgetExceeded):
			PRODUCTION_STATE['timed_out'] = True
		st.cases = 1
		st.disagreements.append({'case': {'kind': 'wiring'}, 'op_index': 0, 'op': 'production run', 'real': f'{type(e).__name__}: {str(e)[:300]}', 'model': 'runs', 'ops': []})
		return st
	ents = log.entries

	def sig(e: Any) -> tuple[str, str]:
		try:
			return (e[0], to_fullyname(getattr(e[2], '__origin__', e[2])))
		except Exception:  # noqa: BLE001 - an entry that names no symbol (new / combine) where a statement on a symbol is expected
			return (str(e[0]), f'<{type(e[2]).__name__}>')

	def differ(what: str, real: Any, gen: Any) -> None:
		st.disagreements.append({'case': {'kind': 'wiring', 'what': what}, 'op_index': 0, 'op': what, 'real': repr(real)[:600], 'model': repr(gen)[:600], 'ops': []})

	st.cases += 1
	head = [sig(e) for e in ents[1:3]] if len(ents) >= 3 and ents[0][0] == 'new' else None
	if head != expect_head:
		differ('di_container statements', head, expect_head)
	for i, e in enumerate(ents):
		if e[0] != 'combine':
			continue
		st.cases += 1
		m = e[3]
		pre = [sig(x) for x in ents[max(0, i - len(expect_pre)):i] if x[1] == shared.cid]
		if pre != expect_pre:
			differ(f'pre-resolves before combine -> c{m}', pre, expect_pre)
		if dict(e[2]) != dep_paths:
			differ(f'dependency definitions of c{m}', dict(e[2]), dep_paths)
		tail = [sig(x) for x in ents[i + 1:i + 1 + len(expect_tail)] if x[1] == m]
		if tail != expect_tail:
			differ(f'statements after combine -> c{m}', tail, expect_tail)
	st.distinct = st.cases
	st.histogram = {'combines': st.cases - 1}
	st.note = ('the op log of real module loads (logging subclass, nothing instrumented) against the GENERATED shapes: di_container = instantiate + bind Locator + bind Invoker; '
		'every per-module container = pre-resolves in the shared one, combine with the generated dependency table, rebind Locator, rebind Invoker, bind ModulePath, resolve Entrypoint')
	return st


def stream_production(ctx: Ctx, w: World) -> Stream:
	rng = ctx.sub_rng('production')
	st = Stream('di-production')
	hist: Counter[str] = Counter()
	deadline = time.time() + ctx.scale(60, 300)
	for i in range(ctx.scale(2, 6)):
		if time.time() > deadline:
			hist['skipped-by-deadline'] += 1
			continue
		try:
			with budget(PRODUCTION_BUDGET_S):
				desc, lines, real = production_case(ctx, w, rng, ctx.scale(1, 2), ctx.scale(2, 4), ctx.scale(150, 600))
		except BudgetExceeded:
			PRODUCTION_STATE['timed_out'] = True
			st.cases += 1
			st.disagreements.append({'case': {'kind': 'production', 'case_index': i}, 'op_index': 0, 'op': 'production run', 'real': f'no result within {PRODUCTION_BUDGET_S}s of CPU time', 'model': 'terminates', 'ops': []})
			continue
		except Exception as e:  # noqa: BLE001 - real module loading (or its translation) failed: reported, never a crash
			st.cases += 1
			st.disagreements.append({'case': {'kind': 'production', 'case_index': i}, 'op_index': 0, 'op': 'production run', 'real': f'{exc_enum(e)}: {str(e)[:300]}', 'model': 'runs', 'ops': []})
			continue
		model = canon_model_production(lines, common.lean_driver('di', lines, timeout=300))
		st.cases += 1
		st.distinct += 1
		for k, v in desc['kinds'].items():
			hist[f'op:{k}'] += v
		hist['containers'] += desc['containers']
		hist['reentrant-calls'] += desc['reentrant']
		for j, (ln, r, m) in enumerate(zip(lines, real, model)):
			if r != m:
				st.disagreements.append({'case': {'kind': 'production', 'case_index': i}, 'op_index': j, 'op': ln, 'real': r, 'model': m,
					'ops': lines[max(0, j - 40):j + 1]})
				break
		if len(st.samples) < 2:
			st.samples.append({'ops': [ln for ln in lines if not ln.startswith('invoke')][:12], 'real': real[:4], 'size': desc})
	st.histogram = dict(hist)
	st.note = ('op log of real tranp work on logging subclasses of LazyDI (nothing in /repo instrumented): di_container re-enacted, Modules.load of in-memory '
		'sources (loads the standard library through per-module containers built by providers/syntax/entrypoints.py) and Entrypoints.load of real modules, '
		'followed by random can/resolve probes on every container; the log (new / bind / rebind / resolve / can / invoke / combine with container ids) is fed '
		'to the Lean model; observations: container ids, can answers, exception enum, first-seen numbering of resolved instance identities')
	return st


# ---------------------------------------------------------------------------------------------
# search: real code vs the ideal reference


def exhibited(w: World, ops: list[tuple], real: list[str]) -> tuple[bool, list[str]]:
	"""(some set of repaired defects explains the real outputs, the smallest such set) — called only when real != ideal"""
	for size in range(1, len(DEVIATIONS) + 1):
		for sub in itertools.combinations(DEVIATIONS, size):
			if run_ref(w, ops, frozenset(sub)) == real:
				return True, list(sub)
	return False, []


def first_diff(a: list[str], b: list[str]) -> int:
	for i, (x, y) in enumerate(zip(a, b)):
		if x != y:
			return i
	return -1


OWNERSHIP_KEYS = {'shares-dict': 'container-shares-dictionary-object', 'caller-mapping-changed': 'caller-mapping-changed'}


def strip_marks(real: list[str]) -> list[str]:
	"""outputs without the `!…` ownership observations (a dictionary object shared with another container / the caller, a caller's mapping changed)"""
	return [o.split('!', 1)[0] for o in real]


def shrink_for(w: World, ops: list[tuple], key: str | None, behaviour: bool = False) -> list[tuple]:
	"""ddmin on the op list; candidate sequences whose container numbering breaks are rejected by the predicate itself"""
	stop_at = time.time() + 20

	def fails(cand: list[tuple]) -> bool:
		if time.time() > stop_at:
			return False
		real = run_real(w, cand)
		if 'bad-op' in real:
			return False
		if key in OWNERSHIP_KEYS.values():
			return any(f'!{m}' in o for o in real for m, k2 in OWNERSHIP_KEYS.items() if k2 == key)
		if run_ref(w, cand, IDEAL) == (strip_marks(real) if behaviour else real):
			return False
		if key is None:
			return True
		ok, ex = exhibited(w, cand, real)
		return ok and key in ex
	return common.shrink_list(ops, fails, max_steps=600)


def search_reference(ctx: Ctx, w: World) -> SearchResult:
	rng = ctx.sub_rng('search')
	res = SearchResult('observations(real DI/LazyDI) == observations(ideal reference Spec) over random op sequences')
	seen: set[str] = set()
	per_key: Counter[str] = Counter()
	hist: Counter[str] = Counter()
	n = ctx.scale(3000, 9000)
	max_ops = ctx.scale(30, 200)
	todo: list[tuple[str, list[tuple]]] = [(f'corpus:{name}', ops) for name, ops in load_corpus()]
	for i in range(n):
		todo.append((f'random#{i}', gen_case(w, rng, max_ops if i % 3 else max(8, max_ops // 3), search=True)))
	deadline = time.time() + ctx.scale(40, 300)
	for idx, (name, ops) in enumerate(todo):
		if time.time() > deadline:
			hist['skipped-by-deadline'] += len(todo) - idx
			break
		res.cases += 1
		seen.add(json.dumps(ops))
		real = run_real(w, ops)
		ideal = run_ref(w, ops, IDEAL)
		if real == ideal:
			hist['agrees'] += 1
			if len(res.samples) < 2:
				res.samples.append({'case': name, 'ops': [op_line(w, o) for o in ops[:8]], 'observations': real[:8]})
			continue
		at = first_diff(real, ideal)
		divergent = sum(v for k, v in hist.items() if k != 'agrees')
		if divergent >= 60:
			# enough concrete failing inputs recorded; the classification costs up to 31 reference runs per case
			hist['divergence (not classified: budget)'] += 1
			continue
		if 'Timeout' in real:
			explained, ex = True, ['real-code-timeout']
		else:
			explained, ex = exhibited(w, ops[:at + 1], real[:at + 1])
		marks = [k2 for m, k2 in OWNERSHIP_KEYS.items() if any(f'!{m}' in o for o in real)]
		if marks:
			# ownership observations get keys of their own; what is left is judged without them (observable cross-talk)
			bare = strip_marks(real)
			keys = list(marks)
			if bare != ideal:
				at = first_diff(bare, ideal)
				ok2, ex2 = exhibited(w, ops[:at + 1], bare[:at + 1])
				keys += ex2 if ok2 else ['unexplained-divergence']
		elif not explained:
			keys = ['unexplained-divergence']
		else:
			keys = ex
		for key in keys:
			hist[key] += 1
			per_key[key] += 1
			if per_key[key] > 1:
				continue
			if key == 'real-code-timeout':
				small = ops[:at + 1]
			elif name.startswith('corpus:'):
				small = ops
			else:
				small = shrink_for(w, ops[:at + 1] if key == 'unexplained-divergence' else ops, None if key == 'unexplained-divergence' else key,
					behaviour=bool(marks) and key == 'unexplained-divergence')
			sreal = run_real(w, small)
			sideal = run_ref(w, small, IDEAL)
			j = first_diff(strip_marks(sreal) if marks and key not in OWNERSHIP_KEYS.values() else sreal, sideal)
			what = (('RETURN OF A REPAIRED DEFECT: ' + DEVIATION_WHAT[key]) if key in DEVIATION_WHAT
				else f'an op sequence did not finish on the real containers within {CASE_BUDGET_S}s of CPU time' if key == 'real-code-timeout'
				else 'a container made by instantiate / _clone / combine holds a dictionary object that another container or the caller holds' if key == 'container-shares-dictionary-object'
				else 'a mapping passed to LazyDI.instantiate was changed afterwards by an operation on a container' if key == 'caller-mapping-changed'
				else 'the real container and the reference model disagree (no repaired defect explains it)')
			res.findings.append(Finding(key=key, what=f'{what}; first seen in {name}: op {j} `{op_line(w, small[j]) if j >= 0 else "?"}` real={sreal[j] if j >= 0 else "?"} reference={sideal[j] if j >= 0 else "?"}',
				replay={'ops': [op_to_json(o) for o in small], 'op_lines': [op_line(w, o) for o in small], 'real': sreal, 'reference': sideal, 'from': name}))
	res.distinct = len(seen)
	res.histogram = dict(hist)
	res.note = ('reference = plain Python implementation of the Spec (symbol -> binding/lazy/instance per container, no annotation cache, validation on every invoke, '
		'right-biased combine); a divergence is named after the smallest set of repaired defects (regression switches) that explains it, else unexplained-divergence')
	return res


def search_production(ctx: Ctx) -> SearchResult:
	"""The isolation laws of the usage pattern, checked directly on the containers real tranp work leaves behind."""
	from rogw.tranp.lang.locator import Invoker, Locator

	rng = ctx.sub_rng('production-laws')
	res = SearchResult('isolation laws on the shared and per-module containers of real module loads (object identity, no model involved)')
	hist: Counter[str] = Counter()
	for i in range(ctx.scale(1, 4)):
		res.cases += 1
		res.distinct += 1
		try:
			with budget(PRODUCTION_BUDGET_S):
				log, shared = production_run(ctx, rng, ctx.scale(1, 2), ctx.scale(2, 5))
		except BudgetExceeded:
			PRODUCTION_STATE['timed_out'] = True
			res.findings.append(Finding(key='production-run-timeout', what=f'real module loading on the logging containers did not finish within {PRODUCTION_BUDGET_S}s of CPU time', replay={'run': i}))
			break
		except Exception as e:  # noqa: BLE001
			res.findings.append(Finding(key='production-run-raises', what=f'real module loading failed on the logging containers: {exc_enum(e)}: {e}', replay={'run': i}))
			break
		modules = [c for c in log.conts if c is not shared]
		hist['module-containers'] += len(modules)
		local_paths: set[str] = set()
		for e in log.entries:
			if e[0] == 'combine':
				local_paths.update(e[2].keys())
		ops_txt = [f'{e[0]} c{e[1]} {getattr(e[2], "__name__", type(e[2]).__name__)}' for e in log.entries if e[0] != 'invoke'][:80]

		def finding(key: str, what: str) -> None:
			if not any(f.key == key for f in res.findings):
				res.findings.append(Finding(key=key, what=what, replay={'run': i, 'container_ops_without_invoke': ops_txt}))

		shared_inst = getattr(shared, '_DI__instances', {})
		for m in modules:
			try:
				if m.resolve(Locator) is not m:
					finding('production-closure-wrong-container', f'Locator resolved through per-module container c{m.cid} is not that container')
				inv = m.resolve(Invoker)
				if getattr(inv, '__self__', None) is not m:
					finding('production-closure-wrong-container', f'Invoker resolved through per-module container c{m.cid} is bound to another container')
			except Exception as e:  # noqa: BLE001
				finding('production-closure-wrong-container', f'Locator/Invoker cannot be resolved through per-module container c{m.cid}: {exc_enum(e)}')
			try:
				for symbol, inst in list(getattr(m, '_DI__instances', {}).items()):
					path = f'{symbol.__module__}.{symbol.__qualname__}'
					hist['module-instances'] += 1
					if path in local_paths or symbol in (Locator, Invoker) or not shared.can_resolve(symbol):
						# module-local: one object per module container, unknown to the shared container
						hist['module-local'] += 1
						if path in local_paths and shared.can_resolve(symbol):
							finding('production-module-local-leak', f'module-local symbol {path} is known to the shared container')
						for other in modules:
							if other is not m and other._DI__instances.get(symbol) is inst and symbol not in (Locator, Invoker):
								finding('production-module-local-leak', f'module-local {path}: containers c{m.cid} and c{other.cid} hold the same object')
					else:
						# defined by the shared container: production must have resolved it there before the combine
						hist['shared-singleton'] += 1
						if shared_inst.get(symbol) is not inst:
							finding('production-shared-singleton-split', f'{path} has a private instance in per-module container c{m.cid} '
								f'({"shared container holds another one" if symbol in shared_inst else "the shared container has none"}): it was first resolved through the module container')
			except Exception as e:  # noqa: BLE001 - the law could not even be evaluated on the real containers
				finding('production-law-check-raises', f'checking the instances of per-module container c{m.cid} raised {exc_enum(e)}: {str(e)[:200]}')
			# the containers own their dictionaries
			shared_dicts = aliased_with(m, [c for c in log.conts if c is not m])
			if shared_dicts:
				finding('production-shared-dict-object', f'per-module container c{m.cid} shares a dictionary object with another container: {shared_dicts}')
	res.histogram = dict(hist)
	res.note = ('after real Modules.load / Entrypoints.load: every instance a per-module container holds is either module-local (distinct object per module, symbol '
		'unknown to the shared container) or the very object the shared container holds; Locator / Invoker resolved through a module container are that container / '
		'bound to it. This is the evidence that production relies on combine-time sharing only (Lean: combine_shares / distinct_instances / no_leak / module_invoker_local)')
	return res


# ---------------------------------------------------------------------------------------------


STATEMENTS = {
	'refine': 'forward simulation: from every reachable state, every op changes the abstract state exactly as specStep prescribes (abs (step σ op) = specStep (abs σ) op) and gives the same output',
	'run_refines': 'whole runs: the concrete dictionaries and the Spec produce the same outputs and abs-related final states for every op sequence',
	'singleton': 'after resolve(c, r) returned o, every later resolve of that symbol (any spelling Gen / Gen[A]) on c returns the same o, whatever happens in between on any container, unless the symbol is bound/rebound/unbound on c',
	'rebind_fresh': 'whatever is resolved for a symbol after a successful rebind (until its next bind/rebind/unbind) was created after the rebind and by the new factory',
	'combine_right': 'for every history: in combine(a, b) every symbol holds b\'s entry (binding and instance, or unresolved definition) if b can resolve it, else a\'s (two regression examples = the witnesses that were counterexamples before 6d5a231)',
	'combine_frame': 'an op leaves every container it is not addressed to exactly as it was (operands of combine/_clone keep behaving as before, and vice versa)',
	'lazy_materialise': 'a definition resolved in a clone is materialised there only; the original still holds the unresolved definition and later creates its own, younger instance',
	'unknown': 'when can_resolve answers False, resolve raises ValueError and changes nothing',
	'unknown_invoke': 'invoke, without remaining arguments, of a factory whose first annotated parameter cannot be resolved raises ValueError, on every call',
	'invoke_fill': 'for every history: invoke curries exactly the leading resolvable annotated parameters of the factory itself, raises ValueError unless the remaining arguments match the remaining annotated parameters one to one, else calls the factory; the annotation cache is invisible (three regression examples = the witnesses that were counterexamples before c3fd82c)',
	'combine_shares': 'sharing happens at combine time: an instance the left operand holds for a symbol the right operand does not know is what the combined container returns, and the left operand keeps returning it (the law production relies on: handler pre-resolves SyntaxParser/CacheProvider/SymbolMapping before the combine)',
	'distinct_instances': 'two slots in different containers never come to hold the same instance unless they did already: no late sharing (an instance created in the shared container after the combine is not the clone\'s), one instance per module container for module-local symbols; for every interleaving',
	'resolve_instOf': 'what a successful resolve returns is what the slot holds afterwards (links observations to the slots of distinct_instances)',
	'no_leak': 'a symbol a container does not know stays unknown to it (can_resolve False) whatever happens anywhere until it is bound there: module-local symbols never reach the shared container',
	'invokerFactory_inj': 'closures over different containers are different factories',
	'module_invoker_local': 'after the body of entrypoints.handler, Invoker resolved through the per-module container was made by the closure over that container (not the shared one), for every continuation that does not re-bind it',
	'production_wiring': 'the GENERATED statement lists of di_container / handler (translator reads providers/app.py and providers/syntax/entrypoints.py with ast) are exactly the derived operations diContainerOps / loadModuleOps the isolation theorems speak about',
	'production_closed': 'decide +kernel over the GENERATED tables (default_definitions, module_dependency_provider, each factory with its annotated parameters): every annotated parameter of every shared factory is bound in the shared container, of every per-module factory in a module container; per-module symbols and ModulePath are disjoint from the shared definitions',
	'production_acyclic': 'the generated rank certificate is respected by every binding di_container and handler make (any heap, any shared container): the production dependency graph is acyclic',
	'production_terminates': 'in every history made of di_container / handler blocks in any interleaving, resolve with more fuel than the longest production chain never yields RecursionError (fuel is not needed)',
	'production_run_succeeds': 'decide +kernel: di_container(default_definitions()) and two handler calls succeed statement by statement in the model; afterwards every shared definition resolves in the shared container and every symbol in a module container',
	'production_combine_shares': 'combine_shares on the shipped wiring: the three pre-resolved symbols are one object for the shared container and both module containers',
	'production_locals_isolated': 'on the shipped wiring the shared container does not know Entry/Query/NodeResolver/Entrypoint/ModulePath, the two module containers hold different instances of each, Locator/Invoker of container k are the closures over k',
	'production_no_private_copies': 'on the shipped wiring, after the loads, every instance a module container holds for a non-local symbol is the instance the shared container holds (production does not use late sharing)',
	'invoke_sees_current_bindings': 'two reachable states with equal abstract state (bindings, instances, counter) react identically to every op whatever was invoked before: the annotation cache is invisible also under later bind/unbind',
	'resolve_cached_creates_nothing': 'in every state: resolve of a symbol whose slot holds an instance returns it and changes nothing (no factory call, counter and all dictionaries as before) - whatever the instance is (di.py tests membership, so also for a stored None / falsy object; the harness observes factory call counts for those)',
	'state_fields': 'GENERATED (gen_di_state.py, ast of di.py): DI and LazyDI declare exactly the four dictionaries of the model Cont; the translator raises on any other attribute, class/module-level variable or caching decorator',
	'code_effects': 'decide +kernel over the GENERATED per-method write sets and call graph (virtual dispatch resolved per class): the dictionaries each public method can write on its receiver (can_resolve none; bind registry [+definitions]; unbind/rebind also instances; resolve/invoke instances + annotation cache [+registry, definitions on a LazyDI]; _clone/combine none)',
	'model_effects': 'for every container, op and fuel: one step of the model leaves every dictionary outside the code-derived write set of that op, and the class, exactly as it was (with tightness examples: the model does write each listed dictionary)',
	'containers_own_their_dicts': 'decide +kernel over the GENERATED table: every dictionary attribute assigned on a container made by _clone / combine / instantiate receives a fresh dict (display, comprehension, .copy()), no method hands a dictionary object out, nothing is written to `other` and the methods called on it are write-free; _clone/combine assign exactly the attributes Cont.clone / Cont.combine copy',
	'clone_combine_generated': 'for all containers: the hand-written Cont.clone / Cont.combine (about which the combine theorems speak) equal the GENERATED Lean translations of the statements of DI._clone, LazyDI._clone, DI.combine, LazyDI.combine (gen_di_state.py: {**a, **b} = Dict.merge, filtering dict comprehension = Dict.filterKeys, sequential assignments, virtual self._clone()); error branches = class guard (TypeError) and missing __definitions (AttributeError)',
	'methods_generated': 'for every container, counter, symbol reference and factory: the GENERATED do-blocks of bind / unbind / rebind / can_resolve / _binded / resolve of DI and LazyDI and of all helpers they call (translate/di_methods.py: ast of di.py statement by statement; dict item get / set / del with KeyError, raise, `is None` guards, virtual self-calls by receiver class, super()) compute exactly what Cont.bind / unbind / rebind / canResolve / binded and resolveF (self.invoke = invokeF) compute; so the refinement theorems speak about the translated statements',
	'invoke_raising': 'invoke of a factory whose body raises never returns an object',
	'resolve_raising': 'resolve of a symbol bound or lazily defined to a factory whose body raises fails, stores nothing for the symbol and keeps its binding (the factory is called again next time), at any nesting depth',
	'fuel_sufficient': 'fuel is only a device: if the bindings of the history respect a rank (acyclic factory graph), resolve/invoke with more fuel than the rank never yields RecursionError',
}


def build_cases(ctx: Ctx) -> tuple[World, list[Stream], list[SearchResult]]:
	w = World(ctx)
	with ctx.timed('correspondence'):
		streams = [stream_di(ctx, w), stream_malformed(ctx, w), stream_production(ctx, w), stream_wiring(ctx)]
	with ctx.timed('search'):
		searches = [search_reference(ctx, w), search_production(ctx)]
	return w, streams, searches


def run(ctx: Ctx) -> int:
	translate_ok, translate_msg = True, ''
	for gen_name in ('gen_di_wiring', 'gen_di_state'):
		try:
			gen = importlib.import_module(f'translate.{gen_name}')
			ctx.generated_tables.extend(gen.generate())
		except Exception as e:  # noqa: BLE001 - a shape the translator does not understand breaks the tie, it is never passed over
			translate_ok, translate_msg = False, (translate_msg + '; ' if translate_msg else '') + f'{gen_name}: {type(e).__name__}: {e}'
	proof = common.prove(ctx, PROP, leanchecker=ctx.thorough)
	_, streams, searches = build_cases(ctx)
	return common.finish(ctx, proof, streams, searches,
		translate_ok=translate_ok, translate_msg=translate_msg,
		statements=STATEMENTS,
		partial={
			'generated_state': 'Generated/DIState.lean is rewritten from the ast of lang/di.py on every run (per method: dictionaries written on self / on other, dictionary attributes assigned on a new container and whether the value is a fresh dict, escaping dictionaries, container methods called, resolved for both dynamic classes; unknown shapes raise TranslateError = broken tie); state_fields / code_effects / containers_own_their_dicts are decided over it and model_effects ties the model to it; the bodies of _clone / combine (both classes) are translated statement by statement into Lean terms and proved equal to the model (clone_combine_generated); Generated/DIMethods.lean holds the bodies of the 19 registry / resolve methods as do-blocks, proved equal to the model functions (methods_generated)',
			'generated': 'Generated/DIWiring.lean is rewritten from app/config.py + providers/app.py + providers/syntax/entrypoints.py on every run (tables evaluated by import, statement shapes by ast; unknown shapes raise TranslateError = broken tie); production_* theorems are decide +kernel over it; the real op log of the production stream is compared with the generated handler/di_container shapes',
			'usage': 'derived operations di_container / per-module load (Model: diContainerOps, loadModuleOps) with isolation theorems; production op logs replayed on the model (stream di-production) and the isolation laws checked on the real containers (search production laws)',
			'proved': 'refinement concrete dictionaries -> Spec for every op sequence; singleton per binding generation; rebind discards the instance; combine: right operand wins (bindings, instances, unresolved definitions); frame (operands of combine/clone are unaffected); lazy materialisation is per clone; unknown symbol -> ValueError; the invoke law (fill leading resolvable annotated parameters, validate the rest on every call)',
			'regression': 'the five defects of the snapshot tree (repaired by c3fd82c / 6d5a231) are corpus cases of the stream and OFF-switches of the reference: their return is reported under the old finding keys with the op sequence',
			'correspondence_only': 'that dictionaries are copied not shared by _clone/combine is now read from the source (containers_own_their_dicts, syntactic: fresh-dict expressions only, no escaping dictionary) in addition to the stream that keeps using all operands after combine and compares dict object identities; still correspondence-only: the statement-level logic of invoke and its helpers __to_annotated / __pluck_annotations / __assert_invoke and of instantiate (hand-written line by line; every other method of di.py is generated and proved equal to the model), Python-level details of what a factory object exposes (__annotations__ of __to_annotated(factory), hash/equality of that callable, arity)',
		},
		assumptions=[
			'symbol classes have pairwise different full names __module__ + __qualname__ (so LazyDI\'s path keys and DI\'s class keys are in bijection); module-level classes are importable by that path, nested / function-local classes (model ids >= 500) are not: a LazyDI definition of such a class is visible but resolve raises ModuleNotFoundError (modelled)',
			'factories take positional parameters without defaults and do not touch containers themselves; a factory either always raises (modelled: flag `raises`, stream with raising functions/classes) or returns: a fresh object (possibly falsy and empty), or None (in the model a creation event like any other; since None has no identity the driver prints such an instance as none/n<number of factory calls that returned so far>, so a re-run factory is visible at once); a remaining argument is an instance of the expected class, of a subclass of it (every fourth generated value), or of an unrelated class; the symbol classes themselves are unrelated to each other',
			'generation numbers of the Spec are expressed as trace properties (no bind/rebind/unbind of the symbol in between) instead of a counter in the state',
		],
		trusted=['inspect.signature as the independent description of the scratch factories'])


def replay(ctx: Ctx, path: str) -> int:
	with open(path, encoding='utf-8') as f:
		rec = json.load(f)
	inp = rec.get('input', rec)
	if 'ops' not in inp:
		print(json.dumps(rec, indent=1)[:4000])
		print('replay: no op list recorded (proof/correspondence breakage): re-running the full check with the recorded seed')
		return run(Ctx(PROP, rec.get('tier', 'quick'), int(rec.get('seed', 0))))
	w = World(ctx)
	ops = [op_from_json(j) for j in inp['ops']]
	real = run_real(w, ops)
	ideal = run_ref(w, ops, IDEAL)
	model = common.lean_driver('di', [op_line(w, o) for o in [('reset',), *ops]])[1:]
	print(f'{"op":60} | real | reference(Spec) | lean model')
	for o, r, i, m in zip(ops, real, ideal, model):
		flag = '   <-- differs from the reference' if r != i else ''
		print(f'{op_line(w, o).replace(chr(9), " "):60} | {r} | {i} | {m}{flag}')
	explained, ex = exhibited(w, ops, real) if real != ideal else (True, [])
	print(f'explained by repaired defects returning: {explained}; {ex}')
	ctx.cleanup()
	return 1 if real != ideal else 0
