"""C12 — The grammar engine reproduces itself and its compiled rule files.

Theorems: lean/Tranp/Props/C12.lean over lean/Tranp/Model/RulesAst.lean + Model/Engine.lean (+ generated tables/data).
Tie: translator translate/gen_rules.py; correspondence streams
  `rules-ast`     random tuple trees (well-shaped, with bare groups, and off-shape) → real Rules.from_ast / pretty / Pattern.make /
                  gram_check.render_rules vs the model
  `rules-text`    real pretty(g) → real gram tokenizer → real parse with gram_rules() vs the model engine on the same tokens;
                  the spec function toAst vs the real parse of the printout
Search (real code only):
  `round-trip`    from_ast(parse(pretty(g))) == g on generated grammars (quoting/escape cases included)
  `render-import` exec(render_rules(tree)) of generated grammars (raw FF/VT/FS/GS/RS/NEL/LS/PS in terminals) is importable and returns the tree's rule set
  `history`       one SyntaxParser(gram_rules(), gram_tokenizer()) over a sequence of grammar texts (rejected unbalanced ones in between) == a fresh one per text
  `gram-check-file` gram_check -i FILE -o MODULE on printed rule sets (raw control characters in terminals, LF/CRLF files): load_source == file text,
                  MODULE == render(parse(text)), rules read back == the rule set
  `fixed-points`  gram.lark parsed with the built-in rules yields those rules; gram_check's rendering of each shipped .lark equals
                  the checked-in rule module (py_rules.py exactly, gram_rules.py up to its docstring); compiled and original rules
                  accept the same sentences with the same trees
"""
from __future__ import annotations

import json
import os
import random
import re
from collections import Counter
from typing import Any

from harness import common, gramlib
from harness.common import REPO, Ctx, Finding, SearchResult, Stream, exc_enum, hx
from translate import gen_rules

PROP = 'C12'

# output file stems for gram_check -o <stem>.py (the factory function must carry the file's stem): endings in p / y / py, upper case, digits, one letter
STEMS = ['g_rules', 'x_rules', 'py_rules', 'gram_rules', 'py_rules_copy', 'rules_py', 'gram_p', 'tokens_y', 'snappy', 'Rules2', 'R9', 'p', 'y_', 'x']


def translate(ctx: Ctx) -> tuple[bool, str]:
	try:
		with ctx.timed('translate'), gramlib.budget(120):  # the translator runs the real rule loaders and the real gram tokenizer
			ctx.generated_tables.extend(gen_rules.generate())
		return True, ''
	except Exception as e:  # noqa: BLE001
		return False, f'gen_rules failed: {type(e).__name__}: {e}'


# ---------------------------------------------------------------------------------------------
# real-code plumbing


class GramWorld:
	def __init__(self) -> None:
		from data.syntax.gram_rules import gram_rules
		from data.syntax.gram_tokenizer import gram_tokenizer
		self.rules = gram_rules()
		self.tokenizer = gram_tokenizer()
		self.regexps = gen_rules.regexps_of(self.rules)

	def parse(self, text: str) -> tuple[str, Any, list[Any]]:
		tokens = gramlib.real_tokens(self.tokenizer, text)
		kind, payload = gramlib.real_parse(self.rules, gramlib.FixedTokenizer(tokens), text)
		return kind, payload, tokens


def real_from_ast(tree: Any) -> tuple[str, Any]:
	from rogw.tranp.implements.syntax.tranp.rule import Rules
	try:
		with gramlib.budget(gramlib.CALL_BUDGET_S):
			return 'ok', Rules.from_ast(tree)
	except Exception as e:  # noqa: BLE001
		return exc_enum(e), None


def pretty_of(rules: Any) -> str:
	"""Rules.pretty() under the call budget (a printer that no longer ends becomes an exception the callers report)"""
	with gramlib.budget(gramlib.CALL_BUDGET_S):
		return rules.pretty()


def ast_tree_of(t: Any) -> Any:
	from rogw.tranp.implements.syntax.tranp.ast import ASTToken, ASTTree
	from rogw.tranp.implements.syntax.tranp.token import Token, TokenTypes
	name, body = t
	if isinstance(body, str):
		return ASTToken(name, Token(TokenTypes.Unknown, body))
	return ASTTree(name, [ast_tree_of(c) for c in body])


def real_render(tree: Any, stem: str) -> str:
	from rogw.tranp.bin.gram_check import App, Args
	with gramlib.budget(gramlib.CALL_BUDGET_S):
		app = App(Args(['-o', f'some/dir/{stem}.py']))
		return app.render_rules(tree)


def has_bare_group(p: Any) -> bool:
	"""A parenthesised group without repeat marker, `( e )`: from_ast makes it a one-entry AND group with NoRepeat, and
	Prettier._deco_repeat prints it without its parentheses (finding F7)."""
	from rogw.tranp.implements.syntax.tranp.rule import Operators, Patterns, Repeators
	if not isinstance(p, Patterns):
		return False
	if p.rep == Repeators.NoRepeat and p.op == Operators.And and len(p.entries) == 1:
		return True
	return any(has_bare_group(e) for e in p.entries)


def rules_have_bare_group(rules: Any) -> bool:
	return any(has_bare_group(p) for p in rules._rules.values())


def string_terminals(rules: Any) -> list[str]:
	from rogw.tranp.implements.syntax.tranp.rule import Comps, Pattern, Patterns
	out: list[str] = []

	def walk(p: Any) -> None:
		if isinstance(p, Patterns):
			for e in p.entries:
				walk(e)
		elif isinstance(p, Pattern) and p.comp != Comps.NoComp:
			out.append(p.expression)

	for p in rules._rules.values():
		walk(p)
	return out


# ---------------------------------------------------------------------------------------------
# correspondence


def stream_rules_ast(ctx: Ctx) -> Stream:
	from rogw.tranp.implements.syntax.tranp.rule import Pattern
	rng = ctx.sub_rng('rules-ast')
	gen = gramlib.RuleGen(rng)
	cases = []
	shipped = []
	for path, func in [('data/syntax/py_rules.py', 'py_rules'), ('data/syntax/gram_rules.py', 'gram_rules')]:
		shipped.append(gen_rules.literal_of_rule_module(os.path.join(REPO, path), func))
	trees: list[tuple[str, Any]] = [('shipped', t) for t in shipped]
	for i in range(ctx.scale(260, 2800)):
		t = gen.grammar(rng.randint(1, 6), rng.randint(0, 3), bare_groups=rng.random() < 0.4)
		kind = 'well-shaped'
		if rng.random() < 0.4:
			t = gen.malform(t)
			kind = 'off-shape'
			if rng.random() < 0.2:
				t = gen.malform(t)
		trees.append((kind, t))
	dl = gramlib.Deadline(ctx.scale(90, 600))
	for kind, t in trees:
		if dl.expired():
			break
		ops, real = [], []
		sx = gramlib.tentry_sexp(t)
		k, rules = real_from_ast(t)
		ops.append(f'fromast\t{sx}')
		real.append('ok ' + gramlib.rules_show(rules) if k == 'ok' else k)
		ops.append(f'pretty\t{sx}')
		if k == 'ok':
			try:
				real.append('ok ' + hx(pretty_of(rules)))
			except Exception as e:  # noqa: BLE001
				real.append(exc_enum(e))
		else:
			real.append(k)
		if kind != 'off-shape' or rng.random() < 0.3:
			stem = rng.choice(STEMS)
			try:
				ops.append(f'render\t{hx(stem)}\t{sx}')
				real.append('ok ' + hx(real_render(ast_tree_of(t), stem)))
			except Exception as e:  # noqa: BLE001
				ops.pop()
		cases.append(({'kind': kind, 'outcome': k}, ops, real))
	# Pattern.make on its own
	pool = [*gramlib.STRING_TERMINALS, *gramlib.REGEXP_TERMINALS, *gramlib.SYMBOL_NAMES, '', '"', '/', '""', '//', '"\\t"', '"\\f"', '"\\r"', '"\\x"', '"\\nn"', '"\\"', 'a b', 'a-b', '1a', '_',
		'"a', 'a"', '/a', 'a/', '"a/', '/a"', ' a', 'a.b', '[a]', '"\n"', '"\t"', '"a"b"', '/a/b/', '9', 'a\n']
	ops, real = [], []
	for s in pool:
		ops.append(f'make\t{hx(s)}')
		try:
			real.append('ok ' + gramlib.pat_show(Pattern.make(s)))
		except Exception as e:  # noqa: BLE001
			real.append(exc_enum(e))
	cases.append(({'kind': 'make', 'outcome': 'mixed'}, ops, real))
	st = common.correspond('rules-ast', cases, 'rules', classify=lambda d: f"{d['kind']}:{d['outcome']}")
	st.note = ('tuple trees: the two shipped literals, random well-shaped trees (sequences, alternatives, [..], (..)*+?, bare groups, unwrap [1]/[*], string/regexp terminals with quoting and escape cases) '
		'and off-shape edits (wrong names, missing children, token/tree confusion, bad repeat values, duplicate rules); ops from_ast, pretty, render_rules, Pattern.make')
	return st


def stream_rules_text(ctx: Ctx) -> Stream:
	rng = ctx.sub_rng('rules-text')
	gen = gramlib.RuleGen(rng)
	world = GramWorld()
	cases = []
	texts: list[tuple[str, str, Any]] = []
	for name in ['gram.lark', 'py_gram.lark']:
		with open(os.path.join(REPO, 'data/syntax', name), 'rb') as f:
			texts.append(('shipped', f.read().decode('utf-8'), None))
	for i in range(ctx.scale(150, 1600)):
		bare = rng.random() < 0.25
		t = gen.grammar(rng.randint(1, 5), rng.randint(0, 3), bare_groups=bare)
		k, rules = real_from_ast(t)
		if k != 'ok':
			continue
		try:
			text = pretty_of(rules) + '\n'
		except Exception:  # noqa: BLE001 - rules-ast compares pretty() itself
			continue
		if rng.random() < 0.25:
			# damaged printouts exercise the error path of the engine under the gram rules
			pos = rng.randrange(len(text))
			text = text[:pos] + rng.choice(['', '(', ']', '|', ':=', ' ', '"', '/', '\\', '\n', "'", '$']) + text[pos + rng.randint(0, 2):]
			texts.append(('damaged', text, None))
		else:
			texts.append(('bare' if rules_have_bare_group(rules) else 'plain', text, t))
	for path, func in [('data/syntax/py_rules.py', 'py_rules'), ('data/syntax/gram_rules.py', 'gram_rules')]:
		lit = gen_rules.literal_of_rule_module(os.path.join(REPO, path), func)
		try:
			rules = real_from_ast(lit)[1]
			k2, payload2, _ = world.parse(pretty_of(rules) + '\n')
			ok = k2 == 'ok' and gramlib.rules_show(real_from_ast(payload2)[1]) == gramlib.rules_show(rules)
		except Exception:  # noqa: BLE001
			ok = False
		cases.append(({'kind': f'textrt-{func}', 'outcome': 'ok'}, [f'textrt\t{gramlib.tentry_sexp(lit)}'], ['ok ' + ('true' if ok else 'false')]))
	dl = gramlib.Deadline(ctx.scale(90, 600))
	for kind, text, tree in texts:
		if dl.expired():
			break
		try:
			k, payload, tokens = world.parse(text)
		except Exception:  # noqa: BLE001 - the lexer refuses the text: the model must refuse it too
			if kind == 'damaged' and text.isascii():
				cases.append(({'kind': kind, 'outcome': 'lex-error'}, [f'reload\t{hx(text)}'], ['lex-error']))
			continue
		ops = [f'compile\t{hx(text)}\t{gramlib.toks_field(tokens, world.regexps)}']
		real = [gramlib.real_parse_line(k, payload)]
		if kind in ('plain', 'bare'):
			# the whole text-level round trip in the model (printer, C13 lexer model with the gram token definition, transcribed regexp
			# classes, engine, from_ast) against the same round trip on the real code
			ops.append(f'textrt\t{gramlib.tentry_sexp(tree)}')
			try:
				back = real_from_ast(payload)[1] if k == 'ok' else None
				real.append('ok ' + ('true' if back is not None and gramlib.rules_show(back) == gramlib.rules_show(real_from_ast(tree)[1]) else 'false'))
			except Exception as e:  # noqa: BLE001
				real.append('ok false')
		if kind == 'damaged' and text.isascii():
			ops.append(f'reload\t{hx(text)}')
			if k == 'ok':
				k3, back3 = real_from_ast(payload)
				real.append('ok ' + gramlib.rules_show(back3) if k3 == 'ok' else k3)
			else:
				real.append(k)
		for tok in tokens[:40]:
			ops.append(f'gramclass\t{hx(tok.string)}')
			real.append(str(gen_rules.classify(world.regexps, tok.string)))
		if kind in ('plain', 'bare') and k == 'ok':
			# the spec-side toAst is the tree the meta-grammar assigns to the printout (hypothesis of C12.text_rt_partial)
			ops.append(f'toast\t{gramlib.tentry_sexp(tree)}')
			real.append('ok ' + gramlib.tentry_sexp(payload))
		cases.append(({'kind': kind, 'outcome': k}, ops, real))
	st = common.correspond('rules-text', cases, 'rules', classify=lambda d: f"{d['kind']}:{d['outcome']}")
	st.note = ('real Rules.pretty() of random rule sets (and the two shipped .lark files, and damaged printouts) lexed by the real gram_tokenizer; '
		'real SyntaxParser(gram_rules()) vs the model engine on the same tokens; the real parse of every printout equals the spec function toAst (the hypothesis of C12.text_rt_partial); the end-to-end model round trip `textrt` (printer → C13 lexer model → regexp class predicates → engine → from_ast) vs the real round trip, also for both shipped rule sets; `gramclass` vs the real re.fullmatch on every token')
	return st


# ---------------------------------------------------------------------------------------------
# search


def has_nested_optional(p: Any) -> bool:
	"""`[ … ]` whose content itself begins and ends with a bracketed group (`[[a] b [c]]`, `[[a]]`)."""
	from rogw.tranp.implements.syntax.tranp.rule import Operators, Patterns, Repeators
	if not isinstance(p, Patterns):
		return False
	if p.rep == Repeators.OneOrEmpty and p.entries:
		inner = p.entries
		if len(inner) == 1 and isinstance(inner[0], Patterns) and inner[0].rep == Repeators.NoRepeat and inner[0].op == Operators.And and inner[0].entries:
			inner = inner[0].entries
		first, last = inner[0], inner[-1]
		if all(isinstance(e, Patterns) and e.rep == Repeators.OneOrEmpty for e in (first, last)):
			return True
	return any(has_nested_optional(e) for e in p.entries)


def rt_key(rules: Any) -> str:
	"""Class of a failing round trip by the features of the rule set (first match; `other` = none of the known shapes)."""
	pats = list(rules._rules.values())
	if any(has_nested_optional(p) for p in pats):
		return 'text-rt:optional-group-edged-by-optional-groups'
	terms = string_terminals(rules)
	if any(len(s) >= 2 and any(c in s for c in '\t\n\r\f') for s in terms):
		return 'text-rt:terminal-with-raw-control-character'
	if any('\\\\' in s for s in terms):
		return 'text-rt:terminal-with-backslash-run'
	if any(s.startswith(t) for s in terms for t in gramlib.OPERATOR_TAILS):
		return 'text-rt:terminal-begins-with-the-tail-of-a-combined-symbol'
	if any(s.endswith('/') or s.startswith('/') for s in terms if s not in ('/', '//')):
		return 'text-rt:terminal-with-slash-at-its-edge'
	if any(s.endswith('\\') for s in terms):
		return 'text-rt:terminal-ends-with-backslash'
	if rules_have_bare_group(rules):
		return 'text-rt:group-without-repeat-marker'
	return 'text-rt:other'


def search_round_trip(ctx: Ctx) -> SearchResult:
	rng = ctx.sub_rng('round-trip')
	# string terminals ending in a backslash (`"\\\\"`) are included: the lexer decides escaping of the closing quote by the parity of the
	# backslash run (repaired under C13); a regression there shows up here under its own key
	gen = gramlib.RuleGen(rng)
	world = GramWorld()
	res = SearchResult('Rules.from_ast(parse(lex(g.pretty()))) == g on generated rule sets (real code only)')
	hist: Counter[str] = Counter()
	seen: set[str] = set()
	trees: list[Any] = []
	# the F7 witness first: x := a (b | c)
	trees.append(('entry', [('rule', [('symbol', 'x'), ('__empty__', ''), ('terms', [('symbol', 'a'), ('expr_rep', [('terms_or', [('symbol', 'b'), ('symbol', 'c')]), ('__empty__', '')])])])]))
	d = os.path.join(common.CORPUS_DIR, PROP)
	if os.path.isdir(d):
		for fn in sorted(os.listdir(d)):
			if fn.endswith('.json'):
				with open(os.path.join(d, fn), encoding='utf-8') as f:
					for t in json.load(f).get('trees', []):
						trees.append(_tuplify(t))
	for i in range(ctx.scale(420, 7000)):
		trees.append(gen.grammar(rng.randint(1, 6), rng.randint(0, 3), bare_groups=rng.random() < 0.12))
	dl = gramlib.Deadline(ctx.scale(120, 900))
	for t in trees:
		if dl.expired():
			res.note = f'stopped early: wall budget {dl.seconds} s over'
			break
		k, rules = real_from_ast(t)
		if k != 'ok':
			hist['not-a-rule-set'] += 1
			continue
		res.cases += 1
		want = gramlib.rules_show(rules)
		seen.add(want)
		# the rule loader against an independent walk of the tuple tree (a loader regression that printing and re-loading reproduce
		# consistently would cancel out of the round trip)
		spec = gramlib.tree_show(t)
		if want != spec:
			hist['from-ast:differs-from-tree'] += 1
			res.findings.append(Finding(key='from-ast:differs-from-tree', what=f'Rules.from_ast builds a rule set that is not the one the tuple tree describes: {want[:300]} instead of {spec[:300]}',
				replay={'tree': t, 'expected': spec, 'got': want}))
			continue
		text = ''
		try:
			text = pretty_of(rules) + '\n'
			k2, payload, _ = world.parse(text)
			if k2 == 'ok':
				k3, back = real_from_ast(payload)
				got = gramlib.rules_show(back) if k3 == 'ok' else k3
			else:
				got = k2
		except Exception as e:  # noqa: BLE001
			got = f'raised {exc_enum(e)}'
		if got == want:
			hist['round-trips'] += 1
			if len(res.samples) < 3 and len(text) > 40:
				res.samples.append({'pretty': text})
			continue
		key = rt_key(rules)
		hist[key] += 1
		res.findings.append(Finding(key=key, what=f'printing and re-parsing does not give the rule set back; printout {text!r}', replay={'tree': t, 'pretty': text, 'expected': want, 'got': got}))
	res.distinct = len(seen)
	res.histogram = dict(hist)
	return res


LINE_SEPARATORS = '\x0b\x0c\x1c\x1d\x1e\x85\u2028\u2029'


def tree_values(t: Any) -> list[str]:
	name, body = t
	if isinstance(body, str):
		return [body]
	out: list[str] = []
	for c in body:
		out.extend(tree_values(c))
	return out


def search_render_import(ctx: Ctx) -> SearchResult:
	"""`gram_check`'s output path on generated grammars: render_rules(tree) must be an importable module whose function returns
	the rule set the tree describes (independent walk `gramlib.tree_show`). Token values with `'` or a raw LF/CR (render_rules has no
	escaping for those: every printout of a rule set with the terminal "\\n" holds a raw LF) are generated for every fourth grammar and
	keyed `render-import:quote-or-line-break-in-terminal` (proposed/C12-render-quote-line-break.md)."""
	rng = ctx.sub_rng('render-import')
	res = SearchResult('exec(render_rules(tree)) defines a function returning the rule set of the tree (real gram_check output path, generated grammars)')
	hist: Counter[str] = Counter()
	extra_s = [f'"{a}{c}{b}"' for c in LINE_SEPARATORS for a, b in (('', ''), ('a', 'b'))] + ['"a\tb"', '"\x1f"', '"\x7f"', '"é"']
	extra_r = [f'/{a}{c}{b}/' for c in LINE_SEPARATORS for a, b in (('x', ''), ('', 'y'))]
	ok_val = lambda v: not gramlib.unescaped_quote_or_line_break(v)  # noqa: E731
	gen = gramlib.RuleGen(rng, strings=[v for v in gramlib.STRING_TERMINALS if ok_val(v)] + extra_s, regexps=[v for v in gramlib.REGEXP_TERMINALS if ok_val(v)] + extra_r)
	gen_all = gramlib.RuleGen(rng, strings=gramlib.STRING_TERMINALS + ['"a\'b"', '"\\r"'], regexps=gramlib.REGEXP_TERMINALS + ["/'[^']*'/"])
	world = GramWorld()
	seen: set[str] = set()
	dl = gramlib.Deadline(ctx.scale(90, 600))
	for i in range(ctx.scale(220, 2500)):
		if dl.expired():
			res.note = f'stopped early: wall budget {dl.seconds} s over'
			break
		unrestricted = i % 4 == 1
		if i == 1:
			# x := "\n" y ; y := "'"  — the line-feed terminal every tokenizer-style grammar declares, and a quote
			t = ('entry', [('rule', [('symbol', 'x'), ('__empty__', ''), ('terms', [('string', '"\\n"'), ('symbol', 'y')])]), ('rule', [('symbol', 'y'), ('__empty__', ''), ('string', '"\'"')])])
		else:
			t = (gen_all if unrestricted else gen).grammar(rng.randint(1, 4), rng.randint(0, 2), bare_groups=rng.random() < 0.2)
		stem = rng.choice(STEMS)
		variants: list[tuple[str, Any]] = [('tree', None)]
		if i % 3 == 0 or unrestricted:
			variants.append(('printout', None))
		for variant, _ in variants:
			res.cases += 1
			want = gramlib.quote_fixup_show(gramlib.tree_show(t))  # what the clean render_rules' module evaluates to (`\\'` arrives as `'`)
			seen.add(want)
			text = ''
			try:
				if variant == 'tree':
					ast_tree = ast_tree_of(t)
				else:
					k, rules = real_from_ast(t)
					printout = pretty_of(rules) + '\n'
					if not unrestricted and (not all(ok_val(v) for v in [printout.replace('\n', '')]) or any(c in s2 for s2 in string_terminals(rules) for c in '\n\r')):
						hist['printout:left-to-the-unrestricted-pass'] += 1
						continue
					from rogw.tranp.implements.syntax.tranp.syntax import SyntaxParser
					with gramlib.budget(gramlib.CALL_BUDGET_S):
						ast_tree = SyntaxParser(world.rules, world.tokenizer).parse(printout, 'entry')
				text = real_render(ast_tree, stem)
				ns: dict[str, Any] = {}
				exec(compile(text, f'<generated {stem}.py>', 'exec'), ns)  # noqa: S102 - the module gram_check would write
				if stem not in ns:
					hist[f'{variant}:FACTORY-NAME'] += 1
					res.findings.append(Finding(key='gram-check-file:factory-name-differs-from-file-stem', what=f'the module rendered for the output file {stem}.py does not define {stem}(); it defines {[k for k in ns if not k.startswith("__") and k != "Rules"]}', replay={'tree': t, 'variant': variant, 'stem': stem, 'rendered': text[:600]}))
					continue
				got = gramlib.rules_show(ns[stem]())
			except Exception as e:  # noqa: BLE001
				got = f'raised {type(e).__name__}: {e}'
			if got == want:
				hist[f'{variant}:imports-equal'] += 1
				continue
			vals = tree_values(t)
			try:
				seen_by_render = tree_values(ast_tree.simplify())  # what render_rules gets: the printer has turned escapes into raw characters
			except Exception:  # noqa: BLE001
				seen_by_render = vals
			if any(gramlib.unescaped_quote_or_line_break(v) for v in seen_by_render):
				cls = 'quote-or-line-break-in-terminal'
			else:
				cls = 'raw-line-separator-in-terminal' if any(c in v for v in vals for c in LINE_SEPARATORS) else 'other'
			hist[f'{variant}:{cls}'] += 1
			res.findings.append(Finding(key=f'render-import:{cls}', what=f'the module rendered for a generated grammar is not importable or defines other rules: {got[:200]}',
				replay={'tree': t, 'variant': variant, 'rendered': text[:3000], 'expected': want, 'got': got}))
	res.distinct = len(seen)
	res.histogram = dict(hist)
	return res


def _tuplify(t: Any) -> Any:
	name, body = t
	return (name, body) if isinstance(body, str) else (name, [_tuplify(c) for c in body])


def strip_docstring(text: str) -> str:
	return re.sub(r'\n\t"""[\s\S]*?"""\n', '\n', text, count=1)


def search_fixed_points(ctx: Ctx) -> SearchResult:
	from data.syntax.gram_rules import gram_rules
	from data.syntax.py_rules import py_rules
	from rogw.tranp.implements.syntax.tranp.rule import Rules
	from rogw.tranp.implements.syntax.tranp.tokenizer import Tokenizer
	from harness import c11
	rng = ctx.sub_rng('fixed-points')
	res = SearchResult('fixed points: gram.lark ↦ built-in rules; gram_check rendering of each shipped .lark == checked-in module; compiled vs original rules on sample sentences')
	hist: Counter[str] = Counter()
	world = GramWorld()

	def law(name: str, key: str, fn) -> Any:
		res.cases += 1
		try:
			bad = fn()
		except Exception as e:  # noqa: BLE001
			bad = f'raised {type(e).__name__}: {e}'
		if bad:
			hist[f'{name}:FAIL'] += 1
			res.findings.append(Finding(key=key, what=f'{name}: {str(bad)[:600]}', replay={'law': name, 'detail': str(bad)[:4000]}))
		else:
			hist[f'{name}:ok'] += 1

	compiled: dict[str, Any] = {}

	def read(name: str) -> str:
		with open(os.path.join(REPO, 'data/syntax', name), 'rb') as f:
			return f.read().decode('utf-8')

	def compile_lark(name: str) -> Any:
		from rogw.tranp.implements.syntax.tranp.syntax import SyntaxParser
		if name not in compiled:
			with gramlib.budget(30):
				compiled[name] = SyntaxParser(world.rules, world.tokenizer).parse(read(name), 'entry')
		return compiled[name]

	def fixed_gram() -> str | None:
		back = Rules.from_ast(compile_lark('gram.lark').simplify())
		a, b = gramlib.rules_show(back), gramlib.rules_show(gram_rules())
		return None if a == b else f'rules of gram.lark differ from gram_rules(): {a[:300]} vs {b[:300]}'

	def module_text(lark: str, module: str, strip: bool) -> str | None:
		stem = module[:-3]
		rendered = real_render(compile_lark(lark), stem)
		text = read(module)
		if strip:
			# gram_rules.py was edited by hand after generation: a docstring and one more newline at the end of the file
			text = strip_docstring(text).rstrip('\n') + '\n'
		if rendered == text:
			return None
		for i, (x, y) in enumerate(zip(rendered, text)):
			if x != y:
				return f'{module} differs from the rendering of {lark} at offset {i}: {rendered[max(0, i - 40):i + 40]!r} vs {text[max(0, i - 40):i + 40]!r}'
		return f'{module}: length {len(text)} vs rendered {len(rendered)}'

	def module_data(lark: str, func) -> str | None:
		# the literal checked in evaluates to the compiled tree up to the renderer's \' fix-up (Python reads \' as ')
		direct = Rules.from_ast(compile_lark(lark).simplify())
		a = gramlib.rules_show(direct).replace(hx("\\'"), hx("'"))
		b = gramlib.rules_show(func())
		na = re.sub(r'p:[0-9a-f-]+:T:R', 'p:RX:T:R', a)
		nb = re.sub(r'p:[0-9a-f-]+:T:R', 'p:RX:T:R', b)
		if na != nb:
			return 'rule structure differs between the compiled .lark and the checked-in module'
		ra, rb = gen_rules.regexps_of(direct), gen_rules.regexps_of(func())
		if [r.replace("\\'", "'") for r in ra] != rb:
			return f'regexp terminals differ: {ra} vs {rb}'
		return None

	def independent(lark: str, func) -> str | None:
		# our own reading of the grammar text (gramlib.read_lark, no tranp code) vs the rule module that is checked in
		a = gramlib.lark_show(gramlib.read_lark(read(lark))).replace(hx("\\'"), hx("'"))
		b = gramlib.rules_show(func())
		if a == b:
			return None
		for x, y in zip(a.split(';'), b.split(';')):
			if x != y:
				return f'rule differs from the grammar text: text says {x[:400]}, module has {y[:400]}'
		return 'rule count differs from the grammar text'

	law('py_rules() is what py_gram.lark says (independent reading of the text)', 'fixed:py-module-vs-text', lambda: independent('py_gram.lark', py_rules))
	law('gram_rules() is what gram.lark says (independent reading of the text)', 'fixed:gram-module-vs-text', lambda: independent('gram.lark', gram_rules))
	law('gram.lark parses to gram_rules()', 'fixed:gram-self', fixed_gram)
	law('py_rules.py == render(compile(py_gram.lark))', 'fixed:py-module-text', lambda: module_text('py_gram.lark', 'py_rules.py', False))
	law('gram_rules.py (without docstring) == render(compile(gram.lark))', 'fixed:gram-module-text', lambda: module_text('gram.lark', 'gram_rules.py', True))
	law('py_rules() == from_ast(compile(py_gram.lark)) up to \\\' in regexps', 'fixed:py-module-data', lambda: module_data('py_gram.lark', py_rules))
	law('gram_rules() == from_ast(compile(gram.lark))', 'fixed:gram-module-data', lambda: module_data('gram.lark', gram_rules))

	# compiled rules vs originals on sentences
	try:
		py_direct = Rules.from_ast(compile_lark('py_gram.lark').simplify())
		gram_direct = Rules.from_ast(compile_lark('gram.lark').simplify())
		py_module = py_rules()
	except Exception as e:  # noqa: BLE001 - already reported by the laws above; nothing to compare sentences with
		hist[f'compile-for-sentences:{exc_enum(e)}'] += 1
		res.distinct = res.cases
		res.histogram = dict(hist)
		return res
	pw = c11.PyWorld(rng)
	tk = Tokenizer()
	sentences = c11.gen_sentences(pw, ctx.scale(60, 450), 60, 3)
	texts = [t for _, _, t in sentences]
	for _, toks, _ in sentences[:ctx.scale(40, 300)]:
		mt, _ = gramlib.mutate_tokens(toks, rng, pw.vocabulary)
		if c11.paren_depth(mt) <= 4 and c11.block_depth(mt) <= 4:
			texts.append(gramlib.render_tokens(mt, rng, 0.3))
	dl = gramlib.Deadline(ctx.scale(120, 900))
	for text in texts:
		if dl.expired():
			break
		def same(text: str = text) -> str | None:
			try:
				tokens = tk.parse(text)
			except Exception:  # noqa: BLE001
				return None
			a = gramlib.real_parse(py_direct, gramlib.FixedTokenizer(tokens), text)
			b = gramlib.real_parse(py_module, gramlib.FixedTokenizer(tokens), text)
			return None if a == b else f'{text!r}: direct {a} vs module {b}'
		law('py: compiled vs checked-in rules on a sentence', 'accept-same:py', same)
	gen = gramlib.RuleGen(rng)
	for _ in range(ctx.scale(60, 450)):
		k, rules = real_from_ast(gen.grammar(rng.randint(1, 4), rng.randint(0, 2), bare_groups=rng.random() < 0.2))
		if k != 'ok':
			continue
		try:
			text = pretty_of(rules) + '\n'
		except Exception:  # noqa: BLE001 - rules-ast compares pretty() itself
			continue
		if rng.random() < 0.3:
			pos = rng.randrange(len(text))
			text = text[:pos] + text[pos + 1:]

		def same_g(text: str = text) -> str | None:
			try:
				tokens = gramlib.real_tokens(world.tokenizer, text)
			except Exception:  # noqa: BLE001
				return None
			a = gramlib.real_parse(gram_direct, gramlib.FixedTokenizer(tokens), text)
			b = gramlib.real_parse(world.rules, gramlib.FixedTokenizer(tokens), text)
			return None if a == b else f'{text!r}: direct {a} vs module {b}'
		law('gram: compiled vs built-in rules on a grammar text', 'accept-same:gram', same_g)
	res.distinct = res.cases
	res.histogram = dict(hist)
	return res


def search_history(ctx: Ctx) -> SearchResult:
	"""ONE SyntaxParser(gram_rules(), gram_tokenizer()) — what gram_check's App keeps for its interactive loop — across a sequence of
	grammar texts: valid printouts, printouts with an unclosed or a surplus bracket (rejected), groups that span lines, gram.lark itself.
	Oracle: a fresh parser on the same text (the models treat tokenizer and parser as functions of the text)."""
	from data.syntax.gram_rules import gram_rules
	from data.syntax.gram_tokenizer import gram_tokenizer
	from rogw.tranp.errors import Errors
	from rogw.tranp.implements.syntax.tranp.syntax import SyntaxParser
	rng = ctx.sub_rng('history')
	gen = gramlib.RuleGen(rng)
	res = SearchResult('a shared SyntaxParser(gram_rules(), gram_tokenizer()) gives on every grammar text of a sequence what a fresh one gives (rejected texts with unbalanced brackets in between; gram.lark last)')
	hist: Counter[str] = Counter()

	def fresh() -> Any:
		return SyntaxParser(gram_rules(), gram_tokenizer())

	def run(p: Any, text: str) -> tuple[str, Any]:
		try:
			with gramlib.budget(gramlib.CALL_BUDGET_S):
				return 'ok', p.parse(text, 'entry').simplify()
		except gramlib.BudgetExceeded:
			return 'budget-exceeded', None
		except Errors.Syntax as e:
			return 'Errors.Syntax', str(e)
		except Exception as e:  # noqa: BLE001
			return exc_enum(e), None

	def toks(tk: Any, text: str) -> Any:
		try:
			return [(t.type.name, t.string, tuple(t.source_map)) for t in gramlib.real_tokens(tk, text)]
		except gramlib.BudgetExceeded:
			return 'budget-exceeded'
		except Exception as e:  # noqa: BLE001
			return exc_enum(e)

	with open(os.path.join(REPO, 'data/syntax/gram.lark'), 'rb') as f:
		gram_lark = f.read().decode('utf-8')
	valid: list[str] = ['entry := (line)+\nline[1] := word "\\n" | group\ngroup := "(" [word ("," word)*] ")"\nword := /[a-z]+/\n', 'x := (a\n\t| b)\ny := [a\n\tb]\n']
	for _ in range(ctx.scale(40, 300)):
		k, rules = real_from_ast(gen.grammar(rng.randint(1, 4), rng.randint(0, 3), bare_groups=rng.random() < 0.2))
		if k != 'ok':
			continue
		try:
			text = pretty_of(rules) + '\n'
		except Exception:  # noqa: BLE001 - rules-ast compares pretty() itself
			continue
		if rng.random() < 0.3:
			# a group that spans lines: a line break right after an opening bracket or an alternative bar (outside terminals as far as we can tell)
			spots = [i for i, c in enumerate(text) if c in '([|' and i + 1 < len(text) and text[i + 1] not in '"/']
			if spots:
				i = rng.choice(spots)
				text = text[:i + 1] + '\n\t' + text[i + 1:]
		valid.append(text)
	unbalanced = ['entry := (line\n', 'x := [a\n', 'x := a)\n', 'x := a]\n', 'x := ((a) b\n', 'x := [a [b]\n', 'x := a))\n', 'x := (a]\n']
	for text in valid[2:12]:
		spots = [i for i, c in enumerate(text) if c in '()[]']
		if spots:
			i = rng.choice(spots)
			unbalanced.append(text[:i] + text[i + 1:] if rng.random() < 0.6 else text[:i] + text[i] + text[i:])
	sequences: list[list[str]] = [['entry := (line\n', valid[0], gram_lark], ['x := a)\n', valid[1], gram_lark], ['x := [a\n', 'x := a]\n', valid[0]]]
	for _ in range(ctx.scale(30, 250)):
		seq = []
		for _ in range(rng.randint(2, 6)):
			seq.append(rng.choice(unbalanced) if rng.random() < 0.4 else rng.choice(valid))
		if rng.random() < 0.4:
			seq.append(gram_lark)
		sequences.append(seq)
	dl = gramlib.Deadline(ctx.scale(60, 400))
	seen: set[str] = set()
	for seq in sequences:
		if dl.expired():
			res.note = f'stopped early: wall budget {dl.seconds} s over'
			break
		res.cases += 1
		seen.add('\x00'.join(seq))
		try:
			shared = fresh()
			shared_tk = gram_tokenizer()
		except Exception as e:  # noqa: BLE001
			res.findings.append(Finding(key=f'history:setup-{exc_enum(e)}', what=f'building the grammar parser raised {exc_enum(e)}', replay={'sequence': seq[:1]}))
			break
		for i, text in enumerate(seq):
			a, b = run(shared, text), run(fresh(), text)
			ta, tb = toks(shared_tk, text), toks(gram_tokenizer(), text)
			if a == b and ta == tb:
				hist[f'same:{b[0]}'] += 1
				continue
			key = 'history:tokens-differ' if a == b else 'history:result-differs'
			hist[key] += 1
			res.findings.append(Finding(key=key, what=f'grammar text #{i + 1} of a sequence given to ONE parser/tokenizer instance: {a[0]} / {str(a[1])[:120]!r}, a fresh instance: {b[0]} / {str(b[1])[:120]!r}; text {text[:200]!r} after {seq[:i]!r:.300}',
				replay={'sequence': seq[:i + 1], 'shared': [a[0], str(a[1])[:600]], 'fresh': [b[0], str(b[1])[:600]], 'shared_tokens': str(ta)[:600], 'fresh_tokens': str(tb)[:600]}))
			break
	res.distinct = len(seen)
	res.histogram = dict(hist)
	return res


def search_gram_check_file(ctx: Ctx) -> SearchResult:
	"""The FILE path of bin/gram_check.py (`App` with -i/-o, the tool that writes data/syntax/*_rules.py): rules → pretty() → file →
	App.load_source / App.run() → generated module. Terminals hold raw control characters (CR, TAB, FF, VT, FS…, NEL, LS, PS), files end
	their lines with LF or CRLF. Oracles: load_source returns the decoded bytes of the file, character for character; the generated
	module equals the rendering of the in-memory parse of that text; for LF files the rules read back are the rule set the tree
	describes (independent walk), and — where render_rules can express the values — executing the module returns them."""
	from rogw.tranp.bin.gram_check import App, Args
	from rogw.tranp.errors import Errors
	from rogw.tranp.implements.syntax.tranp.syntax import SyntaxParser
	rng = ctx.sub_rng('gram-check-file')
	res = SearchResult('gram_check -i FILE -o MODULE: load_source(FILE) is the file\'s text; MODULE == render(parse(text)); rules read back == the printed rule set (raw control characters in terminals, LF and CRLF files)')
	hist: Counter[str] = Counter()
	extra_s = ['"\\r"', '"\r"', '"a\rb"', '"\r\n"', '"\x85"', '"a\x85b"', '" "', '" x"', '"\t"', '"a\x0bb"', '"é\r"']
	extra_r = ['/a\rb/', '/\r/', '/x\x85/', '/ y/']
	gen = gramlib.RuleGen(rng, strings=gramlib.STRING_TERMINALS + extra_s * 2, regexps=gramlib.REGEXP_TERMINALS + extra_r)
	world = GramWorld()
	seen: set[str] = set()
	dl = gramlib.Deadline(ctx.scale(60, 400))
	base = ctx.tmpdir()

	def in_memory(text: str) -> tuple[str, Any, Any]:
		from data.syntax.gram_tokenizer import gram_tokenizer
		try:
			with gramlib.budget(gramlib.CALL_BUDGET_S):
				tree = SyntaxParser(world.rules, gram_tokenizer()).parse(text, 'entry')
				return 'ok', tree, tree.simplify()
		except gramlib.BudgetExceeded:
			return 'budget-exceeded', None, None
		except Errors.Syntax as e:
			return 'Errors.Syntax', None, str(e)
		except Exception as e:  # noqa: BLE001
			return exc_enum(e), None, None

	def char_class(a: str, b: str) -> str:
		if a.replace('\r\n', '\n').replace('\r', '\n') == b:
			return 'carriage-return-translated'
		return 'other'

	n = 0
	for i in range(ctx.scale(90, 900)):
		if dl.expired():
			res.note = f'stopped early: wall budget {dl.seconds} s over'
			break
		if i == 0:
			# entry := (line)+ ; line := word [cr] "\n" ; cr := "\r" ; word := /[a-z]+/  — a tokenizer-style grammar with the carriage-return terminal
			t = ('entry', [('rule', [('symbol', 'entry'), ('__empty__', ''), ('expr_rep', [('symbol', 'line'), ('repeat', '+')])]),
				('rule', [('symbol', 'line'), ('__empty__', ''), ('terms', [('symbol', 'word'), ('expr_opt', [('symbol', 'cr')]), ('string', '"\\n"')])]),
				('rule', [('symbol', 'cr'), ('__empty__', ''), ('string', '"\\r"')]), ('rule', [('symbol', 'word'), ('__empty__', ''), ('regexp', '/[a-z]+/')])])
		else:
			t = gen.grammar(rng.randint(1, 4), rng.randint(0, 2), bare_groups=rng.random() < 0.2)
		k, rules = real_from_ast(t)
		if k != 'ok':
			hist['not-a-rule-set'] += 1
			continue
		want = gramlib.tree_show(t)
		try:
			printed = pretty_of(rules) + '\n'
		except Exception:  # noqa: BLE001 - rules-ast compares pretty() itself
			continue
		for variant in (('lf', 'crlf') if i % 2 == 0 else ('lf',)):
			# CRLF files: every line end (also a raw LF inside a terminal) becomes CR LF; judged against the in-memory parse of that same text
			text = printed if variant == 'lf' else printed.replace('\n', '\r\n')
			res.cases += 1
			seen.add(variant + want)
			n += 1
			stem = rng.choice(STEMS)
			gp, op = os.path.join(base, f'g{n}.lark'), os.path.join(base, f'o{n}', f'{stem}.py')
			os.makedirs(os.path.dirname(op), exist_ok=True)
			with open(gp, 'wb') as f:
				f.write(text.encode('utf-8'))
			rec = {'tree': t, 'file_text': text, 'variant': variant}
			try:
				app = App(Args(['-i', gp, '-o', op]))
				with gramlib.budget(gramlib.CALL_BUDGET_S):
					loaded = app.load_source(gp)
			except Exception as e:  # noqa: BLE001
				hist[f'{variant}:load-raises'] += 1
				res.findings.append(Finding(key=f'gram-check-file:load-source-raises-{exc_enum(e)}', what=f'App.load_source raised {exc_enum(e)} for a grammar file with the text {text[:200]!r}', replay=rec))
				continue
			if loaded != text:
				cls = char_class(text, loaded)
				hist[f'{variant}:LOAD-ALTERS:{cls}'] += 1
				res.findings.append(Finding(key=f'gram-check-file:load-source-alters-text:{cls}', what=f'App.load_source does not return the text of the grammar file: {loaded[:200]!r} instead of {text[:200]!r}',
					replay={**rec, 'loaded': loaded}))
				continue
			mk, mtree, mpayload = in_memory(text)
			try:
				with gramlib.budget(gramlib.CALL_BUDGET_S * 2):
					app.run()
				with open(op, 'rb') as f:
					generated = f.read().decode('utf-8')
				fk = 'ok'
			except gramlib.BudgetExceeded:
				fk, generated = 'budget-exceeded', ''
			except Errors.Syntax:
				fk, generated = 'Errors.Syntax', ''
			except Exception as e:  # noqa: BLE001
				fk, generated = exc_enum(e), ''
			if fk != mk:
				hist[f'{variant}:OUTCOME-DIFFERS'] += 1
				res.findings.append(Finding(key='gram-check-file:outcome-differs-from-in-memory', what=f'gram_check -i FILE -o MODULE ends with {fk}, parsing the same text in memory with {mk}; text {text[:200]!r}', replay=rec))
				continue
			if mk != 'ok':
				hist[f'{variant}:both-{mk}'] += 1
				if variant == 'lf':
					res.findings.append(Finding(key=rt_key(rules), what=f'the printout of a rule set is not accepted ({mk}); printout {text[:200]!r}', replay=rec))
				continue
			try:
				expected = real_render(mtree, stem)
			except Exception as e:  # noqa: BLE001
				expected = f'raised {exc_enum(e)}'
			if generated != expected:
				hist[f'{variant}:MODULE-DIFFERS'] += 1
				res.findings.append(Finding(key='gram-check-file:module-differs-from-in-memory', what=f'the module written for a grammar file is not the rendering of the parse of its text; text {text[:200]!r}', replay={**rec, 'generated': generated[:3000], 'expected': expected[:3000]}))
				continue
			if variant == 'lf':
				k3, back = real_from_ast(mpayload)
				got = gramlib.rules_show(back) if k3 == 'ok' else k3
				if got != want:
					hist['lf:RULES-DIFFER'] += 1
					res.findings.append(Finding(key=rt_key(rules), what=f'the rules compiled from the grammar file are not the printed rule set; file text {text[:200]!r}', replay={**rec, 'expected': want, 'got': got}))
					continue
				vals = tree_values(mpayload)  # the values render_rules sees: escapes already turned into the raw characters by the printer
				try:
					ns: dict[str, Any] = {}
					exec(compile(generated, f'<generated {stem}.py>', 'exec'), ns)  # noqa: S102 - the module gram_check wrote
					if stem not in ns:
						hist['lf:FACTORY-NAME'] += 1
						res.findings.append(Finding(key='gram-check-file:factory-name-differs-from-file-stem', what=f'the module written to {stem}.py does not define {stem}(); it defines {[k for k in ns if not k.startswith("__") and k != "Rules"]}', replay={**rec, 'stem': stem, 'generated': generated[:600]}))
						continue
					got = gramlib.rules_show(ns[stem]())
				except Exception as e:  # noqa: BLE001
					got = f'raised {type(e).__name__}: {e}'
				if got != gramlib.quote_fixup_show(want):
					if any(gramlib.unescaped_quote_or_line_break(v) for v in vals):
						cls = 'quote-or-line-break-in-terminal'  # render_rules has no escaping for these (proposed/C12-render-quote-line-break.md)
					else:
						cls = 'raw-line-separator-in-terminal' if any(c in v for v in vals for c in LINE_SEPARATORS) else 'other'
					hist[f'lf:MODULE-IMPORT:{cls}'] += 1
					res.findings.append(Finding(key=f'render-import:{cls}', what=f'the module gram_check wrote for a grammar file is not importable or defines other rules: {got[:200]}', replay={**rec, 'generated': generated[:3000], 'expected': want, 'got': got}))
					continue
				hist['lf:module-imports-equal'] += 1
			hist[f'{variant}:file-equals-in-memory'] += 1
	res.distinct = len(seen)
	res.histogram = dict(hist)
	return res


# ---------------------------------------------------------------------------------------------


def guarded(kind: str, name: str, fn, ctx: Ctx):
	"""Run one stream / search; an exception that escapes it (raised by the code under test at a place the harness did not expect,
	e.g. while loading the rule modules) becomes a reported result instead of a harness crash (CONVENTIONS addendum 14)."""
	import traceback
	try:
		return fn(ctx)
	except common.InfraError:
		raise
	except Exception as e:  # noqa: BLE001
		tail = ''.join(traceback.format_exception(type(e), e, e.__traceback__)[-6:])
		if kind == 'stream':
			st = Stream(name)
			st.cases = 1
			st.disagreements.append({'case': 'stream aborted', 'op': name, 'real': f'{type(e).__name__}: {e}', 'model': '(not reached)', 'traceback': tail})
			return st
		res = SearchResult(name)
		res.cases = 1
		res.findings.append(Finding(key=f'search-aborted:{type(e).__name__}', what=f'{name}: the real code raised {type(e).__name__}: {e}', replay={'search': name, 'traceback': tail}))
		return res


STATEMENTS = {
	'ast_rt_from_to': 'fromAst (toAst g) = g for every canonical rule set g (all shapes the meta-grammar can express, incl. bare groups)',
	'ast_rt_to_from': 'toAst (fromAst t) = t for every well-shaped tuple tree t',
	'ast_rt_shipped': 'gram_rules() and py_rules() are canonical',
	'fixed_gram': 'the model engine with the built-in rules on the real token list of gram.lark yields the literal of gram_rules.py, and from_ast of it is gram_rules() (kernel-evaluated)',
	'fixed_gram_text': 'the same starting from the embedded TEXT of gram.lark: the C13 lexer model with the gram token definition yields the strings and source maps of that token list (kernel-evaluated); only the regexp class per token is not recomputed in Lean',
	'fixed_gram_pure': 'the same with the token classes computed in Lean too (GramClass predicates): text → lexer model → classes → engine → from_ast, no dumped token data',
	'gram_class_agrees': 'the five transcribed regexp predicates are the regexp terminals of gram_rules() and classify every dumped token (gram.lark, py_gram.lark, witnesses) as the real re.fullmatch did',
	'text_rt_gram': 'kernel-evaluated instance of the text-level law: printing gram_rules(), lexing (C13 model), classifying, parsing with gram_rules() and from_ast gives gram_rules() back — nothing dumped',
	'text_rt_witnesses': 'the same for every recorded witness rule set',
	'render_value_rt': 'for a token value without a single quote, Python\'s literal evaluation of the text render_rules writes (after both escape fix-ups) is the value itself',
	'fixed_py': 'compiling the real token list of py_gram.lark yields, through render_rules, exactly the text of py_rules.py; its tree equals the literal of py_rules.py up to the renderer\'s \\\' fix-up; from_ast of the literal is py_rules() (kernel-evaluated)',
	'text_rt_partial': 'the text-level law holds for every canonical g whose printout the engine parses into toAst g (the hypothesis the rules-text correspondence checks on the real code)',
	'text_rt_f7_regression': 'after fix 87005c8 x := a (b | c) and x := a b | c print differently (the repaired finding F7)',
	'text_rt_regression': 'kernel-evaluated: for every recorded witness the model printout equals the real printout and the model engine on the real tokens gives the rule set back',
	'accept_same': 'rule sets that are equal as data give the same parse result on every token list',
}


def run(ctx: Ctx) -> int:
	ok, msg = translate(ctx)
	proof = common.prove(ctx, PROP, leanchecker=ctx.thorough)
	streams, searches = [], []
	with ctx.timed('correspondence'):
		for name, fn in [('rules-ast', stream_rules_ast), ('rules-text', stream_rules_text)]:
			with ctx.timed(f'stream:{name}'):
				streams.append(guarded('stream', name, fn, ctx))
	with ctx.timed('search'):
		for name, fn in [('round-trip', search_round_trip), ('fixed-points', search_fixed_points), ('render-import', search_render_import), ('history', search_history), ('gram-check-file', search_gram_check_file)]:
			with ctx.timed(f'search:{name}'):
				searches.append(guarded('search', name, fn, ctx))
	return common.finish(ctx, proof, streams, searches, translate_ok=ok, translate_msg=msg,
		statements=STATEMENTS,
		partial={
			'proved': 'AST-level round trip (both directions), both fixed points as kernel-evaluated computations on the real token lists, text-level law reduced to one hypothesis (text_rt_partial) and kernel-checked on the recorded witnesses, accept_same',
			'correspondence_only': 'from_ast / Prettier / Pattern.make / render_rules / the engine under gram_rules() equal the model on random and shipped inputs; toAst equals the real parse of a printout',
			'tests': 'TextRt.textRt py_rules() = true is evaluated by the compiled driver on every run (rules-text stream, case textrt-py_rules) — as a kernel proof it takes 8 min, so it is a test, not a theorem',
			'search_only': 'text-level round trip in general (text_rt_statement: needs a lexer model and an inversion argument for the engine on the meta-grammar), module texts on disk, compiled vs original rules on sentences, the FILE path of gram_check (load_source / run_output on LF and CRLF files with raw control characters in terminals; how the file is opened is pinned by the translator), one grammar parser instance over a history of texts',
		},
		assumptions=[
			'symbol names, terminals and texts are ASCII (Pattern.make\'s \\w is modelled for ASCII)',
			'generated terminals are single tokens of the meta-grammar (strings without a double quote, regexps not starting with a slash)',
			'gram_rules.py is compared after removing its hand-written docstring and the extra newline at the end of the file',
		],
		trusted=['Python string-literal evaluation as transcribed in RulesAst.pyUnescape (\\\\ and \\\' only); that the rendered text is one well-formed module is checked by the render-import search (exec)',
			'the five regexp terminals of the meta-grammar transcribed as Lean predicates (GramClass), tied by C12.gram_class_agrees and the gramclass correspondence',
			'the gram tokenizer for py_gram.lark: the model engine is fed its REAL token list (kernel lexing of that 5 kB text exceeds the kernel time limit; for gram.lark and the round-trip witnesses the C13 lexer model is evaluated in the kernel and agrees token by token)',
			'Python literal evaluation of the rendered module text (\\\\ → \\, \\\' → \') when relating py_rules.py\'s text to its evaluated literal',
			'regular expressions: evaluated by the real `re`, entering the model as token classes'])


def replay(ctx: Ctx, path: str) -> int:
	with open(path, encoding='utf-8') as f:
		rec = json.load(f)
	print(json.dumps(rec, indent=1, ensure_ascii=False)[:3000])
	inp = rec.get('input') or {}
	if rec.get('kind') == 'failing-input' and 'sequence' in inp:
		from data.syntax.gram_rules import gram_rules
		from data.syntax.gram_tokenizer import gram_tokenizer
		from rogw.tranp.implements.syntax.tranp.syntax import SyntaxParser
		shared = SyntaxParser(gram_rules(), gram_tokenizer())
		same = True
		for text in inp['sequence']:
			a = gramlib.real_parse_with(shared, text)
			b = gramlib.real_parse_with(SyntaxParser(gram_rules(), gram_tokenizer()), text)
			same = a == b
			print(f'replay: {text[:80]!r}: shared {a[0]}, fresh {b[0]}')
		if not same:
			print(f'VIOLATION property={PROP} replay={path}')
		return 0 if same else 1
	if rec.get('kind') == 'failing-input' and 'file_text' in inp:
		from rogw.tranp.bin.gram_check import App, Args
		d = ctx.tmpdir()
		gp = os.path.join(d, 'g.lark')
		with open(gp, 'wb') as f:
			f.write(inp['file_text'].encode('utf-8'))
		try:
			loaded = App(Args(['-i', gp])).load_source(gp)
		except Exception as e:  # noqa: BLE001
			loaded = f'raised {exc_enum(e)}'
		same = loaded == inp['file_text']
		print(f'replay: load_source returns {loaded[:200]!r}; the file holds {inp["file_text"][:200]!r}')
		if not same:
			print(f'VIOLATION property={PROP} replay={path}')
			return 1
	if rec.get('kind') == 'failing-input' and 'tree' in inp:
		world = GramWorld()
		k, rules = real_from_ast(_tuplify(inp['tree']))
		text = pretty_of(rules) + '\n'
		k2, payload, _ = world.parse(text)
		back = real_from_ast(payload)[1] if k2 == 'ok' else None
		same = back is not None and gramlib.rules_show(back) == gramlib.rules_show(rules)
		print(f'replay: pretty = {text!r}; round trip {"holds" if same else "FAILS"}')
		if not same:
			print(f'VIOLATION property={PROP} replay={path}')
		return 0 if same else 1
	ctx2 = Ctx(PROP, rec.get('tier', 'quick'), int(rec.get('seed', 0)))
	return run(ctx2)
