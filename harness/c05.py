"""C05 — On-disk caches never change the result.

Theorems: lean/Tranp/Props/C05.lean over lean/Tranp/Model/CacheFS.lean (+ Model/JsonText.lean for the truncation lemma).
Tie: correspondence stream `cachefs` — the real command-line application in a temporary project (generated chain / diamond
graphs), ops edit / run / run -f / clear / trunc / delete / enable, observing after every op the cache-directory listing and
the files opened for reading / writing / unlinked below it (sys.addaudithook) — against the model's protocol.
Search (real code only): output_warm == output_cold over the same histories, truncation of every cache file, no cache file
access with caching disabled, every proper prefix of every cache file is rejected by the real loaders.
"""
from __future__ import annotations

import io
import json
import os
import random
import re
import shutil
import sys
import traceback
from typing import Any

from harness import common, tproj
from harness.common import Ctx, Finding, SearchResult, Stream, hx

PROP = 'C05'
PKG = 'app'

TYPES = [('int', '1'), ('str', "'x'"), ('float', '1.5'), ('bool', 'True')]
CUT = 'err:RunDoesNotEnd'		# status of a real run that was cut by the per-run budget (tproj.run_budget)

# real-code exceptions that escaped while a case was built or observed (rule 14: an outcome, never a harness crash), and the
# wall deadlines of the loops (a deadline only skips generated cases and counts them)
CRASHES: list[Finding] = []
DEADLINES: list[tproj.Deadline] = []


def crashed(where: str, e: BaseException, replay: dict[str, Any]) -> None:
	tb = traceback.extract_tb(e.__traceback__)
	real = [f for f in tb if 'rogw' in f.filename]
	at = f'{os.path.basename(real[-1].filename)}:{real[-1].lineno} {real[-1].name}' if real else (f'{os.path.basename(tb[-1].filename)}:{tb[-1].lineno}' if tb else '?')
	CRASHES.append(Finding(key=f'unexpected-exception:{where}:{common.exc_enum(e)}', what=f'{where}: {type(e).__name__}: {e} (raised at {at})'[:400], replay={**replay, 'where': where, 'at': at}))


def new_deadline(name: str, seconds: float) -> tproj.Deadline:
	d = tproj.Deadline(name, seconds)
	DEADLINES.append(d)
	return d


def search_crashes(ctx: Ctx) -> SearchResult:
	res = SearchResult('no call of the real code made while building or observing a case raises outside the observed outcome classes')
	res.cases = len(CRASHES)
	res.findings = list(CRASHES)
	hist: dict[str, int] = {}
	for f in CRASHES:
		hist[f.key] = hist.get(f.key, 0) + 1
	res.histogram = hist
	return res

# ---------------------------------------------------------------------------------------------
# generated module graphs


def graph_shapes() -> dict[str, dict[str, list[str]]]:
	"""module ↦ direct imports; targets are all modules."""
	return {
		'chain2': {'a': ['b'], 'b': []},
		'chain3': {'a': ['b'], 'b': ['c'], 'c': []},
		'chain4': {'a': ['b'], 'b': ['c'], 'c': ['d'], 'd': []},
		'diamond': {'a': ['b', 'c'], 'b': ['d'], 'c': ['d'], 'd': []},
		'fan3': {'a': ['b', 'c'], 'b': [], 'c': []},
		'vee': {'a': ['c'], 'b': ['c'], 'c': []},
		# names that are prefixes of each other / contain the persistor's infix / live in a sub-package (eviction globs)
		'prefix4': {'a': ['ab'], 'ab': ['a_symbols'], 'a_symbols': ['sub.a'], 'sub.a': []},
		# sibling modules whose dotted paths are prefixes of each other and that do NOT import each other (keys of the symbol
		# table are `<module path>#<name>`: a prefix test on them confuses `app.p` with `app.pq`), with dependants on both sides
		'siblings': {'p': [], 'pq': [], 'r': ['pq'], 't': ['p', 'pq']},
		'siblings2': {'t': ['pq', 'p'], 'pq': [], 'p': [], 'pqr': ['pq']},
		# a module imports an already visited module FIRST and a not yet visited one after it (closure traversals that stop early)
		'diamond2': {'a': ['b', 'c'], 'b': ['d'], 'c': ['d', 'e'], 'd': [], 'e': []},
		# two leaves with name-free contents (see ANON) that can exchange their exact contents
		'swap': {'a': ['p1', 'p2'], 'p1': ['lx'], 'p2': ['ly'], 'lx': [], 'ly': []},
	}


# leaves whose source does not mention their own name: `def val() -> T` / `v = …`; the content depends on the variant only, so
# "edit lx to ly's variant and ly to lx's" exchanges the exact file contents of the two modules
ANON = ('lx', 'ly')


N_VARIANTS = 48


def wide_arity(ident: str) -> int:
	"""Number of parameters of `w_<ident>`: 9..12, fixed per module name (a caller must know it without knowing the variant).
	With the return type a function symbol then has 10..13 attributes on one level (two-digit attribute indices)."""
	return 9 + sum(ord(c) for c in ident) % 4


def module_source(name: str, imports: list[str], variant: int) -> str:
	"""A small typed module. `variant` selects the declared return type of `g_<name>` and of the wide function `w_<name>`
	(9..12 parameters), where the module-level variable `v_<name>` takes its (inferred) type from, and what the locals `z`
	and `y` in `h_<name>` are assigned from (an imported variable / the result of an imported wide function)."""
	ty, lit = TYPES[variant % 4]
	if name in ANON:
		return '\n'.join([f'def val() -> {ty}:', f'\treturn {lit}', '', f'v = {lit}', ''])
	ext = variant // N_VARIANTS		# real-code searches only (the stream stays below N_VARIANTS): bit 0 = FWD block, bit 1 = BROKEN function
	var_mode = (variant // 4) % 3
	loc_mode = (variant // 12) % 2
	deep = (variant // 24) % 2		# whitespace-only difference: `g` is a method of `A_<name>` (0) or of the nested `A_<name>.B` (1)
	dotted = imports
	name = name.replace('.', '_')
	imports = [d.replace('.', '_') for d in imports]
	lines = [f'from {PKG}.{d} import val, v' if d in ANON else f'from {PKG}.{d} import g_{i}, v_{i}, w_{i}, A_{i}' for d, i in zip(dotted, imports)]
	if ext & 1:
		# FORWARD references: a class whose method is annotated with the quoted instantiation of a generic class that is defined
		# further down, whose own base `G[Item]` names a class defined after the referrer as well (the stored symbol table has to list
		# Item before K, K before the user: the restore of `<module>-symbols-*.json` rebuilds the symbols in file order)
		lines = ['from typing import Generic, TypeVar', *lines, '', f"T_{name} = TypeVar('T_{name}')", f"T2_{name} = TypeVar('T2_{name}')", '',
			f'class User_{name}:', f"\tdef make(self, k: 'K_{name}[{ty}]') -> {ty}:", '\t\treturn k.second()', '',
			f'class Item_{name}:', '\tdef tag(self) -> int:', '\t\treturn 1', '',
			f'class G_{name}(Generic[T_{name}]):', f'\tdef first(self) -> T_{name}:', '\t\t...', '',
			f'class K_{name}(G_{name}[Item_{name}], Generic[T2_{name}]):', f'\tdef second(self) -> T2_{name}:', '\t\t...']
	gcall = {i: ('val()' if i in ANON else f'g_{i}()') for i in imports}
	vname = {i: ('v' if i in ANON else f'v_{i}') for i in imports}
	lines += ['', f'def g_{name}() -> {ty}:', f'\treturn {lit}', '']
	n = wide_arity(name)
	params = ', '.join([*(f'a{k}: int' for k in range(n - 1)), f'a{n - 1}: float'])
	lines += [f'def w_{name}({params}) -> {ty}:', f'\treturn {lit}', '']
	# re-indenting the last method moves it into the nested class: `A_<name>().g()` then is the inherited `P_<name>.g() -> int`
	pad = '\t' * deep
	lines += [f'class P_{name}:', '\tdef g(self) -> int:', '\t\treturn 1', '',
		f'class A_{name}(P_{name}):', '\tclass B:', '\t\tdef f(self) -> int:', '\t\t\treturn 0', '',
		f'{pad}\tdef g(self) -> {ty}:', f'{pad}\t\treturn {lit}', '']
	if imports and var_mode == 1:
		lines.append(f'v_{name} = {gcall[imports[0]]}')
	elif imports and var_mode == 2:
		lines.append(f'v_{name} = {vname[imports[-1]]}')
	else:
		lines.append(f'v_{name} = {lit}')
	lines += ['', f'def h_{name}() -> int:']
	if imports and loc_mode == 1:
		lines.append(f'\tz = {vname[imports[0]]}')
	else:
		lines.append(f'\tz = v_{name}')
	for i in imports[:2]:
		if i in ANON:
			continue
		k = wide_arity(i)
		args = ', '.join([*(str(j) for j in range(k - 1)), f'{k - 1}.0'])
		lines.append(f'\ty_{i} = w_{i}({args})')
	lines += ['\treturn 0', '']
	for i in imports[:1]:
		if i not in ANON:
			lines += [f'def u_{name}(a: A_{i}) -> None:', '\tq = a.g()', '\tr = q', '\tprint(r)', '']
	if ext & 2:
		# BROKEN: the transpile of this module FAILS (no such method), in a call that spans three lines, on a class (imported if there
		# is one, else the module's own) whose definition spans many — the run's result is the printed error report with these spans
		cls = next((f'A_{i}' for i in imports if i not in ANON), f'A_{name}')
		lines += [f'def bad_{name}(p: {cls}) -> int:', '\treturn p.missing(', '\t\t1,', '\t\t2)', '']
	return '\n'.join(lines)


def key_of(module_path: str) -> str:
	return module_path.replace('.', '/')


# ---------------------------------------------------------------------------------------------
# the library closure as the real loader sees it (keys, imports, mtime classes)


class LibInfo:
	def __init__(self, ctx: Ctx) -> None:
		"""Loads the libraries once with the real Modules in a scratch project and records, per loaded module, its key,
		its imports (entrypoint.imports, in order) and its file mtime. Also keeps the resulting cache directory as the
		memoised result of the deterministic real operation `Modules.libralies()` in a fresh process with an empty cache."""
		from rogw.tranp.app.app import App
		from rogw.tranp.bin.transpile import Args, TranspileApp
		from rogw.tranp.file.loader import IDataLoader, ISourceLoader
		from rogw.tranp.lang.module import module_path_to_filepath
		from rogw.tranp.module.modules import Modules
		from rogw.tranp.module.types import LibraryPaths

		self.root = ctx.tmpdir('tranp-c05-lib-')
		proj = tproj.Project(self.root, package=PKG)
		proj.write_module('z0', 'def g_z0() -> int:\n\treturn 1\n')
		old = os.getcwd()
		os.chdir(proj.root)
		try:
			app = App(TranspileApp.definitions(Args(['-c', 'config.yml'])))
			mods = app.resolve(Modules)
			try:
				with tproj.AUDIT.watch(proj.cache_dir) as events, tproj.run_budget():
					mods.libralies()
			except tproj.RunBudgetExceeded:
				raise RuntimeError('Modules.libralies() with an empty cache directory does not end within the run budget') from None
			base = proj.cache_dir + os.sep
			self.preload_events = [(k, p[len(base):] if p.startswith(base) else p) for k, p in events]
			sources = app.resolve(ISourceLoader)
			datums = app.resolve(IDataLoader)
			self.lib_keys = [key_of(p.path) for p in app.resolve(LibraryPaths)]
			self.modules: list[tuple[str, list[str], float]] = []
			self.content_hash: dict[str, str] = {}
			for m in mods.loaded():
				imports = [key_of(n.import_path.tokens) for n in m.entrypoint.imports]
				fp = module_path_to_filepath(m.path, '.py')
				self.modules.append((key_of(m.path), imports, sources.mtime(fp)))
				self.content_hash[key_of(m.path)] = sources.hash(fp)
			self.grammar_mtime = datums.mtime(f'{tproj.REPO}/data/grammar.lark')
		finally:
			os.chdir(old)
		self.cache_template = proj.cache_dir
		mt = sorted({t for _, _, t in self.modules})
		self.mtime_id = {t: i + 1 for i, t in enumerate(mt)}
		self.first_project_mtime = len(mt) + 2

	def seed(self, proj: tproj.Project) -> None:
		shutil.copytree(self.cache_template, proj.cache_dir, dirs_exist_ok=True, copy_function=shutil.copy2)

	def prelude(self) -> list[str]:
		lines = [f'lib\t{k}' for k in self.lib_keys]
		for key, imports, t in self.modules:
			# toy source: imports + a content class (equal file contents ⇔ equal class)
			cls = sorted(set(self.content_hash.values())).index(self.content_hash[key])
			lines.append(f"mod\t{key}\t{hx(','.join(imports) + f';L{cls}')}\t{self.mtime_id[t]}\t0")
		return lines


_LIB: LibInfo | None = None


def lib_info(ctx: Ctx) -> LibInfo:
	global _LIB
	if _LIB is None:
		with ctx.timed('lib_info'):
			_LIB = LibInfo(ctx)
	return _LIB


# ---------------------------------------------------------------------------------------------
# canonical observation


REAL_NAME = re.compile(r'^(.*)-([0-9a-f]{32})(\.json|\.bin)$')
ANY_NAME = re.compile(r'^(.*)-([0-9A-Za-z]+)(\.json|\.bin)$')


def split_name(p: str) -> tuple[str, str, str]:
	m = ANY_NAME.match(p)
	if not m:
		return (p, '', '')
	return (m.group(1), m.group(2), m.group(3))


def sort_paths(paths: list[str]) -> list[str]:
	return sorted(paths, key=lambda p: (split_name(p)[0] + split_name(p)[2], split_name(p)[1]))


def canon_lines(lines: list[str]) -> list[str]:
	"""Rename digests by first appearance (per case); mark listings with two files of one stem as ambiguous."""
	names: dict[str, str] = {}
	out: list[str] = []
	for line in lines:
		cols = line.split('\t')
		if len(cols) != 5:
			out.append(line)
			continue
		new_cols = [cols[0]]
		for col in cols[1:]:
			items = sort_paths([p for p in col.split(',') if p])
			stems = [split_name(p)[0] + split_name(p)[2] for p in items]
			amb = '!AMBIGUOUS!' if len(set(stems)) != len(stems) else ''
			ren = []
			for p in items:
				stem, dig, ext = split_name(p)
				if dig:
					if dig not in names:
						names[dig] = f'D{len(names)}'
					ren.append(f'{stem}-{names[dig]}{ext}')
				else:
					ren.append(p)
			new_cols.append(amb + ','.join(ren))
		out.append('\t'.join(new_cols))
	return out


def error_kind(res: tproj.RunResult) -> str:
	"""Outcome class of a run. The model speaks about the root cause (decode error, missing directory); the loader may wrap
	it into an application error (`raise Errors.Fatal(...) from e`), so the cause chain is followed to its end."""
	e = res.exc
	if e is None:
		return 'ok'
	if isinstance(e, tproj.RunDoesNotEnd):
		return CUT
	chain: list[BaseException] = []
	cur: BaseException | None = e
	while cur is not None and cur not in chain:
		chain.append(cur)
		cur = cur.__cause__ or (cur.__context__ if not cur.__suppress_context__ else None)
	for x in chain:
		frames = traceback.extract_tb(x.__traceback__)
		if any(fr.name == 'load' and fr.filename.endswith('lark/parser.py') and 'Lark.load' in (fr.line or '') for fr in frames):
			return 'err:BinLoadError'
	root = chain[-1]
	if isinstance(root, FileNotFoundError):
		return 'err:FileNotFoundError'
	if isinstance(root, ValueError):
		return 'err:ValueError'
	return f'err:{common.exc_enum(root)}'


def observe(proj: tproj.Project, status: str, events: list[tuple[str, str]]) -> str:
	def pick(k: str) -> str:
		seen: list[str] = []
		for kind, p in events:
			if kind == k and p not in seen:
				seen.append(p)
		return ','.join(seen)
	return '\t'.join([status, ','.join(sort_paths(proj.cache_files())), pick('r'), pick('w'), pick('d')])


# ---------------------------------------------------------------------------------------------
# one history on the real application


class RealCase:
	"""A temporary project + the op interpreter shared by the correspondence stream and the searches."""

	def __init__(self, ctx: Ctx, lib: LibInfo, shape: str, variants: dict[str, int], seeded: bool, enabled: bool = True) -> None:
		self.ctx = ctx
		self.lib = lib
		self.shape = shape
		self.graph = graph_shapes()[shape]
		self.variants = dict(variants)
		self.enabled = enabled
		self.content_ids: dict[str, int] = {}
		self.grammars = 0
		self.last_config_op = ''
		self.proj = tproj.Project(ctx.tmpdir('tranp-c05-'), package=PKG)
		self.proj.tick = lib.first_project_mtime
		# every virtual mtime (tick) a module's file has had, in order; the last one is the current one
		self.ticks: dict[str, list[int]] = {}
		# (tick, source text) of a module when a run last WROTE its syntax-tree file
		self.tree_written: dict[str, tuple[int, str]] = {}
		for m in self.graph:
			self.proj.write_module(m, module_source(m, self.graph[m], self.variants[m]))
			self.ticks[m] = [self.proj.tick]
		if seeded:
			lib.seed(self.proj)
		self.seeded = seeded

	def toy_source(self, m: str) -> str:
		"""imports + a content class: equal real file contents ⇔ equal class (the model hashes this text)."""
		text = module_source(m, self.graph[m], self.variants[m])
		cls = self.content_ids.setdefault(text, len(self.content_ids))
		return ','.join(f'{PKG}/' + d.replace('.', '/') for d in self.graph[m]) + f';c{cls}'

	def target_order(self) -> list[str]:
		from rogw.tranp.module.includer import include_module_paths
		old = os.getcwd()
		os.chdir(self.proj.root)
		try:
			return [key_of(p.path) for p in include_module_paths(self.proj.input_globs[0], [])]
		finally:
			os.chdir(old)

	def prelude(self) -> tuple[list[str], list[str]]:
		"""Model declaration lines for the initial state (+ the expected `ok`s)."""
		lines = [f'init\t0\t{1 if self.enabled else 0}', *self.lib.prelude()]
		t = self.lib.first_project_mtime
		mt: dict[str, int] = {}
		for m in self.graph:		# written in this order by __init__: mtimes first_project_mtime+1, +2, …
			t += 1
			mt[m] = t
		for key in self.target_order():
			m = key[len(PKG) + 1:].replace('/', '.')
			lines.append(f'mod\t{key}\t{hx(self.toy_source(m))}\t{mt[m]}\t1')
		return lines, ['ok'] * len(lines)

	def canonical_listing(self) -> list[str]:
		return sort_paths(self.proj.cache_files())

	def apply(self, op: list[str]) -> tuple[str, tproj.RunResult | None]:
		"""Executes one op on the real project; returns (model op line, run result or None)."""
		kind = op[0]
		if kind == 'edit':
			m, v = op[1], int(op[2])
			self.variants[m] = v
			self.proj.write_module(m, module_source(m, self.graph[m], v))
			self.ticks[m].append(self.proj.tick)
			return f"edit\t{PKG}/{m.replace('.', '/')}\t{hx(self.toy_source(m))}", None
		if kind == 'editat':
			# content AND mtime change, but the new mtime is one that was in use before: `own:<i>` = the i-th mtime this module has
			# had (negative: counted from the current one), `mod:<x>` = the current mtime of module x. (Real-code searches only: the
			# model's edits draw fresh mtimes.) When the requested mtime is the module's current one the edit takes a fresh mtime.
			m, v, spec = op[1], int(op[2]), op[3]
			which, _, arg = spec.partition(':')
			try:
				tick = self.ticks[m][int(arg)] if which == 'own' else self.ticks[arg][-1]
			except (IndexError, KeyError, ValueError):
				tick = self.ticks[m][-1]
			self.variants[m] = v
			if tick == self.ticks[m][-1]:
				self.proj.write_module(m, module_source(m, self.graph[m], v))
				tick = self.proj.tick
			else:
				self.proj.write_module_at(m, module_source(m, self.graph[m], v), tick)
			self.ticks[m].append(tick)
			return f'editat\t{m}\t{tick}', None
		if kind == 'run':
			force = op[1] == '1'
			res = self.proj.run(force=force, cache_enabled=self.enabled)
			for k, p in res.events:
				if k == 'w' and p.startswith(f'{PKG}/') and layer_of(p) == 'tree':
					m = split_name(p)[0][len(PKG) + 1:].replace('/', '.')
					if m in self.graph:
						self.tree_written[m] = (self.ticks[m][-1], module_source(m, self.graph[m], self.variants[m]))
			return f'run\t{op[1]}', res
		if kind == 'clear':
			self.proj.clear_cache()
			return 'clear', None
		if kind == 'gswitch':
			# the configuration switches to ANOTHER grammar file that carries the SAME mtime (True / False exchanged in it)
			if os.path.isabs(self.proj.grammar_path):
				self.grammars += 1
				self.proj.set_grammar_copy(f'g{self.grammars}.lark')
			cur = os.path.join(self.proj.root, self.proj.grammar_path)
			with open(cur, encoding='utf-8') as f:
				text = f.read()
			a, b = '| "True" -> const_true', '| "False" -> const_false'
			a2, b2 = '| "True" -> const_false', '| "False" -> const_true'
			text = text.replace(a, a2, 1).replace(b, b2, 1) if a in text else text.replace(a2, a, 1).replace(b2, b, 1)
			self.grammars += 1
			name = f'g{self.grammars}.lark'
			with open(os.path.join(self.proj.root, name), 'w', encoding='utf-8') as f:
				f.write(text)
			st = os.stat(cur)
			os.utime(os.path.join(self.proj.root, name), ns=(st.st_mtime_ns, st.st_mtime_ns))
			self.proj.grammar_path = name
			self.proj.write_config()
			self.last_config_op = 'gswitch'
			return f"setting\t{hx(name)}\t{hx('file_input')}\t{hx('lalr')}", None
		if kind == 'gedit':
			# the grammar FILE is edited in place (same path, new content and mtime): the aliases of True / False are exchanged
			if not self.proj.grammar_path.endswith('.lark') or os.path.isabs(self.proj.grammar_path):
				self.grammars += 1
				self.proj.set_grammar_copy(f'g{self.grammars}.lark')
			name = self.proj.grammar_path
			path = os.path.join(self.proj.root, name)
			with open(path, encoding='utf-8') as f:
				text = f.read()
			a, b = '| "True" -> const_true', '| "False" -> const_false'
			a2, b2 = '| "True" -> const_false', '| "False" -> const_true'
			text = text.replace(a, a2, 1).replace(b, b2, 1) if a in text else text.replace(a2, a, 1).replace(b2, b, 1)
			with open(path, 'w', encoding='utf-8') as f:
				f.write(text)
			self.proj.next_mtime()
			ns = int(tproj.CLOCK_BASE) * 1_000_000_000 + self.proj.tick * 250_000_000
			os.utime(path, ns=(ns, ns))
			return f'grammar\t{hx(name)}', None
		if kind == 'grammar':
			self.grammars += 1
			name = f'g{self.grammars}.lark'
			self.proj.set_grammar_copy(name)
			return f'grammar\t{hx(name)}', None
		if kind == 'enable':
			self.enabled = op[1] == '1'
			return f'enable\t{op[1]}', None
		if kind in ('delete', 'trunc'):
			listing = self.canonical_listing()
			i = int(op[1])
			path = os.path.join(self.proj.cache_dir, listing[i])
			if kind == 'delete':
				os.unlink(path)
				return f'delete\t#{i}', None
			k = int(op[2])
			with open(path, 'rb') as f:
				data = f.read()
			k = min(k, max(len(data) - 1, 0))
			with open(path, 'wb') as f:
				f.write(data[:k])
			return f'trunc\t#{i}\t{k}', None
		raise AssertionError(op)


def next_op(rng: random.Random, case: RealCase, allow_damage: bool, allow_disable: bool, last_was_run: bool) -> list[str]:
	r = rng.random()
	mods = list(case.graph)
	if r < 0.30:
		m = rng.choice(mods)
		# mostly change the declared type of a leaf-ward module or the way a variable is inferred
		v = rng.randrange(N_VARIANTS) if rng.random() < 0.7 else (case.variants[m] + 1) % 4 + 4 * (case.variants[m] // 4)
		return ['edit', m, str(v)]
	if r < 0.52:
		return ['run', '0']
	if r < 0.74:
		return ['run', '1']
	if r < 0.79:
		return ['clear']
	if r < 0.81 and allow_disable:		# (the flag doubles as "configuration ops allowed")
		return ['grammar']
	if r < 0.88 and allow_disable:
		return ['enable', '0' if case.enabled else '1']
	listing = case.canonical_listing()
	if allow_damage and listing:
		i = rng.randrange(len(listing))
		# prefer the project's own small files
		own = [j for j, p in enumerate(listing) if p.startswith(f'{PKG}/')]
		if own and rng.random() < 0.7:
			i = rng.choice(own)
		if rng.random() < 0.5:
			return ['delete', str(i)]
		size = os.path.getsize(os.path.join(case.proj.cache_dir, listing[i]))
		k = rng.choice([0, 1, max(size - 1, 0), rng.randrange(max(size, 1))])
		return ['trunc', str(i), str(k)]
	return ['run', '1' if last_was_run else '0']


def gen_variants(rng: random.Random, graph: dict[str, list[str]]) -> dict[str, int]:
	return {m: rng.randrange(N_VARIANTS) for m in graph}


# ---------------------------------------------------------------------------------------------
# correspondence stream


def case_cachefs(ctx: Ctx, rng: random.Random, lib: LibInfo, n_ops: int, seeded: bool, corpus_ops: list[list[str]] | None = None,
		shape: str | None = None, variants: dict[str, int] | None = None) -> tuple[dict[str, Any], list[str], list[str]]:
	shape = shape or rng.choice(list(graph_shapes()))
	graph = graph_shapes()[shape]
	case = RealCase(ctx, lib, shape, variants or gen_variants(rng, graph), seeded, enabled=True)
	lines, real = case.prelude()
	if seeded:
		# the memoised real operation `Modules.libralies()` in a fresh process = model op `preload`
		lines.append('preload')
		real.append(observe(case.proj, 'ok', lib.preload_events))
	kinds: list[str] = []
	last_run = False
	ops_done: list[list[str]] = []
	for i in range(n_ops if corpus_ops is None else len(corpus_ops)):
		op = corpus_ops[i] if corpus_ops is not None else next_op(rng, case, allow_damage=True, allow_disable=True, last_was_run=last_run)
		if op[0] in ('delete', 'trunc') and int(op[1]) >= len(case.canonical_listing()):
			continue
		line, res = case.apply(op)
		ops_done.append(op)
		lines.append(line)
		status = error_kind(res) if res is not None else 'ok'
		real.append(observe(case.proj, status, res.events if res is not None else []))
		kinds.append(op[0] if op[0] != 'run' else f'run{op[1]}:{status}')
		last_run = op[0] == 'run'
	shutil.rmtree(case.proj.root, ignore_errors=True)
	desc = {'shape': shape, 'seeded': seeded, 'ops': ops_done, 'kinds': kinds, 'variants': case.variants}
	return desc, lines, real


def load_corpus() -> list[dict[str, Any]]:
	d = os.path.join(common.CORPUS_DIR, PROP)
	out = []
	if os.path.isdir(d):
		for fn in sorted(os.listdir(d)):
			if fn.endswith('.json'):
				with open(os.path.join(d, fn), encoding='utf-8') as f:
					rec = json.load(f)
				rec['file'] = fn
				out.append(rec)
	return out


def cachefs_cases(ctx: Ctx, part: tuple[int, int] = (0, 1)) -> list[tuple[dict[str, Any], list[str], list[str]]]:
	"""The real side of the stream `cachefs`: the op lines of every case and what the real application did. `part` = (k, n): the
	cases whose index ≡ k (mod n); every generated case draws from its own generator, so the n slices together are the whole stream."""
	lib = lib_info(ctx)
	cases: list[tuple[dict[str, Any], list[str], list[str]]] = []
	with ctx.timed('cachefs_real'):
		dl = new_deadline('stream cachefs', ctx.scale(240, 900))
		recs = [rec for rec in load_corpus() if rec.get('stream') == 'cachefs']
		n = ctx.scale(7, 48)
		for idx in range(len(recs) + n):
			if idx % part[1] != part[0]:
				continue
			rng = random.Random(f'{ctx.prop}:{ctx.seed}:cachefs:{idx}')
			if idx < len(recs):
				rec = recs[idx]
				try:
					cases.append(case_cachefs(ctx, rng, lib, 0, bool(rec.get('seeded', True)), corpus_ops=rec['ops'], shape=rec['shape'], variants=rec['variants']))
				except common.InfraError:
					raise
				except Exception as e:  # noqa: BLE001 - rule 14
					crashed('cachefs-stream', e, {'search': 'warm-cold', 'shape': rec['shape'], 'variants': rec['variants'], 'ops': rec['ops']})
				continue
			i = idx - len(recs)
			if dl.over():
				continue
			seeded = (i % 5) != 0
			try:
				cases.append(case_cachefs(ctx, rng, lib, ctx.scale(9, 16) if seeded else ctx.scale(5, 8), seeded))
			except common.InfraError:
				raise
			except Exception as e:  # noqa: BLE001 - rule 14
				crashed('cachefs-stream', e, {'search': 'crash', 'stream': 'cachefs', 'seed': ctx.seed, 'case': i})
	return cases


def stream_cachefs(ctx: Ctx, cases: list[tuple[dict[str, Any], list[str], list[str]]] | None = None) -> Stream:
	if cases is None:
		cases = cachefs_cases(ctx)
	st = tproj.correspond_canon('cachefs', cases, 'cachefs', canon_lines, classify=lambda d: [d['shape'], *d['kinds']])
	st.note = ('real TranspileApp in a temporary project (chain2/3/4, diamond, fan, vee graphs; library closure declared from the real '
		'loader); ops edit/run/run -f/clear/delete/trunc/enable; observation per op: status, cache listing (digests renamed by first '
		'appearance), files opened for reading / writing / unlinked below the cache directory (audit hook)')
	return st


# ---------------------------------------------------------------------------------------------
# search: the property's own oracle on the real code


def closure(graph: dict[str, list[str]], m: str) -> set[str]:
	out: set[str] = set()
	stack = list(graph[m])
	while stack:
		d = stack.pop()
		if d not in out:
			out.add(d)
			stack.extend(graph[d])
	return out


def failure_report(proj: tproj.Project, res: tproj.RunResult) -> str:
	"""What a failing run PRINTS about the failure (bin/transpile.py: `print(ErrorRender(e))`) without the stack trace of the
	tranp process: the quotation of the node (`via Node:` file, line, source line, caret range) and `<error>: <message>` with the
	node's span — rendered with the project as working directory, like the command line does. '' for a run that succeeded."""
	if res.exc is None or isinstance(res.exc, tproj.RunDoesNotEnd):
		return ''
	old = os.getcwd()
	os.chdir(proj.root)
	try:
		from rogw.tranp.view.error_render import ErrorRender
		with tproj.run_budget(20.0):
			text = ErrorRender(res.exc).render()		# type: ignore[arg-type]
	except tproj.RunBudgetExceeded:
		return 'render-does-not-end'
	except Exception as e:  # noqa: BLE001 - rule 14: the renderer raising is an outcome
		return f'render-raises:{common.exc_enum(e)}'
	finally:
		os.chdir(old)
	lines = text.replace(proj.root + os.sep, '').replace(proj.root, '<project>').split('\n')
	at = lines.index('via Node:') if 'via Node:' in lines else len(lines) - 1
	return '\n'.join(lines[at:])


def outcome(proj: tproj.Project, res: tproj.RunResult) -> tuple[str, dict[str, bytes], str]:
	"""(status, every output file, the printed failure report): the RESULT of a run"""
	return (error_kind(res), proj.output_files(), failure_report(proj, res))


def outcome_diff(a: tuple[str, dict[str, bytes], str], b: tuple[str, dict[str, bytes], str]) -> str:
	diff = diff_modules(a[1], b[1])
	if diff:
		return f'{diff}: ' + first_diff_line(a[1].get(diff[0], b''), b[1].get(diff[0], b''))
	if a[0] != b[0]:
		return f'status {a[0]} vs {b[0]}' + (f' ({(a[2] or b[2]).splitlines()[-1][:160]})' if (a[2] or b[2]) else '')
	la, lb = a[2].split('\n'), b[2].split('\n')
	for x, y in zip(la, lb):
		if x != y:
			return f'the printed error report: {x.strip()!r} vs {y.strip()!r}'
	return f'the printed error report: {len(la)} vs {len(lb)} lines'


def cold_outcome(ctx: Ctx, lib: LibInfo, proj: tproj.Project, force: bool, enabled: bool, seeded: bool) -> tuple[str, dict[str, bytes], str]:
	"""The same run on a copy of the project whose cache directory is empty (`seeded`: holding only the files an empty-cache
	`Modules.libralies()` produces — the library sources never change; a finding is always confirmed with seeded=False)."""
	cold = proj.clone(ctx.tmpdir('tranp-c05-cold-'))
	cold.clear_cache()
	if seeded:
		lib.seed(cold)
	out = outcome(cold, cold.run(force=force, cache_enabled=enabled))
	shutil.rmtree(cold.root, ignore_errors=True)
	return out


def diff_modules(a: dict[str, bytes], b: dict[str, bytes]) -> list[str]:
	return sorted(k for k in set(a) | set(b) if a.get(k) != b.get(k))


def first_diff_line(a: bytes, b: bytes) -> str:
	la, lb = a.decode('utf-8', 'replace').split('\n'), b.decode('utf-8', 'replace').split('\n')
	for x, y in zip(la, lb):
		if x != y:
			return f'{x.strip()!r} vs {y.strip()!r}'
	return f'{len(la)} vs {len(lb)} lines'


def diagnose_warm_cold(ctx: Ctx, lib: LibInfo, case: 'RealCase', pre: tproj.Project, force: bool, cold: tuple[str, dict[str, bytes]],
		snapshots: dict[str, dict[str, str]], hit: set[str]) -> tuple[str, str]:
	"""Names the failing input class: which cache layer carries the stale content and why its key did not change."""
	def rerun_without(pred: Any) -> tuple[str, dict[str, bytes]]:
		p = pre.clone(ctx.tmpdir('tranp-c05-diag-'))
		for rel in p.cache_files():
			if pred(rel):
				os.unlink(os.path.join(p.cache_dir, rel))
		out = outcome(p, p.run(force=force, cache_enabled=True))
		shutil.rmtree(p.root, ignore_errors=True)
		return out

	if rerun_without(lambda rel: '-symbols-' in rel) == cold:
		current = {m: module_source(m, case.graph[m], case.variants[m]) for m in case.graph}
		stale: list[str] = []
		transitive_only = True
		for rel in pre.cache_files():
			# only files the warm run restored from (opened for reading) can carry stale content into the output
			if rel.startswith(f'{PKG}/') and '-symbols-' in rel and rel in snapshots and rel in hit:
				m = rel[len(PKG) + 1:].split('-symbols-')[0].replace('/', '.')
				changed = {x for x in closure(case.graph, m) | {m} if snapshots[rel].get(x) != current[x]}
				if not changed:
					continue
				stale.append(f'{m}<-{",".join(sorted(changed))}')
				if not changed <= (closure(case.graph, m) - set(case.graph[m]) - {m}):
					transitive_only = False
		if stale and transitive_only:
			return 'symbols-stale-transitive-import', f'symbol files written before an edit of a transitively imported module are restored: {stale}'
		if not stale:
			return 'symbols-restore-differs', 'restoring the symbol files gives other symbols than analysing, although no source in the import closure changed since they were written'
		return 'symbols-stale-other', f'stale symbol files: {stale}'
	if rerun_without(lambda rel: rel.endswith('.json')) == cold:
		if case.last_config_op == 'gswitch':
			return 'tree-key-ignores-grammar-path', 'the configured grammar file changed (same mtime, other path): the cached trees of the other grammar are reused — the tree-cache identity does not cover the grammar path (regression of 9dfb5b4)'
		same_gen = sorted(m for m, (tick, text) in case.tree_written.items() if tick == case.ticks[m][-1] and text != module_source(m, case.graph[m], case.variants[m]))
		if same_gen:
			return 'tree-stale:mtime-recurs-same-generation', (f'module(s) {same_gen}: the source was edited (content and mtime changed) and edited again to other content with the mtime it had when its '
				'syntax-tree file was last written, with no store of that file in between — the tree cache is keyed by the source mtime, not by the content, so the file of the earlier content is served')
		recurs = sorted(m for m in case.graph if case.ticks[m][-1] in case.ticks[m][:-1])
		if recurs:
			return 'tree-stale:older-generation-served', (f'module(s) {recurs} carry an mtime they had in an EARLIER generation (other content, a store of a newer generation in between): '
				'the syntax-tree file of that older generation is still on disk and is served — older generations are not evicted when a newer one is stored')
		return 'tree-stale', 'a cached syntax tree differs from a fresh parse'
	return 'parser-stale', 'the cached parser differs from a fresh one'


def merge_results(parts: list[SearchResult]) -> SearchResult:
	"""One SearchResult from the results of the slices of one search (run side by side)."""
	res = SearchResult(parts[0].oracle)
	res.note = parts[0].note
	for p in parts:
		res.cases += p.cases
		res.distinct += p.distinct
		res.findings.extend(p.findings)
		for k, v in p.histogram.items():
			res.histogram[k] = res.histogram.get(k, 0) + v
		res.samples.extend(p.samples[:max(0, 2 - len(res.samples))])
	return res


def search_warm_cold(ctx: Ctx, only: list[tuple[str, dict[str, int], list[list[str]]]] | None = None, part: tuple[int, int] = (0, 1)) -> SearchResult:
	"""`part` = (k, n): this call runs the histories whose index ≡ k (mod n) — the list is the same in every slice (same sub_rng),
	the random choices inside history i come from its own generator — so the n slices together are the whole search."""
	rng = ctx.sub_rng('warm-cold')
	lib = lib_info(ctx)
	res = SearchResult('output_warm == output_cold at every run of a history (cold = same project state, empty cache directory)')
	histories: list[tuple[str, dict[str, int], list[list[str]]]] = list(only or [])
	for rec in load_corpus():
		if rec.get('search') == 'warm-cold' and only is None:
			histories.append((rec['shape'], rec['variants'], rec['ops']))
	if only is None:
		# targeted histories (addendum 16): on the graphs with prefix-named siblings (always) and on two other shapes, every
		# module infers a type through an import; build, change the declared type of one module, build again, change another
		# one, plain run
		others = [sh for sh in graph_shapes() if sh not in ('siblings', 'siblings2')]
		for shape in ['siblings2', 'siblings', *rng.sample(others, ctx.scale(2, len(others)))]:
			graph = graph_shapes()[shape]
			mods = list(graph)
			# a module whose dotted path extends another module's path is edited in its own history
			longer = [m for m in mods if any(m != o and m.startswith(o) for o in mods)] if shape.startswith('siblings') else []
			firsts = [*longer, *(rng.choice(mods) for _ in range(ctx.scale(0 if longer else 1, 3)))]
			for m1 in firsts:
				variants = {m: 4 * rng.randrange(1, 6) + rng.randrange(4) for m in graph}
				m2 = rng.choice(mods)
				ops = [['run', '1'], ['edit', m1, str(4 * (variants[m1] // 4) + (variants[m1] + 1 + rng.randrange(3)) % 4)], ['run', '1'],
					['edit', m2, str(rng.randrange(N_VARIANTS))], ['run', rng.choice(['0', '1'])]]
				histories.append((shape, variants, ops))
		n_after_targeted = len(histories)
		# flow-through histories, always run: every module takes its variable from its LAST import (var_mode 2) and a local from
		# its FIRST (loc_mode 1), so a type declared in a leaf reaches the top; then the declared type of a module that is
		# imported after an already visited one is changed (diamond2: `e`), and two leaves exchange their exact contents (swap)
		flow = lambda graph, t0: {m: 20 + (t0 + i) % 4 for i, m in enumerate(graph)}
		for shape, edits in (('diamond2', [('e', None)]), ('swap', [('lx', 'ly')]), (rng.choice(['chain4', 'vee', 'fan3', 'prefix4']), [(None, None)])):
			graph = graph_shapes()[shape]
			variants = flow(graph, rng.randrange(4))
			ops = [['run', '1']]
			for x, y in edits:
				if x is None:
					x = [m for m in graph if not graph[m]][-1]
				if y is None:
					ops.append(['edit', x, str(4 * (variants[x] // 4) + (variants[x] + 1 + rng.randrange(3)) % 4)])
				else:
					if variants[x] % 4 == variants[y] % 4:
						variants[y] = 4 * (variants[y] // 4) + (variants[y] + 1) % 4
					ops += [['edit', x, str(variants[y])], ['edit', y, str(variants[x])]]
			ops.append(['run', '1'])
			histories.append((shape, variants, ops))
		# a whitespace-only edit that changes the meaning (a method moves into a nested class), and an in-place edit of the
		# grammar file (True / False exchanged) between two runs over the same cache directory
		shape = rng.choice(['chain2', 'chain3', 'vee'])
		graph = graph_shapes()[shape]
		variants = {m: 20 + (1 + i) % 3 + 1 for i, m in enumerate(graph)}		# str / float / bool: visible against the inherited int
		leaf = [m for m in graph if not graph[m]][-1]
		histories.append((shape, variants, [['run', '1'], ['edit', leaf, str(variants[leaf] + 24)], ['run', '1'], ['edit', leaf, str(variants[leaf])], ['run', '0']]))
		histories.append(('chain2', {'a': 23, 'b': 23}, [['grammar'], ['run', '1'], ['gedit'], ['run', '1'], ['run', '0']]))
		histories.append(('chain2', {'a': 23, 'b': 23}, [['grammar'], ['run', '1'], ['gswitch'], ['run', '1']]))
		# recurring mtimes (a restored backup, `cp -p`, an extracted archive): a module returns to an mtime it had two generations ago
		# with new content, a run (= a store of the newer generation) in between; and two modules exchange / share their mtimes
		shape = rng.choice(['chain2', 'chain3', 'vee'])
		graph = graph_shapes()[shape]
		variants = {m: 20 + (1 + i) % 3 + 1 for i, m in enumerate(graph)}
		leaf = [m for m in graph if not graph[m]][-1]
		top = list(graph)[0]
		vs = [str(20 + (variants[leaf] + k) % 4) for k in (1, 2)]
		histories.append((shape, variants, [['run', '1'], ['edit', leaf, vs[0]], ['run', rng.choice(['0', '1'])], ['editat', leaf, vs[1], 'own:0'], ['run', '1']]))
		histories.append((shape, variants, [['run', '1'], ['editat', top, str(20 + (variants[top] + 1) % 4), f'mod:{leaf}'], ['run', '1'], ['editat', leaf, vs[0], f'mod:{top}'], ['run', '0']]))
		# forward references to generic classes declared further down (FWD, variant + 48): the file the cold run stores must restore
		# in the warm runs; and a module whose transpile FAILS on a node spanning several lines (BROKEN, variant + 96): the printed
		# error report of the warm run (trees and symbols from the cache) must be the cold run's, then the module is repaired
		shape = rng.choice(['chain2', 'chain3', 'vee', 'fan3'])
		graph = graph_shapes()[shape]
		mods = list(graph)
		variants = {m: 20 + (1 + i) % 4 + N_VARIANTS * (1 if i != 0 or rng.random() < 0.5 else 0) for i, m in enumerate(graph)}
		histories.append((shape, variants, [['run', '1'], ['run', '1'], ['edit', mods[0], str((variants[mods[0]] + 1) % 4 + 20 + N_VARIANTS)], ['run', '0']]))
		shape = rng.choice(['chain2', 'chain3', 'vee'])
		graph = graph_shapes()[shape]
		mods = list(graph)
		variants = {m: 20 + (2 + i) % 4 for i, m in enumerate(graph)}
		bad = rng.choice([m for m in mods if graph[m]])
		variants[bad] += 2 * N_VARIANTS
		histories.append((shape, variants, [['run', '1'], ['run', '1'], ['run', '0'], ['edit', bad, str(variants[bad] - 2 * N_VARIANTS)], ['run', '1']]))
		# the corpus and the directed histories (everything after the targeted block) run on EVERY seed, exempt from the run budget;
		# the budget only ends the targeted and the random histories early
		n_corpus = sum(1 for rec in load_corpus() if rec.get('search') == 'warm-cold')
		histories = histories[:n_corpus] + histories[n_after_targeted:] + histories[n_corpus:n_after_targeted]
		n_always = n_corpus + (len(histories) - n_after_targeted)
	else:
		n_always = len(histories)
	n_random = ctx.scale(5, 80) if only is None else 0
	hist: dict[str, int] = {}
	seen: set[str] = set()
	budget_runs = -(-ctx.scale(44, 400) // part[1])		# runs of the targeted and random histories (the corpus and the directed ones are not counted)
	runs = 0
	dl = new_deadline('search warm-cold', ctx.scale(300, 1200))
	for hi in range(len(histories) + n_random):
		if runs >= budget_runs and hi >= n_always:
			break
		if only is None and dl.over(len(histories) + n_random - hi):
			break
		if hi % part[1] != part[0]:
			continue
		rng = random.Random(f'{ctx.prop}:{ctx.seed}:warm-cold:{hi}')		# from here on: the choices of history `hi` alone
		if hi < len(histories):
			shape, variants, fixed_ops = histories[hi]
		else:
			shape = rng.choice(list(graph_shapes()))
			variants = gen_variants(rng, graph_shapes()[shape])
			fixed_ops = None
		ops_done: list[list[str]] = []
		try:
			case = RealCase(ctx, lib, shape, variants, seeded=True, enabled=True)
			snapshots: dict[str, dict[str, str]] = {}
			kept_seen = False
			n_ops = len(fixed_ops) if fixed_ops is not None else ctx.scale(8, 14)
			last_run = False
			for i in range(n_ops):
				if fixed_ops is not None:
					op = fixed_ops[i]
				else:
					op = next_op(rng, case, allow_damage=False, allow_disable=False, last_was_run=last_run)
					if i == 0:
						op = ['run', '1']
					if op[0] == 'edit' and rng.random() < 0.3:
						op = ['edit', op[1], str(int(op[2]) % N_VARIANTS + N_VARIANTS * rng.choice([1, 1, 2, 3]))]		# FWD / BROKEN sources
					if i != 0 and op[0] == 'edit' and rng.random() < 0.2:
						# the edit takes an mtime that was in use before: an earlier one of the module itself, or another module's
						m = op[1]
						spec = f'own:{rng.randrange(len(case.ticks[m]))}' if rng.random() < 0.6 else f'mod:{rng.choice(list(case.graph))}'
						op = ['editat', m, op[2], spec]
				ops_done.append(op)
				last_run = op[0] == 'run'
				if op[0] != 'run':
					case.apply(op)
					continue
				force = op[1] == '1'
				pre = case.proj.clone(ctx.tmpdir('tranp-c05-pre-'))
				full_cold = rng.random() < 0.08
				cold = cold_outcome(ctx, lib, pre, force, True, seeded=not full_cold)
				_, r = case.apply(op)
				assert r is not None
				warm = outcome(case.proj, r)
				runs += 2 if hi >= n_always else 0
				res.cases += 1
				seen.add(json.dumps([shape, variants, ops_done], sort_keys=True))
				hist[f'{shape}:run{op[1]}'] = hist.get(f'{shape}:run{op[1]}', 0) + 1
				current = {m: module_source(m, case.graph[m], case.variants[m]) for m in case.graph}
				for rel in case.proj.cache_files():
					if '-symbols-' in rel and rel not in snapshots:
						snapshots[rel] = current
				kept = kept_generations(case.proj, r.events) if warm[0] == 'ok' and not kept_seen else []
				if kept:
					# reported once per history; the history goes on (a later run may serve the file that should be gone)
					kept_seen = True
					hist['finding:old-generation-kept'] = hist.get('finding:old-generation-kept', 0) + 1
					res.findings.append(Finding(key=f'old-generation-kept:{layer_of(kept[0][0])}', what=f'the run stored {kept[0][0]} and left the older generation(s) {kept[0][1]} of the same cache entry on disk '
						'(a store evicts the older files of its entry: at most one generation per module and kind)', replay={'search': 'warm-cold', 'shape': shape, 'variants': variants, 'ops': list(ops_done)}))
				if CUT in (warm[0], cold[0]):
					# a run that does not end: both alike = outside this property (counted); one of them = the outputs differ
					side = 'both' if warm[0] == cold[0] else ('warm' if warm[0] == CUT else 'cold')
					hist[f'run-cut:{side}'] = hist.get(f'run-cut:{side}', 0) + 1
					if side != 'both':
						res.findings.append(Finding(key=f'run-does-not-end:{side}', what=f'the {side} run does not end within the per-run budget ({tproj.RUN_CPU_S:.0f} s CPU), the other one ends with {cold[0] if side == "warm" else warm[0]}',
							replay={'search': 'warm-cold', 'shape': shape, 'variants': variants, 'ops': ops_done}))
					shutil.rmtree(pre.root, ignore_errors=True)
					break
				if warm != cold:
					confirm = cold_outcome(ctx, lib, pre, force, True, seeded=False)
					if confirm != cold:
						# the memoised library files are themselves cache files an earlier run left behind: they change the output
						diff = diff_modules(cold[1], confirm[1])
						detail = outcome_diff(cold, confirm)
						res.findings.append(Finding(key='library-cache-changes-output', what=f'the run over a cache directory holding only the files of an earlier empty-cache Modules.libralies() differs from the run over an empty cache directory in {diff or "status"}: {detail}',
							replay={'search': 'warm-cold', 'shape': shape, 'variants': variants, 'ops': ops_done}))
						hist['finding:library-cache-changes-output'] = hist.get('finding:library-cache-changes-output', 0) + 1
						shutil.rmtree(pre.root, ignore_errors=True)
						break
					key, why = diagnose_warm_cold(ctx, lib, case, pre, force, cold, snapshots, {p for k, p in r.events if k == 'r'})
					diff = diff_modules(warm[1], cold[1])
					detail = outcome_diff(warm, cold)
					res.findings.append(Finding(key=key, what=f'warm result differs from cold result in {diff or "status / printed error report"}: {detail}; {why}',
						replay={'search': 'warm-cold', 'shape': shape, 'variants': variants, 'ops': ops_done}))
					hist[f'finding:{key}'] = hist.get(f'finding:{key}', 0) + 1
					shutil.rmtree(pre.root, ignore_errors=True)
					break
				shutil.rmtree(pre.root, ignore_errors=True)
			if len(res.samples) < 2:
				res.samples.append({'shape': shape, 'variants': variants, 'ops': ops_done})
			shutil.rmtree(case.proj.root, ignore_errors=True)
		except common.InfraError:
			raise
		except Exception as e:  # noqa: BLE001 - rule 14: an exception of the real code inside the oracle is an outcome
			crashed('warm-cold-search', e, {'search': 'warm-cold', 'shape': shape, 'variants': variants, 'ops': ops_done})
			runs += 2
	res.distinct = len(seen)
	res.histogram = hist
	res.note = 'cold = clone of the project state with an empty cache directory (library files re-created by an empty-cache Modules.libralies() are memoised; 8% of the comparisons and every finding use a truly empty directory)'
	return res


def kept_generations(proj: tproj.Project, events: list[tuple[str, str]]) -> list[tuple[str, list[str]]]:
	"""Per cache file a run WROTE: the other files of the same (module, kind) — same name up to the digest — that are still on disk
	after the run. A store removes the older generations first (cache.py `find_oldest`, persistent.py `store`), so there are none."""
	listing = proj.cache_files()
	out: list[tuple[str, list[str]]] = []
	for p in sorted({p for k, p in events if k == 'w'}):
		stem, dig, ext = split_name(p)
		if not dig or p not in listing:
			continue
		others = [q for q in listing if q != p and split_name(q)[0] == stem and split_name(q)[2] == ext and split_name(q)[1]]
		if others:
			out.append((p, others))
	return out


def layer_of(rel: str) -> str:
	return 'parser' if rel.endswith('.bin') else ('symbols' if '-symbols-' in rel else 'tree')


def search_truncation(ctx: Ctx, only: dict[str, Any] | None = None) -> SearchResult:
	"""`only` = the `input` of a recorded finding: re-checks exactly that truncation."""
	rng = ctx.sub_rng('truncation')
	lib = lib_info(ctx)
	res = SearchResult('a run over a truncated cache file fails or produces the cold output; every proper prefix of a cache file is rejected by the real loader')
	hist: dict[str, int] = {}
	seen: set[str] = set()

	# (1) loader level, every offset of small files: EntryStored.load / json.loads (SymbolDBPersistor._restore) / LarkStored.load
	from rogw.tranp.implements.syntax.lark.parser import EntryStored, LarkStored
	shapes = ['chain3', 'diamond'] if not ctx.thorough else ['chain3', 'diamond', 'siblings2', *rng.sample([x for x in graph_shapes() if x not in ('chain3', 'diamond', 'siblings2')], 2)]
	if only is not None:
		shapes = [only['shape']] if only.get('search') == 'truncation-loader' else []
	dl = new_deadline('search truncation', ctx.scale(200, 900))

	def loader_level(shape: str) -> None:
		case = RealCase(ctx, lib, shape, only['variants'] if only else gen_variants(rng, graph_shapes()[shape]), seeded=True)
		case.apply(['run', '1'])
		for rel in case.proj.cache_files():
			if only is not None and layer_of(rel) != layer_of(only['file']):
				continue
			if only is None and dl.over():
				continue
			with open(os.path.join(case.proj.cache_dir, rel), 'rb') as f:
				data = f.read()
			layer = layer_of(rel)
			limit = ctx.scale(1024, 4096)
			if layer == 'parser':
				offsets = sorted({0, 1, len(data) - 1, *(rng.randrange(len(data)) for _ in range(ctx.scale(6, 60)))})
			elif len(data) <= limit:
				offsets = list(range(len(data)))
			else:
				offsets = sorted({0, 1, len(data) - 1, len(data) - 2, *(rng.randrange(len(data)) for _ in range(ctx.scale(150, 3000)))})
			for k in offsets:
				prefix = data[:k]
				accepted = ''
				try:
					with tproj.run_budget(20.0):
						if layer == 'tree':
							EntryStored.load(io.BytesIO(prefix))
						elif layer == 'symbols':
							json.loads(prefix.decode('utf-8'))
						else:
							LarkStored.load(io.BytesIO(prefix))
					accepted = 'are accepted by the loader'
				except tproj.RunBudgetExceeded:
					accepted = 'make the loader run without end (20 s CPU budget)'
				except Exception:  # noqa: BLE001 - rejection is the expected outcome
					pass
				res.cases += 1
				if accepted:
					res.findings.append(Finding(key=f'prefix-decodes:{layer}', what=f'the first {k} of {len(data)} bytes of {rel} {accepted}',
						replay={'search': 'truncation-loader', 'shape': shape, 'variants': case.variants, 'file': rel, 'k': k}))
					break
			hist[f'loader:{layer}'] = hist.get(f'loader:{layer}', 0) + len(offsets)
			seen.add(f'{shape}:{rel}')
		shutil.rmtree(case.proj.root, ignore_errors=True)

	for shape in shapes:
		try:
			loader_level(shape)
		except common.InfraError:
			raise
		except Exception as e:  # noqa: BLE001 - rule 14
			crashed('truncation-search', e, {'search': 'crash', 'oracle': 'truncation-loader', 'seed': ctx.seed, 'shape': shape})

	# (2) whole runs over a damaged cache
	n_states = ctx.scale(2, 4)
	per_state = ctx.scale(10, 40)
	if only is not None:
		n_states = 1 if only.get('search') == 'truncation-run' else 0

	def run_level(si: int) -> None:
		shape = only['shape'] if only else rng.choice(['chain2', 'chain3'] if not ctx.thorough else list(graph_shapes()))
		case = RealCase(ctx, lib, shape, only['start_variants'] if only else gen_variants(rng, graph_shapes()[shape]), seeded=True)
		start_variants = dict(case.variants)
		prep: list[list[str]] = [['run', '1']]
		if only is not None:
			prep = only['prep']
		elif rng.random() < 0.5:
			prep += [['edit', rng.choice(list(case.graph)), str(rng.randrange(N_VARIANTS))], ['run', '0']]
		for op in prep:
			case.apply(op)
		cold = cold_outcome(ctx, lib, case.proj, True, True, seeded=True)
		und = case.proj.clone(ctx.tmpdir('tranp-c05-und-'))
		undamaged = outcome(und, und.run(force=True, cache_enabled=True))		# differs from `cold` only through stale entries (warm-cold search)
		shutil.rmtree(und.root, ignore_errors=True)
		files = case.proj.cache_files()
		sizes = {rel: os.path.getsize(os.path.join(case.proj.cache_dir, rel)) for rel in files}
		targets: list[tuple[str, int]] = []
		if ctx.thorough and si == 0:
			for rel in files:
				if rel.startswith(f'{PKG}/') and sizes[rel] <= 4096:
					targets.extend((rel, k) for k in range(0, sizes[rel], 23))
		for _ in range(per_state if only is None else 0):
			own = [f for f in files if f.startswith(f'{PKG}/')]
			rel = rng.choice(files if rng.random() < 0.4 or not own else own)
			targets.append((rel, rng.choice([0, 1, sizes[rel] - 1, sizes[rel] - 2, rng.randrange(max(sizes[rel], 1))])))
		if only is not None:
			# digests are reproducible (virtual mtimes, same contents): the recorded file name names the same file
			targets = [(only['file'], int(only['k']))] if only['file'] in sizes else []
		for ti, (rel, k) in enumerate(targets):
			if only is None and dl.over(len(targets) - ti):
				break
			k = max(0, min(k, sizes[rel] - 1))
			p = case.proj.clone(ctx.tmpdir('tranp-c05-trunc-'))
			path = os.path.join(p.cache_dir, rel)
			with open(path, 'rb') as f:
				data = f.read()
			with open(path, 'wb') as f:
				f.write(data[:k])
			got = outcome(p, p.run(force=True, cache_enabled=True))
			shutil.rmtree(p.root, ignore_errors=True)
			res.cases += 1
			layer = layer_of(rel)
			tag = 'hangs' if got[0] == CUT else ('fails' if got[0] != 'ok' else 'same-output')
			hist[f'run:{layer}:{tag}'] = hist.get(f'run:{layer}:{tag}', 0) + 1
			seen.add(f'{shape}:{rel}:{k}')
			replay = {'search': 'truncation-run', 'shape': shape, 'start_variants': start_variants, 'prep': prep, 'file': rel, 'k': k}
			if got[0] == CUT and CUT not in (cold[0], undamaged[0]):
				res.findings.append(Finding(key=f'truncated-file-hangs:{layer}', what=f'run over {rel} cut at byte {k}/{sizes[rel]} neither fails nor rebuilds: it does not end within the per-run budget ({tproj.RUN_CPU_S:.0f} s CPU)', replay=replay))
				break
			if got[0] == 'ok' and got != cold and got != undamaged:
				res.findings.append(Finding(key=f'truncated-file-accepted:{layer}', what=f'run over {rel} cut at byte {k}/{sizes[rel]} succeeds with output different from the cold run and from the run over the undamaged cache', replay=replay))
				break
		if len(res.samples) < 2:
			res.samples.append({'shape': shape, 'files': len(files), 'truncations': len(targets)})
		shutil.rmtree(case.proj.root, ignore_errors=True)

	for si in range(n_states):
		try:
			run_level(si)
		except common.InfraError:
			raise
		except Exception as e:  # noqa: BLE001 - rule 14
			crashed('truncation-search', e, {'search': 'crash', 'oracle': 'truncation-run', 'seed': ctx.seed, 'state': si})
	res.distinct = len(seen)
	res.histogram = hist
	return res


def search_disabled(ctx: Ctx, only: list[tuple[str, dict[str, int], list[list[str]]]] | None = None) -> SearchResult:
	rng = ctx.sub_rng('disabled')
	lib = lib_info(ctx)
	res = SearchResult('with CacheSetting.enabled = False no file below the cache directory is opened, created or unlinked, and the output equals the cold output')
	hist: dict[str, int] = {}
	seen: set[str] = set()
	plans: list[tuple[str, dict[str, int], list[list[str]]]] = list(only or [])
	for rec in load_corpus():
		if rec.get('search') == 'disabled' and only is None:
			plans.append((rec['shape'], rec['variants'], rec['ops']))
	for _ in range(ctx.scale(2, 24) if only is None else 0):
		shape = rng.choice(list(graph_shapes()))
		ops: list[list[str]] = []
		if rng.random() < 0.7:
			ops.append(['run', '1'])		# an enabled run leaves a populated cache directory behind
		ops.append(['enable', '0'])
		for _ in range(rng.randint(1, 3)):
			if rng.random() < 0.5:
				ops.append(['edit', rng.choice(list(graph_shapes()[shape])), str(rng.randrange(N_VARIANTS))])
			ops.append(['run', rng.choice(['0', '1'])])
		plans.append((shape, gen_variants(rng, graph_shapes()[shape]), ops))
	dl = new_deadline('search disabled', ctx.scale(150, 600))

	def one(shape: str, variants: dict[str, int], ops: list[list[str]]) -> None:
		case = RealCase(ctx, lib, shape, variants, seeded=False, enabled=True)
		done: list[list[str]] = []
		for op in ops:
			done.append(op)
			if op[0] != 'run' or case.enabled:
				case.apply(op)
				continue
			pre = case.proj.clone(ctx.tmpdir('tranp-c05-pre-'))
			_, r = case.apply(op)
			assert r is not None
			res.cases += 1
			seen.add(json.dumps([shape, variants, done], sort_keys=True))
			touched = [(k, p) for k, p in r.events if k in ('r', 'w', 'd')]
			hist[f'{shape}:{"touch" if touched else "clean"}'] = hist.get(f'{shape}:{"touch" if touched else "clean"}', 0) + 1
			if touched:
				only_store = all(k in ('w', 'd') and '-symbols-' in p for k, p in touched)
				key = 'store-when-disabled' if only_store else 'cache-access-when-disabled:' + ','.join(sorted({f'{k}:{layer_of(p)}' for k, p in touched}))
				crash = f'; the run fails with {r.message[:120]}' if not r.ok else ''
				res.findings.append(Finding(key=key, what=f'caching disabled, yet {len(touched)} cache file access(es), e.g. {touched[0]}{crash}',
					replay={'search': 'disabled', 'shape': shape, 'variants': variants, 'ops': done}))
			else:
				coldp = pre.clone(ctx.tmpdir('tranp-c05-cold-'))
				coldp.clear_cache()
				cr = coldp.run(force=op[1] == '1', cache_enabled=False)
				cold = outcome(coldp, cr)
				shutil.rmtree(coldp.root, ignore_errors=True)
				ctouched = [(k, p) for k, p in cr.events if k in ('r', 'w', 'd')]
				if ctouched:
					only_store = all(k in ('w', 'd') and '-symbols-' in p for k, p in ctouched)
					key = 'store-when-disabled' if only_store else 'cache-access-when-disabled:' + ','.join(sorted({f'{k}:{layer_of(p)}' for k, p in ctouched}))
					crash = f'; the run fails with {cr.message[:120]}' if not cr.ok else ''
					res.findings.append(Finding(key=key, what=f'caching disabled and empty cache directory, yet {len(ctouched)} cache file access(es), e.g. {ctouched[0]}{crash}',
						replay={'search': 'disabled', 'shape': shape, 'variants': variants, 'ops': [*done[:-1], ['clear'], done[-1]]}))
				elif outcome(case.proj, r) != cold:
					res.findings.append(Finding(key='disabled-output-differs', what='output with caching disabled differs between a populated and an empty cache directory',
						replay={'search': 'disabled', 'shape': shape, 'variants': variants, 'ops': done}))
			shutil.rmtree(pre.root, ignore_errors=True)
			if res.findings and res.findings[-1].replay.get('shape') == shape and res.findings[-1].replay.get('variants') == variants:
				break
		shutil.rmtree(case.proj.root, ignore_errors=True)

	for pi, (shape, variants, ops) in enumerate(plans):
		if only is None and dl.over(len(plans) - pi):
			break
		try:
			one(shape, variants, ops)
		except common.InfraError:
			raise
		except Exception as e:  # noqa: BLE001 - rule 14
			crashed('disabled-search', e, {'search': 'disabled', 'shape': shape, 'variants': variants, 'ops': ops})
	res.distinct = len(seen)
	res.histogram = hist
	return res


# ---------------------------------------------------------------------------------------------


STATEMENTS: dict[str, str] = {
	'tree_key': 'for every semantics with injective digests, every history (edit with fresh mtime / grammar change with fresh mtime / ParserSetting change (grammar path, start, algorithm; mtimes untouched) / run / run -f / clear / delete / trunc / enable) from an empty project and cache, and every run: each tree the run obtains (cached or not) is the fresh parse of the module\'s current source with the parser of the current setting (tree identity = grammar path, start, algorithm, grammar mtime, source mtime: 9dfb5b4)',
	'tree_key_warm_cold': 'hence the tree of a module in the warm run equals its tree in the run over the cleared cache directory',
	'evict_keeps_written': 'after a cache miss the file named by the current identity exists and holds the fresh value, whatever the eviction glob matched',
	'evict_safe': 'both coherence invariants (tree/parser cache, symbol cache) survive the deletion of an arbitrary list of cache files: the over-matching glob is benign',
	'truncate': 'no proper prefix of the compact JSON encoding of an object/array is bracket-balanced outside string literals (JSON printer model)',
	'truncate_decoder': 'decoder level, no "rejects unbalanced text" assumption: with the model of json.dumps (compact) / json.loads of Model/JsonCodec.lean (round trip proved there, tied to CPython by the C15 streams) a written object or array decodes to exactly the value written and NO proper prefix of the file decodes — Hyp.valid_parse / prefix_invalid / dec_prefix for the two JSON layers as theorems about that decoder',
	'symbols': 'for every semantics, import graph and acyclic history without a grammar change: the symbol table of every module in the warm run = its table in the run over the cleared cache directory (Module.identity over the import closure, c3eaa55); "restore is faithful" is the explicit hypothesis Hyp.dec_enc = C14.rt composed with the JSON round trip',
	'collect_fuel_free': '__collect_hashes terminates on EVERY import graph (cycles included) and the fuel of the model never decides: from trees.length + 2 units on (what identityCore passes) the traversal result is independent of the fuel, for every semantics, source state, tree list, depends_on set and start module — a `none` of the model is the FileNotFoundError of the code',
	'symbols_partial_closure': 'key coverage: an identity is the digest of the (file, hash) pairs of an import-closed set of files; two source states that give a module the same identity give it the same cache-free symbol table (id_covers; collect_closure: __collect_hashes returns such a set)',
	'output_warm_cold': 'for every semantics (every renderer), acyclic history without interrupted write and grammar change: warm and cold run have the same cycle flag and, if clear, the same rendered texts, the same failure status (error), the same loaded modules, trees, identities, symbol tables and recorded output hashes (lockstep simulation)',
	'parser_key': 'along every history the parser a run works with is the one built from the current grammar path, start, algorithm and grammar mtime; file names of different settings differ (a pickle is reused only when all four are unchanged)',
	'parser_truncated': 'a pickle that does not decode (proper prefix) is a load failure: no parser is set, the error is the load error',
	'disabled': 'enabled = False: the access log of a run is empty and the cache directory unchanged, for every semantics and world',
	'tree_key_setting': 'tree_key_setting_statement (tree_key spelled out for histories whose only restriction is KeyOK on edits, i.e. with arbitrary ParserSetting switches) holds — it was refuted before 9dfb5b4 (tree-key-ignores-grammar-path); the refuting history is kept as an example: the second run reads no tree file and its tree carries the mark of the second grammar; real regression corpus/C05/grammar-switch-same-mtime.json',
	'parser_key_covers': 'GENERATED key list (Generated/LarkCache.parserIdentity, every expression understood) = [grammar mtime, grammar path, start, algorithm] and it covers everything the pickle is built from',
	'tree_key_inputs': 'GENERATED key list of the tree files (LarkCache.treeIdentity, every expression understood) = [grammar mtime, grammar path, start, algorithm, source mtime] followed by the md5 of the source bytes exactly when the dictionary has the key `hash` (treeKeyHasHash — which is what makes the MODEL pass the content hash to Sem.treeIdent: the model follows the generated list)',
	'tree_key_covers_bytes': 'the generated tree key covers the source BYTES themselves (not only their mtime proxy) iff the dictionary has the key `hash`; without it the law needs a fresh mtime per edit (real witness of the gap: known finding tree-stale:mtime-recurs-same-generation, corpus/C05/mtime-recurs-same-generation.json)',
	'tree_key_covers': 'the generated tree key covers what a cached tree depends on (the parser\'s inputs and the source); the key before 9dfb5b4, as a literal list, does not (example: exactly grammar path, start, algorithm missing)',
	'tree_name_exact': 'model = code on the key: two runs give a tree file the same name in the model iff they agree on every input of the GENERATED tree key list',
	'parser_name_exact': 'the same for the parser pickle and the GENERATED parser key list',
	'symbol_identity_shape': 'Module.identity / __collect_hashes / depends_on, statement by statement as generated from the source, are the shapes identityCore / collect of the model implement (object id without source file, memo, visited test first, own hash before descending, direct imports without depends_on, sorted path:hash pairs of the other files, own hash last)',
	'symbol_key_covers': 'the components Module.identity appends (generated) are own hash, and path and hash of each other collected file; they cover what a symbol table depends on (the run-level statement from exactly these components is `symbols`)',
	'symbol_key_no_grammar': 'no grammar input is in the symbol key (a fact about the key, recorded; no real witness of different tables for equal bytes is known)',
	'file_hash_exact': 'FileLoader.load hashes exactly the bytes read in binary mode (generated statements); hash() of an unloaded file loads it',
	'gates_shape': 'the persistor\'s _can_store/_can_restore start with setting.enabled and in_storage and test absence/presence of the file; CacheProvider.get picks CachedDummy when disabled (generated)',
	'file_name_shape': 'file names and eviction patterns of Cached and of the persistor, eviction before write, restore = json.loads of the whole file (generated) as cachePath / evictPattern / symPath of the model',
}


def translate(ctx: Ctx) -> tuple[bool, str]:
	"""What the code hashes into the three cache keys, as Lean tables: the identity dictionaries of parser.py
	(translate/gen_lark_cache.py, shared with C15) and Module.identity / FileLoader.load / the persistor's gates and file names /
	Cached (translate/gen_cache_keys.py). A shape a translator does not recognise breaks the tie."""
	with ctx.timed('translate'):
		try:
			from translate import gen_cache_keys, gen_lark_cache
			ctx.generated_tables.extend(gen_lark_cache.generate())
			ctx.generated_tables.extend(gen_cache_keys.generate())
			return True, ''
		except Exception as e:  # noqa: BLE001
			msg = f'{type(e).__name__}: {e}'
			ctx.notes.append(f'translator failed: {msg}')
			print(f'[{ctx.prop}] translator failed (the tie is broken): {msg}', file=sys.stderr)
			return False, msg


def run(ctx: Ctx) -> int:
	translate_ok, translate_msg = translate(ctx)
	proof = common.prove(ctx, PROP, leanchecker=ctx.thorough)
	streams: list[Stream] = []
	searches: list[SearchResult] = []
	try:
		lib_info(ctx)
	except common.InfraError:
		raise
	except Exception as e:  # noqa: BLE001 - rule 14: the real loader failing on the shipped libraries is a finding, not a crash
		res = SearchResult('Modules.libralies() with an empty cache directory succeeds')
		res.cases = 1
		res.findings.append(Finding(key=f'library-load-fails:{common.exc_enum(e)}', what=f'loading the shipped libraries with an empty cache fails: {type(e).__name__}: {e}'[:300],
			replay={'search': 'library-load'}))
		searches.append(res)
	if not searches:
		# the real-code parts are independent of one another (own sub_rng, own temporary projects): they run side by side in forked
		# children; what a child collected besides its result (unexpected exceptions, deadline / budget notes) comes back with it
		def job(fn: Any) -> Any:
			def thunk() -> dict[str, Any]:
				return {'out': fn(ctx), 'crashes': list(CRASHES), 'notes': [n for n in (d.note() for d in DEADLINES) if n], 'hits': dict(tproj.BUDGET_HITS)}
			return thunk
		with ctx.timed('real_code'):
			NS, NW = 3, 4		# slices of the stream and of the warm-cold search
			jobs = [*((f'cachefs-{k}', job(lambda c, k=k: cachefs_cases(c, (k, NS)))) for k in range(NS)),
				*((f'warm-cold-{k}', job(lambda c, k=k: search_warm_cold(c, part=(k, NW)))) for k in range(NW)),
				('truncation', job(search_truncation)), ('disabled', job(search_disabled))]
			outs = tproj.fork_map(ctx, jobs, max_parallel=max(2, min(4, os.cpu_count() or 2)))
		forked = not os.environ.get('VERIF_NO_FORK')
		if forked:
			for o in outs:
				CRASHES.extend(o['crashes'])
				ctx.notes.extend(o['notes'])
				for k, v in o['hits'].items():
					tproj.BUDGET_HITS[k] = tproj.BUDGET_HITS.get(k, 0) + v
		else:
			ctx.notes.extend(n for n in (d.note() for d in DEADLINES) if n)
		with ctx.timed('correspondence'):
			streams = [stream_cachefs(ctx, [c for o in outs[:NS] for c in o['out']])]
		searches = [merge_results([o['out'] for o in outs[NS:NS + NW]]), outs[NS + NW]['out'], outs[NS + NW + 1]['out'], search_crashes(ctx)]
		ctx.notes.extend(tproj.budget_notes())
	return common.finish(ctx, proof, streams, searches, translate_ok=translate_ok, translate_msg=translate_msg, statements=STATEMENTS,
		partial={
			'sentence 1 (warm output = cold output)': 'proved on the model: output_warm_cold (rendered text, failure status, loaded modules, trees, tables equal) for acyclic import graphs, histories without interrupted write / grammar change; tree_key, symbols also for histories with trunc ops (per module, when both runs succeed)',
			'sentence 1 (no cache file read or written when disabled)': 'proved (disabled)',
			'sentence 2 (damaged file: rebuild or fail)': 'truncate_decoder (the modelled json.loads accepts the whole file and rejects every proper prefix of a written object/array) and truncate (bracket balance, JSON printer model) discharge Hyp.prefix_invalid / dec_prefix for the JSON layers (tree, symbol files) at the decoder-model level; inside tree_key/symbols/parser_key they stay hypotheses of the abstract semantics (histories contain trunc ops); parser_truncated; for the pickle (parser.cache-*.bin) prefix rejection is search-only (truncation search, every offset sampled)',
			'search_only': 'the real renderer and analyser (parameters of the model); equality of the RESULT on the real code = status, every output file and — for a failing run — the printed error report (quotation and message with the node spans; the stack trace of the tranp process is not part of it), over sources that include forward (quoted) references to generic classes declared later and modules whose transpile fails on a node spanning several lines',
			'regression': 'corpus/C05: the histories that violated the property before a3f0216 / a383b4a / 9dfb5b4 are replayed first and must pass',
			'key coverage': 'per cache, over key lists GENERATED from the source: parser_key_covers (covers), tree_key_covers (covers since 9dfb5b4; run-level: tree_key admits ParserSetting switches, tree_key_setting), symbol_key_covers (covers the import closure; symbol_key_no_grammar: nothing of the grammar — `symbols`/`output_warm_cold` assume no grammar change); tree_name_exact / parser_name_exact tie the model\'s file names to the generated lists in both directions; the symbol identity is tied statement by statement (symbol_identity_shape), its reading as identityCore/collect is by inspection',
		},
		assumptions=[
			'every edit gives the file an mtime it never had before (model op `edit` draws from the clock) — needed by tree_key while the tree identity has no content hash (tree_key_covers_bytes); the real code is searched with recurring mtimes (op `editat`), the recurrence within one generation is the known finding tree-stale:mtime-recurs-same-generation',
			'md5 is injective on the identities of a history and hex digests contain no "-" (Hyp.tree_inj, parser_inj, hash_inj, identL_inj, *_nodash) — hypotheses of the theorems, instantiated by unary codes in the examples',
			'the decoders reject every proper prefix of what the encoders wrote and accept the whole (Hyp.valid_parse, valid_blob, prefix_invalid, dec_prefix): a theorem for the modelled JSON decoder (truncate_decoder), an assumption for pickle.load (searched)',
			'a stored symbol table is restored as it was: Hyp.dec_enc — property C14 (C14.rt: export then import restores every entry) composed with the JSON round trip',
			'module keys contain no "-" and differ from "parser.cache" (KeyOK); the cache directory is disjoint from the source directories',
			'import graphs are acyclic (Acyclic / cyc = false): inside a cycle a module that is still loading contributes only its direct imports to an identity and the table of a module depends on the entry point of the traversal; termination of the identity traversal on cycles is proved (collect_fuel_free: the visited dict bounds it, the fuel never runs out); the fuel of the module LOADER (loadMod, fuelOf) on cyclic graphs is not',
			'library modules are not edited during a history',
		],
		trusted=['lark (parser pickle), json, pickle, glob/fnmatch, os file-system semantics', 'sys.addaudithook reports every open()/unlink below the cache directory'])


def replay(ctx: Ctx, path: str) -> int:
	"""Re-runs the recorded failing input on the real code (finding files), or the whole check (broken proof / stream)."""
	with open(path, encoding='utf-8') as f:
		rec = json.load(f)
	inp = rec.get('input') or {}
	kind = inp.get('search')
	if rec.get('kind') != 'failing-input' or kind not in ('warm-cold', 'disabled', 'truncation-run', 'truncation-loader'):
		# (also the `crash` records: an unexpected exception of the real code while a generated case was built — the whole check again)
		return run(Ctx(PROP, rec.get('tier', 'quick'), int(rec.get('seed', 0))))
	print(f"replay: {kind} {json.dumps(inp)[:600]}")
	if kind == 'warm-cold':
		res = search_warm_cold(ctx, only=[(inp['shape'], inp['variants'], inp['ops'])])
	elif kind == 'disabled':
		res = search_disabled(ctx, only=[(inp['shape'], inp['variants'], inp['ops'])])
	else:
		res = search_truncation(ctx, only=inp)
	for fnd in res.findings:
		print(f'reproduced: [{fnd.key}] {fnd.what}')
	if not res.findings:
		print('not reproduced on the current tree')
	return common.finish(ctx, None, [], [res], statements=STATEMENTS)
